#!/bin/sh
# validates MANIFEST.json and all evidence files against the schemas
exec python3-vt - <<'P'
import json,jsonschema,glob,sys
jsonschema.validate(json.load(open('/verif/MANIFEST.json')), json.load(open('/root/.vp/MANIFEST.schema.json')))
es=json.load(open('/root/.vp/EVIDENCE.schema.json'))
for f in sorted(glob.glob('/verif/evidence/C*.json')):
    jsonschema.validate(json.load(open(f)), es)
print('manifest + %d evidence files valid' % len(glob.glob('/verif/evidence/C*.json')))
P
