package gocql

import "testing"

func try(t *testing.T, name string, f func()) {
	defer func() {
		if r := recover(); r != nil {
			t.Logf("WITNESS %s: panic: %v", name, r)
		} else {
			t.Logf("no panic: %s", name)
		}
	}()
	f()
}

func TestF18Witnesses(t *testing.T) {
	lg := &defaultLogger{}
	for _, s := range []string{
		"org.apache.cassandra.db.marshal.CompositeType()",
		"org.apache.cassandra.db.marshal.CompositeType(",
		"org.apache.cassandra.db.marshal.ReversedType()",
		"org.apache.cassandra.db.marshal.ReversedType",
		"org.apache.cassandra.db.marshal.ListType()",
		"org.apache.cassandra.db.marshal.MapType(org.apache.cassandra.db.marshal.Int32Type)",
		"org.apache.cassandra.db.marshal.SetType",
		"org.apache.cassandra.db.marshal.CompositeType(org.apache.cassandra.db.marshal.ReversedType())",
		"org.apache.cassandra.db.marshal.CompositeType(a:",
		"org.apache.cassandra.db.marshal.CompositeType(a=>",
		"x(",
		"x(a",
		"x(a,",
		"x(a:",
	} {
		s := s
		try(t, "parseType("+s+")", func() { parseType(s, lg) })
	}
	// compileV2Metadata: a clustering column whose position (ComponentIndex) exceeds the number of clustering columns seen
	try(t, "compileMetadata v2 component index", func() {
		ks := &KeyspaceMetadata{Name: "ks"}
		tables := []TableMetadata{{Keyspace: "ks", Name: "t"}}
		cols := []ColumnMetadata{
			{Keyspace: "ks", Table: "t", Name: "a", Kind: ColumnPartitionKey, ComponentIndex: 0, Validator: "int", ClusteringOrder: "none"},
			{Keyspace: "ks", Table: "t", Name: "b", Kind: ColumnPartitionKey, ComponentIndex: 0, Validator: "int", ClusteringOrder: "none"},
			{Keyspace: "ks", Table: "t", Name: "c", Kind: ColumnClusteringKey, ComponentIndex: -1, Validator: "int", ClusteringOrder: "asc"},
		}
		compileMetadata(3, ks, tables, cols, nil, nil, nil, nil, lg)
	})
	try(t, "compileMetadata v1 comparator", func() {
		ks := &KeyspaceMetadata{Name: "ks"}
		tables := []TableMetadata{{Keyspace: "ks", Name: "t", KeyValidator: "org.apache.cassandra.db.marshal.Int32Type", Comparator: "org.apache.cassandra.db.marshal.CompositeType()", DefaultValidator: "x"}}
		compileMetadata(1, ks, tables, nil, nil, nil, nil, nil, lg)
	})
}
