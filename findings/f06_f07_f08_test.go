package gocql

// Demonstrations for the defects F-06 (heartbeat panics on an unexpected frame), F-07 (nil challenger on
// AUTH_CHALLENGE) and F-08 (Iter.Scan panics on a row set shorter than it claims). Copy to the repository
// root to run: before the "fix:" commits each test takes the test process down (panic on a driver goroutine)
// or fails; after them all pass. Not part of any registered check (the checks are static).

import (
	"context"
	"encoding/binary"
	"io"
	"net"
	"sync"
	"testing"
	"time"
)

type fxNode struct {
	mode string // "challenge" | "heartbeat"
	done chan struct{}
	once sync.Once
}

func (n *fxNode) DialHost(ctx context.Context, host *HostInfo) (*DialedHost, error) {
	cli, srv := net.Pipe()
	go func() { defer srv.Close(); n.serve(srv) }()
	return &DialedHost{Conn: cli}, nil
}

func (n *fxNode) serve(c net.Conn) {
	c.SetDeadline(time.Now().Add(20 * time.Second))
	nopt := 0 // OPTIONS seen on this connection: the first is the handshake, later ones are heartbeats
	for {
		var hdr [9]byte
		if _, err := io.ReadFull(c, hdr[:]); err != nil {
			return
		}
		body := make([]byte, binary.BigEndian.Uint32(hdr[5:9]))
		if _, err := io.ReadFull(c, body); err != nil {
			return
		}
		reply := func(op frameOp, body []byte) {
			out := []byte{0x84, 0x00, hdr[2], hdr[3], byte(op), 0, 0, 0, 0}
			binary.BigEndian.PutUint32(out[5:9], uint32(len(body)))
			c.Write(append(out, body...))
		}
		switch frameOp(hdr[4]) {
		case opOptions:
			nopt++
			if n.mode == "heartbeat" && nopt > 1 {
				reply(opReady, nil) // well-formed, but not what OPTIONS is answered with
				n.once.Do(func() { close(n.done) })
				continue
			}
			reply(opSupported, []byte{0, 0})
		case opStartup:
			if n.mode == "challenge" {
				reply(opAuthenticate, append([]byte{0, 47}, "org.apache.cassandra.auth.PasswordAuthenticator"...))
			} else {
				reply(opReady, nil)
			}
		case opAuthResponse:
			reply(opAuthChallenge, []byte{0, 0, 0, 1, 'x'})
			n.once.Do(func() { close(n.done) })
		case opRegister:
			reply(opReady, nil)
		default:
			reply(opError, append([]byte{0, 0, 0x22, 0, 0, 2}, "no"...))
		}
	}
}

type fxNopLogger struct{}

func (fxNopLogger) Print(v ...interface{})                 {}
func (fxNopLogger) Printf(format string, v ...interface{}) {}
func (fxNopLogger) Println(v ...interface{})               {}

func fxCluster(n *fxNode) *ClusterConfig {
	cluster := NewCluster("127.0.0.1")
	cluster.ProtoVersion = 4
	cluster.DisableInitialHostLookup = true
	cluster.ConnectTimeout = 2 * time.Second
	cluster.Timeout = 2 * time.Second
	cluster.HostDialer = n
	cluster.Logger = fxNopLogger{}
	return cluster
}

func TestF07AuthChallengeWithNilChallenger(t *testing.T) {
	n := &fxNode{mode: "challenge", done: make(chan struct{})}
	cluster := fxCluster(n)
	cluster.Authenticator = PasswordAuthenticator{Username: "u", Password: "p"}
	s, err := NewSession(*cluster)
	if s != nil {
		s.Close()
	}
	if err == nil {
		t.Fatal("expected an error for an unanswerable AUTH_CHALLENGE")
	}
}

func TestF06HeartbeatGetsUnexpectedFrame(t *testing.T) {
	n := &fxNode{mode: "heartbeat", done: make(chan struct{})}
	cluster := fxCluster(n)
	cluster.disableControlConn = true
	s, err := NewSession(*cluster)
	if err != nil {
		t.Fatal(err)
	}
	defer s.Close()
	select {
	case <-n.done:
	case <-time.After(10 * time.Second):
		t.Fatal("no heartbeat seen")
	}
	time.Sleep(300 * time.Millisecond) // the heartbeat goroutine handles the READY frame: must not panic
}

func TestF08ScanShortRowSet(t *testing.T) {
	fr := newFramer(nil, 4)
	fr.buf = []byte{0, 0, 0, 4, 0, 0, 0, 1} // one int cell, but the frame claims two rows
	iter := &Iter{framer: fr, numRows: 2, meta: resultMetadata{
		columns: []ColumnInfo{{Name: "c", TypeInfo: NativeType{proto: 4, typ: TypeInt}}}, colCount: 1, actualColCount: 1}}
	var v int
	if !iter.Scan(&v) || v != 1 {
		t.Fatalf("first row: %v %v", v, iter.err)
	}
	func() {
		defer func() {
			if r := recover(); r != nil {
				t.Fatalf("Iter.Scan panicked on a short row set: %v", r)
			}
		}()
		if iter.Scan(&v) {
			t.Fatal("second row should not exist")
		}
	}()
	if iter.err == nil {
		t.Fatal("expected an error for the missing row")
	}
}
