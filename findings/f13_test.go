package gocql

import (
	"net"
	"testing"
)

// F-13: the keyspace names a datacenter the ring does not contain (dc3) and omits one the ring has (dc2):
// the final sanity check compared two counts (2 == 2) instead of the DC sets and panicked with
// "token map different size to token ring".
func TestF13UnknownDatacenter(t *testing.T) {
	a := &HostInfo{hostId: "a", connectAddress: net.ParseIP("10.0.0.1"), dataCenter: "dc1", rack: "r1"}
	b := &HostInfo{hostId: "b", connectAddress: net.ParseIP("10.0.0.2"), dataCenter: "dc2", rack: "r1"}
	ring := &tokenRing{hosts: []*HostInfo{a, b}, tokens: []hostToken{{token: murmur3Token(0), host: a}, {token: murmur3Token(10), host: b}}}
	strat := &networkTopology{dcs: map[string]int{"dc1": 1, "dc3": 1}}
	defer func() {
		if r := recover(); r != nil {
			t.Fatalf("replicaMap panicked: %v", r)
		}
	}()
	m := strat.replicaMap(ring)
	if len(m) != 1 || len(m[0].hosts) != 1 || m[0].hosts[0] != a {
		t.Fatalf("unexpected replica map %v", m)
	}
}
