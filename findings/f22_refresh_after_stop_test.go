package gocql

import (
	"testing"
	"time"
)

// F-22: a refresh requested after the debouncer was stopped is never answered.
func TestF22RefreshNowAfterStop(t *testing.T) {
	d := newRefreshDebouncer(time.Hour, func() error { return nil })
	d.stop()
	select {
	case <-d.refreshNow():
	case <-time.After(500 * time.Millisecond):
		t.Fatal("refreshNow() after stop() returned a channel that is never signalled: the caller (e.g. Session.refreshRing from a control-connection reconnect racing Close) blocks forever")
	}
}
