package gocql

import (
	"sync"
	"testing"
)

// F-19: Conn.UseKeyspace reads Session.cons without Session.mu while Session.SetConsistency writes it under the lock.
func TestF19UseKeyspaceRace(t *testing.T) {
	s := &Session{}
	c := &Conn{session: s}
	var wg sync.WaitGroup
	wg.Add(2)
	go func() {
		defer wg.Done()
		for i := 0; i < 1000; i++ {
			s.SetConsistency(Consistency(i % 5))
		}
	}()
	go func() {
		defer wg.Done()
		for i := 0; i < 1000; i++ {
			func() {
				defer func() { recover() }() // the connection is not dialled: exec panics after the read
				c.UseKeyspace("ks")
			}()
		}
	}()
	wg.Wait()
}
