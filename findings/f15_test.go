package gocql

import (
	"net"
	"testing"
)

// F-15: a node replaced by a new one (new host id) on the same address: refreshRing adds the new host first and
// removes the vanished one afterwards; ring.removeHost deleted the by-address entry unconditionally, so the
// live node could no longer be found by address and its UP/DOWN events were ignored.
func TestF15AddressReuse(t *testing.T) {
	r := &ring{}
	ip := net.ParseIP("10.0.0.1")
	old := &HostInfo{hostId: "id-old", connectAddress: ip, peer: ip, port: 9042}
	repl := &HostInfo{hostId: "id-new", connectAddress: ip, peer: ip, port: 9042}
	r.addHostIfMissing(old)
	r.addHostIfMissing(repl) // refreshRing: new hosts are added first ...
	r.removeHost("id-old")   // ... vanished ones are removed afterwards
	h, ok := r.getHostByIP(ip.String())
	if !ok || h == nil || h.HostID() != "id-new" {
		t.Fatalf("live host id-new is no longer reachable by its address: got %v, %v", h, ok)
	}
}
