package gocql

// Demonstration for F-10: hostConnPool.connect closes a late connection with pool.mu held; when the socket's
// Close returns an error (common for TLS: the close_notify alert cannot be written), Conn.closeWithError reports
// it to its error handler - the same pool - whose HandleError locks pool.mu again: self-deadlock.
// Copy to the repository root to run.

import (
	"context"
	"encoding/binary"
	"errors"
	"io"
	"net"
	"testing"
	"time"
)

type f10Conn struct{ net.Conn }

func (c *f10Conn) Close() error { c.Conn.Close(); return errors.New("tls: failed to send closeNotify alert") }

type f10Dialer struct{}

func (f10Dialer) DialHost(ctx context.Context, host *HostInfo) (*DialedHost, error) {
	client, server := net.Pipe()
	go func() {
		defer server.Close()
		var head [9]byte
		for {
			if _, err := io.ReadFull(server, head[:]); err != nil {
				return
			}
			if n := binary.BigEndian.Uint32(head[5:9]); n > 0 {
				if _, err := io.CopyN(io.Discard, server, int64(n)); err != nil {
					return
				}
			}
			op, body := byte(0x08), []byte{0, 0, 0, 1}
			switch head[4] {
			case 0x05:
				op, body = 0x06, []byte{0, 0}
			case 0x01:
				op, body = 0x02, nil
			}
			resp := append([]byte{head[0] | 0x80, 0, head[2], head[3], op, 0, 0, 0, byte(len(body))}, body...)
			if _, err := server.Write(resp); err != nil {
				return
			}
		}
	}()
	return &DialedHost{Conn: &f10Conn{client}, DisableCoalesce: true}, nil
}

type f10NopLogger struct{}

func (f10NopLogger) Print(v ...interface{})                 {}
func (f10NopLogger) Printf(format string, v ...interface{}) {}
func (f10NopLogger) Println(v ...interface{})               {}

func TestF10ConnectIntoClosedPool(t *testing.T) {
	cluster := NewCluster("127.0.0.1")
	cluster.ProtoVersion = 4
	cluster.NumConns = 1
	cluster.HostDialer = f10Dialer{}
	cluster.disableControlConn = true
	cluster.Logger = f10NopLogger{}
	session, err := NewSession(*cluster)
	if err != nil {
		t.Fatal(err)
	}
	hosts := session.ring.allHosts()
	// a pool that was closed while one of its dials was still in flight
	pool := newHostConnPool(session, hosts[0], 9042, 1, "")
	pool.Close()
	done := make(chan struct{})
	go func() { pool.connect(); close(done) }()
	select {
	case <-done:
	case <-time.After(3 * time.Second):
		t.Fatal("hostConnPool.connect never returned: it holds pool.mu and waits for it again in HandleError")
	}
}
