package gocql

// Witness for the known finding F-14: a query that is NOT marked idempotent is retried, although doc.go
// ("Non-idempotent queries are not eligible for retrying nor speculative execution") and Query.IsIdempotent
// ("Non-idempotent query won't be retried") say it never is. Copy to the repository root to run; the test FAILS
// on the current tree (recorded as a known finding, not repaired: the repository's own unit-tagged retry tests
// expect the retries).

import (
	"context"
	"errors"
	"net"
	"testing"

	"github.com/gocql/gocql/internal/streams"
)

type f14Query struct {
	*Query
	exec func(ctx context.Context, conn *Conn) *Iter
}

func (q *f14Query) execute(ctx context.Context, conn *Conn) *Iter { return q.exec(ctx, conn) }
func (q *f14Query) borrowForExecution()                           {}
func (q *f14Query) releaseAfterExecution()                        {}
func (q *f14Query) withContext(ctx context.Context) ExecutableQuery {
	return &f14Query{Query: q.Query.WithContext(ctx), exec: q.exec}
}

type f14Policy struct{ hosts []*HostInfo }

func (p *f14Policy) AddHost(*HostInfo)                   {}
func (p *f14Policy) RemoveHost(*HostInfo)                {}
func (p *f14Policy) HostUp(*HostInfo)                    {}
func (p *f14Policy) HostDown(*HostInfo)                  {}
func (p *f14Policy) SetPartitioner(string)               {}
func (p *f14Policy) KeyspaceChanged(KeyspaceUpdateEvent) {}
func (p *f14Policy) Init(*Session)                       {}
func (p *f14Policy) IsLocal(*HostInfo) bool              { return true }
func (p *f14Policy) Pick(ExecutableQuery) NextHost {
	i := 0
	return func() SelectedHost {
		if i >= len(p.hosts) {
			return nil
		}
		h := p.hosts[i]
		i++
		return (*selectedHost)(h)
	}
}

func TestF14NonIdempotentQueryIsRetried(t *testing.T) {
	h := &HostInfo{hostId: "h1", connectAddress: net.ParseIP("10.0.0.1"), port: 9042, state: NodeUp}
	h2 := &HostInfo{hostId: "h2", connectAddress: net.ParseIP("10.0.0.2"), port: 9042, state: NodeUp}
	pool := &policyConnPool{hostConnPools: map[string]*hostConnPool{
		"h1": {host: h, size: 1, conns: []*Conn{{host: h, streams: streams.New(protoVersion4)}}},
		"h2": {host: h2, size: 1, conns: []*Conn{{host: h2, streams: streams.New(protoVersion4)}}},
	}}
	ex := &queryExecutor{pool: pool, policy: &f14Policy{hosts: []*HostInfo{h, h2}}}
	executions := 0
	q := &f14Query{
		Query: &Query{
			stmt: "UPDATE counters SET c = c + 1 WHERE k = 0", cons: Quorum,
			rt:   &SimpleRetryPolicy{NumRetries: 3}, spec: &NonSpeculativeExecution{},
			metrics: &queryMetrics{m: make(map[string]*hostMetrics)}, routingInfo: &queryRoutingInfo{},
			idempotent: false,
		},
		exec: func(ctx context.Context, conn *Conn) *Iter {
			executions++
			return &Iter{err: errors.New("write timeout")}
		},
	}
	ex.executeQuery(q)
	if executions != 1 {
		t.Fatalf("a query not marked idempotent reached the server %d times (documented: never retried)", executions)
	}
}
