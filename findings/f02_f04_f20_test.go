package gocql

// Demonstrations for F-02 (negative/huge partition key count), F-04 (negative/huge collection sizes) and
// F-20 (Scanner.Scan indexes cells by destination position). Copy to the repository root to run.

import "testing"

func TestF02F04(t *testing.T) {
	for name, f := range map[string]func() error{
		"F-04 negative list size": func() error {
			var l []int
			return Unmarshal(CollectionType{NativeType: NativeType{proto: 4, typ: TypeList}, Elem: NativeType{proto: 4, typ: TypeInt}}, []byte{0xff, 0xff, 0xff, 0xfe}, &l)
		},
		"F-04 huge list size": func() error {
			var l []int
			return Unmarshal(CollectionType{NativeType: NativeType{proto: 4, typ: TypeList}, Elem: NativeType{proto: 4, typ: TypeInt}}, []byte{0x7f, 0xff, 0xff, 0xff}, &l)
		},
		"F-04 huge map size": func() error {
			var m map[int]int
			return Unmarshal(CollectionType{NativeType: NativeType{proto: 4, typ: TypeMap}, Key: NativeType{proto: 4, typ: TypeInt}, Elem: NativeType{proto: 4, typ: TypeInt}}, []byte{0x7f, 0xff, 0xff, 0xff}, &m)
		},
		"F-02 negative pk count": func() error {
			fr := newFramer(nil, 4)
			// RESULT kind=4 prepared: [short bytes] id, flags=0, colcount=0, pkcount=-1
			fr.buf = []byte{0, 0, 0, 4, 0, 1, 'x', 0, 0, 0, 0, 0, 0, 0, 0, 0xff, 0xff, 0xff, 0xff}
			fr.header = &frameHeader{version: protoVersion(0x84), op: opResult}
			_, err := fr.parseFrame()
			return err
		},
	} {
		func() {
			defer func() {
				if r := recover(); r != nil {
					t.Errorf("%s: panicked: %v", name, r)
				}
			}()
			if err := f(); err == nil {
				t.Errorf("%s: expected an error", name)
			}
		}()
	}
}

func TestF20ScannerTupleThenColumn(t *testing.T) {
	tuple := TupleTypeInfo{NativeType: NativeType{proto: 4, typ: TypeTuple}, Elems: []TypeInfo{NativeType{proto: 4, typ: TypeInt}, NativeType{proto: 4, typ: TypeInt}}}
	intT := NativeType{proto: 4, typ: TypeInt}
	fr := newFramer(nil, 4)
	// row: tuple (1,2) as [bytes], then int 7 as [bytes]
	fr.buf = []byte{
		0, 0, 0, 16, 0, 0, 0, 4, 0, 0, 0, 1, 0, 0, 0, 4, 0, 0, 0, 2,
		0, 0, 0, 4, 0, 0, 0, 7,
	}
	iter := &Iter{framer: fr, numRows: 1, meta: resultMetadata{
		columns:        []ColumnInfo{{Name: "t", TypeInfo: tuple}, {Name: "c", TypeInfo: intT}},
		colCount:       2,
		actualColCount: 3,
	}}
	sc := iter.Scanner()
	if !sc.Next() {
		t.Fatal("no row")
	}
	var a, b, c int
	func() {
		defer func() {
			if r := recover(); r != nil {
				t.Fatalf("Scanner.Scan panicked: %v", r)
			}
		}()
		if err := sc.Scan(&a, &b, &c); err != nil {
			t.Fatal(err)
		}
	}()
	if a != 1 || b != 2 || c != 7 {
		t.Fatalf("got %d %d %d", a, b, c)
	}
}
