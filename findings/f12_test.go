package gocql

import (
	"net"
	"testing"
)

// F-12: NetworkTopologyStrategy with vnodes lists the same node twice: a{0,10} b{20,30} c{40,50}, one DC, one
// rack, RF 2: the replicas of token 0 were [a, a] (the second token of a is met before b), so the token-aware
// policy offers a twice and never offers the real second replica b first.
func TestF12NetworkTopologyDuplicates(t *testing.T) {
	mk := func(id string, ip string) *HostInfo {
		return &HostInfo{hostId: id, connectAddress: net.ParseIP(ip), dataCenter: "dc1", rack: "r1"}
	}
	a, b, c := mk("a", "10.0.0.1"), mk("b", "10.0.0.2"), mk("c", "10.0.0.3")
	ring := &tokenRing{hosts: []*HostInfo{a, b, c}}
	for i, h := range []*HostInfo{a, a, b, b, c, c} {
		ring.tokens = append(ring.tokens, hostToken{token: murmur3Token(i * 10), host: h})
	}
	strat := &networkTopology{dcs: map[string]int{"dc1": 2}}
	for _, ht := range strat.replicaMap(ring) {
		seen := map[*HostInfo]bool{}
		for _, h := range ht.hosts {
			if seen[h] {
				t.Errorf("token %v: replica list contains %s twice: %v", ht.token, h.hostId, ht.hosts)
			}
			seen[h] = true
		}
		if len(ht.hosts) != 2 {
			t.Errorf("token %v: want 2 distinct replicas, got %v", ht.token, ht.hosts)
		}
	}
}
