package gocql

import (
	"bytes"
	"math/big"
	"testing"
	"time"
)

type namedNanos int64

func TestF11aBigIntInBigintColumn(t *testing.T) {
	b, err := Marshal(NativeType{proto: 4, typ: TypeBigInt}, *big.NewInt(5))
	if err != nil {
		return // refusing is also acceptable
	}
	if len(b) != 8 {
		t.Fatalf("bigint encoded in %d bytes: % x", len(b), b)
	}
}

func TestF11bNamedInt64Duration(t *testing.T) {
	b, err := Marshal(NativeType{proto: 5, typ: TypeDuration}, namedNanos(1))
	if err != nil {
		return
	}
	want, _ := Marshal(NativeType{proto: 5, typ: TypeDuration}, int64(1))
	if !bytes.Equal(b, want) {
		t.Fatalf("named int64 duration encoded as % x, int64 as % x", b, want)
	}
}

func TestF11cPreEpochDate(t *testing.T) {
	tm := time.Date(1969, 12, 31, 12, 0, 0, 0, time.UTC)
	b, err := Marshal(NativeType{proto: 4, typ: TypeDate}, tm)
	if err != nil {
		t.Fatal(err)
	}
	var back time.Time
	if err := Unmarshal(NativeType{proto: 4, typ: TypeDate}, b, &back); err != nil {
		t.Fatal(err)
	}
	if back.Format("2006-01-02") != "1969-12-31" {
		t.Fatalf("1969-12-31 12:00 stored as date %s (bytes % x)", back.Format("2006-01-02"), b)
	}
}

func TestF11dDateOutOfRange(t *testing.T) {
	// 2^31 days after the epoch is the last representable day + 1
	ms := (int64(1) << 31) * 86400000
	b, err := Marshal(NativeType{proto: 4, typ: TypeDate}, ms)
	if err == nil {
		t.Fatalf("day 2^31 accepted and encoded as % x (wraps to day -2^31)", b)
	}
}

func TestF21TupleTypedNil(t *testing.T) {
	tup := TupleTypeInfo{NativeType: NativeType{proto: 4, typ: TypeTuple}, Elems: []TypeInfo{NativeType{proto: 4, typ: TypeInt}}}
	var np *int
	b, err := Marshal(tup, []interface{}{np})
	if err != nil {
		t.Fatal(err)
	}
	if !bytes.Equal(b, []byte{0xff, 0xff, 0xff, 0xff}) {
		t.Fatalf("typed nil pointer in []interface{} tuple encoded as % x, want ff ff ff ff (null)", b)
	}
	type S struct{ A *int }
	b2, _ := Marshal(tup, S{})
	if !bytes.Equal(b, b2) {
		t.Fatalf("same null tuple: slice form % x, struct form % x", b, b2)
	}
}
