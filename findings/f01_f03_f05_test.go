package gocql

import "testing"

func noPanic(t *testing.T, name string, f func()) {
	defer func() {
		if r := recover(); r != nil {
			t.Errorf("%s panicked: %v", name, r)
		}
	}()
	f()
}

func TestF01F03F05(t *testing.T) {
	noPanic(t, "F-01 short inet in event", func() {
		fr := newFramer(nil, 4)
		fr.buf = []byte{16, 1, 2, 3}
		func() {
			defer func() {
				if r := recover(); r != nil {
					if _, ok := r.(error); !ok {
						panic(r)
					}
					if _, isRuntime := r.(interface{ RuntimeError() }); isRuntime {
						panic(r)
					}
				}
			}()
			fr.readInetAdressOnly()
		}()
	})
	noPanic(t, "F-03 short tuple field", func() {
		info := TupleTypeInfo{NativeType: NativeType{proto: 4, typ: TypeTuple}, Elems: []TypeInfo{NativeType{proto: 4, typ: TypeInt}}}
		var a int
		err := Unmarshal(info, []byte{0, 0, 0, 9, 1}, []interface{}{&a})
		if err == nil {
			t.Errorf("F-03: expected an error for a field longer than the data")
		}
	})
	noPanic(t, "F-05 short date", func() {
		var s string
		err := Unmarshal(NativeType{proto: 4, typ: TypeDate}, []byte{1, 2}, &s)
		if err == nil {
			t.Errorf("F-05: expected an error for a 2-byte date")
		}
	})
}
