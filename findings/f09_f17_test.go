package gocql

// Demonstrations for F-09 (refreshDebouncer.stop hangs) and F-17 (frames written after a failed write).
// Copy to the repository root to run.

import (
	"context"
	"errors"
	"sync"
	"testing"
	"time"
)

func TestF09StopHangs(t *testing.T) {
	for i := 0; i < 50; i++ {
		block := make(chan struct{})
		entered := make(chan struct{}, 10)
		d := newRefreshDebouncer(time.Hour, func() error { entered <- struct{}{}; <-block; return nil })
		d.refreshNow() // wakes the flusher, it enters refreshFn and blocks
		<-entered
		d.refreshNow() // queue another wake-up (refreshNowCh has capacity 1)
		done := make(chan struct{})
		go func() { d.stop(); close(done) }()
		time.Sleep(5 * time.Millisecond) // stop() is now blocked sending on quit
		close(block)                     // flusher returns to its select with refreshNowCh AND quit ready
		select {
		case <-done:
		case <-time.After(2 * time.Second):
			t.Fatalf("iteration %d: stop() never returned", i)
		}
	}
}

type f17Conn struct {
	mu     sync.Mutex
	writes [][]byte
	calls  int
	gate   chan struct{}
}

func (c *f17Conn) SetWriteDeadline(time.Time) error { return nil }
func (c *f17Conn) Write(p []byte) (int, error) {
	c.mu.Lock()
	c.calls++
	first := c.calls == 1
	c.mu.Unlock()
	if first {
		if c.gate != nil {
			<-c.gate
		}
		c.mu.Lock()
		c.writes = append(c.writes, append([]byte{}, p[:3]...))
		c.mu.Unlock()
		return 3, errors.New("broken pipe")
	}
	c.mu.Lock()
	c.writes = append(c.writes, append([]byte{}, p...))
	c.mu.Unlock()
	return len(p), nil
}

func TestF17DirectWriter(t *testing.T) {
	conn := &f17Conn{gate: make(chan struct{})}
	w := &deadlineContextWriter{w: conn, semaphore: make(chan struct{}, 1), quit: make(chan struct{})}
	var wg sync.WaitGroup
	wg.Add(2)
	go func() { defer wg.Done(); w.writeContext(context.Background(), []byte("AAAAAAAA")) }()
	time.Sleep(20 * time.Millisecond)
	go func() { defer wg.Done(); w.writeContext(context.Background(), []byte("BBBBBBBB")) }()
	time.Sleep(20 * time.Millisecond) // B waits for the semaphore
	close(conn.gate)                 // A's write is cut after 3 bytes
	wg.Wait()
	if len(conn.writes) != 1 {
		t.Fatalf("after a partial write another frame was written: %q", conn.writes)
	}
}

func TestF17Coalescer(t *testing.T) {
	conn := &f17Conn{}
	timerC := make(chan time.Time)
	w := &writeCoalescer{writeCh: make(chan writeRequest), c: conn, quit: make(chan struct{})}
	go w.writeFlusherImpl(timerC, func() {})
	res := make(chan error, 2)
	go func() { _, err := w.writeContext(context.Background(), []byte("AAAAAAAA")); res <- err }()
	time.Sleep(20 * time.Millisecond)
	timerC <- time.Now() // flush 1: cut after 3 bytes
	if err := <-res; err == nil {
		t.Fatal("expected error")
	}
	go func() { _, err := w.writeContext(context.Background(), []byte("BBBBBBBB")); res <- err }()
	time.Sleep(20 * time.Millisecond)
	timerC <- time.Now() // flush 2
	<-res
	conn.mu.Lock()
	defer conn.mu.Unlock()
	if len(conn.writes) != 1 {
		t.Fatalf("after a partial write another frame was written: %q", conn.writes)
	}
}
