#!/bin/bash
# usage: firstcontact.sh <seeds-dir> <ID>...  — runs each seed's own property check on a scratch copy and prints what reported it
dir=$1; shift
for id in "$@"; do for v in $(ls $dir/$id 2>/dev/null); do p=$dir/$id/$v/patch.diff; [ -f $p ] || continue; out=$(/verif/seedrun.sh $p $id 2>&1); nv=$(echo "$out" | grep -c "^VIOLATION"); nu=$(echo "$out" | grep -c "^UNRESOLVED"); echo "$id-$v: violations=$nv unresolved=$nu $(echo "$out" | grep -oE ': C[0-9]+\.R[0-9a-z]+' | sort -u | tr -d ':' | paste -sd,)"; done; done
