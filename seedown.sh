#!/bin/bash
# usage: seedown.sh Cxx...  — runs every ingested seed of the given properties against its own property's check (parallel)
for pr in "$@"; do ls -d /verif/seeded/$pr-* ; done | xargs -P 12 -I{} sh -c 'd={}; id=$(basename $d); pr=${id%%-*}; out=$(/verif/seedrun.sh $d/patch.diff $pr 2>&1); nv=$(echo "$out" | grep -c "^VIOLATION"); nu=$(echo "$out" | grep -c "^UNRESOLVED"); echo "$id: violations=$nv unresolved=$nu $(echo "$out" | grep -oE ": C[0-9]+\.R[0-9a-z]+" | sort -u | tr -d ":" | paste -sd,)"' | sort
