#!/bin/bash
# usage: seedverify.sh <Cxx> <a|b>  — verifies a seeded change (/verif/seeded/<Cxx>-<v>, else /tmp/seeds/<Cxx>/<v>) against the current /repo HEAD:
#  (1) demo passes on the clean tree, (2) patch applies + builds and the demo fails, (3) the existing suite passes with the patch.
# Writes /verif/seeded/<Cxx>-<v>/{patch.diff,demo_test.go,NOTES.md,verify.log}; prints a one-line verdict.
id=$1; v=$2
src=/verif/seeded/$id-$v
[ -f $src/patch.diff ] || src=/tmp/seeds8/$id/$v
[ -f $src/patch.diff ] || src=/tmp/seeds7/$id/$v
[ -f $src/patch.diff ] || src=/tmp/seeds6/$id/$v
[ -f $src/patch.diff ] || src=/tmp/seeds5/$id/$v
[ -f $src/patch.diff ] || src=/tmp/seeds4/$id/$v
[ -f $src/patch.diff ] || src=/tmp/seeds3/$id/$v
[ -f $src/patch.diff ] || src=/tmp/seeds2/$id/$v
[ -f $src/patch.diff ] || src=/tmp/seeds/$id/$v
[ -f $src/patch.diff ] || { echo "$id/$v: no patch"; exit 2; }
export GOFLAGS=-mod=mod GOPROXY=off GOSUMDB=off GOTOOLCHAIN=local
D=$(mktemp -d /tmp/seedverify.XXXXXX)
rsync -a --exclude .git --exclude _seed /repo/ $D/repo/
cd $D/repo
log=$D/verify.log
# where does the demo go?
dest=.
grep -q "^package streams" $src/demo_test.go && dest=internal/streams
grep -q "^package murmur" $src/demo_test.go && dest=internal/murmur
grep -q "^package lz4" $src/demo_test.go && dest=lz4
name=seeded_${id}_${v}_test.go
cp $src/demo_test.go $dest/$name
runpat=$(grep -o "^func Test[A-Za-z0-9_]*" $dest/$name | sed 's/func //' | paste -sd'|')
( cd $dest && go test -vet=off -count=1 -run "^($runpat)\$" . ) > $log.clean 2>&1; clean=$?
if ! patch -p1 -s < $src/patch.diff > $log.patch 2>&1; then echo "$id/$v: PATCH-DOES-NOT-APPLY"; rm -rf $D; exit 3; fi
( cd $dest && go test -vet=off -count=1 -run "^($runpat)\$" . ) > $log.patched 2>&1; patched=$?
rm $dest/$name
( go build ./... && go test -vet=off -count=1 ./... && cd lz4 && go test -vet=off -count=1 ./... ) > $log.suite 2>&1; suite=$?
verdict="clean_demo=$clean patched_demo=$patched suite_with_patch=$suite"
ok=no; [ $clean -eq 0 ] && [ $patched -ne 0 ] && [ $suite -eq 0 ] && ok=yes
out=/verif/seeded/$id-$v
if [ $ok = yes ]; then
  mkdir -p $out; [ "$src" = "$out" ] || cp $src/patch.diff $src/demo_test.go $src/NOTES.md $out/ 2>/dev/null
  { echo "verified against /repo $(git -C /repo rev-parse --short HEAD): $verdict"; echo "demo placed at $dest/$name, run pattern: $runpat"; echo "--- patched demo output (tail)"; tail -15 $log.patched; } > $out/verify.log
fi
echo "$id/$v: $ok ($verdict) demo_dir=$dest"
[ $ok = yes ] || { echo "--- clean:"; tail -5 $log.clean; echo "--- patched:"; tail -5 $log.patched; echo "--- suite:"; tail -5 $log.suite; }
rm -rf $D
