package main

import (
	"go/ast"
	"go/parser"
	"go/token"
	"go/types"
	"strings"
)

func init() {
	register(&PropertySpec{
		ID: "C14",
		Explanation: "Structural necessary conditions of 'prepared once, failures not cached, re-prepared when lost': R1 the LRU is only touched under preparedLRU.mu (including inside execIfMissing's callback, which may use nothing but the cache it is handed); R2 the in-flight entry is added inside that callback under the key that was looked up; " +
			"R3 in the preparing goroutine the done channel is closed by a defer registered first and every path that records an error removes the entry under the same key before it exits; R4 every cache key is built from (host id, connection keyspace, statement) in the same way at lookup, removal and eviction; R5 UNPREPARED evicts (comparing ids) and re-executes; R6 the bound-value count check dominates the construction of EXECUTE/BATCH values; R7 the cache evicts when it exceeds MaxEntries, which comes from MaxPreparedStmts; R8 the shared PREPARE runs on the connection's context, not on the winner's." +
			" R5 also: executeBatch remembers each statement under the prepared id it actually sends (the id returned by prepareStatement for that entry)." +
			" R7 also: the eviction comparison fits its position (Len > Max after the insertion, Len >= Max before it).",
		NotDecided: "'one PREPARE for N concurrent executors' over all interleavings of lookups, completion and eviction; that the id and metadata used by an execution belong to the same cache entry under concurrent eviction.",
		Rules: []*Rule{
			{ID: "C14.R1", Floor: 8, Doc: "lru.Cache methods only under preparedLRU.mu / inside the execIfMissing callback on its parameter", Run: c14r1},
			{ID: "C14.R2", Floor: 2, Doc: "single flight: entry added in the callback under the looked-up key", Run: c14r2},
			{ID: "C14.R3", Floor: 2, Doc: "preparing goroutine: defer close(done) first; every recorded error removes the entry before exit", Run: c14r3},
			{ID: "C14.R4", Floor: 3, Doc: "cache key = (host id, connection keyspace, statement) identically at every site; keyFor uses all three", Run: c14r4},
			{ID: "C14.R5", Floor: 4, Doc: "UNPREPARED: evict by id then re-execute; eviction compares ids", Run: c14r5},
			{ID: "C14.R6", Floor: 2, Doc: "bound-value count check dominates building the values", Run: c14r6},
			{ID: "C14.R7", Floor: 2, Doc: "bounded cache: Add evicts beyond MaxEntries; size from MaxPreparedStmts", Run: c14r7},
			{ID: "C14.R8", Floor: 1, Doc: "the single-flight PREPARE is executed on the connection context", Run: c14r8},
			{ID: "C14.R9", Floor: 1, Doc: "keyFor concatenates host id, keyspace and statement as they are (no transformed component)", Run: c14r9},
			{ID: "C14.R11", Floor: 1, Doc: "nothing waits for an in-flight PREPARE (a bare receive on a channel) while holding a mutex: the failing PREPARE removes its entry under the cache mutex before it closes done (=C17.R20, functions that touch inflightPrepare)", Run: func(p *Program, r *Report) {
				touches := func(fi *FuncInfo) bool {
					hit := false
					ast.Inspect(fi.Decl.Body, func(x ast.Node) bool {
						if e, ok := x.(ast.Expr); ok && !hit {
							if t := fi.Pkg.TypesInfo.TypeOf(e); t != nil && typeNameOf(t) == "inflightPrepare" {
								hit = true
							}
						}
						return !hit
					})
					return hit
				}
				nf := 0
				for _, fi := range p.SortedFuncs() {
					if fi.Decl.Body != nil && touches(fi) {
						nf++
					}
				}
				if nf == 0 {
					r.Unresolved("no function handles an inflightPrepare")
					return
				}
				if blockingUnderLock(p, r, touches) == 0 {
					r.OK(p.Root.Syntax[0], "functions handling an inflightPrepare wait on a channel only in a select", fmtInt(nf)+" functions inspected, no bare receive")
				}
			}},
			{ID: "C14.R12", Floor: 2, Doc: "the caller that inserted the in-flight entry starts the preparing goroutine on every path (no return between the insertion and the go statement)", Run: c14WinnerStarts},
			{ID: "C14.R13", Floor: 1, Doc: "parseFrame hands a server ERROR answer back as a frame, never as its error result: the executors' UNPREPARED case stays reachable", Run: c14ErrorFrameIsFrame},
			{ID: "C14.R10", Floor: 1, Doc: "lru Get moves the entry to the front on every path that reports a hit", Run: c14r10},
		},
	})
}

func c14r1(p *Program, r *Report) {
	checkGuardedFields(p, r, []guardedField{{Type: "preparedLRU", Field: "lru", Mutex: "mu", Exempt: map[string]string{
		"NewSession": "constructor literal of an unpublished session",
	}}})
	// every call of a *lru.Cache method in the root package: receiver is the guarded field or the callback's parameter
	p.forEachFunc(false, func(fi *FuncInfo) {
		info := fi.Pkg.TypesInfo
		ast.Inspect(fi.Decl.Body, func(n ast.Node) bool {
			c, ok := n.(*ast.CallExpr)
			if !ok {
				return true
			}
			name := calleeName(info, c)
			if !strings.HasPrefix(name, "lru.(*Cache).") {
				return true
			}
			rx := recvExpr(c)
			if fieldOf(info, rx) != nil {
				return true // field access: covered by the guarded-field tables (C14.R1 / C17.R7)
			}
			okParam := false
			if id, ok := ast.Unparen(rx).(*ast.Ident); ok {
				if lit, ok := p.enclosingFuncNode(c).(*ast.FuncLit); ok {
					for _, f := range lit.Type.Params.List {
						for _, nm := range f.Names {
							if info.Defs[nm] == info.Uses[id] {
								// the literal must be passed directly to execIfMissing
								if call, ok := p.Parent(lit).(*ast.CallExpr); ok && isCallTo(info, call, "(*preparedLRU).execIfMissing") {
									okParam = true
								}
							}
						}
					}
				}
			}
			r.Check(okParam, c, fi.Name+" calls "+name+" on "+exprStr(rx), "the cache handed to the execIfMissing callback (lock held by execIfMissing)",
				"an lru.Cache method is called on a value that is neither the mutex-guarded field nor the callback parameter of execIfMissing: unsynchronised access to the prepared-statement cache")
			return true
		})
	})
}

// prepGoroutine is the goroutine that performs the shared PREPARE: a function literal started by `go func(){}()`
// or a method started by `go c.method(args)`.
type prepGoroutine struct {
	node     ast.Node       // the literal or the method declaration
	body     *ast.BlockStmt // its body
	g        *Graph
	key      types.Object // the cache key inside the goroutine (captured variable or parameter)
	keyField types.Object // or the field of the job object it is carried in
	method   *FuncInfo    // nil for a literal
}

// prepLookup is where prepareStatement consults the cache and, on a miss, registers the in-flight entry under the
// cache's lock: the callback literal handed to execIfMissing, or a lookup-or-insert method of the cache.
type prepLookup struct {
	call   *ast.CallExpr // the call in prepareStatement
	keyArg ast.Expr      // the key it is given
	body   *ast.BlockStmt
	node   ast.Node     // the literal / the method declaration
	keyIn  types.Object // the key inside body (captured variable or parameter)
	method *FuncInfo    // nil for the callback form
}

func prepareParts(p *Program, r *Report) (fi *FuncInfo, keyObj types.Object, cb *prepLookup, gor *prepGoroutine) {
	fi = r.NeedFunc("(*Conn).prepareStatement")
	if fi == nil {
		return
	}
	info := fi.Pkg.TypesInfo
	var goStmt *ast.GoStmt
	ast.Inspect(fi.Decl.Body, func(n ast.Node) bool {
		switch x := n.(type) {
		case *ast.AssignStmt:
			if len(x.Rhs) == 1 {
				if c, ok := ast.Unparen(x.Rhs[0]).(*ast.CallExpr); ok && isCallTo(info, c, "(*preparedLRU).keyFor") {
					if id, ok := x.Lhs[0].(*ast.Ident); ok {
						keyObj = info.Defs[id]
					}
				}
			}
		case *ast.GoStmt:
			goStmt = x
		}
		return true
	})
	if keyObj != nil {
		for _, x := range callsIn(fi.Decl.Body) {
			if isCallTo(info, x, "(*preparedLRU).execIfMissing") && len(x.Args) == 2 {
				if lit, isLit := ast.Unparen(x.Args[1]).(*ast.FuncLit); isLit {
					cb = &prepLookup{call: x, keyArg: x.Args[0], body: lit.Body, node: lit, keyIn: keyObj}
				}
				continue
			}
			// a method of the cache that looks the key up and adds the entry itself
			fn := calleeOf(info, x)
			if fn == nil || cb != nil {
				continue
			}
			m := p.FuncOf(fn)
			if m == nil || m.Decl.Body == nil || m.Decl.Recv == nil || typeNameOf(info.TypeOf(recvExpr(x))) != "preparedLRU" {
				continue
			}
			hasGet, hasAdd := false, false
			for _, mc := range callsIn(m.Decl.Body) {
				switch calleeName(m.Pkg.TypesInfo, mc) {
				case "lru.(*Cache).Get":
					hasGet = true
				case "lru.(*Cache).Add":
					hasAdd = true
				}
			}
			if !hasGet || !hasAdd {
				continue
			}
			k := 0
			for _, pf := range m.Decl.Type.Params.List {
				for _, pn := range pf.Names {
					if k < len(x.Args) && isIdentOf(info, x.Args[k], keyObj) {
						if kp := m.Pkg.TypesInfo.Defs[pn]; kp != nil && neverAssigned(m.Pkg.TypesInfo, m.Decl.Body, kp) {
							cb = &prepLookup{call: x, keyArg: x.Args[k], body: m.Decl.Body, node: m.Decl, keyIn: kp, method: m}
						}
					}
					k++
				}
			}
		}
	}
	if goStmt != nil && keyObj != nil {
		if l, ok := goStmt.Call.Fun.(*ast.FuncLit); ok {
			gor = &prepGoroutine{node: l, body: l.Body, g: p.GraphOfLit(fi, l), key: keyObj}
		} else if fn := calleeOf(info, goStmt.Call); fn != nil {
			if m := p.FuncOf(fn); m != nil && m.Decl.Body != nil && m.Pkg == p.Root {
				// the key is handed over as an argument
				k := 0
				var keyParam types.Object
				for _, pf := range m.Decl.Type.Params.List {
					for _, pn := range pf.Names {
						if k < len(goStmt.Call.Args) && isIdentOf(info, goStmt.Call.Args[k], keyObj) {
							keyParam = m.Pkg.TypesInfo.Defs[pn]
						}
						k++
					}
				}
				if keyParam == nil {
					// the key travels in a field of a job value built in the argument list
					for _, a := range goStmt.Call.Args {
						lit := ast.Unparen(a)
						if u, isU := lit.(*ast.UnaryExpr); isU && u.Op == token.AND {
							lit = ast.Unparen(u.X)
						}
						if cl, isCl := lit.(*ast.CompositeLit); isCl {
							for _, el := range cl.Elts {
								if kv, isKV := el.(*ast.KeyValueExpr); isKV && isIdentOf(info, kv.Value, keyObj) {
									if kid, isK := kv.Key.(*ast.Ident); isK {
										if f := info.Uses[kid]; f != nil && neverStoredField(p, f) {
											gor = &prepGoroutine{node: m.Decl, body: m.Decl.Body, g: p.GraphOf(m), keyField: f, method: m}
										}
									}
								}
							}
						}
					}
				}
				if gor != nil {
				} else if keyParam != nil && neverAssigned(m.Pkg.TypesInfo, m.Decl.Body, keyParam) {
					gor = &prepGoroutine{node: m.Decl, body: m.Decl.Body, g: p.GraphOf(m), key: keyParam, method: m}
				} else if sel, isSel := ast.Unparen(goStmt.Call.Fun).(*ast.SelectorExpr); isSel && keyParam == nil {
					// the key travels in a field of the job object the method is started on
					if rid, isId := ast.Unparen(sel.X).(*ast.Ident); isId {
						if d := localDef(info, fi, rid); d != nil {
							if u, isU := ast.Unparen(d).(*ast.UnaryExpr); isU {
								d = u.X
							}
							if cl, isCl := ast.Unparen(d).(*ast.CompositeLit); isCl {
								for _, el := range cl.Elts {
									if kv, isKV := el.(*ast.KeyValueExpr); isKV && isIdentOf(info, kv.Value, keyObj) {
										if k, isK := kv.Key.(*ast.Ident); isK {
											if f := info.Uses[k]; f != nil && neverStoredField(p, f) {
												gor = &prepGoroutine{node: m.Decl, body: m.Decl.Body, g: p.GraphOf(m), keyField: f, method: m}
											}
										}
									}
								}
							}
						}
					}
				}
			}
		}
	}
	if keyObj == nil || cb == nil || gor == nil {
		r.Unresolved("prepareStatement: key variable / execIfMissing callback / preparing goroutine not found")
		fi = nil
	}
	return
}

func c14r2(p *Program, r *Report) {
	fi, keyObj, cb, _ := prepareParts(p, r)
	if fi == nil {
		return
	}
	info := fi.Pkg.TypesInfo
	r.Check(isIdentOf(info, cb.keyArg, keyObj) && singleAssigned(info, fi.Decl.Body, keyObj), cb.call, "(*Conn).prepareStatement lookup key", "looked up under the key built by keyFor", "the cache is consulted under a different key than the one built for this statement")
	nadd := 0
	var adds, gets []*ast.CallExpr
	ast.Inspect(cb.body, func(n ast.Node) bool {
		c, ok := n.(*ast.CallExpr)
		if ok && isCallTo(info, c, "lru.(*Cache).Add") {
			nadd++
			adds = append(adds, c)
			r.Check(len(c.Args) == 2 && isIdentOf(info, c.Args[0], cb.keyIn), c, "(*Conn).prepareStatement in-flight entry added under the looked-up key", "same key, same critical section as the miss",
				"the in-flight entry is stored under a different key than the one that was looked up: concurrent executors do not find it and each sends its own PREPARE")
		}
		if ok && isCallTo(info, c, "lru.(*Cache).Get") {
			gets = append(gets, c)
		}
		return true
	})
	if nadd == 0 {
		r.Bad(cb.node, "(*Conn).prepareStatement callback registers the in-flight entry", "the miss callback does not add the in-flight entry inside the critical section: two executors can both miss and both PREPARE")
	}
	if cb.method != nil {
		// the method does the lookup itself: same key, and no release of the lock between the miss and the insertion
		g := p.GraphOf(cb.method)
		locks := g.Lockset()
		okGet := len(gets) > 0
		for _, c := range gets {
			if len(c.Args) != 1 || !isIdentOf(info, c.Args[0], cb.keyIn) {
				okGet = false
			}
		}
		r.Check(okGet, cb.node, "(*Conn).prepareStatement lookup under the key it is given", cb.method.Name+" looks up its key parameter", "the cache method looks up a different key than the one it is given")
		ef := g.Events(func(st Step) []string {
			if st.Kind != StNode {
				return nil
			}
			if _, isDefer := st.Node.(*ast.DeferStmt); isDefer {
				return nil
			}
			var evs []string
			for _, c := range callsIn(st.Node) {
				if kind, ok := isMutexMethod(calleeName(info, c)); ok && (kind == "Unlock" || kind == "RUnlock") {
					evs = append(evs, "unlock")
				}
				if isCallTo(info, c, "lru.(*Cache).Get") {
					evs = append(evs, "get")
				}
			}
			return evs
		})
		for _, c := range adds {
			ls, okL := locks.Before(p.stmtOf(c, cb.method))
			held := false
			for k := range ls {
				if strings.HasSuffix(k, ".mu") {
					held = true
				}
			}
			es, _ := ef.Sol.Before(p.stmtOf(c, cb.method))
			r.Check(okL && held && es.Must["get"] && es.Max["unlock"] == 0, c, "(*Conn).prepareStatement miss and insertion in one critical section", "Get and Add under one acquisition of the cache mutex",
				"the in-flight entry is added after the lock that covered the lookup was released (or without the lookup): two executors can both miss and both PREPARE")
		}
	}
}

func c14r3(p *Program, r *Report) {
	fi, _, _, gor := prepareParts(p, r)
	if fi == nil {
		return
	}
	info := fi.Pkg.TypesInfo
	isKey := func(e ast.Expr) bool {
		if gor.key != nil && isIdentOf(info, e, gor.key) {
			return true
		}
		sel, isSel := ast.Unparen(e).(*ast.SelectorExpr)
		return isSel && gor.keyField != nil && info.Uses[sel.Sel] == gor.keyField
	}
	// first statement: defer close(flight.done)
	okDefer := false
	if len(gor.body.List) > 0 {
		if d, ok := gor.body.List[0].(*ast.DeferStmt); ok && calleeName(info, d.Call) == "builtin.close" && len(d.Call.Args) == 1 && p.isField(info, d.Call.Args[0], "inflightPrepare", "done") {
			okDefer = true
		}
	}
	r.Check(okDefer, gor.node, "(*Conn).prepareStatement goroutine closes done by a first defer", "waiters are released on every exit, including panics", "the preparing goroutine does not start with `defer close(flight.done)`: a path (or a panic) can leave every waiter blocked forever")
	g := gor.g
	type st struct{ pending bool }
	sol := Solve(g, Lattice[st]{
		Join: func(a, b st) st { return st{a.pending || b.pending} },
		Eq:   func(a, b st) bool { return a == b },
		Step: func(s st, step Step) st {
			switch step.Kind {
			case StNode:
				for _, l := range assignedLHS(step.Node) {
					if p.isField(info, l, "inflightPrepare", "err") {
						s.pending = true
					}
				}
				for _, c := range callsIn(step.Node) {
					if isCallTo(info, c, "(*preparedLRU).remove") && len(c.Args) == 1 && isKey(c.Args[0]) {
						s.pending = false
					}
				}
			case StCond:
				// `flight.err != nil` false  /  `flight.err == nil` true: no error was recorded on this path
				if b, ok := ast.Unparen(step.Node.(ast.Expr)).(*ast.BinaryExpr); ok && (b.Op == token.NEQ || b.Op == token.EQL) {
					var x ast.Expr
					if isNil(info, b.Y) {
						x = b.X
					} else if isNil(info, b.X) {
						x = b.Y
					}
					if x != nil && p.isField(info, x, "inflightPrepare", "err") && step.Val == (b.Op == token.EQL) {
						s.pending = false
					}
				}
			}
			return s
		},
	})
	n := 0
	for _, e := range g.Exits() {
		s, ok := sol.AtExit(e)
		if !ok || e.Kind == ExitPanic {
			continue
		}
		n++
		r.Check(!s.pending, e.Node, "(*Conn).prepareStatement goroutine exit "+exitDesc(p, e)+" does not leave a failed entry cached", "every recorded error was followed by stmtsLRU.remove(key)",
			"a path records flight.err and exits without removing the in-flight entry under its key: the failed PREPARE stays cached and every later execution of the statement fails")
	}
	if n == 0 {
		r.Unresolved("preparing goroutine has no exits")
	}
}

func c14r4(p *Program, r *Report) {
	var shapes []string
	n := 0
	p.forEachFunc(false, func(fi *FuncInfo) {
		info := fi.Pkg.TypesInfo
		recv := ""
		if fi.Decl.Recv != nil && len(fi.Decl.Recv.List) > 0 && len(fi.Decl.Recv.List[0].Names) > 0 {
			recv = fi.Decl.Recv.List[0].Names[0].Name
		}
		ast.Inspect(fi.Decl.Body, func(x ast.Node) bool {
			c, ok := x.(*ast.CallExpr)
			if !ok || !isCallTo(info, c, "(*preparedLRU).keyFor") || len(c.Args) != 3 {
				return true
			}
			n++
			// the components as the callers give them (a wrapper that forwards its parameters is looked through)
			hostSites, ksSites := p.effectiveArgs(fi, c, 0, 0), p.effectiveArgs(fi, c, 1, 0)
			normIn := func(fn *FuncInfo, e ast.Expr) string {
				rc := ""
				if fn.Decl.Recv != nil && len(fn.Decl.Recv.List) > 0 && len(fn.Decl.Recv.List[0].Names) > 0 {
					rc = fn.Decl.Recv.List[0].Names[0].Name
				}
				s := exprStr(e)
				if rc != "" && strings.HasPrefix(s, rc+".") {
					s = "RECV." + strings.TrimPrefix(s, rc+".")
				}
				return s
			}
			okHost, okKs := len(hostSites) > 0, len(ksSites) > 0
			for _, hs := range hostSites {
				sinfo := hs.Fn.Pkg.TypesInfo
				ok1 := false
				if hc, ok := ast.Unparen(hs.Expr).(*ast.CallExpr); ok && isCallTo(sinfo, hc, "(*HostInfo).HostID") {
					if rx := recvExpr(hc); rx != nil && p.isField(sinfo, rx, "Conn", "host") {
						ok1 = true
					}
				}
				if !ok1 {
					okHost = false
				}
			}
			for _, ks := range ksSites {
				if !p.isField(ks.Fn.Pkg.TypesInfo, ks.Expr, "Conn", "currentKeyspace") {
					okKs = false
				}
			}
			for i := range hostSites {
				if i < len(ksSites) {
					shapes = append(shapes, normIn(hostSites[i].Fn, hostSites[i].Expr)+"|"+normIn(ksSites[i].Fn, ksSites[i].Expr))
				}
			}
			_ = recv
			r.Check(okHost && okKs, c, fi.Name+" cache key components", "host id of the connection's host + the connection's current keyspace + statement",
				"the prepared-statement key is built from ("+exprStr(c.Args[0])+", "+exprStr(c.Args[1])+", ...) instead of (c.host.HostID(), c.currentKeyspace, stmt): lookup, removal and eviction no longer address the same entry, or entries of different hosts/keyspaces collide")
			return true
		})
	})
	if n < 2 {
		r.Unresolved("fewer than 2 keyFor call sites (%d)", n)
	}
	for _, s := range shapes {
		if s != shapes[0] {
			r.Bad(nil, "cache key shape differs between sites", "keyFor is called with differently derived host/keyspace components: "+strings.Join(shapes, " vs "))
			break
		}
	}
	if kf := r.NeedFunc("(*preparedLRU).keyFor"); kf != nil {
		info := kf.Pkg.TypesInfo
		used := map[types.Object]bool{}
		for _, e := range p.GraphOf(kf).Exits() {
			if rs, ok := e.Node.(*ast.ReturnStmt); ok {
				for _, res := range rs.Results {
					// through the locals the result is built from (parts := [...]string{a, b, c}; Join(parts[:], ""))
					var visit func(e ast.Node, depth int)
					visit = func(e ast.Node, depth int) {
						ast.Inspect(e, func(n ast.Node) bool {
							if id, ok := n.(*ast.Ident); ok {
								used[info.Uses[id]] = true
								if depth < 3 {
									if d := localDef(info, kf, id); d != nil {
										visit(d, depth+1)
									}
								}
							}
							return true
						})
					}
					visit(res, 0)
				}
			}
		}
		all := true
		for i := 0; i < 3; i++ {
			if po := paramObj(info, kf.Decl.Type, i); po == nil || !used[po] {
				all = false
			}
		}
		r.Check(all, kf.Decl, "(*preparedLRU).keyFor uses host id, keyspace and statement", "all three components are part of the key", "keyFor drops one of host id / keyspace / statement from the key: statements of different hosts or keyspaces share an entry")
	}
}

func c14r5(p *Program, r *Report) {
	for _, name := range []string{"(*Conn).executeQuery", "(*Conn).executeBatch"} {
		fi := r.NeedFunc(name)
		if fi == nil {
			continue
		}
		info := fi.Pkg.TypesInfo
		found := false
		ast.Inspect(fi.Decl.Body, func(n ast.Node) bool {
			cc, ok := n.(*ast.CaseClause)
			if !ok || len(cc.List) != 1 || !strings.HasSuffix(exprStr(cc.List[0]), "RequestErrUnprepared") {
				return true
			}
			found = true
			var evictPos, rexecPos token.Pos
			idOK := false
			for _, st := range cc.Body {
				ast.Inspect(st, func(m ast.Node) bool {
					c, ok := m.(*ast.CallExpr)
					if !ok {
						return true
					}
					if isCallTo(info, c, "(*preparedLRU).evictPreparedID") {
						evictPos = c.Pos()
						if len(c.Args) == 2 && strings.HasSuffix(exprStr(c.Args[1]), ".StatementId") {
							idOK = true
						}
					} else if fn := calleeOf(info, c); fn != nil && !fn.Exported() {
						// a helper that evicts by the id it is given
						if h := p.FuncOf(fn); h != nil && h.Pkg == p.Root && h.Decl.Body != nil && h.Name != name {
							for _, hc := range callsIn(h.Decl.Body) {
								if isCallTo(info, hc, "(*preparedLRU).evictPreparedID") && len(hc.Args) == 2 {
									k := 0
									for _, pf := range h.Decl.Type.Params.List {
										for _, pn := range pf.Names {
											if isIdentOf(info, hc.Args[1], info.Defs[pn]) && neverAssigned(info, h.Decl.Body, info.Defs[pn]) && k < len(c.Args) {
												evictPos = c.Pos()
												if strings.HasSuffix(exprStr(c.Args[k]), ".StatementId") {
													idOK = true
												}
											}
											k++
										}
									}
								}
							}
						}
					}
					if isCallTo(info, c, name) && rexecPos == token.NoPos {
						rexecPos = c.Pos()
					}
					return true
				})
			}
			r.Check(evictPos.IsValid() && idOK, cc, name+" UNPREPARED evicts the entry by the server's id", "evictPreparedID(key, x.StatementId)", "an UNPREPARED answer does not evict the cached entry (by the id the server reported): the same unknown id is sent again")
			r.Check(rexecPos.IsValid() && evictPos.IsValid() && evictPos < rexecPos, cc, name+" UNPREPARED re-executes after evicting", "re-executed after the eviction", "the statement is not re-executed after the eviction (or before it): the query fails although a re-prepare would succeed")
			return true
		})
		if !found {
			r.Bad(fi.Decl, name+" handles UNPREPARED", "no case for *RequestErrUnprepared: a lost prepared statement is never re-prepared")
		}
	}
	// executeBatch finds the statement an UNPREPARED answer names through a map keyed by the prepared id it sent: the
	// key stored for an entry must be the id returned by prepareStatement for that entry (info.id), or the field it
	// was copied to before
	if fi := r.NeedFunc("(*Conn).executeBatch"); fi != nil {
		info := fi.Pkg.TypesInfo
		idField := p.Field("preparedStatment", "id")
		g := p.GraphOf(fi)
		nstore := 0
		ast.Inspect(fi.Decl.Body, func(x ast.Node) bool {
			as, ok := x.(*ast.AssignStmt)
			if !ok || len(as.Lhs) != 1 || len(as.Rhs) != 1 {
				return true
			}
			var key ast.Expr
			if ix, ok := ast.Unparen(as.Lhs[0]).(*ast.IndexExpr); ok {
				mt, ok := info.TypeOf(ix.X).Underlying().(*types.Map)
				if !ok || !strings.HasSuffix(exprStr(as.Rhs[0]), ".Stmt") {
					return true
				}
				if b, isB := mt.Key().Underlying().(*types.Basic); !isB || b.Kind() != types.String {
					return true
				}
				key = stripAllConv(info, ix.Index)
			} else if c, isC := ast.Unparen(as.Rhs[0]).(*ast.CallExpr); isC && exprStr(c.Fun) == "append" && len(c.Args) == 2 {
				// a list of (id, statement) pairs instead of a map
				cl, isCL := ast.Unparen(c.Args[1]).(*ast.CompositeLit)
				if !isCL {
					return true
				}
				hasStmt := false
				for _, el := range cl.Elts {
					v := el
					if kv, isKV := el.(*ast.KeyValueExpr); isKV {
						v = kv.Value
					}
					if strings.HasSuffix(exprStr(v), ".Stmt") {
						hasStmt = true
					} else if isByteSlice(info.TypeOf(v)) || strings.HasPrefix(exprStr(v), "string(") {
						key = stripAllConv(info, v)
					}
				}
				if !hasStmt || key == nil {
					return true
				}
			} else {
				return true
			}
			nstore++
			okKey := false
			why := exprStr(key)
			if fv := fieldOf(info, key); fv != nil && fv == idField {
				okKey = true
			} else if fv != nil {
				// another field: it must have received the prepared id before, on every path
				ef := g.Events(func(st Step) []string {
					if st.Kind != StNode {
						return nil
					}
					if a2, ok := st.Node.(*ast.AssignStmt); ok && len(a2.Lhs) == len(a2.Rhs) {
						for i, l := range a2.Lhs {
							if exprStr(ast.Unparen(l)) == exprStr(key) {
								if rf := fieldOf(info, a2.Rhs[i]); rf != nil && rf == idField {
									return []string{"copied"}
								}
								return []string{"overwritten"}
							}
						}
					}
					return nil
				})
				if s, ok := ef.Sol.Before(as); ok && s.Must["copied"] && s.Max["overwritten"] == 0 {
					// the copy happened in this iteration: the statement that copies precedes the store in the same block
					okKey = false
					if i, list := p.stmtIndex(as); i >= 0 {
						for _, prev := range list[:i] {
							if a2, ok := prev.(*ast.AssignStmt); ok && len(a2.Lhs) == 1 && exprStr(ast.Unparen(a2.Lhs[0])) == exprStr(key) {
								if rf := fieldOf(info, a2.Rhs[0]); rf != nil && rf == idField {
									okKey = true
								}
							}
						}
					}
				}
			}
			r.Check(okKey, as, "(*Conn).executeBatch remembers each statement under the prepared id it sends", "stmts[string(info.id)] = entry.Stmt",
				"the statement text is stored under `"+why+"`, which is not (yet) the id returned by prepareStatement for this entry: when the server answers UNPREPARED the lookup misses, nothing is evicted, and the batch is re-sent with the stale id forever")
			return true
		})
		if nstore == 0 {
			r.Unresolved("executeBatch: no map from prepared id to statement text")
		}
	}
	if ev := r.NeedFunc("(*preparedLRU).evictPreparedID"); ev != nil {
		g := p.GraphOf(ev)
		info := g.Info
		facts := g.GuardFacts()
		n := 0
		ast.Inspect(ev.Decl.Body, func(x ast.Node) bool {
			c, ok := x.(*ast.CallExpr)
			if !ok || !isCallTo(info, c, "lru.(*Cache).Remove") {
				return true
			}
			n++
			f, _ := facts.Before(c)
			cmp := false
			for atom, v := range f.m {
				if v && strings.HasPrefix(atom, "bytes.Equal(") {
					cmp = true
				}
			}
			r.Check(cmp, c, "(*preparedLRU).evictPreparedID removes only a matching id", "guarded by bytes.Equal(id, cached id)", "the entry is evicted without comparing the cached id with the id the server rejected: a freshly re-prepared statement is thrown away by a stale UNPREPARED answer")
			return true
		})
		if n == 0 {
			r.Bad(ev.Decl, "(*preparedLRU).evictPreparedID removes the entry", "evictPreparedID never removes anything")
		}
	}
}

func c14r6(p *Program, r *Report) {
	for _, name := range []string{"(*Conn).executeQuery", "(*Conn).executeBatch"} {
		fi := r.NeedFunc(name)
		if fi == nil {
			continue
		}
		g := p.GraphOf(fi)
		info := g.Info
		facts := g.GuardFacts()
		n := 0
		ast.Inspect(fi.Decl.Body, func(x ast.Node) bool {
			c, ok := x.(*ast.CallExpr)
			if !ok {
				return true
			}
			if !isCallTo(info, c, "marshalQueryValue") {
				// or a helper of the module that marshals the values it is handed
				viaHelper := false
				if fn := calleeOf(info, c); fn != nil {
					if h := p.FuncOf(fn); h != nil && h.Pkg == p.Root && h.Decl.Body != nil && h != fi && h.Name != "marshalQueryValue" {
						for _, hc := range callsIn(h.Decl.Body) {
							if isCallTo(h.Pkg.TypesInfo, hc, "marshalQueryValue") {
								viaHelper = true
							}
						}
					}
				}
				if !viaHelper {
					return true
				}
			}
			n++
			f, reach := facts.Before(p.stmtOf(c, fi))
			if !reach {
				return true
			}
			okCount := false
			for atom, v := range f.m {
				if v && strings.Contains(atom, "actualColCount") && strings.Contains(atom, "len(values)") && strings.Contains(atom, " == ") {
					okCount = true
				}
			}
			if !okCount {
				// through a local copy of the count: len(values) == want and want == ...actualColCount
				d := newDBM(g, f, nil)
				for node := range d.nodes {
					if strings.HasSuffix(node, ".actualColCount") && d.le(node, 0, "len(values)", 0) && d.le("len(values)", 0, node, 0) {
						okCount = true
					}
				}
			}
			r.Check(okCount, c, name+" marshals bound values after the count check", "len(values) == actualColCount known", "bound values are marshalled without the check that their number equals the statement's bind markers: a wrong count is sent (or indexes the column list out of range) instead of being reported")
			return true
		})
		if n == 0 {
			r.Unresolved("%s: no marshalQueryValue call", name)
		}
	}
}

func c14r7(p *Program, r *Report) {
	add := r.NeedFunc("lru.(*Cache).Add")
	if add != nil {
		info := add.Pkg.TypesInfo
		found := false
		// the recency list: the field of the cache that is a *list.List, whatever it is called
		listField := "ll"
		if add.Decl.Recv != nil && len(add.Decl.Recv.List) == 1 {
			if rt := info.TypeOf(add.Decl.Recv.List[0].Type); rt != nil {
				if pt, isP := rt.(*types.Pointer); isP {
					rt = pt.Elem()
				}
				if st, isS := rt.Underlying().(*types.Struct); isS {
					for i := 0; i < st.NumFields(); i++ {
						if strings.HasSuffix(st.Field(i).Type().String(), "container/list.List") {
							listField = st.Field(i).Name()
						}
					}
				}
			}
		}
		// an eviction call at a point where the list is known to be longer than (or as long as) MaxEntries
		facts := p.GraphOf(add).GuardFacts()
		for _, c := range callsIn(add.Decl.Body) {
			if !isCallTo(info, c, "lru.(*Cache).RemoveOldest", "lru.(*Cache).removeElement") {
				continue
			}
			f, ok := facts.Before(p.stmtOf(c, add))
			if !ok {
				continue
			}
			// difference-bound form: MaxEntries < Len() (or <=) through any local that holds the limit
			if add.Decl.Recv != nil && len(add.Decl.Recv.List) == 1 && len(add.Decl.Recv.List[0].Names) == 1 {
				rn := add.Decl.Recv.List[0].Names[0].Name
				maxE, err1 := parser.ParseExpr(rn + ".MaxEntries")
				lenE, err2 := parser.ParseExpr(rn + "." + listField + ".Len()")
				if err1 == nil && err2 == nil {
					d := newDBM(p.GraphOf(add), f, nil)
					if d.leExpr(maxE, 0, lenE, 0) {
						found = true
					}
				}
			}
			for k, v := range f.m {
				ks := strings.ReplaceAll(k, " ", "")
				if v && strings.HasSuffix(ks, ".MaxEntries<"+strings.TrimSuffix(strings.SplitN(ks, ".MaxEntries<", 2)[0], "")+"."+listField+".Len()") && strings.Contains(ks, ".MaxEntries<") {
					found = true
				}
				if !v && strings.Contains(ks, "."+listField+".Len()<") && strings.HasSuffix(ks, ".MaxEntries") {
					found = true
				}
			}
		}
		r.Check(found, add.Decl, "lru.(*Cache).Add evicts beyond MaxEntries", "oldest entry removed when the list exceeds MaxEntries", "Add no longer evicts when the cache exceeds MaxEntries: the prepared-statement cache grows without bound")
		// the comparison fits its position: after the insertion the list may be MaxEntries+1 long (evict when Len > Max),
		// before it the list must be left at most MaxEntries-1 long (evict when Len >= Max)
		ag := p.GraphOf(add)
		ef := ag.Events(func(st Step) []string {
			if st.Kind != StNode {
				return nil
			}
			for _, c := range callsIn(st.Node) {
				if calleeName(info, c) == "list.(*List).PushFront" || calleeName(info, c) == "list.(*List).PushBack" {
					return []string{"insert"}
				}
			}
			return nil
		})
		ast.Inspect(add.Decl.Body, func(n ast.Node) bool {
			ifs, ok := n.(*ast.IfStmt)
			if !ok {
				return true
			}
			evicts := false
			ast.Inspect(ifs.Body, func(m ast.Node) bool {
				if c, ok := m.(*ast.CallExpr); ok && isCallTo(info, c, "lru.(*Cache).RemoveOldest", "lru.(*Cache).removeElement") {
					evicts = true
				}
				return true
			})
			if !evicts {
				return true
			}
			// find the Len() vs MaxEntries comparison in the condition
			var cmp *ast.BinaryExpr
			ast.Inspect(ifs.Cond, func(m ast.Node) bool {
				if b, ok := m.(*ast.BinaryExpr); ok && (b.Op == token.GTR || b.Op == token.GEQ || b.Op == token.LSS || b.Op == token.LEQ) {
					if strings.Contains(exprStr(b), "Len()") && strings.Contains(exprStr(b), "MaxEntries") {
						cmp = b
					}
				}
				return true
			})
			if cmp == nil {
				return true
			}
			lenLeft := strings.Contains(exprStr(cmp.X), "Len()")
			strict := cmp.Op == token.GTR && lenLeft || cmp.Op == token.LSS && !lenLeft
			s, okS := ef.Sol.Before(ag.FirstNodeIn(ifs.Cond))
			inserted := okS && s.Must["insert"]
			mayInsert := okS && s.Max["insert"] > 0
			okCmp := inserted && strict || !mayInsert && !strict
			r.Check(okCmp, ifs, "lru.(*Cache).Add keeps at most MaxEntries entries", ifs2(inserted, "Len() > MaxEntries after the insertion", "Len() >= MaxEntries before the insertion"),
				"the eviction test `"+exprStr(cmp)+"` is made "+ifs2(inserted, "after", "before")+" the new entry is inserted: the cache settles at MaxEntries+1 entries (a statement that should have been evicted is executed again without a new PREPARE) or evicts one entry too early")
			return true
		})
	}
	if ns := r.NeedFunc("NewSession"); ns != nil {
		info := ns.Pkg.TypesInfo
		found := false
		ast.Inspect(ns.Decl.Body, func(n ast.Node) bool {
			cl, ok := n.(*ast.CompositeLit)
			if !ok || typeNameOf(info.TypeOf(cl)) != "preparedLRU" {
				return true
			}
			ast.Inspect(cl, func(m ast.Node) bool {
				if c, ok := m.(*ast.CallExpr); ok && isCallTo(info, c, "lru.New") && len(c.Args) == 1 && strings.HasSuffix(exprStr(c.Args[0]), "MaxPreparedStmts") {
					found = true
				}
				return true
			})
			return true
		})
		r.Check(found, ns.Decl, "NewSession sizes the statement cache from MaxPreparedStmts", "lru.New(cfg.MaxPreparedStmts)", "the prepared-statement cache is not sized from ClusterConfig.MaxPreparedStmts")
	}
}

func c14r8(p *Program, r *Report) {
	fi, _, _, gor := prepareParts(p, r)
	if fi == nil {
		return
	}
	info := fi.Pkg.TypesInfo
	n := 0
	// the goroutine and the helpers it was split into
	bodies := []ast.Node{gor.body}
	if gor.method != nil {
		for _, u := range p.unitsOf(gor.method)[1:] {
			bodies = append(bodies, u.Decl.Body)
		}
	} else {
		for _, c := range callsIn(gor.body) {
			if fn := calleeOf(info, c); fn != nil && !fn.Exported() {
				if u := p.FuncOf(fn); u != nil && u.Pkg == p.Root && u.Decl.Body != nil && u.Name != "(*Conn).exec" {
					bodies = append(bodies, u.Decl.Body)
				}
			}
		}
	}
	for _, body := range bodies {
		ast.Inspect(body, func(x ast.Node) bool {
			c, ok := x.(*ast.CallExpr)
			if !ok || !isCallTo(info, c, "(*Conn).exec") {
				return true
			}
			n++
			r.Check(len(c.Args) > 0 && p.isField(info, c.Args[0], "Conn", "ctx"), c, "(*Conn).prepareStatement PREPARE runs on the connection context", "c.ctx: the shared PREPARE outlives the caller that started it",
				"the shared PREPARE is executed on "+exprStr(c.Args[0])+" instead of the connection's context: when the caller that won the race is cancelled, every other executor waiting for this PREPARE fails with that caller's context error")
			return true
		})
	}
	if n == 0 {
		r.Unresolved("preparing goroutine does not call exec")
	}
}

func ifs2(c bool, a, b string) string {
	if c {
		return a
	}
	return b
}
