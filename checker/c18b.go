package main

import (
	"go/ast"
	"go/token"
	"go/types"
	"sort"
	"strings"
)

// c18r6: typestate over finish(): the pair (header compression bit, body replaced by compressor output) is
// tracked as a set of possible pairs along every path; a success return with the bit (possibly) set and the body
// not replaced sends a frame that announces compression and carries a plain body.
type finState struct{ pairs map[[2]int]bool } // [flag 0 unknown / 1 set / 2 clear, compressed 0/1]

func c18r6(p *Program, r *Report) {
	fi := r.NeedFunc("(*framer).finish")
	if fi == nil {
		return
	}
	g := p.GraphOf(fi)
	info := g.Info
	isHeaderFlags := func(e ast.Expr) bool { return strings.ReplaceAll(exprStr(ast.Unparen(e)), " ", "") == "f.buf[1]" }
	// bitAtom: e tests the compression bit of the header flags byte
	bitAtom := func(e ast.Expr) (setWhenTrue, ok bool) {
		b, isB := ast.Unparen(e).(*ast.BinaryExpr)
		if !isB || b.Op != token.EQL && b.Op != token.NEQ {
			return false, false
		}
		and, isA := ast.Unparen(b.X).(*ast.BinaryExpr)
		if !isA || and.Op != token.AND || !isHeaderFlags(and.X) {
			return false, false
		}
		mask, okM := constInt(info, and.Y)
		rhs, okR := constInt(info, b.Y)
		if !okM || !okR || mask != 0x01 {
			return false, false
		}
		switch {
		case b.Op == token.EQL && rhs == mask, b.Op == token.NEQ && rhs == 0:
			return true, true
		case b.Op == token.EQL && rhs == 0, b.Op == token.NEQ && rhs == mask:
			return false, true
		}
		return false, false
	}
	union := func(a, b finState) finState {
		n := finState{pairs: map[[2]int]bool{}}
		for k := range a.pairs {
			n.pairs[k] = true
		}
		for k := range b.pairs {
			n.pairs[k] = true
		}
		return n
	}
	var cond func(s finState, e ast.Expr, val bool) finState
	cond = func(s finState, e ast.Expr, val bool) finState {
		e = ast.Unparen(e)
		if u, ok := e.(*ast.UnaryExpr); ok && u.Op == token.NOT {
			return cond(s, u.X, !val)
		}
		if b, ok := e.(*ast.BinaryExpr); ok {
			switch b.Op {
			case token.LAND:
				if val {
					return cond(cond(s, b.X, true), b.Y, true)
				}
				return union(cond(s, b.X, false), cond(cond(s, b.X, true), b.Y, false))
			case token.LOR:
				if !val {
					return cond(cond(s, b.X, false), b.Y, false)
				}
				return union(cond(s, b.X, true), cond(cond(s, b.X, false), b.Y, true))
			}
		}
		if setWhenTrue, ok := bitAtom(e); ok {
			want := 2
			if setWhenTrue == val {
				want = 1
			}
			n := finState{pairs: map[[2]int]bool{}}
			for k := range s.pairs {
				if k[0] == 0 || k[0] == want {
					n.pairs[[2]int{want, k[1]}] = true
				}
			}
			return n
		}
		return s
	}
	sol := Solve(g, Lattice[finState]{
		Init: finState{pairs: map[[2]int]bool{{0, 0}: true}},
		Join: union,
		Eq: func(a, b finState) bool {
			if len(a.pairs) != len(b.pairs) {
				return false
			}
			for k := range a.pairs {
				if !b.pairs[k] {
					return false
				}
			}
			return true
		},
		Step: func(s finState, st Step) finState {
			switch st.Kind {
			case StCond:
				return cond(s, st.Node.(ast.Expr), st.Val)
			case StNode:
				as, ok := st.Node.(*ast.AssignStmt)
				if !ok {
					return s
				}
				for i, l := range as.Lhs {
					ls := strings.ReplaceAll(exprStr(l), " ", "")
					switch {
					case ls == "f.buf[1]":
						// the header flags byte is rewritten: clearing the bit makes the header say "plain"
						n := finState{pairs: map[[2]int]bool{}}
						clears := as.Tok == token.AND_NOT_ASSIGN
						for k := range s.pairs {
							if clears {
								n.pairs[[2]int{2, k[1]}] = true
							} else {
								n.pairs[[2]int{0, k[1]}] = true
							}
						}
						s = n
					case ls == "f.buf" && i < len(as.Rhs):
						// body replaced by the compressor's output: append(f.buf[:f.headSize], <encoded>...)
						if c, ok := ast.Unparen(as.Rhs[i]).(*ast.CallExpr); ok && exprStr(c.Fun) == "append" && len(c.Args) == 2 && c.Ellipsis.IsValid() {
							if id, ok := ast.Unparen(c.Args[1]).(*ast.Ident); ok {
								if d := localDefMulti(info, fi, id); d != nil {
									if dc, ok := ast.Unparen(d).(*ast.CallExpr); ok && calleeName(info, dc) == "Compressor.Encode" {
										n := finState{pairs: map[[2]int]bool{}}
										for k := range s.pairs {
											n.pairs[[2]int{k[0], 1}] = true
										}
										s = n
									}
								}
							}
						}
					}
				}
			}
			return s
		},
	})
	n := 0
	for _, e := range g.Exits() {
		rs, ok := e.Node.(*ast.ReturnStmt)
		if !ok || len(rs.Results) != 1 || !isNil(info, rs.Results[0]) {
			continue
		}
		n++
		st, _ := sol.Before(rs)
		var bad []string
		for k := range st.pairs {
			if k[0] != 2 && k[1] == 0 {
				bad = append(bad, "header bit "+[]string{"possibly set", "set", "clear"}[k[0]]+" with the body not compressed")
			}
			if k[0] == 2 && k[1] == 1 {
				bad = append(bad, "header bit clear with the body compressed")
			}
		}
		sort.Strings(bad)
		r.Check(len(bad) == 0, rs, "(*framer).finish: header compression bit and body form agree at the success return", "compressed exactly when f.buf[1] has the bit",
			"a path reaches the success return with "+strings.Join(bad, " / ")+": the frame announces compression but carries a plain body (or the reverse), which the peer cannot decode")
	}
	if n == 0 {
		r.Unresolved("finish has no success return")
	}
}

// localDefMulti is localDef for `x, err := call()` definitions (first result).
func localDefMulti(info *types.Info, fi *FuncInfo, id *ast.Ident) ast.Expr {
	if d := localDef(info, fi, id); d != nil {
		return d
	}
	obj := info.Uses[id]
	var def ast.Expr
	ast.Inspect(fi.Decl.Body, func(n ast.Node) bool {
		if as, ok := n.(*ast.AssignStmt); ok && len(as.Rhs) == 1 && len(as.Lhs) >= 2 {
			if lid, ok := as.Lhs[0].(*ast.Ident); ok && (info.Defs[lid] == obj || info.Uses[lid] == obj) && lid != id {
				def = as.Rhs[0]
			}
		}
		return true
	})
	return def
}
