package main

import (
	"go/ast"
	"go/types"
)

// localDefMulti is localDef for `x, err := call()` definitions (first result).
func localDefMulti(info *types.Info, fi *FuncInfo, id *ast.Ident) ast.Expr {
	if d := localDef(info, fi, id); d != nil {
		return d
	}
	obj := info.Uses[id]
	var def ast.Expr
	ast.Inspect(fi.Decl.Body, func(n ast.Node) bool {
		if as, ok := n.(*ast.AssignStmt); ok && len(as.Rhs) == 1 && len(as.Lhs) >= 2 {
			if lid, ok := as.Lhs[0].(*ast.Ident); ok && (info.Defs[lid] == obj || info.Uses[lid] == obj) && lid != id {
				def = as.Rhs[0]
			}
		}
		return true
	})
	return def
}
