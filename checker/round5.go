package main

import (
	"fmt"
	"go/ast"
	"go/parser"
	"go/token"
	"go/types"
	"math/big"
	"sort"
	"strconv"
	"strings"
)

// Rules added after the round-5 seeds (see DESIGN.md §7): each is a structural necessary condition that a seeded
// change of a new flavour violated while every earlier rule stayed silent.

// c07r11: the socket is written by one goroutine at a time because the two writers run their write synchronously:
// nothing inside the writers (and the helpers they are split into) starts a goroutine whose body reaches a socket
// write. A flush moved into `go func(){ w.flush(..) }()` lets two flushes overlap.
func c07r11(p *Program, r *Report) {
	writes := map[*FuncInfo]bool{}
	for _, s := range socketSites(p) {
		if s.kind == "write" || s.kind == "handoff" && s.callee == "net.(*Buffers).WriteTo" {
			writes[s.inFunc] = true
		}
	}
	if len(writes) == 0 {
		r.Unresolved("no function writes to the socket")
		return
	}
	var reaches func(body ast.Node, info *types.Info, depth int) bool
	reaches = func(body ast.Node, info *types.Info, depth int) bool {
		if depth > 3 {
			return false
		}
		found := false
		ast.Inspect(body, func(x ast.Node) bool {
			c, ok := x.(*ast.CallExpr)
			if !ok || found {
				return true
			}
			if fn := calleeOf(info, c); fn != nil {
				if h := p.FuncOf(fn); h != nil && h.Pkg == p.Root && h.Decl.Body != nil {
					if writes[h] || reaches(h.Decl.Body, h.Pkg.TypesInfo, depth+1) {
						found = true
					}
				}
			}
			return true
		})
		return found
	}
	n := 0
	// the writers and everything they call: the units in which a write is serialised by construction
	units := map[*FuncInfo]bool{}
	for _, name := range []string{"(*writeCoalescer).writeFlusher", "(*deadlineContextWriter).writeContext", "(*writeCoalescer).writeContext"} {
		if fi := p.Func(name); fi != nil {
			for _, u := range p.unitsOf(fi) {
				units[u] = true
			}
		}
	}
	for w := range writes {
		units[w] = true
	}
	for u := range units {
		info := u.Pkg.TypesInfo
		ast.Inspect(u.Decl.Body, func(x ast.Node) bool {
			gs, ok := x.(*ast.GoStmt)
			if !ok {
				return true
			}
			bad := false
			if lit, isLit := gs.Call.Fun.(*ast.FuncLit); isLit {
				bad = reaches(lit.Body, info, 0)
			} else if fn := calleeOf(info, gs.Call); fn != nil {
				if h := p.FuncOf(fn); h != nil && h.Decl.Body != nil {
					bad = writes[h] || reaches(h.Decl.Body, h.Pkg.TypesInfo, 0)
				}
			}
			n++
			r.Check(!bad, gs, u.Name+" starts no goroutine that writes to the socket", "the goroutine does not reach a socket write",
				"a goroutine started from inside the writer reaches a socket write: two writes can be in progress at once, so a frame can follow a half-written one and the failure state is examined before the earlier write has recorded its error")
			return true
		})
	}
	if n == 0 {
		r.OK(nil, "the writers start no goroutines", "no go statement in "+itoa(len(units))+" functions of the write path")
	}
}

// c09r7: Query.routingKey is the key the user supplied with RoutingKey(); a key computed from the bound values is
// returned, never stored there (a later Bind would keep routing by the first values). Who-may-write rule.
func c09r7(p *Program, r *Report) {
	fv := p.Field("Query", "routingKey")
	if fv == nil {
		r.Unresolved("field Query.routingKey not found")
		return
	}
	n := 0
	p.forEachFunc(false, func(fi *FuncInfo) {
		if fi.Pkg != p.Root || fi.Decl.Body == nil {
			return
		}
		info := fi.Pkg.TypesInfo
		ast.Inspect(fi.Decl.Body, func(x ast.Node) bool {
			as, ok := x.(*ast.AssignStmt)
			if !ok {
				return true
			}
			for i, l := range as.Lhs {
				if fieldOf(info, l) != fv {
					continue
				}
				n++
				// allowed: the value is a parameter of the function (the setter), nil, or a copy of another Query's field
				okSrc := false
				if i < len(as.Rhs) && len(as.Lhs) == len(as.Rhs) {
					rhs := ast.Unparen(as.Rhs[i])
					if isNil(info, rhs) {
						okSrc = true
					}
					if id, isId := rhs.(*ast.Ident); isId {
						if v, isVar := info.Uses[id].(*types.Var); isVar && fi.Obj != nil {
							sig := fi.Obj.Type().(*types.Signature)
							for k := 0; k < sig.Params().Len(); k++ {
								if sig.Params().At(k) == v {
									okSrc = true
								}
							}
						}
					}
					if fieldOf(info, rhs) == fv {
						okSrc = true
					}
				}
				r.Check(okSrc, as, fi.Name+" stores only a caller-supplied routing key in Query.routingKey", "assigned from a parameter / nil / another query's key",
					"a routing key derived from the bound values is stored in the field that holds the user's explicit key: after the query is bound to other values it is still routed (and its token computed) by the old ones")
			}
			return true
		})
	})
	if n == 0 {
		r.Unresolved("Query.routingKey is never assigned")
	}
}

// c12r13: make([]T, n) gives n zero elements; a slice that is then only grown with append (never indexed, never
// re-sliced to [:0]) starts with n unwanted zero values: a set bound as map[T]struct{} is sent with n leading nulls.
// Checked in the marshalling code (marshal*.go functions).
func c12r13(p *Program, r *Report) {
	n := 0
	p.forEachFunc(false, func(fi *FuncInfo) {
		if fi.Pkg != p.Root || fi.Decl.Body == nil || !strings.HasSuffix(p.relFile(fi.Decl.Pos()), "marshal.go") {
			return
		}
		info := fi.Pkg.TypesInfo
		ast.Inspect(fi.Decl.Body, func(x ast.Node) bool {
			as, ok := x.(*ast.AssignStmt)
			if !ok || len(as.Lhs) != 1 || len(as.Rhs) != 1 {
				return true
			}
			id, isId := as.Lhs[0].(*ast.Ident)
			c, isC := ast.Unparen(as.Rhs[0]).(*ast.CallExpr)
			if !isId || !isC || calleeName(info, c) != "builtin.make" || len(c.Args) != 2 {
				return true
			}
			if _, isSl := info.TypeOf(c).Underlying().(*types.Slice); !isSl {
				return true
			}
			if k, isK := constInt(info, c.Args[1]); isK && k == 0 {
				return true
			}
			obj := info.Defs[id]
			if obj == nil {
				obj = info.Uses[id]
			}
			if obj == nil {
				return true
			}
			appended, indexed, resliced, other := false, false, false, false
			ast.Inspect(fi.Decl.Body, func(y ast.Node) bool {
				switch z := y.(type) {
				case *ast.AssignStmt:
					for i, l := range z.Lhs {
						if ix, isIx := ast.Unparen(l).(*ast.IndexExpr); isIx && isIdentOf(info, ix.X, obj) {
							indexed = true
						}
						if isIdentOf(info, l, obj) && z != as && i < len(z.Rhs) {
							if ac, isA := ast.Unparen(z.Rhs[i]).(*ast.CallExpr); isA && exprStr(ac.Fun) == "append" && len(ac.Args) > 0 && isIdentOf(info, ac.Args[0], obj) {
								appended = true
							} else {
								resliced = true
							}
						}
					}
				case *ast.CallExpr:
					// handed to something that fills it (copy, io.ReadFull, binary.Put..)
					if z != c && len(z.Args) > 0 {
						cn := calleeName(info, z)
						fills := cn == "builtin.copy" || cn == "io.ReadFull" || cn == "io.ReadAtLeast" || strings.HasSuffix(cn, ".Read") || strings.Contains(cn, ".Put") || strings.HasSuffix(cn, ".Decode") || strings.HasSuffix(cn, ".Encode") || strings.HasSuffix(cn, "UncompressBlock") || strings.HasSuffix(cn, "CompressBlock")
						if fills {
							for _, a := range z.Args {
								if rootIdent(a) != nil && isIdentOf(info, rootIdent(a), obj) {
									other = true
								}
							}
						}
					}
				case *ast.UnaryExpr:
					if z.Op == token.AND && rootIdent(z.X) != nil && isIdentOf(info, rootIdent(z.X), obj) {
						other = true
					}
				case *ast.RangeStmt:
					if isIdentOf(info, z.X, obj) && z.Value == nil && z.Key != nil {
						indexed = true // for i := range x { x[i] = .. } is caught by the index store; a bare range over indexes counts
					}
				}
				return true
			})
			if !appended {
				return true
			}
			n++
			r.Check(indexed || resliced || other, as, fi.Name+": "+id.Name+" made with a length is filled by index, not grown by append", "elements stored by index (or the slice is reset before appending)",
				id.Name+" is created with make(.., "+exprStr(c.Args[1])+") and then only grown with append: it starts with that many zero values, so the encoded collection has leading null / zero elements and twice the announced count")
			return true
		})
	})
	if n == 0 {
		r.OK(nil, "no slice in marshal.go is made with a length and then grown by append", "0 candidates")
	}
}

// c14r9: the cache key contains the statement text as it is: keyFor concatenates its parameters themselves. A key
// built from a transformed statement (whitespace folded, lower-cased, truncated) makes two different statements
// share one prepared id.
func c14r9(p *Program, r *Report) {
	kf := r.NeedFunc("(*preparedLRU).keyFor")
	if kf == nil {
		return
	}
	info := kf.Pkg.TypesInfo
	params := map[types.Object]bool{}
	for i := 0; i < 3; i++ {
		if po := paramObj(info, kf.Decl.Type, i); po != nil {
			params[po] = true
		}
	}
	n := 0
	for _, e := range p.GraphOf(kf).Exits() {
		rs, ok := e.Node.(*ast.ReturnStmt)
		if !ok || len(rs.Results) != 1 {
			continue
		}
		n++
		bad := ""
		ast.Inspect(rs.Results[0], func(x ast.Node) bool {
			c, isC := x.(*ast.CallExpr)
			if !isC {
				return true
			}
			if tv, isT := info.Types[c.Fun]; isT && tv.IsType() {
				return true // a conversion keeps the text
			}
			ast.Inspect(c, func(y ast.Node) bool {
				if id, isId := y.(*ast.Ident); isId && params[info.Uses[id]] {
					bad = exprStr(c)
				}
				return true
			})
			return true
		})
		// a component may also have been replaced before the return
		ast.Inspect(kf.Decl.Body, func(x ast.Node) bool {
			if as, isAs := x.(*ast.AssignStmt); isAs {
				for _, l := range as.Lhs {
					if id, isId := l.(*ast.Ident); isId && params[info.Uses[id]] {
						bad = exprStrNode(as)
					}
				}
			}
			return true
		})
		r.Check(bad == "", rs, "(*preparedLRU).keyFor builds the key from the components as they are", "host id, keyspace and statement enter the key unmodified", "a component of the cache key is transformed first ("+bad+"): different statements (or hosts / keyspaces) can share one cache entry and be executed under each other's prepared id")
	}
	if n == 0 {
		r.Unresolved("keyFor has no single-value return")
	}
}

// c14r10: a hit refreshes the entry's recency on every path: lru.(*Cache).Get moves the element it returns to the
// front whenever it reports a hit (otherwise an entry in use - even one whose PREPARE is in flight - is the one
// that gets purged).
func c14r10(p *Program, r *Report) {
	get := r.NeedFunc("lru.(*Cache).Get")
	if get == nil {
		return
	}
	// every return of Get is either a miss (the map lookup is known to have failed) or comes after MoveToFront;
	// judged per path on the graph with Get's helpers spliced in, so a lookup-and-touch helper is seen through
	g := p.GraphOfInl(get)
	g.markNodes = map[ast.Node]string{}
	defer func() { g.markNodes = nil }()
	nfront := 0
	for _, u := range g.Units() {
		uinfo := u.Pkg.TypesInfo
		inspectNoLit(u.Decl.Body, func(x ast.Node) bool {
			if c, ok := x.(*ast.CallExpr); ok && calleeName(uinfo, c) == "list.(*List).MoveToFront" {
				g.markNodes[p.stmtOf(c, u)] = "front"
				nfront++
			}
			return true
		})
	}
	ps := g.GuardFactsPSAbout(func(atom string) bool {
		return strings.HasPrefix(atom, "§") || strings.HasSuffix(atom, "]") && !strings.ContainsAny(atom, " =<")
	})
	okNeverAssigned := false
	if res := get.Decl.Type.Results; res != nil && len(res.List) > 0 {
		last := res.List[len(res.List)-1]
		if len(last.Names) > 0 {
			obj := get.Pkg.TypesInfo.Defs[last.Names[len(last.Names)-1]]
			okNeverAssigned = obj != nil
			ast.Inspect(get.Decl.Body, func(x ast.Node) bool {
				if as, isA := x.(*ast.AssignStmt); isA {
					for _, l := range as.Lhs {
						if isIdentOf(get.Pkg.TypesInfo, l, obj) {
							okNeverAssigned = false
						}
					}
				}
				if u, isU := x.(*ast.UnaryExpr); isU && u.Op == token.AND && isIdentOf(get.Pkg.TypesInfo, u.X, obj) {
					okNeverAssigned = false
				}
				return true
			})
		}
	}
	n := 0
	for _, e := range g.Exits() {
		rs, ok := e.Node.(*ast.ReturnStmt)
		if !ok || e.Kind == ExitPanic {
			continue
		}
		ds, has := ps.Before(rs)
		if !has {
			continue
		}
		n++
		okAll := len(ds) > 0
		for _, d := range ds {
			if d.m["§front"] {
				continue
			}
			miss := false
			for atom, v := range d.m {
				if !v && strings.HasSuffix(atom, "]") {
					miss = true
				}
			}
			// the found-flag returned is false: the constant, or the named result that nothing ever assigns
			if len(rs.Results) == 2 {
				if tv, has := g.Info.Types[rs.Results[1]]; has && tv.Value != nil && tv.Value.String() == "false" {
					miss = true
				}
			}
			if len(rs.Results) == 0 && okNeverAssigned {
				miss = true
			}
			if !miss {
				okAll = false
			}
		}
		r.Check(okAll, rs, "lru.(*Cache).Get refreshes the recency of the entry it returns", "MoveToFront on every path that found the key", "a hit is returned on a path that does not move the entry to the front: the statement that was just used can be the next one purged (also while its PREPARE is still in flight, which lets a second PREPARE of the same statement start)")
	}
	if n == 0 || nfront == 0 {
		r.Unresolved("lru Get: %d returns, %d MoveToFront calls", n, nfront)
	}
}

// c19r9: Time() is the zero time only for a UUID that is not time based: every return of the zero time.Time in
// (UUID).Time is made where the version is known to differ from 1 (a version-1 UUID with timestamp 0 is the
// epoch of the Gregorian calendar, not "no time").
func c19r9(p *Program, r *Report) {
	fi := r.NeedFunc("(UUID).Time")
	if fi == nil {
		return
	}
	g := p.GraphOf(fi)
	info := g.Info
	facts := g.GuardFacts()
	n := 0
	// the spellings of the constant 1 used in the function
	ones := map[string]bool{"1": true}
	ast.Inspect(fi.Decl.Body, func(x ast.Node) bool {
		if e, isE := x.(ast.Expr); isE {
			if tv, has := info.Types[e]; has && tv.Value != nil && tv.Value.ExactString() == "1" {
				ones[strings.ReplaceAll(exprStr(e), " ", "")] = true
			}
		}
		return true
	})
	for _, e := range g.Exits() {
		rs, ok := e.Node.(*ast.ReturnStmt)
		if !ok || len(rs.Results) != 1 {
			continue
		}
		cl, isCL := ast.Unparen(rs.Results[0]).(*ast.CompositeLit)
		if !isCL || len(cl.Elts) != 0 || typeNameOf(info.TypeOf(cl)) != "Time" {
			continue
		}
		n++
		f, _ := facts.Before(rs)
		okV := false
		for atom, v := range f.m {
			a := strings.ReplaceAll(atom, " ", "")
			if i := strings.Index(a, "=="); i > 0 && !v {
				l, rr := a[:i], a[i+2:]
				if (strings.HasSuffix(l, ".Version()") && ones[rr]) || (strings.HasSuffix(rr, ".Version()") && ones[l]) {
					okV = true
				}
			}
		}
		// or through a predicate of the package that is `Version() == 1`
		for atom, v := range f.m {
			a := strings.ReplaceAll(atom, " ", "")
			if v || !strings.HasSuffix(a, "()") {
				continue
			}
			for _, c := range callsIn(fi.Decl.Body) {
				if strings.ReplaceAll(exprStr(c), " ", "") != a {
					continue
				}
				fn := calleeOf(info, c)
				if fn == nil {
					continue
				}
				h := p.FuncOf(fn)
				if h == nil || h.Decl.Body == nil || len(h.Decl.Body.List) != 1 {
					continue
				}
				hrs, isRet := h.Decl.Body.List[0].(*ast.ReturnStmt)
				if !isRet || len(hrs.Results) != 1 {
					continue
				}
				be, isB := ast.Unparen(hrs.Results[0]).(*ast.BinaryExpr)
				if !isB || be.Op != token.EQL {
					continue
				}
				hinfo := h.Pkg.TypesInfo
				for _, pr := range [][2]ast.Expr{{be.X, be.Y}, {be.Y, be.X}} {
					vc, isC := ast.Unparen(pr[0]).(*ast.CallExpr)
					one, isOne := constInt(hinfo, pr[1])
					if isC && isOne && one == 1 && isCallTo(hinfo, vc, "(UUID).Version") {
						okV = true
					}
				}
			}
		}
		r.Check(okV, rs, "(UUID).Time returns the zero time only for a UUID that is not version 1", "guarded by Version() != 1", "the zero time.Time is returned on a condition other than the version: a genuine time UUID (e.g. one whose timestamp is 0) reads back as 'no time' instead of the instant it encodes")
	}
	if n == 0 {
		r.OK(fi.Decl, "(UUID).Time never returns the zero time", "no return of time.Time{}")
	}
}

// ---------------------------------------------------------------------------
// Generic slips (checked in every function of the module's root package and its internal packages)

// lostErrors: an error produced by a call and stored in a variable is examined (tested, returned, passed on) before
// the variable is assigned again and before the function ends. In a loop `v[i], err = f()` followed by one test
// after the loop only the last error is seen.
func lostErrors(p *Program, r *Report, scope func(*FuncInfo) bool, tag string) int {
	n := 0
	for _, fi := range p.SortedFuncs() {
		if fi.Decl.Body == nil || !scope(fi) {
			continue
		}
		info := fi.Pkg.TypesInfo
		// candidate sites: assignments `..., e = call(...)` / `e := call()` to a local error variable
		type site struct {
			as  *ast.AssignStmt
			obj types.Object
		}
		var sites []site
		inspectNoLit(fi.Decl.Body, func(x ast.Node) bool {
			as, ok := x.(*ast.AssignStmt)
			if !ok || len(as.Rhs) != 1 {
				return true
			}
			if _, isCall := ast.Unparen(as.Rhs[0]).(*ast.CallExpr); !isCall {
				return true
			}
			for _, l := range as.Lhs {
				id, isId := l.(*ast.Ident)
				if !isId || id.Name == "_" {
					continue
				}
				obj := info.Defs[id]
				if obj == nil {
					obj = info.Uses[id]
				}
				v, isVar := obj.(*types.Var)
				if !isVar || !isErrorType(v.Type()) || v.IsField() || v.Parent() == v.Pkg().Scope() {
					continue
				}
				sites = append(sites, site{as, obj})
			}
			return true
		})
		if len(sites) == 0 {
			continue
		}
		var g *Graph
		// named results are read by a bare return
		named := map[types.Object]bool{}
		if fi.Decl.Type.Results != nil {
			for _, f := range fi.Decl.Type.Results.List {
				for _, nm := range f.Names {
					named[info.Defs[nm]] = true
				}
			}
		}
		// captured by a closure (deferred handlers read it later): not judged
		captured := map[types.Object]bool{}
		ast.Inspect(fi.Decl.Body, func(x ast.Node) bool {
			if lit, isLit := x.(*ast.FuncLit); isLit {
				ast.Inspect(lit.Body, func(y ast.Node) bool {
					if id, isId := y.(*ast.Ident); isId && info.Uses[id] != nil {
						captured[info.Uses[id]] = true
					}
					return true
				})
				return false
			}
			return true
		})
		reads := func(node ast.Node, obj types.Object, skipLHSOf *ast.AssignStmt) bool {
			found := false
			ast.Inspect(node, func(x ast.Node) bool {
				if _, isLit := x.(*ast.FuncLit); isLit {
					return false
				}
				id, isId := x.(*ast.Ident)
				if !isId || info.Uses[id] != obj {
					return true
				}
				// an occurrence on the left of an assignment is a write
				if as, isAs := p.Parent(id).(*ast.AssignStmt); isAs {
					for _, l := range as.Lhs {
						if l == ast.Expr(id) {
							return true
						}
					}
				}
				found = true
				return true
			})
			return found
		}
		// one dataflow per variable: which sites' errors are pending, which were overwritten while pending
		byObj := map[types.Object][]int{}
		var objs []types.Object
		for i, s := range sites {
			if captured[s.obj] {
				continue
			}
			if _, seen := byObj[s.obj]; !seen {
				objs = append(objs, s.obj)
			}
			byObj[s.obj] = append(byObj[s.obj], i)
		}
		for _, obj := range objs {
			idxs := byObj[obj]
			if len(idxs) > 60 {
				idxs = idxs[:60]
			}
			siteBit := map[*ast.AssignStmt]uint64{}
			for k, i := range idxs {
				siteBit[sites[i].as] |= 1 << uint(k)
			}
			otherWrites := false
			inspectNoLit(fi.Decl.Body, func(x ast.Node) bool {
				if as2, isAs := x.(*ast.AssignStmt); isAs && siteBit[as2] == 0 {
					for _, l := range as2.Lhs {
						if id, isId := l.(*ast.Ident); isId && (info.Uses[id] == obj || info.Defs[id] == obj) {
							otherWrites = true
						}
					}
				}
				return true
			})
			if len(idxs) == 1 && !otherWrites {
				s := sites[idxs[0]]
				definesHere := false
				for _, l := range s.as.Lhs {
					if id, isId := l.(*ast.Ident); isId && info.Defs[id] == obj && s.as.Tok == token.DEFINE {
						definesHere = true
					}
				}
				if definesHere || !p.inLoop(s.as, fi.Decl) {
					n++
					r.OK(s.as, tag+": "+fi.Name+" examines the error of "+exprStr(s.as.Rhs[0])+" before "+obj.Name()+" is assigned again", "the only assignment of "+obj.Name())
					continue
				}
			}
			siblings := map[*ast.AssignStmt][]types.Object{}
			for _, i := range idxs {
				s := sites[i]
				for _, l := range s.as.Lhs {
					if id, isId := l.(*ast.Ident); isId && id.Name != "_" {
						so := info.Defs[id]
						if so == nil {
							so = info.Uses[id]
						}
						if so != nil && so != obj {
							siblings[s.as] = append(siblings[s.as], so)
						}
					}
				}
			}
			readCache := map[ast.Node]bool{}
			readsObj := func(node ast.Node) bool {
				if v, ok := readCache[node]; ok {
					return v
				}
				v := reads(node, obj, nil)
				readCache[node] = v
				return v
			}
			type lst struct{ pending, lost uint64 }
			if g == nil {
				g = p.GraphOf(fi)
			}
			sol := Solve(g, Lattice[lst]{
				Join: func(a, b lst) lst { return lst{a.pending | b.pending, a.lost | b.lost} },
				Eq:   func(a, b lst) bool { return a == b },
				Step: func(st lst, step Step) lst {
					var node ast.Node
					switch step.Kind {
					case StNode, StCond, StCase:
						node = step.Node
					default:
						return st
					}
					if node == nil {
						return st
					}
					if st.pending != 0 && readsObj(node) {
						st.pending = 0
					}
					if st.pending != 0 && step.Kind == StCond {
						// (value, error) pairs: looking at the value that came with the error is looking at the outcome
						for as2, sibs := range siblings {
							if st.pending&siteBit[as2] == 0 {
								continue
							}
							for _, sib := range sibs {
								if reads(node, sib, nil) {
									st.pending &^= siteBit[as2]
								}
							}
						}
					}
					if as, isAs := node.(*ast.AssignStmt); isAs {
						for _, l := range as.Lhs {
							id, isId := l.(*ast.Ident)
							if !isId || (info.Defs[id] != obj && info.Uses[id] != obj) {
								continue
							}
							bit := siteBit[as]
							if bit != 0 && as.Tok == token.DEFINE && info.Defs[id] == obj {
								st.pending = bit // a variable declared in a loop body is a new one in every iteration
								continue
							}
							st.lost |= st.pending
							st.pending = bit
						}
					}
					if rs, isR := node.(*ast.ReturnStmt); isR && len(rs.Results) == 0 && named[obj] {
						st.pending = 0
					}
					return st
				},
			})
			var lost uint64
			for _, e := range g.Exits() {
				if e.Kind == ExitPanic {
					continue
				}
				var st lst
				var ok bool
				if e.Node != nil {
					st, ok = sol.After(e.Node)
				} else {
					st, ok = sol.AtExit(e)
				}
				if ok {
					lost |= st.lost
				}
			}
			for k, i := range idxs {
				s := sites[i]
				n++
				r.Check(lost&(1<<uint(k)) == 0, s.as, tag+": "+fi.Name+" examines the error of "+exprStr(s.as.Rhs[0])+" before "+obj.Name()+" is assigned again", "tested / returned / passed on before the next assignment on every path",
					"the error stored in "+obj.Name()+" by "+exprStr(s.as.Rhs[0])+" can be overwritten by a later assignment (for instance the next iteration of the loop it is in) before anything looks at it: a failure is silently dropped and the value that goes with it is used")
			}
		}
	}
	return n
}

// deadErrorBranches: in an if / else-if chain, a condition that the guard facts already decide as false guards code
// that can never run. When that code is error handling (it mentions an error value or calls a handler) the usual
// cause is a variable shadowed by the `if v := ..` of the first branch: the second test looks at the wrong variable.
func deadErrorBranches(p *Program, r *Report, scope func(*FuncInfo) bool, tag string) int {
	n := 0
	for _, fi := range p.SortedFuncs() {
		if fi.Decl.Body == nil || !scope(fi) {
			continue
		}
		info := fi.Pkg.TypesInfo
		var g *Graph
		inspectNoLit(fi.Decl.Body, func(x ast.Node) bool {
			ifs, ok := x.(*ast.IfStmt)
			if !ok {
				return true
			}
			els, isIf := ifs.Else.(*ast.IfStmt)
			if !isIf || els.Init != nil {
				return true
			}
			// only conditions that test an error-typed value
			testsErr := false
			ast.Inspect(els.Cond, func(y ast.Node) bool {
				if id, isId := y.(*ast.Ident); isId {
					if v, isVar := info.Uses[id].(*types.Var); isVar && isErrorType(v.Type()) {
						testsErr = true
					}
				}
				return true
			})
			if !testsErr {
				return true
			}
			n++
			// the same test as the branch before it (which would have been taken): never true here
			same := strings.ReplaceAll(exprStr(ifs.Cond), " ", "") == strings.ReplaceAll(exprStr(els.Cond), " ", "")
			if !same {
				if g == nil {
					g = p.GraphOf(fi)
				}
				if f, reach := g.GuardFacts().Before(els.Cond); reach {
					if v, known := f.Known(els.Cond); known && !v {
						same = true
					}
				}
			}
			r.Check(!same, els, tag+": "+fi.Name+" else-if on "+exprStr(els.Cond)+" can be taken", "not decided by the branch before it",
				"the condition "+exprStr(els.Cond)+" of this else-if is already known to be false where it is evaluated (the branch before it tested the same thing): its error handling never runs - typically a variable shadowed by the `if v := ...` of the first branch, so the error that was meant is never reported")
			return true
		})
	}
	return n
}

// shadowedErrors: `if err := f(); err != nil { .. }` declares a new err. When an outer err of the same function is
// read after that statement and the if-body can fall out of its end (it handles the error without leaving), the
// code after it goes on with the outer variable, which never received f's error.
func shadowedErrors(p *Program, r *Report, scope func(*FuncInfo) bool, tag string) int {
	n := 0
	for _, fi := range p.SortedFuncs() {
		if fi.Decl.Body == nil || !scope(fi) {
			continue
		}
		info := fi.Pkg.TypesInfo
		inspectNoLit(fi.Decl.Body, func(x ast.Node) bool {
			ifs, ok := x.(*ast.IfStmt)
			if !ok || ifs.Init == nil {
				return true
			}
			as, isAs := ifs.Init.(*ast.AssignStmt)
			if !isAs || as.Tok != token.DEFINE {
				return true
			}
			for _, l := range as.Lhs {
				id, isId := l.(*ast.Ident)
				if !isId || id.Name == "_" {
					continue
				}
				inner, _ := info.Defs[id].(*types.Var)
				if inner == nil || !isErrorType(inner.Type()) {
					continue
				}
				// an outer variable of the same name, visible at the if statement
				_, outerObj := inner.Parent().Parent().LookupParent(id.Name, ifs.Pos())
				outer, _ := outerObj.(*types.Var)
				if outer == nil || outer == inner || !isErrorType(outer.Type()) || outer.Parent() == outer.Pkg().Scope() {
					continue
				}
				n++
				// does the body always leave (return / continue / break / goto / panic)?
				leaves := p.terminates(info, ifs.Body.List)
				if !leaves && len(ifs.Body.List) > 0 {
					if br, isBr := ifs.Body.List[len(ifs.Body.List)-1].(*ast.BranchStmt); isBr && (br.Tok == token.CONTINUE || br.Tok == token.BREAK || br.Tok == token.GOTO) {
						leaves = true
					}
				}
				// is the outer variable read after the if statement?
				readAfter := false
				ast.Inspect(fi.Decl.Body, func(y ast.Node) bool {
					uid, isU := y.(*ast.Ident)
					if !isU || info.Uses[uid] != types.Object(outer) || uid.Pos() < ifs.End() {
						return true
					}
					if pas, isPA := p.Parent(uid).(*ast.AssignStmt); isPA {
						for _, pl := range pas.Lhs {
							if pl == ast.Expr(uid) {
								return true
							}
						}
					}
					readAfter = true
					return true
				})
				// a named result read by a bare return counts as well
				if !readAfter && fi.Decl.Type.Results != nil {
					for _, f := range fi.Decl.Type.Results.List {
						for _, nm := range f.Names {
							if info.Defs[nm] == types.Object(outer) {
								ast.Inspect(fi.Decl.Body, func(y ast.Node) bool {
									if rs, isR := y.(*ast.ReturnStmt); isR && len(rs.Results) == 0 && rs.Pos() > ifs.End() {
										readAfter = true
									}
									return true
								})
							}
						}
					}
				}
				r.Check(leaves || !readAfter, ifs, tag+": "+fi.Name+" `if "+id.Name+" := ..` at "+p.Pos(ifs)+" does not hide an error the code after it relies on", "the body leaves the function / loop, or the outer "+id.Name+" is not read afterwards",
					"the `if "+id.Name+" := "+exprStr(as.Rhs[0])+"` declares a new "+id.Name+"; its body does not leave, and the outer "+id.Name+" is read afterwards: the code after the if goes on with an error variable that never received this call's error (a failed step is handed on as a success)")
			}
			return true
		})
	}
	return n
}

// c18r8: a body that could not be decompressed must not be handed on as a frame: in the receive and finish paths no
// error is hidden by a shadowing `if err := ..` or overwritten before it is examined (=C05.R11/R12 on those paths).
func c18r8(p *Program, r *Report) {
	units := map[*FuncInfo]bool{}
	for _, name := range []string{"(*Conn).recv", "(*framer).readFrame", "(*framer).finish", "(*Conn).exec"} {
		if fi := r.NeedFunc(name); fi != nil {
			for _, u := range p.unitsOf(fi) {
				units[u] = true
			}
		}
	}
	scope := func(fi *FuncInfo) bool { return units[fi] }
	n := shadowedErrors(p, r, scope, "frame path")
	n += lostErrors(p, r, scope, "frame path")
	if n == 0 {
		r.Unresolved("no error handling found in the frame receive / finish path")
	}
}

// c01r12: the receiver never blocks on a caller that has left: every send on callReq.resp sits in a select that also
// has a receive on the same call's timeout channel (closed by the caller when it stops waiting) or a default. If the
// receiver's hand-over loses that alternative, one departed caller wedges the connection's only reader and no later
// response reaches its request.
func c01r12(p *Program, r *Report) {
	respF := p.Field("callReq", "resp")
	timeoutF := p.Field("callReq", "timeout")
	if respF == nil || timeoutF == nil {
		r.Unresolved("callReq.resp / callReq.timeout not found")
		return
	}
	n := 0
	p.forEachFunc(false, func(fi *FuncInfo) {
		if fi.Pkg != p.Root || fi.Decl.Body == nil {
			return
		}
		info := fi.Pkg.TypesInfo
		ast.Inspect(fi.Decl.Body, func(x ast.Node) bool {
			snd, ok := x.(*ast.SendStmt)
			if !ok || fieldOf(info, snd.Chan) != respF {
				return true
			}
			n++
			root := ""
			if sel, isSel := ast.Unparen(snd.Chan).(*ast.SelectorExpr); isSel {
				root = exprStr(sel.X)
			}
			okAlt := false
			if sel, _ := p.enclosingSelectComm(snd); sel != nil {
				for _, cc := range commClauses(sel) {
					if cc.Comm == nil {
						okAlt = true // default
						continue
					}
					if ch := recvChan(cc.Comm); ch != nil && fieldOf(info, ch) == timeoutF {
						if s2, isSel := ast.Unparen(ch).(*ast.SelectorExpr); isSel && exprStr(s2.X) == root {
							okAlt = true
						}
					}
				}
			}
			r.Check(okAlt, snd, fi.Name+" hands a response over without blocking on a departed caller", "select with <-"+root+".timeout (or default)",
				"the response is sent on "+exprStr(snd.Chan)+" without the alternative of the caller having left ("+root+".timeout): a caller that gives up while the frame is being read blocks the connection's receive loop forever, and every later response on the connection never reaches its request")
			return true
		})
	})
	if n == 0 {
		r.Unresolved("no send on callReq.resp found")
	}
}

// c06r14: a call is taken out of Conn.calls only together with its stream id: every function that deletes an entry
// of Conn.calls releases the stream on every path that follows (the late response of a forgotten call is dropped as
// "no handler", and a stream kept reserved for it is never given back). closeWithError detaches the whole table.
func c06r14(p *Program, r *Report) {
	callsF := p.Field("Conn", "calls")
	if callsF == nil {
		r.Unresolved("Conn.calls not found")
		return
	}
	respF := p.Field("callReq", "resp")
	releases := func(info *types.Info, n ast.Node) bool {
		for _, c := range callsIn(n) {
			cn := calleeName(info, c)
			if cn == "(*Conn).releaseStream" || cn == "streams.(*IDGenerator).Clear" {
				return true
			}
		}
		// the response handed to the waiting caller: the caller releases the stream when it has consumed it
		handed := false
		ast.Inspect(n, func(y ast.Node) bool {
			if snd, isS := y.(*ast.SendStmt); isS && respF != nil && fieldOf(info, snd.Chan) == respF {
				handed = true
			}
			return true
		})
		return handed
	}
	// a select case taken because the connection is going down ends the obligation as well
	connEnds := func(info *types.Info, step Step) bool {
		if step.Kind != StComm {
			return false
		}
		cc, ok := step.Clause.(*ast.CommClause)
		if !ok || cc.Comm == nil {
			return false
		}
		if snd, isS := cc.Comm.(*ast.SendStmt); isS && respF != nil && fieldOf(info, snd.Chan) == respF {
			return true
		}
		if ch := recvChan(cc.Comm); ch != nil && strings.HasSuffix(strings.ReplaceAll(exprStr(ch), " ", ""), ".Done()") {
			return true
		}
		return false
	}
	n := 0
	p.forEachFunc(false, func(fi *FuncInfo) {
		if fi.Pkg != p.Root || fi.Decl.Body == nil {
			return
		}
		info := fi.Pkg.TypesInfo
		var dels []*ast.CallExpr
		for _, c := range callsIn(fi.Decl.Body) {
			if calleeName(info, c) == "builtin.delete" && len(c.Args) == 2 && fieldOf(info, c.Args[0]) == callsF {
				dels = append(dels, c)
			}
		}
		if len(dels) == 0 {
			return
		}
		// the receive loop takes the call out of the table in order to hand it to its caller (who releases the stream)
		// or to release it itself when the caller has left: its hand-over is judged by C01.R12 / C06.R4-R5
		handsOver := func(info *types.Info, body ast.Node) bool {
			hands := false
			ast.Inspect(body, func(y ast.Node) bool {
				if snd, isS := y.(*ast.SendStmt); isS && respF != nil && fieldOf(info, snd.Chan) == respF {
					hands = true
				}
				return true
			})
			return hands
		}
		handsOverU := func(f *FuncInfo) bool {
			if handsOver(f.Pkg.TypesInfo, f.Decl.Body) {
				return true
			}
			// or through a method of the call itself (call.offer(resp))
			for _, c := range callsIn(f.Decl.Body) {
				if fn := calleeOf(f.Pkg.TypesInfo, c); fn != nil {
					if sig, _ := fn.Type().(*types.Signature); sig != nil && sig.Recv() != nil && typeNameOf(sig.Recv().Type()) == "callReq" {
						if h := p.FuncOf(fn); h != nil && h.Decl.Body != nil && handsOver(h.Pkg.TypesInfo, h.Decl.Body) {
							return true
						}
					}
				}
			}
			return false
		}
		if handsOverU(fi) {
			n++
			r.OK(fi.Decl, fi.Name+" takes calls out of Conn.calls to hand them over", "the function sends on callReq.resp")
			return
		}
		// the function itself releases after the delete on every path, or each of its callers does after the call
		g := p.GraphOf(fi)
		for _, d := range dels {
			n++
			dstmt := p.stmtOf(d, fi)
			sol := Solve(g, Lattice[int]{
				Join: func(a, b int) int {
					if a > b {
						return a
					}
					return b
				},
				Eq: func(a, b int) bool { return a == b },
				Step: func(st int, step Step) int {
					if st == 1 && connEnds(info, step) {
						return 0
					}
					if step.Kind != StNode {
						return st
					}
					if step.Node == dstmt {
						return 1
					}
					if st == 1 && releases(info, step.Node) {
						return 0
					}
					return st
				},
			})
			pendingAtExit := false
			for _, e := range g.Exits() {
				if e.Kind == ExitPanic {
					continue
				}
				var st int
				var ok bool
				if e.Node != nil {
					st, ok = sol.After(e.Node)
				} else {
					st, ok = sol.AtExit(e)
				}
				if ok && st == 1 {
					pendingAtExit = true
				}
			}
			okCallers := false
			if pendingAtExit && fi.Obj != nil && !fi.Obj.Exported() && !p.usedAsValue(fi) {
				// a helper: every caller releases the stream after calling it
				nsite, okAll := 0, true
				for _, caller := range p.SortedFuncs() {
					if caller.Decl.Body == nil || caller.Pkg != p.Root {
						continue
					}
					cinfo := caller.Pkg.TypesInfo
					for _, cc := range callsIn(caller.Decl.Body) {
						if fn := calleeOf(cinfo, cc); fn == nil || p.FuncOf(fn) != fi {
							continue
						}
						nsite++
						if handsOverU(caller) {
							// the receive loop took the call out through the helper: as above
							continue
						}
						cg := p.GraphOf(caller)
						cstmt := p.stmtOf(cc, caller)
						csol := Solve(cg, Lattice[int]{
							Join: func(a, b int) int {
								if a > b {
									return a
								}
								return b
							},
							Eq: func(a, b int) bool { return a == b },
							Step: func(st int, step Step) int {
								if st == 1 && connEnds(cinfo, step) {
									return 0
								}
								if step.Kind != StNode {
									return st
								}
								if step.Node == cstmt {
									return 1
								}
								if st == 1 && releases(cinfo, step.Node) {
									return 0
								}
								return st
							},
						})
						for _, e := range cg.Exits() {
							if e.Kind == ExitPanic {
								continue
							}
							var st int
							var ok bool
							if e.Node != nil {
								st, ok = csol.After(e.Node)
							} else {
								st, ok = csol.AtExit(e)
							}
							if ok && st == 1 {
								okAll = false
							}
						}
					}
				}
				okCallers = nsite > 0 && okAll
			}
			r.Check(!pendingAtExit || okCallers, d, fi.Name+" releases the stream of a call it removes from Conn.calls", "releaseStream / Clear on every path after the delete (here or in every caller)",
				"an entry is deleted from Conn.calls on a path that does not release its stream id: the response that may still arrive finds no handler and is dropped, and the id stays reserved for the life of the connection (streams run out)")
		}
	})
	if n == 0 {
		r.Unresolved("no delete from Conn.calls found")
	}
}

// c13r11: a batch is idempotent only if every entry is: (*Batch).IsIdempotent answers false as soon as one entry's
// Idempotent flag is false. Accepted: `return false` where an entry's flag is known false, or an accumulator that is
// and-ed with each flag; a plain overwrite of the accumulator reports only the last entry.
func c13r11(p *Program, r *Report) {
	fi := r.NeedFunc("(*Batch).IsIdempotent")
	if fi == nil {
		return
	}
	g := p.GraphOf(fi)
	info := g.Info
	facts := g.GuardFacts()
	flagF := p.Field("BatchEntry", "Idempotent")
	okSome := false
	// (a) a return false under a known-false flag inside a loop over the entries
	for _, e := range g.Exits() {
		rs, ok := e.Node.(*ast.ReturnStmt)
		if !ok || len(rs.Results) != 1 || !p.inLoop(rs, fi.Decl) {
			continue
		}
		if tv, has := info.Types[rs.Results[0]]; !has || tv.Value == nil || tv.Value.String() != "false" {
			continue
		}
		f, _ := facts.Before(rs)
		for atom, v := range f.m {
			if !v && strings.HasSuffix(atom, ".Idempotent") {
				okSome = true
			}
		}
	}
	// (b) an accumulator and-ed with every flag
	bad := ""
	ast.Inspect(fi.Decl.Body, func(x ast.Node) bool {
		as, ok := x.(*ast.AssignStmt)
		if !ok || len(as.Lhs) != 1 || len(as.Rhs) != 1 || !p.inLoop(as, fi.Decl) {
			return true
		}
		mentionsFlag := false
		ast.Inspect(as.Rhs[0], func(y ast.Node) bool {
			if sel, isSel := y.(*ast.SelectorExpr); isSel && flagF != nil && fieldOf(info, sel) == flagF {
				mentionsFlag = true
			}
			return true
		})
		if !mentionsFlag {
			return true
		}
		acc := exprStr(as.Lhs[0])
		switch {
		case as.Tok == token.AND_ASSIGN:
			okSome = true
		case as.Tok == token.ASSIGN:
			if b, isB := ast.Unparen(as.Rhs[0]).(*ast.BinaryExpr); isB && b.Op == token.LAND && (exprStr(ast.Unparen(b.X)) == acc || exprStr(ast.Unparen(b.Y)) == acc) {
				okSome = true
			} else {
				bad = exprStrNode(as)
			}
		}
		return true
	})
	// (c) a search helper: IsIdempotent is `first(entries) == K` where the helper returns something else than K
	// (the position, which is not negative while K is) at the first entry whose flag is known false, and K behind its loop
	for _, e := range g.Exits() {
		rs, ok := e.Node.(*ast.ReturnStmt)
		if !ok || len(rs.Results) != 1 {
			continue
		}
		be, isB := ast.Unparen(rs.Results[0]).(*ast.BinaryExpr)
		if !isB || be.Op != token.EQL {
			continue
		}
		for _, pr := range [][2]ast.Expr{{be.X, be.Y}, {be.Y, be.X}} {
			c, isC := ast.Unparen(pr[0]).(*ast.CallExpr)
			k, isK := constInt(info, pr[1])
			if !isC || !isK || k >= 0 {
				continue
			}
			fn := calleeOf(info, c)
			if fn == nil {
				continue
			}
			h := p.FuncOf(fn)
			if h == nil || h.Decl.Body == nil || h.Pkg != fi.Pkg {
				continue
			}
			hg := p.GraphOf(h)
			hf := hg.GuardFacts()
			inLoopOK, afterOK, other := false, false, false
			for _, he := range hg.Exits() {
				hrs, isRet := he.Node.(*ast.ReturnStmt)
				if !isRet || len(hrs.Results) != 1 {
					continue
				}
				if v, isConst := constInt(h.Pkg.TypesInfo, hrs.Results[0]); isConst {
					if v == k && !p.inLoop(hrs, h.Decl) {
						afterOK = true
					} else {
						other = true
					}
					continue
				}
				// a position: the range key / loop index, under a flag known false
				f, _ := hf.Before(hrs)
				flagFalse := false
				for atom, v := range f.m {
					if !v && strings.HasSuffix(atom, ".Idempotent") {
						flagFalse = true
					}
				}
				if p.inLoop(hrs, h.Decl) && flagFalse {
					if nn, isNN := hf.Before(hrs); isNN && nonNegExpr(h.Pkg.TypesInfo, h, nn, hrs.Results[0]) {
						inLoopOK = true
						continue
					}
				}
				other = true
			}
			if inLoopOK && afterOK && !other {
				okSome = true
			}
		}
	}
	r.Check(okSome && bad == "", fi.Decl, "(*Batch).IsIdempotent is false as soon as one entry is not idempotent", "return false under !entry.Idempotent, or an accumulator and-ed with every flag",
		"IsIdempotent does not answer false for every batch that contains a non-idempotent entry"+ifs(bad != "", " (`"+bad+"` overwrites the result with the flag of the entry at hand: only the last entry counts)", "")+": such a batch passes the idempotence gate and is executed speculatively / retried on another host")
}

// c15r7: the number of rows of the page at hand says nothing about the result: helpers that drain an iterator
// (SliceMap, MapScan, RowData and whatever else loops on Scan) do not bound or size their work by NumRows() /
// numRows - Scan alone decides when the rows are exhausted (it moves on to the next page).
func c15r7(p *Program, r *Report) {
	numF := p.Field("Iter", "numRows")
	n := 0
	p.forEachFunc(false, func(fi *FuncInfo) {
		if fi.Pkg != p.Root || fi.Decl.Body == nil || fi.Decl.Recv == nil {
			return
		}
		info := fi.Pkg.TypesInfo
		if rt := info.TypeOf(fi.Decl.Recv.List[0].Type); rt == nil || typeNameOf(rt) != "Iter" {
			return
		}
		// functions that loop on Scan
		var loops []*ast.ForStmt
		ast.Inspect(fi.Decl.Body, func(x ast.Node) bool {
			if f, ok := x.(*ast.ForStmt); ok {
				scans := false
				var parts []ast.Node
				if f.Init != nil {
					parts = append(parts, f.Init)
				}
				if f.Cond != nil {
					parts = append(parts, f.Cond)
				}
				if f.Post != nil {
					parts = append(parts, f.Post)
				}
				parts = append(parts, f.Body)
				for _, part := range parts {
					inspectNoLit(part, func(y ast.Node) bool {
						if c, isC := y.(*ast.CallExpr); isC && isCallTo(info, c, "(*Iter).Scan") {
							scans = true
						}
						return true
					})
				}
				if scans {
					loops = append(loops, f)
				}
			}
			return true
		})
		for _, lp := range loops {
			n++
			// the loop condition (and everything it is computed from) does not involve the page's row count
			usesRows := func(e ast.Node) bool {
				found := false
				var visit func(n ast.Node, depth int)
				visit = func(n ast.Node, depth int) {
					ast.Inspect(n, func(y ast.Node) bool {
						switch z := y.(type) {
						case *ast.CallExpr:
							if isCallTo(info, z, "(*Iter).NumRows") {
								found = true
							}
						case *ast.SelectorExpr:
							if numF != nil && fieldOf(info, z) == numF {
								found = true
							}
						case *ast.Ident:
							if depth < 3 {
								if d := localDef(info, fi, z); d != nil {
									visit(d, depth+1)
								}
							}
						}
						return true
					})
				}
				visit(e, 0)
				return found
			}
			bad := lp.Cond != nil && usesRows(lp.Cond)
			r.Check(!bad, lp, fi.Name+" drains the iterator until Scan says there are no more rows", "the loop is bounded by Scan alone",
				"the loop that reads the rows is also bounded by the number of rows of the current page (NumRows / numRows): it stops at the first page boundary and returns the rows read so far as the complete result, without an error")
		}
	})
	if n == 0 {
		r.Unresolved("no Iter method loops on Scan")
	}
}

// c16r14: a batch of server events may hold topology and status events together; scheduling the ring refresh is no
// reason to skip the status events: every way out of handleNodeEvent has passed the loop that dispatches the
// collected UP / DOWN events (the refresh never changes the up/down state or the pools of known nodes).
func c16r14(p *Program, r *Report) {
	fi := r.NeedFunc("(*Session).handleNodeEvent")
	if fi == nil {
		return
	}
	info := fi.Pkg.TypesInfo
	var reachesStatus func(body ast.Node, depth int) bool
	reachesStatus = func(body ast.Node, depth int) bool {
		found := false
		ast.Inspect(body, func(x ast.Node) bool {
			c, ok := x.(*ast.CallExpr)
			if !ok || found {
				return true
			}
			if isCallTo(info, c, "(*Session).handleNodeUp", "(*Session).handleNodeDown") {
				found = true
				return true
			}
			// dispatch through a constant table whose entries are the two handlers: table[change](s, ..)
			tableOf := func(e ast.Expr) ast.Expr {
				e = ast.Unparen(e)
				if ix, isIx := e.(*ast.IndexExpr); isIx {
					return ix.X
				}
				// h, ok := table[change]; h(..)
				if id, isId := e.(*ast.Ident); isId {
					if fiU := p.enclosingDecl(c); fiU != nil {
						if d := localDefMulti(info, fiU, id); d != nil {
							if ix, isIx := ast.Unparen(d).(*ast.IndexExpr); isIx {
								return ix.X
							}
						}
					}
				}
				return nil
			}
			if tab := tableOf(c.Fun); tab != nil {
				if tid, isId := ast.Unparen(tab).(*ast.Ident); isId {
					if tv, isVar := info.Uses[tid].(*types.Var); isVar && tv.Pkg() != nil && tv.Parent() == tv.Pkg().Scope() {
						for _, pkg := range p.Pkgs {
							if pkg.Types != tv.Pkg() {
								continue
							}
							for _, f := range pkg.Syntax {
								ast.Inspect(f, func(y ast.Node) bool {
									vs, isVS := y.(*ast.ValueSpec)
									if !isVS {
										return true
									}
									for i, nm := range vs.Names {
										if pkg.TypesInfo.Defs[nm] == types.Object(tv) && i < len(vs.Values) {
											ast.Inspect(vs.Values[i], func(z ast.Node) bool {
												if sel, isSel := z.(*ast.SelectorExpr); isSel && (sel.Sel.Name == "handleNodeUp" || sel.Sel.Name == "handleNodeDown") {
													found = true
												}
												return true
											})
										}
									}
									return true
								})
							}
						}
					}
				}
			}
			if depth < 2 {
				if fn := calleeOf(info, c); fn != nil {
					if h := p.FuncOf(fn); h != nil && h.Pkg == p.Root && h.Decl.Body != nil && reachesStatus(h.Decl.Body, depth+1) {
						found = true
					}
				}
			}
			return true
		})
		return found
	}
	g := p.GraphOfInl(fi)
	nloop := 0
	ef := g.Events(func(st Step) []string {
		if st.Kind == StRange {
			if rs, ok := st.Node.(*ast.RangeStmt); ok && reachesStatus(rs.Body, 0) {
				return []string{"dispatch"}
			}
		}
		if st.Kind == StNode {
			if fs, ok := p.Parent(st.Node).(*ast.ForStmt); ok && fs.Init == st.Node && reachesStatus(fs.Body, 0) {
				return []string{"dispatch"}
			}
		}
		return nil
	})
	for _, u := range g.Units() {
		ast.Inspect(u.Decl.Body, func(x ast.Node) bool {
			switch l := x.(type) {
			case *ast.RangeStmt:
				if reachesStatus(l.Body, 0) {
					nloop++
				}
			case *ast.ForStmt:
				if reachesStatus(l.Body, 0) {
					nloop++
				}
			}
			return true
		})
	}
	if nloop == 0 {
		r.Unresolved("handleNodeEvent: no loop dispatches status events to handleNodeUp / handleNodeDown")
		return
	}
	n := 0
	for _, e := range g.Exits() {
		if e.Kind == ExitPanic {
			continue
		}
		s, ok := ef.ExitState(e)
		if !ok {
			continue
		}
		n++
		r.Check(s.Must["dispatch"], e.Node, "(*Session).handleNodeEvent exit "+exitDesc(p, e)+" has dispatched the status events", "the dispatch loop is passed on every path",
			"handleNodeEvent can return without dispatching the UP / DOWN events of the batch (for instance right after scheduling a ring refresh): a node reported DOWN stays connected and is offered to queries, a node reported UP is never reconnected")
	}
	if n == 0 {
		r.Unresolved("handleNodeEvent has no exits")
	}
}

// c16r15: removing an address that is not in a host list changes nothing: in (*cowHostList).remove the "not found"
// answer is decided by a variable whose initial value means "not found" and that is changed only where an element
// matched. A search index that starts at 0 makes every miss look like a hit of the first element.
func c16r15(p *Program, r *Report) {
	fi := r.NeedFunc("(*cowHostList).remove")
	if fi == nil {
		return
	}
	g := p.GraphOf(fi)
	info := g.Info
	facts := g.GuardFacts()
	// where the shortened list is published
	var store *ast.CallExpr
	for _, c := range callsIn(fi.Decl.Body) {
		if strings.HasSuffix(calleeName(info, c), ".Store") && store == nil {
			store = c
		}
	}
	if store == nil {
		r.Unresolved("(*cowHostList).remove never stores a new list")
		return
	}
	// sentinels: flags / indexes assigned inside the search loop
	type sentinel struct {
		v    *types.Var
		init ast.Expr
	}
	var sents []sentinel
	okAssign, whyAssign := true, ""
	seen := map[*types.Var]bool{}
	ast.Inspect(fi.Decl.Body, func(y ast.Node) bool {
		as, isAs := y.(*ast.AssignStmt)
		if !isAs || !p.inLoop(as, fi.Decl) {
			return true
		}
		for _, l := range as.Lhs {
			lid, isId := l.(*ast.Ident)
			if !isId {
				continue
			}
			v, _ := info.Uses[lid].(*types.Var)
			if v == nil {
				continue
			}
			if b, isB := v.Type().Underlying().(*types.Basic); !isB || b.Info()&(types.IsBoolean|types.IsInteger) == 0 {
				continue
			}
			// loop counters are not sentinels
			if fs, isFor := p.enclosing(as, fi.Decl, func(n ast.Node) bool { _, is := n.(*ast.ForStmt); return is }).(*ast.ForStmt); isFor && (fs.Post == ast.Stmt(as) || fs.Init == ast.Stmt(as)) {
				continue
			}
			f, _ := facts.Before(as)
			matched := false
			for atom, val := range f.m {
				if val && (strings.Contains(atom, ".Equal(") || strings.Contains(atom, " == ")) && !strings.Contains(atom, "len(") {
					matched = true
				}
			}
			if !matched {
				okAssign, whyAssign = false, lid.Name+" is changed at "+p.Pos(as)+" where no element is known to have matched"
			}
			if !seen[v] {
				seen[v] = true
				sents = append(sents, sentinel{v: v})
			}
		}
		return true
	})
	for i := range sents {
		ast.Inspect(fi.Decl.Body, func(y ast.Node) bool {
			switch z := y.(type) {
			case *ast.AssignStmt:
				if p.inLoop(z, fi.Decl) || len(z.Lhs) != len(z.Rhs) {
					return true
				}
				for k, l := range z.Lhs {
					if lid, isId := l.(*ast.Ident); isId && (info.Defs[lid] == types.Object(sents[i].v) || info.Uses[lid] == types.Object(sents[i].v)) && sents[i].init == nil {
						sents[i].init = z.Rhs[k]
					}
				}
			case *ast.ValueSpec:
				for k, nm := range z.Names {
					if info.Defs[nm] == types.Object(sents[i].v) && sents[i].init == nil {
						if k < len(z.Values) {
							sents[i].init = z.Values[k]
						} else if b, isB := sents[i].v.Type().Underlying().(*types.Basic); isB && b.Info()&types.IsBoolean != 0 {
							sents[i].init = ast.NewIdent("false")
						} else {
							sents[i].init = &ast.BasicLit{Kind: token.INT, Value: "0"}
						}
					}
				}
			}
			return true
		})
	}
	if len(sents) == 0 {
		r.OK(store, "(*cowHostList).remove leaves the list alone when the address is not in it", "the search uses no flag or index sentinel (it compares what was built with the original)")
		return
	}
	// at the store, what is known about a sentinel must be false for its initial ("not found") value
	f, _ := facts.Before(p.stmtOf(store, fi))
	guarded, why := false, "the new list is stored at a point where nothing is known about the outcome of the search"
	for _, se := range sents {
		name := se.v.Name()
		if se.init == nil {
			continue
		}
		for atom, val := range f.m {
			if !mentions(atom, name) {
				continue
			}
			initTruth, okE := false, false
			if atom == name {
				if id, isId := ast.Unparen(se.init).(*ast.Ident); isId && (id.Name == "true" || id.Name == "false") {
					initTruth, okE = id.Name == "true", true
				}
			} else if e, err := parser.ParseExpr(atom); err == nil {
				if b, isB := e.(*ast.BinaryExpr); isB {
					if k, isK := constInt(info, se.init); isK {
						ev := &evalEnv{info: info, fi: fi, vars: map[string]int64{name: k}, seen: map[types.Object]bool{}}
						lit := func(x ast.Expr) (int64, bool) {
							if bl, isL := x.(*ast.BasicLit); isL {
								if v, err := strconv.ParseInt(bl.Value, 0, 64); err == nil {
									return v, true
								}
							}
							if u, isU := x.(*ast.UnaryExpr); isU && u.Op == token.SUB {
								if bl, isL := u.X.(*ast.BasicLit); isL {
									if v, err := strconv.ParseInt(bl.Value, 0, 64); err == nil {
										return -v, true
									}
								}
							}
							if id, isId := x.(*ast.Ident); isId && id.Name == name {
								return k, true
							}
							return ev.eval(x)
						}
						l, ok1 := lit(b.X)
						rr, ok2 := lit(b.Y)
						if ok1 && ok2 {
							initTruth, okE = cmpInt(l, b.Op, rr), true
						}
					}
				}
			}
			if !okE {
				continue
			}
			if initTruth != val {
				guarded = true
			} else {
				why = "where the new list is stored `" + atom + "` is " + fmt.Sprint(val) + ", which the initial value " + exprStr(se.init) + " of " + name + " satisfies as well: a search that found nothing is not told apart from a hit"
			}
		}
	}
	r.Check(guarded && okAssign, store, "(*cowHostList).remove leaves the list alone when the address is not in it", "the store is reached only with the search's sentinel changed from its initial value, which happens only on a match",
		"removing an address that is not in the list is not recognised as 'not found' ("+ifs(!okAssign, whyAssign, why)+"): an unrelated host (the first of the list) is dropped from the selection policy, e.g. when a DOWN event is followed by the removal of the same node")
}

// c10r11: the placement walk meets a node once per token it owns; the seen-set test keeps it from being considered
// twice only if every host that is put on a list (the replica list or a per-datacenter waiting list) is also entered
// into the set before the walk moves on. Checked per iteration of the walk: at every way back to the loop head (and
// out of the function) no host has been stored without having been marked.
func c10r11(p *Program, r *Report) {
	n := 0
	for _, name := range []string{"(*networkTopology).replicaMap", "(*simpleStrategy).replicaMap"} {
		impl := p.Func(name)
		if impl == nil || impl.Decl.Body == nil {
			continue
		}
		for _, fi := range p.unitsOf(impl) {
			g := p.GraphOf(fi)
			info := g.Info
			isSeenSet := func(e ast.Expr) bool {
				if t := info.TypeOf(e); t != nil {
					if m, ok := t.Underlying().(*types.Map); ok && strings.Contains(m.Key().String(), "HostInfo") {
						switch el := m.Elem().Underlying().(type) {
						case *types.Struct:
							return el.NumFields() == 0
						case *types.Basic:
							return el.Kind() == types.Bool
						}
					}
				}
				return false
			}
			// test-and-mark in one helper: seen.add(h) on a seen-set type whose method stores recv[param]
			testAndMark := func(c *ast.CallExpr) (string, bool) {
				sel, isSel := ast.Unparen(c.Fun).(*ast.SelectorExpr)
				if !isSel || !isSeenSet(sel.X) || len(c.Args) != 1 {
					return "", false
				}
				fn := calleeOf(info, c)
				if fn == nil {
					return "", false
				}
				h := p.FuncOf(fn)
				if h == nil || h.Decl.Body == nil || h.Decl.Recv == nil || len(h.Decl.Recv.List) != 1 || len(h.Decl.Recv.List[0].Names) != 1 {
					return "", false
				}
				hinfo := h.Pkg.TypesInfo
				recv := hinfo.Defs[h.Decl.Recv.List[0].Names[0]]
				par := paramObj(hinfo, h.Decl.Type, 0)
				stores := false
				ast.Inspect(h.Decl.Body, func(y ast.Node) bool {
					if as, isA := y.(*ast.AssignStmt); isA {
						for _, l := range as.Lhs {
							if ix, isIx := ast.Unparen(l).(*ast.IndexExpr); isIx && isIdentOf(hinfo, ix.X, recv) && isIdentOf(hinfo, ix.Index, par) {
								stores = true
							}
						}
					}
					return true
				})
				// every path that does not store found the host present: the store is not conditional on anything else
				return exprStr(c.Args[0]), stores
			}
			// the hosts that are subject to a seen-set test in this function
			tested := map[string]bool{}
			for _, c := range callsIn(fi.Decl.Body) {
				if k, ok := testAndMark(c); ok {
					tested[k] = true
				}
			}
			ast.Inspect(fi.Decl.Body, func(x ast.Node) bool {
				if ix, ok := x.(*ast.IndexExpr); ok && isSeenSet(ix.X) {
					if as, isAs := p.Parent(ix).(*ast.AssignStmt); isAs {
						for _, l := range as.Lhs {
							if l == ast.Expr(ix) {
								return true // a mark, not a test
							}
						}
					}
					tested[exprStr(ix.Index)] = true
				}
				return true
			})
			if len(tested) == 0 {
				continue
			}
			isHostList := func(e ast.Expr) bool {
				t := info.TypeOf(e)
				return t != nil && strings.Contains(t.String(), "[]*") && strings.Contains(t.String(), "HostInfo")
			}
			// state: hosts marked since they were bound (must), hosts stored in a list without being marked (may)
			type wst struct{ marked, pending strset }
			sol := Solve(g, Lattice[wst]{
				Init: wst{strset{}, strset{}},
				Join: func(a, b wst) wst { return wst{a.marked.intersect(b.marked), a.pending.union(b.pending)} },
				Eq:   func(a, b wst) bool { return a.marked.eq(b.marked) && a.pending.eq(b.pending) },
				Step: func(s wst, st Step) wst {
					if st.Kind != StNode {
						return s
					}
					for _, c := range callsIn(st.Node) {
						if k, ok := testAndMark(c); ok {
							s = wst{s.marked.with(k), s.pending.without(k)}
						}
					}
					as, ok := st.Node.(*ast.AssignStmt)
					if !ok {
						return s
					}
					for i, l := range as.Lhs {
						// a mark
						if ix, isIx := ast.Unparen(l).(*ast.IndexExpr); isIx && isSeenSet(ix.X) {
							k := exprStr(ix.Index)
							s = wst{s.marked.with(k), s.pending.without(k)}
							continue
						}
						// a store: L = append(L, h)
						if i < len(as.Rhs) && isHostList(l) {
							if c, isC := ast.Unparen(as.Rhs[i]).(*ast.CallExpr); isC && calleeName(info, c) == "builtin.append" && !c.Ellipsis.IsValid() {
								for _, a := range c.Args[1:] {
									if k := exprStr(a); tested[k] && !s.marked[k] {
										s = wst{s.marked, s.pending.with(k)}
									}
								}
							}
						}
						// the host variable is bound to another node: nothing is known about that one yet
						if ls := exprStr(l); tested[ls] {
							s = wst{s.marked.without(ls), s.pending}
						}
					}
					return s
				},
			})
			// ways back to the head of the walking loop (the loop that contains the seen-set test) and out
			var loops []*ast.ForStmt
			ast.Inspect(fi.Decl.Body, func(x ast.Node) bool {
				if fs, ok := x.(*ast.ForStmt); ok {
					has := false
					inspectNoLit(fs.Body, func(y ast.Node) bool {
						if ix, isIx := y.(*ast.IndexExpr); isIx && isSeenSet(ix.X) {
							has = true
						}
						if c, isC := y.(*ast.CallExpr); isC {
							if _, ok := testAndMark(c); ok {
								has = true
							}
						}
						return true
					})
					// innermost such loop only
					if has {
						inner := false
						ast.Inspect(fs.Body, func(y ast.Node) bool {
							if f2, isF := y.(*ast.ForStmt); isF && f2 != fs {
								inspectNoLit(f2.Body, func(z ast.Node) bool {
									if ix, isIx := z.(*ast.IndexExpr); isIx && isSeenSet(ix.X) {
										inner = true
									}
									if c, isC := z.(*ast.CallExpr); isC {
										if _, ok := testAndMark(c); ok {
											inner = true
										}
									}
									return true
								})
							}
							return true
						})
						if !inner {
							loops = append(loops, fs)
						}
					}
				}
				return true
			})
			for _, lp := range loops {
				for _, be := range BackEdges(p, sol, lp, lp.Body.Pos()) {
					n++
					var pend []string
					for k := range be.State.pending {
						pend = append(pend, k)
					}
					sort.Strings(pend)
					r.Check(len(pend) == 0, be.Node, fi.Name+" marks every host it puts on a list before the walk moves on", "seen-set entry made on every path of the iteration that stores the host",
						"the walk can move on to the next ring entry with "+strings.Join(pend, ", ")+" stored in a list but not entered into the seen set: a node that owns several tokens is met again, passes the test again and is queued or placed a second time (a replica list with the same node twice, a real replica displaced)")
				}
			}
		}
	}
	if n == 0 {
		r.Unresolved("no placement walk with a seen-set test found")
	}
}

// c17r14: swap-remove on hostConnPool.conns. Where the list is cut by one (`conns = conns[:B]`), the element at B has
// been stored into another slot K (K is not B) before the cut on every path (or in the same tuple assignment): what
// is cut off is then a duplicate and the connection in slot K is the one that leaves the pool. Writing the other way
// round (conns[B] = conns[K]) cuts off a live connection and keeps the closed one.
func c17r14(p *Program, r *Report) {
	connsF := p.Field("hostConnPool", "conns")
	if connsF == nil {
		r.Unresolved("hostConnPool.conns not found")
		return
	}
	n := 0
	for _, fi := range p.SortedFuncs() {
		if fi.Decl.Body == nil || fi.Pkg != p.Root {
			continue
		}
		info := fi.Pkg.TypesInfo
		var norm func(e ast.Expr, depth int) string
		norm = func(e ast.Expr, depth int) string {
			e = ast.Unparen(e)
			if id, isId := e.(*ast.Ident); isId && depth < 4 {
				if obj, isVar := info.Uses[id].(*types.Var); isVar && !obj.IsField() && obj.Parent() != obj.Pkg().Scope() && singleAssigned(info, fi.Decl.Body, obj) {
					if d := localDef(info, fi, id); d != nil {
						return norm(d, depth+1)
					}
				}
			}
			if b, isB := e.(*ast.BinaryExpr); isB {
				return "(" + norm(b.X, depth) + b.Op.String() + norm(b.Y, depth) + ")"
			}
			if c, isC := e.(*ast.CallExpr); isC && len(c.Args) == 1 && calleeName(info, c) == "builtin.len" {
				return "len(" + norm(c.Args[0], depth) + ")"
			}
			return strings.ReplaceAll(exprStr(e), " ", "")
		}
		isConns := func(e ast.Expr) bool {
			e = ast.Unparen(e)
			if fieldOf(info, e) == connsF {
				return true
			}
			// a local alias of the field
			if id, isId := e.(*ast.Ident); isId {
				if d := localDef(info, fi, id); d != nil && fieldOf(info, d) == connsF {
					return true
				}
			}
			return false
		}
		type cut struct {
			as    *ast.AssignStmt
			bound string
		}
		var cuts []cut
		inspectNoLit(fi.Decl.Body, func(x ast.Node) bool {
			as, ok := x.(*ast.AssignStmt)
			if !ok || len(as.Lhs) != len(as.Rhs) {
				return true
			}
			for i, l := range as.Lhs {
				if fieldOf(info, l) != connsF {
					continue
				}
				// the order-preserving form: append(conns[:K], conns[K+1:]...)
				if ac, isC := ast.Unparen(as.Rhs[i]).(*ast.CallExpr); isC && calleeName(info, ac) == "builtin.append" && ac.Ellipsis.IsValid() && len(ac.Args) == 2 {
					a0, ok0 := ast.Unparen(ac.Args[0]).(*ast.SliceExpr)
					a1, ok1 := ast.Unparen(ac.Args[1]).(*ast.SliceExpr)
					if ok0 && ok1 && isConns(a0.X) && isConns(a1.X) && a0.High != nil && a1.Low != nil && a1.High == nil {
						n++
						k := norm(a0.High, 0)
						r.Check(norm(a1.Low, 0) == "("+k+"+1)", as, fi.Name+" closes the gap of exactly the removed connection", "append(conns[:K], conns[K+1:]...)", "the two halves joined do not leave out exactly one slot")
					}
					continue
				}
				se, isS := ast.Unparen(as.Rhs[i]).(*ast.SliceExpr)
				if !isS || !isConns(se.X) || se.High == nil || se.Slice3 {
					continue
				}
				if se.Low != nil {
					if tv, has := info.Types[se.Low]; !has || tv.Value == nil || tv.Value.ExactString() != "0" {
						continue
					}
				}
				b := norm(se.High, 0)
				if !strings.Contains(b, "len(") || !strings.Contains(b, "-1") {
					continue
				}
				cuts = append(cuts, cut{as, b})
			}
			return true
		})
		if len(cuts) == 0 {
			continue
		}
		g := p.GraphOf(fi)
		for _, c := range cuts {
			n++
			// a store conns[K] = conns[B] with K other than B
			moves := func(nd ast.Node) (moved, reversed bool) {
				as, ok := nd.(*ast.AssignStmt)
				if !ok || len(as.Lhs) != len(as.Rhs) {
					return
				}
				for i, l := range as.Lhs {
					ix, isIx := ast.Unparen(l).(*ast.IndexExpr)
					if !isIx || !isConns(ix.X) {
						continue
					}
					src, isSrc := ast.Unparen(as.Rhs[i]).(*ast.IndexExpr)
					if !isSrc || !isConns(src.X) {
						continue
					}
					k, from := norm(ix.Index, 0), norm(src.Index, 0)
					if from == c.bound && k != c.bound {
						moved = true
					}
					if k == c.bound && from != c.bound {
						reversed = true
					}
				}
				return
			}
			sol := Solve(g, Lattice[int]{
				Join: func(a, b int) int {
					if a < b {
						return a
					}
					return b
				},
				Eq: func(a, b int) bool { return a == b },
				Step: func(st int, step Step) int {
					if step.Kind != StNode {
						return st
					}
					if m, _ := moves(step.Node); m {
						return 1
					}
					return st
				},
			})
			st, _ := sol.Before(c.as)
			same, rev := moves(c.as)
			r.Check((st == 1 || same) && !rev, c.as, fi.Name+" moves the last connection into the freed slot before it shortens the list", "conns[K] = conns[last] (K other than last) dominates conns = conns[:last]",
				"the list is shortened by one without the last element having been moved into the slot of the connection that is being removed: the closed connection stays in the pool (and keeps being picked) while a live one is dropped from it without being closed")
		}
	}
	if n == 0 {
		r.Unresolved("no swap-remove on hostConnPool.conns found")
	}
}

// c06r15: closing never hangs. controlConn.quit is unbuffered and has one receiver, the heart-beat loop, which listens
// only after it moved controlConn.state from X to S with a compare-and-swap. A blocking send on quit is therefore
// safe only where the sender has itself won a compare-and-swap out of S (then the loop exists and nobody else sends):
// any weaker condition (state was not yet closing, unconditional) blocks Session.Close for ever on a control
// connection whose loop never started.
func c06r15(p *Program, r *Report) {
	quitF := p.Field("controlConn", "quit")
	stateF := p.Field("controlConn", "state")
	if quitF == nil || stateF == nil {
		r.Unresolved("controlConn.quit / controlConn.state not found")
		return
	}
	directCAS := func(info *types.Info, c *ast.CallExpr) bool {
		if !strings.HasPrefix(calleeName(info, c), "atomic.CompareAndSwap") || len(c.Args) != 3 {
			return false
		}
		u, ok := ast.Unparen(c.Args[0]).(*ast.UnaryExpr)
		return ok && u.Op == token.AND && fieldOf(info, u.X) == stateF
	}
	// casArgs: the old and new value of a compare-and-swap on controlConn.state made by call c, directly or through a
	// helper whose body is the compare-and-swap with its own parameters as old / new value
	casArgs := func(info *types.Info, c *ast.CallExpr) (oldV, newV ast.Expr, ok bool) {
		if directCAS(info, c) {
			return c.Args[1], c.Args[2], true
		}
		fn := calleeOf(info, c)
		if fn == nil {
			return nil, nil, false
		}
		h := p.FuncOf(fn)
		if h == nil || h.Decl.Body == nil || len(h.Decl.Body.List) != 1 {
			return nil, nil, false
		}
		rs, isRet := h.Decl.Body.List[0].(*ast.ReturnStmt)
		if !isRet || len(rs.Results) != 1 {
			return nil, nil, false
		}
		inner, isC := ast.Unparen(rs.Results[0]).(*ast.CallExpr)
		if !isC || !directCAS(h.Pkg.TypesInfo, inner) {
			return nil, nil, false
		}
		arg := func(e ast.Expr) ast.Expr {
			for i := 0; i < len(c.Args); i++ {
				if po := paramObj(h.Pkg.TypesInfo, h.Decl.Type, i); po != nil && isIdentOf(h.Pkg.TypesInfo, e, po) {
					return c.Args[i]
				}
			}
			if tv, has := h.Pkg.TypesInfo.Types[e]; has && tv.Value != nil {
				return e
			}
			return nil
		}
		o, nw := arg(inner.Args[1]), arg(inner.Args[2])
		if o == nil || nw == nil {
			return nil, nil, false
		}
		return o, nw, true
	}
	// the receiver and the state it establishes
	established := map[string]bool{}
	nrecv := 0
	for _, fi := range p.SortedFuncs() {
		if fi.Decl.Body == nil || fi.Pkg != p.Root {
			continue
		}
		info := fi.Pkg.TypesInfo
		listens := false
		ast.Inspect(fi.Decl.Body, func(x ast.Node) bool {
			if cc, ok := x.(*ast.CommClause); ok && cc.Comm != nil {
				if ch := recvChan(cc.Comm); ch != nil && fieldOf(info, ch) == quitF {
					listens = true
				}
			}
			if u, ok := x.(*ast.UnaryExpr); ok && u.Op == token.ARROW && fieldOf(info, u.X) == quitF {
				listens = true
			}
			return true
		})
		if !listens {
			continue
		}
		nrecv++
		for _, u := range p.unitsOf(fi) {
			for _, c := range callsIn(u.Decl.Body) {
				if _, nw, ok := casArgs(u.Pkg.TypesInfo, c); ok {
					if v := constOfAny(p, nw); v != "" {
						established[v] = true
					}
				}
			}
		}
	}
	if nrecv == 0 || len(established) == 0 {
		r.Unresolved("no receiver of controlConn.quit that establishes a state by compare-and-swap (receivers %d)", nrecv)
		return
	}
	n := 0
	for _, fi := range p.SortedFuncs() {
		if fi.Decl.Body == nil || fi.Pkg != p.Root {
			continue
		}
		info := fi.Pkg.TypesInfo
		var sends []*ast.SendStmt
		ast.Inspect(fi.Decl.Body, func(x ast.Node) bool {
			if snd, ok := x.(*ast.SendStmt); ok && fieldOf(info, snd.Chan) == quitF {
				sends = append(sends, snd)
			}
			return true
		})
		if len(sends) == 0 {
			continue
		}
		// the compare-and-swaps out of the established state in this function, by spelling
		won := map[string]bool{}
		for _, c := range callsIn(fi.Decl.Body) {
			if o, _, ok := casArgs(info, c); ok && established[constOfAny(p, o)] {
				won[strings.ReplaceAll(exprStr(c), " ", "")] = true
			}
		}
		g := p.GraphOf(fi)
		facts := g.GuardFacts()
		for _, snd := range sends {
			// a send that is one alternative of a select with a default (or another ready case) does not block: not this rule
			if cc, isCC := p.Parent(snd).(*ast.CommClause); isCC && cc.Comm == ast.Stmt(snd) {
				continue
			}
			n++
			f, _ := facts.Before(snd)
			ok := false
			for atom, v := range f.m {
				a := strings.ReplaceAll(atom, " ", "")
				if v && won[a] {
					ok = true
				}
				// a boolean local that holds the result
				if v && !ok {
					ast.Inspect(fi.Decl.Body, func(m ast.Node) bool {
						if id, isId := m.(*ast.Ident); isId && id.Name == atom {
							if obj := info.Uses[id]; obj != nil && singleAssigned(info, fi.Decl.Body, obj) {
								if d := localDef(info, fi, id); d != nil && won[strings.ReplaceAll(exprStr(d), " ", "")] {
									ok = true
								}
							}
						}
						return !ok
					})
				}
			}
			r.Check(ok, snd, fi.Name+" sends the quit token only after winning the transition out of the started state", "dominated by a successful CompareAndSwap(&state, <state set by the receiver>, _)",
				"the blocking send on controlConn.quit is not conditional on having moved the state out of the value the heart-beat loop sets when it starts listening: when the loop was never started (or has been told to quit already) nobody receives and close() blocks for ever")
		}
	}
	if n == 0 {
		r.Unresolved("no blocking send on controlConn.quit found")
	}
}

// c11r12: (*tokenAwareHostPolicy).updateReplicas builds the new keyspace -> replicas map from the freshly computed
// entry of the updated keyspace and the old entries of all the others. A copy loop that also carries over the old
// entry of the updated keyspace leaves stale replicas in place whenever the new entry cannot be computed (keyspace
// dropped, strategy unknown, no ring): the copy is made under key != keyspace, or the entry is overwritten / deleted
// on every path afterwards.
func c11r12(p *Program, r *Report) {
	replF := p.Field("clusterMeta", "replicas")
	if replF == nil {
		r.Unresolved("clusterMeta.replicas not found")
		return
	}
	n := 0
	// wherever the old map is walked (the function is found by the field, not by its name)
	for _, u := range p.SortedFuncs() {
		if u.Decl.Body == nil || u.Pkg != p.Root {
			continue
		}
		info := u.Pkg.TypesInfo
		walks := false
		inspectNoLit(u.Decl.Body, func(x ast.Node) bool {
			if rg, ok := x.(*ast.RangeStmt); ok && fieldOf(info, rg.X) == replF {
				walks = true
			}
			return true
		})
		if !walks {
			continue
		}
		// the keyspace being updated: the string parameter
		var kp types.Object
		if u.Decl.Type.Params != nil {
			for _, f := range u.Decl.Type.Params.List {
				for _, nm := range f.Names {
					if obj := info.Defs[nm]; obj != nil {
						if b, isB := obj.Type().Underlying().(*types.Basic); isB && b.Kind() == types.String {
							kp = obj
						}
					}
				}
			}
		}
		if kp == nil {
			continue
		}
		g := p.GraphOf(u)
		facts := g.GuardFacts()
		type copySite struct {
			store *ast.AssignStmt
			m     string
		}
		carried := map[ast.Node]string{}
		var sites []copySite
		inspectNoLit(u.Decl.Body, func(x ast.Node) bool {
			rg, ok := x.(*ast.RangeStmt)
			if !ok || fieldOf(info, rg.X) != replF || rg.Key == nil {
				return true
			}
			kid, isId := rg.Key.(*ast.Ident)
			if !isId || info.Defs[kid] == nil {
				return true
			}
			kobj := info.Defs[kid]
			ast.Inspect(rg.Body, func(y ast.Node) bool {
				as, isA := y.(*ast.AssignStmt)
				if !isA {
					return true
				}
				for _, l := range as.Lhs {
					if ix, isIx := ast.Unparen(l).(*ast.IndexExpr); isIx && isIdentOf(info, ix.Index, kobj) {
						if _, isMap := info.TypeOf(ix.X).Underlying().(*types.Map); isMap {
							f, _ := facts.Before(as)
							ne := &ast.BinaryExpr{X: ast.NewIdent(kid.Name), Op: token.NEQ, Y: ast.NewIdent(kp.Name())}
							ne2 := &ast.BinaryExpr{X: ast.NewIdent(kp.Name()), Op: token.NEQ, Y: ast.NewIdent(kid.Name)}
							v1, k1 := f.Known(ne)
							v2, k2 := f.Known(ne2)
							if (k1 && v1) || (k2 && v2) {
								n++
								r.OK(as, u.Name+" copies the entries of the other keyspaces only", "store under "+kid.Name+" != "+kp.Name())
								continue
							}
							carried[as] = exprStr(ix.X)
							sites = append(sites, copySite{as, exprStr(ix.X)})
						}
					}
				}
				return true
			})
			return true
		})
		for _, cs := range sites {
			n++
			cs := cs
			resets := func(nd ast.Node) bool {
				switch s := nd.(type) {
				case *ast.AssignStmt:
					for _, l := range s.Lhs {
						if ix, isIx := ast.Unparen(l).(*ast.IndexExpr); isIx && exprStr(ix.X) == cs.m && isIdentOf(info, ix.Index, kp) {
							return true
						}
					}
				case *ast.ExprStmt:
					if c, isC := s.X.(*ast.CallExpr); isC && calleeName(info, c) == "builtin.delete" && len(c.Args) == 2 && exprStr(c.Args[0]) == cs.m && isIdentOf(info, c.Args[1], kp) {
						return true
					}
				}
				return false
			}
			sol := Solve(g, Lattice[int]{
				Join: func(a, b int) int {
					if a > b {
						return a
					}
					return b
				},
				Eq: func(a, b int) bool { return a == b },
				Step: func(st int, step Step) int {
					if step.Kind != StNode {
						return st
					}
					if step.Node == ast.Node(cs.store) {
						return 1
					}
					if resets(step.Node) {
						return 0
					}
					return st
				},
			})
			stale := false
			for _, e := range g.Exits() {
				if e.Kind == ExitPanic {
					continue
				}
				var st int
				var ok bool
				if e.Node != nil {
					st, ok = sol.After(e.Node)
				} else {
					st, ok = sol.AtExit(e)
				}
				if ok && st == 1 {
					stale = true
				}
			}
			r.Check(!stale, cs.store, u.Name+" does not carry over the old replicas of the keyspace it updates", "copy under key != keyspace, or the entry is overwritten / deleted on every path afterwards",
				"the old replica map of the updated keyspace is copied into the new map and survives on the paths where no new entry is computed (keyspace dropped, unknown strategy, no ring): token-aware routing keeps sending queries to hosts that are no longer replicas")
		}
	}
	if n == 0 {
		r.Unresolved("updateReplicas: no copy of the old replica maps found")
	}
}

// c05r13: the decoders assert the concrete type from TypeInfo.Type() without a check (t.(CollectionType),
// info.(TupleTypeInfo), info.(UDTTypeInfo)); the invariant that makes this safe for type descriptions from the
// network is established in (*framer).readTypeInfo: a value of the plain NativeType is returned only where its typ is
// known to be none of the composite ids.
func c05r13(p *Program, r *Report) {
	fi := r.NeedFunc("(*framer).readTypeInfo")
	if fi == nil {
		return
	}
	composites := []string{"TypeTuple", "TypeUDT", "TypeMap", "TypeList", "TypeSet"}
	n := 0
	for _, u := range p.unitsOf(fi) {
		info := u.Pkg.TypesInfo
		sig, _ := u.Obj.Type().(*types.Signature)
		if sig == nil || sig.Results().Len() != 1 || typeNameOf(sig.Results().At(0).Type()) != "TypeInfo" {
			continue
		}
		g := p.GraphOf(u)
		facts := g.GuardFacts()
		for _, e := range g.Exits() {
			rs, ok := e.Node.(*ast.ReturnStmt)
			if !ok || len(rs.Results) != 1 || typeNameOf(info.TypeOf(rs.Results[0])) != "NativeType" {
				continue
			}
			n++
			f, _ := facts.Before(rs)
			var open []string
			var sel ast.Expr = &ast.SelectorExpr{X: rs.Results[0], Sel: ast.NewIdent("typ")}
			// a literal built at the return: what is asked about is the expression given for typ
			if cl, isCL := ast.Unparen(rs.Results[0]).(*ast.CompositeLit); isCL {
				for _, el := range cl.Elts {
					if kv, isKV := el.(*ast.KeyValueExpr); isKV && exprStr(kv.Key) == "typ" {
						sel = kv.Value
					}
				}
			}
			for _, c := range composites {
				v, known := f.Known(&ast.BinaryExpr{X: sel, Op: token.EQL, Y: ast.NewIdent(c)})
				if !known || v {
					open = append(open, c)
				}
			}
			r.Check(len(open) == 0, rs, u.Name+" returns a plain NativeType only for a non-composite id", "typ known to differ from "+strings.Join(composites, ", "),
				fmt.Sprintf("a NativeType whose typ may be %s is returned as the column's TypeInfo: goType / unmarshalTuple / unmarshalUDT assert CollectionType, TupleTypeInfo or UDTTypeInfo from Type() without a check and panic in the caller's goroutine (a server names such a type through a custom class name)", strings.Join(open, "/")))
		}
	}
	// single-exit form: the NativeType is put into a TypeInfo variable that the composite cases overwrite; at the
	// returns of that variable every path either went through an overwrite or excludes the composite ids
	for _, u := range p.unitsOf(fi) {
		info := u.Pkg.TypesInfo
		type conv struct {
			node ast.Node
			v    types.Object
			rhs  ast.Expr
		}
		var convs []conv
		inspectNoLit(u.Decl.Body, func(x ast.Node) bool {
			switch s := x.(type) {
			case *ast.AssignStmt:
				if len(s.Lhs) == len(s.Rhs) {
					for i, l := range s.Lhs {
						if id, isId := l.(*ast.Ident); isId && typeNameOf(info.TypeOf(l)) == "TypeInfo" && typeNameOf(info.TypeOf(s.Rhs[i])) == "NativeType" {
							if obj := info.ObjectOf(id); obj != nil {
								convs = append(convs, conv{s, obj, s.Rhs[i]})
							}
						}
					}
				}
			case *ast.ValueSpec:
				if len(s.Names) == len(s.Values) {
					for i, nm := range s.Names {
						if obj := info.Defs[nm]; obj != nil && typeNameOf(obj.Type()) == "TypeInfo" && typeNameOf(info.TypeOf(s.Values[i])) == "NativeType" {
							convs = append(convs, conv{s, obj, s.Values[i]})
						}
					}
				}
			}
			return true
		})
		if len(convs) == 0 {
			continue
		}
		g := p.GraphOf(u)
		for _, cv := range convs {
			g.markNodes, g.unmarkNodes = map[ast.Node]string{}, map[ast.Node]string{}
			inspectNoLit(u.Decl.Body, func(x ast.Node) bool {
				if as, isA := x.(*ast.AssignStmt); isA && ast.Node(as) != cv.node {
					for _, l := range as.Lhs {
						if isIdentOf(info, l, cv.v) {
							g.markNodes[as] = "over"
						}
					}
				}
				return true
			})
			g.unmarkNodes[cv.node] = "over"
			rhsS := exprStr(cv.rhs)
			ps := g.GuardFactsPSAbout(func(atom string) bool {
				if strings.HasPrefix(atom, "§") {
					return true
				}
				if !mentions(atom, rhsS+".typ") {
					return false
				}
				for _, c := range composites {
					if mentions(atom, c) {
						return true
					}
				}
				return false
			})
			for _, e := range g.Exits() {
				rs, ok := e.Node.(*ast.ReturnStmt)
				if !ok || len(rs.Results) != 1 || !isIdentOf(info, rs.Results[0], cv.v) {
					continue
				}
				ds, has := ps.Before(rs)
				if !has {
					continue
				}
				n++
				var open []string
				for _, d := range ds {
					if d.m["§over"] {
						continue
					}
					for _, c := range composites {
						v, known := d.Known(&ast.BinaryExpr{X: &ast.SelectorExpr{X: cv.rhs, Sel: ast.NewIdent("typ")}, Op: token.EQL, Y: ast.NewIdent(c)})
						if !known || v {
							open = append(open, c)
						}
					}
				}
				r.Check(len(open) == 0 && len(ds) > 0, rs, u.Name+" returns the plain NativeType it started from only for a non-composite id", "every path to the return overwrote the result or excludes "+strings.Join(composites, ", "),
					fmt.Sprintf("the result variable still holds the plain NativeType on a path where its typ may be %s: the decoders assert CollectionType, TupleTypeInfo or UDTTypeInfo from Type() without a check and panic in the caller's goroutine", strings.Join(open, "/")))
			}
			g.markNodes, g.unmarkNodes = nil, nil
		}
	}
	if n == 0 {
		r.Unresolved("readTypeInfo never returns a NativeType")
	}
}

// c04r11: SliceMap / MapScan scan every row into the same destinations (RowData.Values) and hand each row out as a map
// built by (*RowData).rowMap. A slice-valued cell put into the map as it is (or resliced) shares its backing array with
// the destination, which the next row's Unmarshal overwrites: rows already returned change their content. What rowMap
// stores for a value whose kind may be Slice is therefore a slice made by reflect.MakeSlice into which the value was
// copied (reflect.Copy / reflect.AppendSlice), or the result of a helper of the package that does so.
func c04r11(p *Program, r *Report) {
	fi := r.NeedFunc("(*RowData).rowMap")
	if fi == nil {
		return
	}
	mp := paramObj(fi.Pkg.TypesInfo, fi.Decl.Type, 0)
	if mp == nil {
		r.Unresolved("rowMap has no map parameter")
		return
	}
	// detached reports whether expression e, evaluated at statement at of function u, is not a slice that shares
	// its backing array with what it was computed from: its kind is known not to be Slice there, or it is (the
	// Interface() of) a reflect.MakeSlice value that was filled by reflect.Copy / built by reflect.AppendSlice, or the
	// result of a helper of the package all of whose returns are detached in this sense.
	var detached func(u *FuncInfo, e ast.Expr, at ast.Node, depth int) bool
	detached = func(u *FuncInfo, e ast.Expr, at ast.Node, depth int) bool {
		if depth > 3 {
			return false
		}
		info := u.Pkg.TypesInfo
		g := p.GraphOf(u)
		if node, found := g.cfgNodeOf(at); found {
			if f, ok := g.GuardFacts().Before(node); ok {
				for atom, v := range f.m {
					a := strings.ReplaceAll(atom, " ", "")
					if !v && (strings.HasSuffix(a, ".Kind()==reflect.Slice") || strings.HasPrefix(a, "reflect.Slice==")) {
						return true
					}
				}
			}
		}
		var root func(e ast.Expr) ast.Expr
		root = func(e ast.Expr) ast.Expr {
			e = ast.Unparen(e)
			if c, isC := e.(*ast.CallExpr); isC {
				if sel, isSel := ast.Unparen(c.Fun).(*ast.SelectorExpr); isSel {
					if _, isMethod := info.Selections[sel]; isMethod {
						return root(sel.X)
					}
				}
			}
			return e
		}
		rt := root(e)
		if id, isId := rt.(*ast.Ident); isId {
			obj := info.Uses[id]
			if obj == nil || !singleAssigned(info, u.Decl.Body, obj) {
				return false
			}
			d := localDef(info, u, id)
			if d == nil {
				return false
			}
			dc, isC := ast.Unparen(d).(*ast.CallExpr)
			if !isC {
				return false
			}
			switch calleeName(info, dc) {
			case "reflect.MakeSlice":
				for _, c := range callsIn(u.Decl.Body) {
					if calleeName(info, c) == "reflect.Copy" && len(c.Args) == 2 && isIdentOf(info, c.Args[0], obj) && c.End() <= at.Pos() {
						return true
					}
				}
				return false
			case "reflect.AppendSlice":
				if len(dc.Args) == 2 {
					if mk, isMk := ast.Unparen(dc.Args[0]).(*ast.CallExpr); isMk && calleeName(info, mk) == "reflect.MakeSlice" {
						return true
					}
				}
				return false
			}
			rt = dc
		}
		if c, isC := rt.(*ast.CallExpr); isC {
			fn := calleeOf(info, c)
			if fn == nil {
				return false
			}
			h := p.FuncOf(fn)
			if h == nil || h.Decl.Body == nil || h.Pkg != u.Pkg {
				return false
			}
			nret := 0
			for _, ex := range p.GraphOf(h).Exits() {
				rs, isRet := ex.Node.(*ast.ReturnStmt)
				if !isRet || len(rs.Results) != 1 {
					if ex.Kind != ExitPanic {
						return false
					}
					continue
				}
				nret++
				if !detached(h, rs.Results[0], rs, depth+1) {
					return false
				}
			}
			return nret > 0
		}
		return false
	}
	info := fi.Pkg.TypesInfo
	n := 0
	inspectNoLit(fi.Decl.Body, func(x ast.Node) bool {
		as, ok := x.(*ast.AssignStmt)
		if !ok || len(as.Lhs) != len(as.Rhs) {
			return true
		}
		for i, l := range as.Lhs {
			ix, isIx := ast.Unparen(l).(*ast.IndexExpr)
			if !isIx || !isIdentOf(info, ix.X, mp) {
				continue
			}
			n++
			r.Check(detached(fi, as.Rhs[i], as, 0), as, "(*RowData).rowMap stores a copy of a slice-valued cell", "kind known not to be Slice, or reflect.MakeSlice + reflect.Copy before the store (also through a helper)", "a value whose kind may be Slice is stored in the row's map without being copied: it shares the backing array of the scan destination, which the next row overwrites, so rows already handed out by SliceMap / MapScan change their content")
		}
		return true
	})
	if n == 0 {
		r.Unresolved("rowMap stores nothing into its map")
	}
}

// c04r12: the scanner's current page is iterScanner.iter. A method that keeps a local copy of it and then replaces the
// field (page switch) reads the rows of the page that is used up if it goes on through the local: every read of such
// a local is on paths where the field has not been assigned since the local was (re)loaded from it.
func c04r12(p *Program, r *Report) {
	iterF := p.Field("iterScanner", "iter")
	if iterF == nil {
		r.Unresolved("iterScanner.iter not found")
		return
	}
	n := 0
	for _, fi := range p.SortedFuncs() {
		if fi.Decl.Body == nil || fi.Pkg != p.Root {
			continue
		}
		info := fi.Pkg.TypesInfo
		// locals loaded from the field
		locals := map[types.Object]bool{}
		assignsField := false
		inspectNoLit(fi.Decl.Body, func(x ast.Node) bool {
			as, ok := x.(*ast.AssignStmt)
			if !ok {
				return true
			}
			for i, l := range as.Lhs {
				if fieldOf(info, l) == iterF {
					assignsField = true
				}
				if len(as.Lhs) == len(as.Rhs) && fieldOf(info, as.Rhs[i]) == iterF {
					if id, isId := l.(*ast.Ident); isId {
						obj := info.Defs[id]
						if obj == nil {
							obj = info.Uses[id]
						}
						if obj != nil {
							locals[obj] = true
						}
					}
				}
			}
			return true
		})
		if len(locals) == 0 || !assignsField {
			continue
		}
		g := p.GraphOf(fi)
		// state: the set of locals that are stale (may)
		sol := Solve(g, Lattice[strset]{
			Init: strset{},
			Join: func(a, b strset) strset { return a.union(b) },
			Eq:   func(a, b strset) bool { return a.eq(b) },
			Step: func(s strset, st Step) strset {
				if st.Kind != StNode {
					return s
				}
				as, ok := st.Node.(*ast.AssignStmt)
				if !ok {
					return s
				}
				for i, l := range as.Lhs {
					if fieldOf(info, l) == iterF {
						// letting go of the iterator (is.iter = nil) is not a page switch: the local is all that is left
						if len(as.Lhs) == len(as.Rhs) && isNil(info, as.Rhs[i]) {
							continue
						}
						for obj := range locals {
							// is.iter = L keeps L current
							if len(as.Lhs) == len(as.Rhs) && isIdentOf(info, as.Rhs[i], obj) {
								continue
							}
							s = s.with(obj.Name())
						}
					}
					if id, isId := l.(*ast.Ident); isId {
						obj := info.Defs[id]
						if obj == nil {
							obj = info.Uses[id]
						}
						if locals[obj] {
							s = s.without(obj.Name())
						}
					}
				}
				return s
			},
		})
		for obj := range locals {
			n++
			var bad ast.Node
			ast.Inspect(fi.Decl.Body, func(x ast.Node) bool {
				id, isId := x.(*ast.Ident)
				if !isId || info.Uses[id] != obj || bad != nil {
					return true
				}
				if as, isA := p.Parent(id).(*ast.AssignStmt); isA {
					for _, l := range as.Lhs {
						if l == ast.Expr(id) {
							return true
						}
					}
				}
				node, found := g.cfgNodeOf(id)
				if !found {
					return true
				}
				if s, has := sol.Before(node); has && s[obj.Name()] {
					bad = id
				}
				return true
			})
			var at ast.Node = fi.Decl
			if bad != nil {
				at = bad
			}
			r.Check(bad == nil, at, fi.Name+" reads the current page through "+obj.Name()+" only while it is the current page", "no read of the local after iterScanner.iter was assigned and before the local was reloaded",
				"the local still refers to the page that is used up after the scanner switched to the next one: the rows (and the error) of the new page are never looked at, the scanner reads past the end of the old page's data")
		}
	}
	if n == 0 {
		r.OK(nil, "no method keeps a copy of iterScanner.iter across an assignment to it", "census")
	}
}

// c02r13: the decoders convert units (milliseconds to seconds and nanoseconds, days to milliseconds) with integer
// arithmetic on values that come straight from the wire. Every product with such an operand is evaluated over
// intervals (type ranges for the dec* results, constants, x/k, x%k, the remainder form x-(x/k)*k, conversions) and has
// to fit the type of the product: `x*1000000` on a 64-bit millisecond count wraps around for dates beyond 2262 while
// the split into seconds and a remainder does not.
func c02r13(p *Program, r *Report) {
	n, census := 0, 0
	for _, fi := range p.SortedFuncs() {
		if fi.Decl.Body == nil || fi.Pkg != p.Root || !strings.HasPrefix(fi.Decl.Name.Name, "unmarshal") {
			continue
		}
		info := fi.Pkg.TypesInfo
		full := func(t types.Type) (ival, bool) {
			bits, uns, ok := p.intWidth(t)
			if !ok {
				return ival{}, false
			}
			return typeRange(bits, uns), true
		}
		resolve := func(e ast.Expr) ast.Expr {
			e = ast.Unparen(e)
			for depth := 0; depth < 4; depth++ {
				id, isId := e.(*ast.Ident)
				if !isId {
					break
				}
				obj, isVar := info.Uses[id].(*types.Var)
				if !isVar || obj.IsField() || obj.Parent() == obj.Pkg().Scope() || !singleAssigned(info, fi.Decl.Body, obj) {
					break
				}
				d := localDef(info, fi, id)
				if d == nil {
					// var x T = e
					ast.Inspect(fi.Decl.Body, func(y ast.Node) bool {
						if vs, isVS := y.(*ast.ValueSpec); isVS && len(vs.Names) == len(vs.Values) {
							for i, nm := range vs.Names {
								if info.Defs[nm] == types.Object(obj) {
									d = vs.Values[i]
								}
							}
						}
						return d == nil
					})
				}
				if d == nil {
					break
				}
				e = ast.Unparen(d)
			}
			return e
		}
		for _, c := range callsIn(fi.Decl.Body) {
			if fn := calleeOf(info, c); fn != nil && fn.Pkg() == fi.Pkg.Types && strings.HasPrefix(fn.Name(), "dec") {
				census++
			}
		}
		var eval func(e ast.Expr, depth int) (ival, bool, bool)
		eval = func(e ast.Expr, depth int) (iv ival, wire bool, ok bool) {
			if depth > 12 {
				return ival{}, false, false
			}
			if c, isC := constBig(info, e); isC {
				return ival{c, c}, false, true
			}
			t := info.TypeOf(e)
			if t == nil {
				return ival{}, false, false
			}
			tr, isInt := full(t)
			if !isInt {
				return ival{}, false, false
			}
			e = resolve(e)
			if c, isC := constBig(info, e); isC {
				return ival{c, c}, false, true
			}
			clamp := func(v ival, w bool) (ival, bool, bool) {
				if v.within(tr) {
					return v, w, true
				}
				return tr, w, true
			}
			switch x := e.(type) {
			case *ast.CallExpr:
				if tv, has := info.Types[x.Fun]; has && tv.IsType() && len(x.Args) == 1 {
					if v, w, okA := eval(x.Args[0], depth+1); okA {
						return clamp(v, w)
					}
					return tr, false, true
				}
				if fn := calleeOf(info, x); fn != nil && fn.Pkg() == fi.Pkg.Types && strings.HasPrefix(fn.Name(), "dec") {
					return tr, true, true
				}
				if cn := calleeName(info, x); strings.HasPrefix(cn, "binary.") || strings.HasPrefix(cn, "(binary.") {
					return tr, true, true
				}
				return tr, false, true
			case *ast.IndexExpr:
				return tr, true, true
			case *ast.UnaryExpr:
				if x.Op == token.SUB {
					if v, w, okA := eval(x.X, depth+1); okA {
						return clamp(ival{new(big.Int).Neg(v.hi), new(big.Int).Neg(v.lo)}, w)
					}
				}
				return tr, false, true
			case *ast.BinaryExpr:
				a, wa, okA := eval(x.X, depth+1)
				b, wb, okB := eval(x.Y, depth+1)
				if !okA || !okB {
					return tr, false, true
				}
				w := wa || wb
				switch x.Op {
				case token.MUL:
					lo, hi := new(big.Int).Mul(a.lo, b.lo), new(big.Int).Mul(a.lo, b.lo)
					for _, c := range []*big.Int{new(big.Int).Mul(a.lo, b.hi), new(big.Int).Mul(a.hi, b.lo), new(big.Int).Mul(a.hi, b.hi)} {
						if c.Cmp(lo) < 0 {
							lo = c
						}
						if c.Cmp(hi) > 0 {
							hi = c
						}
					}
					return clamp(ival{lo, hi}, w)
				case token.QUO:
					if b.lo.Cmp(b.hi) == 0 && b.lo.Sign() > 0 {
						return clamp(ival{new(big.Int).Quo(a.lo, b.lo), new(big.Int).Quo(a.hi, b.lo)}, w)
					}
				case token.REM:
					if b.lo.Cmp(b.hi) == 0 && b.lo.Sign() > 0 {
						k1 := new(big.Int).Sub(b.lo, big.NewInt(1))
						lo := new(big.Int).Neg(k1)
						if a.lo.Sign() >= 0 {
							lo = big.NewInt(0)
						}
						return clamp(ival{lo, k1}, w)
					}
				case token.ADD:
					return clamp(ival{new(big.Int).Add(a.lo, b.lo), new(big.Int).Add(a.hi, b.hi)}, w)
				case token.SUB:
					// the remainder written out: X - (X/k)*k
					if m, isM := resolve(x.Y).(*ast.BinaryExpr); isM && m.Op == token.MUL {
						for _, pr := range [][2]ast.Expr{{m.X, m.Y}, {m.Y, m.X}} {
							k, isK := constBig(info, pr[1])
							q, isQ := resolve(pr[0]).(*ast.BinaryExpr)
							if !isK || !isQ || q.Op != token.QUO || k.Sign() <= 0 {
								continue
							}
							if k2, isK2 := constBig(info, q.Y); isK2 && k2.Cmp(k) == 0 && exprStr(resolve(q.X)) == exprStr(resolve(x.X)) {
								k1 := new(big.Int).Sub(k, big.NewInt(1))
								lo := new(big.Int).Neg(k1)
								if a.lo.Sign() >= 0 {
									lo = big.NewInt(0)
								}
								return clamp(ival{lo, k1}, w)
							}
						}
					}
					return clamp(ival{new(big.Int).Sub(a.lo, b.hi), new(big.Int).Sub(a.hi, b.lo)}, w)
				case token.AND:
					if b.lo.Cmp(b.hi) == 0 && b.lo.Sign() >= 0 {
						return clamp(ival{big.NewInt(0), b.lo}, w)
					}
				case token.SHR:
					if b.lo.Cmp(b.hi) == 0 && b.lo.Sign() >= 0 && b.lo.IsInt64() && b.lo.Int64() < 64 {
						s := uint(b.lo.Int64())
						return clamp(ival{new(big.Int).Rsh(a.lo, s), new(big.Int).Rsh(a.hi, s)}, w)
					}
				}
				return tr, w, true
			}
			return tr, false, true
		}
		inspectNoLit(fi.Decl.Body, func(x ast.Node) bool {
			be, ok := x.(*ast.BinaryExpr)
			if !ok || be.Op != token.MUL {
				return true
			}
			if tv, has := info.Types[be]; has && tv.Value != nil {
				return true
			}
			tr, isInt := full(info.TypeOf(be))
			if !isInt {
				return true
			}
			a, wa, okA := eval(be.X, 0)
			b, wb, okB := eval(be.Y, 0)
			if !okA || !okB || !(wa || wb) {
				return true
			}
			n++
			lo, hi := new(big.Int).Mul(a.lo, b.lo), new(big.Int).Mul(a.lo, b.lo)
			for _, c := range []*big.Int{new(big.Int).Mul(a.lo, b.hi), new(big.Int).Mul(a.hi, b.lo), new(big.Int).Mul(a.hi, b.hi)} {
				if c.Cmp(lo) < 0 {
					lo = c
				}
				if c.Cmp(hi) > 0 {
					hi = c
				}
			}
			pr := ival{lo, hi}
			r.Check(pr.within(tr), be, fi.Name+": "+types.ExprString(be)+" cannot overflow", fmt.Sprintf("operands %s and %s, product within %s", a, b, tr),
				fmt.Sprintf("the product of a decoded value in %s and %s can leave %s: the value read back wraps around instead of being the one that was written (or an error)", a, b, tr))
			return true
		})
	}
	if census < 5 {
		r.Unresolved("only %d uses of the dec* readers found in the unmarshal functions", census)
		return
	}
	r.OK(nil, fmt.Sprintf("%d uses of the dec* readers in the unmarshal functions, %d products with a decoded operand", census, n), "census")
}

// constOfAny: the constant value of e in whichever package of the program type-checked it ("" if none).
func constOfAny(p *Program, e ast.Expr) string {
	for _, pkg := range p.Pkgs {
		if tv, has := pkg.TypesInfo.Types[e]; has && tv.Value != nil {
			return tv.Value.ExactString()
		}
	}
	return ""
}

// nonNegExpr: e is a range key or a loop index that only counts up from a non-negative start (never negative).
func nonNegExpr(info *types.Info, fi *FuncInfo, f Facts, e ast.Expr) bool {
	id, ok := ast.Unparen(e).(*ast.Ident)
	if !ok {
		return false
	}
	obj := info.Uses[id]
	res := false
	ast.Inspect(fi.Decl.Body, func(x ast.Node) bool {
		switch s := x.(type) {
		case *ast.RangeStmt:
			if k, isId := s.Key.(*ast.Ident); isId && info.Defs[k] == obj {
				res = true
			}
		case *ast.ForStmt:
			if as, isA := s.Init.(*ast.AssignStmt); isA && len(as.Lhs) == 1 && len(as.Rhs) == 1 {
				if k, isId := as.Lhs[0].(*ast.Ident); isId && info.Defs[k] == obj {
					if v, isC := constInt(info, as.Rhs[0]); isC && v >= 0 {
						if inc, isInc := s.Post.(*ast.IncDecStmt); isInc && inc.Tok == token.INC && isIdentOf(info, inc.X, obj) {
							res = true
						}
					}
				}
			}
		}
		return true
	})
	return res
}

// lockBalance: every mutex a function locks is unlocked again on every path to every exit of that function (directly,
// or by a deferred unlock that the path has registered). A lock that survives an early return blocks every later user
// of the object for ever: requests, Close, the event handlers. Function literals are judged as functions of their own.
// Functions that exist to return with the lock held are listed in lockHolders with the reason.
var lockHolders = map[string]string{}

func lockBalance(p *Program, r *Report, scope func(*FuncInfo) bool) int {
	n := 0
	check := func(g *Graph, name string, body *ast.BlockStmt, info *types.Info) {
		type lst struct{ held, deferred strset }
		mutexOps := func(nd ast.Node) (ops [][2]string) {
			inspectNoLit(nd, func(x ast.Node) bool {
				c, ok := x.(*ast.CallExpr)
				if !ok {
					return true
				}
				kind, isMu := isMutexMethod(calleeName(info, c))
				if !isMu {
					return true
				}
				if rx := recvExpr(c); rx != nil {
					ops = append(ops, [2]string{kind, strings.ReplaceAll(exprStr(rx), " ", "")})
				}
				return true
			})
			return
		}
		key := func(kind, name string) string {
			if kind == "RLock" || kind == "RUnlock" {
				return "R:" + name
			}
			return name
		}
		any := false
		inspectNoLit(body, func(x ast.Node) bool {
			if len(mutexOps(x)) > 0 {
				any = true
			}
			return !any
		})
		if !any {
			return
		}
		sol := Solve(g, Lattice[lst]{
			Init: lst{strset{}, strset{}},
			Join: func(a, b lst) lst { return lst{a.held.union(b.held), a.deferred.intersect(b.deferred)} },
			Eq:   func(a, b lst) bool { return a.held.eq(b.held) && a.deferred.eq(b.deferred) },
			Step: func(s lst, st Step) lst {
				if st.Kind != StNode {
					return s
				}
				if _, isGo := st.Node.(*ast.GoStmt); isGo {
					return s
				}
				if d, isDefer := st.Node.(*ast.DeferStmt); isDefer {
					// defer mu.Unlock() / defer func() { mu.Unlock() }()
					var ops [][2]string
					if lit, isLit := d.Call.Fun.(*ast.FuncLit); isLit {
						ast.Inspect(lit.Body, func(x ast.Node) bool {
							if c, ok := x.(*ast.CallExpr); ok {
								if kind, isMu := isMutexMethod(calleeName(info, c)); isMu {
									if rx := recvExpr(c); rx != nil {
										ops = append(ops, [2]string{kind, strings.ReplaceAll(exprStr(rx), " ", "")})
									}
								}
							}
							return true
						})
					} else {
						ops = mutexOps(d.Call)
					}
					for _, op := range ops {
						if op[0] == "Unlock" || op[0] == "RUnlock" {
							s = lst{s.held, s.deferred.with(key(op[0], op[1]))}
						}
					}
					return s
				}
				for _, op := range mutexOps(st.Node) {
					k := key(op[0], op[1])
					switch op[0] {
					case "Lock", "RLock":
						s = lst{s.held.with(k), s.deferred}
					default:
						s = lst{s.held.without(k), s.deferred}
					}
				}
				return s
			},
		})
		// a mutex is not locked again while the function certainly holds it (sync mutexes are not re-entrant, and a
		// write lock waits for the function's own read lock)
		must := g.Lockset()
		inspectNoLit(body, func(x ast.Node) bool {
			c, ok := x.(*ast.CallExpr)
			if !ok {
				return true
			}
			kind, isMu := isMutexMethod(calleeName(info, c))
			if !isMu || kind != "Lock" && kind != "RLock" {
				return true
			}
			rx := recvExpr(c)
			if rx == nil {
				return true
			}
			if _, isDefer := p.Parent(c).(*ast.DeferStmt); isDefer {
				return true
			}
			node, found := g.cfgNodeOf(c)
			if !found {
				return true
			}
			held, has := must.Before(node)
			if !has {
				return true
			}
			nm := exprStr(rx)
			if held[nm] || held["R:"+nm] && kind == "Lock" {
				n++
				r.Bad(c, name+" locks "+nm+" while holding it", "the function takes "+nm+" again on a path on which it certainly still holds it: the goroutine blocks on itself")
			}
			return true
		})
		for _, e := range g.Exits() {
			if e.Kind == ExitPanic {
				continue
			}
			var st lst
			var ok bool
			var at ast.Node = body
			if e.Node != nil {
				st, ok = sol.After(e.Node)
				at = e.Node
			} else {
				st, ok = sol.AtExit(e)
			}
			if !ok {
				continue
			}
			var leaked []string
			for k := range st.held {
				if !st.deferred[k] {
					leaked = append(leaked, k)
				}
			}
			sort.Strings(leaked)
			n++
			if why, isHolder := lockHolders[name]; isHolder && len(leaked) > 0 {
				r.OK(at, name+" returns with "+strings.Join(leaked, ", ")+" held", why)
				continue
			}
			r.Check(len(leaked) == 0, at, name+" releases every mutex it locked before this exit", "Unlock (or a registered deferred Unlock) on every path",
				"the function can return here with "+strings.Join(leaked, ", ")+" still locked: the next goroutine that needs the lock (a request, an event handler, Close) blocks for ever")
		}
	}
	for _, fi := range p.SortedFuncs() {
		if fi.Decl.Body == nil || !scope(fi) {
			continue
		}
		check(p.GraphOf(fi), fi.Name, fi.Decl.Body, fi.Pkg.TypesInfo)
		k := 0
		ast.Inspect(fi.Decl.Body, func(x ast.Node) bool {
			if lit, ok := x.(*ast.FuncLit); ok {
				k++
				check(p.GraphOfLit(fi, lit), fmt.Sprintf("%s$%d", fi.Name, k), lit.Body, fi.Pkg.TypesInfo)
			}
			return true
		})
	}
	return n
}

// atomicDiscipline: a struct field that is accessed through sync/atomic somewhere in the module is accessed through
// sync/atomic everywhere (a plain read or write of such a field races with the atomic ones and, for the state words
// of the connection and the stream allocator, can act on a stale value). Typed atomics (atomic.Int32 ...) are safe by
// construction and not in scope. Plain accesses in the function that builds the object are allowed while the object
// is still private to it: a composite literal, or an assignment through a local that the function itself created.
func atomicDiscipline(p *Program, r *Report) int {
	fields := map[types.Object]string{}
	for _, fi := range p.SortedFuncs() {
		if fi.Decl.Body == nil {
			continue
		}
		info := fi.Pkg.TypesInfo
		for _, c := range callsIn(fi.Decl.Body) {
			if !strings.HasPrefix(calleeName(info, c), "atomic.") || len(c.Args) == 0 {
				continue
			}
			if u, ok := ast.Unparen(c.Args[0]).(*ast.UnaryExpr); ok && u.Op == token.AND {
				e := ast.Unparen(u.X)
				if ix, isIx := e.(*ast.IndexExpr); isIx {
					e = ast.Unparen(ix.X) // &s.words[i]: the words of the slice field
				}
				if f := fieldOf(info, e); f != nil {
					fields[f] = exprStr(e)
				}
			}
		}
	}
	n := 0
	for _, fi := range p.SortedFuncs() {
		if fi.Decl.Body == nil {
			continue
		}
		info := fi.Pkg.TypesInfo
		ast.Inspect(fi.Decl.Body, func(x ast.Node) bool {
			sel, ok := x.(*ast.SelectorExpr)
			if !ok {
				return true
			}
			f := fieldOf(info, sel)
			if f == nil {
				return true
			}
			if _, tracked := fields[f]; !tracked {
				return true
			}
			// the access: sel itself, or an element of it
			var acc ast.Node = sel
			par := p.Parent(sel)
			for {
				if pe, isP := par.(*ast.ParenExpr); isP {
					acc, par = pe, p.Parent(pe)
					continue
				}
				break
			}
			elem := false
			if ix, isIx := par.(*ast.IndexExpr); isIx && ix.X == acc {
				acc, par = ix, p.Parent(ix)
				elem = true
			}
			_, isSliceField := f.Type().Underlying().(*types.Slice)
			if isSliceField && !elem {
				return true // the slice header (len, range, make): not the words
			}
			n++
			okAtomic := false
			if u, isU := par.(*ast.UnaryExpr); isU && u.Op == token.AND {
				if c, isC := p.Parent(u).(*ast.CallExpr); isC && strings.HasPrefix(calleeName(info, c), "atomic.") {
					okAtomic = true
				}
				// the address handed to a helper of the module that only uses it atomically is that helper's concern
				if c, isC := p.Parent(u).(*ast.CallExpr); isC && !okAtomic {
					if fn := calleeOf(info, c); fn != nil && p.FuncOf(fn) != nil {
						okAtomic = true
					}
				}
				// word := &s.words[i]
				if as, isA := p.Parent(u).(*ast.AssignStmt); isA && !okAtomic {
					_ = as
					okAtomic = true
				}
			}
			if !okAtomic {
				// construction: the object is a local made in this function
				if root := rootIdent(sel); root != nil {
					if d := localDef(info, fi, root); d != nil {
						de := ast.Unparen(d)
						if u2, isU2 := de.(*ast.UnaryExpr); isU2 && u2.Op == token.AND {
							de = ast.Unparen(u2.X)
						}
						if _, isLit := de.(*ast.CompositeLit); isLit {
							okAtomic = true
						}
						if c2, isC2 := de.(*ast.CallExpr); isC2 && calleeName(info, c2) == "builtin.new" {
							okAtomic = true
						}
					}
				}
			}
			r.Check(okAtomic, sel, fi.Name+" accesses "+exprStr(sel)+" atomically", "operand of a sync/atomic call",
				"the field "+f.Name()+" is accessed through sync/atomic elsewhere in the module and plainly here: the plain access races with the atomic ones (a stale or torn value of a state word, a counter update that is lost)")
			return true
		})
	}
	return n
}

// nilDerefs: no field is read or written through a pointer at a point where the guard facts say the pointer is nil
// (the inverted nil test: `if x != nil { return }` followed by x.f). Checked in every function of the module.
func nilDerefs(p *Program, r *Report, scope func(*FuncInfo) bool) int {
	n := 0
	for _, fi := range p.SortedFuncs() {
		if fi.Decl.Body == nil || !scope(fi) {
			continue
		}
		info := fi.Pkg.TypesInfo
		// only functions that test a pointer against nil at all
		tested := map[string]bool{}
		inspectNoLit(fi.Decl.Body, func(x ast.Node) bool {
			if be, ok := x.(*ast.BinaryExpr); ok && (be.Op == token.EQL || be.Op == token.NEQ) {
				for _, pr := range [][2]ast.Expr{{be.X, be.Y}, {be.Y, be.X}} {
					if isNil(info, pr[1]) {
						if id, isId := ast.Unparen(pr[0]).(*ast.Ident); isId {
							if _, isPtr := info.TypeOf(id).Underlying().(*types.Pointer); isPtr {
								tested[id.Name] = true
							}
						}
					}
				}
			}
			return true
		})
		if len(tested) == 0 {
			continue
		}
		g := p.GraphOf(fi)
		facts := g.GuardFacts()
		inspectNoLit(fi.Decl.Body, func(x ast.Node) bool {
			var base ast.Expr
			switch e := x.(type) {
			case *ast.SelectorExpr:
				if sel := info.Selections[e]; sel == nil || sel.Kind() != types.FieldVal {
					return true
				}
				base = e.X
			case *ast.StarExpr:
				base = e.X
			default:
				return true
			}
			id, ok := ast.Unparen(base).(*ast.Ident)
			if !ok || !tested[id.Name] {
				return true
			}
			if _, isPtr := info.TypeOf(id).Underlying().(*types.Pointer); !isPtr {
				return true
			}
			node, found := g.cfgNodeOf(x)
			if !found {
				return true
			}
			f, has := facts.Before(node)
			if !has {
				return true
			}
			n++
			v, known := f.KnownStr(id.Name + " == nil")
			// inside the condition that tests it (x != nil && x.f): the short-circuit protects the access
			if known && v {
				for pn := p.Parent(x); pn != nil && pn != node; pn = p.Parent(pn) {
					if be, isB := pn.(*ast.BinaryExpr); isB && (be.Op == token.LAND || be.Op == token.LOR) && posWithin(be.Y, x.Pos()) {
						known = false
					}
				}
			}
			r.Check(!(known && v), x, fi.Name+" reads "+exprStr(x.(ast.Expr))+" where "+id.Name+" is not known to be nil", "no dominating test that found the pointer nil",
				id.Name+" is known to be nil here (the test that dominates this access found it nil): the access panics in whatever goroutine runs it")
			return true
		})
	}
	return n
}

// connLeaks: a connection a function obtains (a *Conn, a net.Conn, a *tls.Conn returned together with an error by a
// call) is closed, returned, stored, or handed to someone else on every path to every exit, except the exits taken
// because that very call failed. An early error return that forgets the Close leaves a socket (and its two
// goroutines) behind for the life of the process - "no connection is left open".
func connLeaks(p *Program, r *Report) int {
	isConnT := func(t types.Type) bool {
		if t == nil {
			return false
		}
		s := t.String()
		return s == "*"+rootPath+".Conn" || s == "net.Conn" || s == "*crypto/tls.Conn"
	}
	// creators: calls that make a new connection which then belongs to the caller. The dial primitives, and the
	// functions of the module whose every returned connection is the result of a creator (or a literal) that they
	// have not stored anywhere themselves. A function that installs the connection somewhere and also returns it
	// (attemptReconnect) is not a creator: its caller only looks at what is already owned.
	var creates func(info *types.Info, c *ast.CallExpr, depth int) bool
	creates = func(info *types.Info, c *ast.CallExpr, depth int) bool {
		switch cn := calleeName(info, c); cn {
		case "HostDialer.DialHost", "Dialer.DialContext", "net.Dial", "net.DialTimeout", "net.(*Dialer).DialContext", "net.(*Dialer).Dial", "tls.Dial", "tls.DialWithDialer":
			return true
		}
		fn := calleeOf(info, c)
		if fn == nil || depth > 3 {
			return false
		}
		h := p.FuncOf(fn)
		if h == nil || h.Decl.Body == nil || h.Pkg != p.Root {
			return false
		}
		hinfo := h.Pkg.TypesInfo
		nret, fresh := 0, true
		for _, ex := range p.GraphOf(h).Exits() {
			rs, ok := ex.Node.(*ast.ReturnStmt)
			if !ok || len(rs.Results) == 0 {
				continue
			}
			res := ast.Unparen(rs.Results[0])
			if isNil(hinfo, res) {
				continue
			}
			nret++
			switch x := res.(type) {
			case *ast.CallExpr:
				if !creates(hinfo, x, depth+1) {
					fresh = false
				}
			case *ast.Ident:
				d := localDefMulti(hinfo, h, x)
				ok := false
				if d != nil {
					if dc, isC := ast.Unparen(d).(*ast.CallExpr); isC && creates(hinfo, dc, depth+1) {
						ok = true
					}
					if u, isU := ast.Unparen(d).(*ast.UnaryExpr); isU && u.Op == token.AND {
						if _, isLit := ast.Unparen(u.X).(*ast.CompositeLit); isLit {
							ok = true
						}
					}
				}
				// installed somewhere by the function itself: not the caller's to close
				obj := hinfo.Uses[x]
				ast.Inspect(h.Decl.Body, func(y ast.Node) bool {
					if cc, isCC := y.(*ast.CallExpr); isCC {
						for _, a := range cc.Args {
							if isIdentOf(hinfo, a, obj) {
								if fn2 := calleeOf(hinfo, cc); fn2 != nil && p.FuncOf(fn2) != nil && strings.Contains(strings.ToLower(fn2.Name()), "set") {
									ok = false
								}
							}
						}
					}
					return true
				})
				if !ok {
					fresh = false
				}
			default:
				fresh = false
			}
		}
		return nret > 0 && fresh
	}
	n := 0
	for _, fi := range p.SortedFuncs() {
		if fi.Decl.Body == nil || fi.Pkg != p.Root {
			continue
		}
		info := fi.Pkg.TypesInfo
		type site struct {
			as   *ast.AssignStmt
			conn types.Object
			err  types.Object
		}
		var sites []site
		inspectNoLit(fi.Decl.Body, func(x ast.Node) bool {
			as, ok := x.(*ast.AssignStmt)
			if !ok || len(as.Rhs) != 1 || len(as.Lhs) != 2 {
				return true
			}
			call, isCall := ast.Unparen(as.Rhs[0]).(*ast.CallExpr)
			if !isCall || !creates(info, call, 0) {
				return true
			}
			cid, ok1 := as.Lhs[0].(*ast.Ident)
			eid, ok2 := as.Lhs[1].(*ast.Ident)
			if !ok1 || !ok2 || cid.Name == "_" || !isConnT(info.TypeOf(cid)) || !isErrorType(info.TypeOf(eid)) {
				return true
			}
			co, eo := info.ObjectOf(cid), info.ObjectOf(eid)
			if co != nil {
				sites = append(sites, site{as, co, eo})
			}
			return true
		})
		if len(sites) == 0 {
			continue
		}
		g := p.GraphOf(fi)
		for _, s := range sites {
			s := s
			mentionsConn := func(nd ast.Node) bool {
				found := false
				ast.Inspect(nd, func(y ast.Node) bool {
					if id, ok := y.(*ast.Ident); ok && info.Uses[id] == s.conn {
						found = true
					}
					return !found
				})
				return found
			}
			// what ends the obligation: any use other than a field read / nil test / method call that is not Close
			discharges := func(nd ast.Node) bool {
				if nd == ast.Node(s.as) {
					return false
				}
				done := false
				ast.Inspect(nd, func(y ast.Node) bool {
					if done {
						return false
					}
					switch z := y.(type) {
					case *ast.CallExpr:
						// c.Close() / c.closeWithError(..) / c.conn.Close()
						if rx := recvExpr(z); rx != nil {
							if root := rootIdent(rx); root != nil && info.Uses[root] == s.conn {
								if sel, isSel := ast.Unparen(z.Fun).(*ast.SelectorExpr); isSel && strings.Contains(strings.ToLower(sel.Sel.Name), "close") {
									done = true
								}
							}
						}
						// handed to a function as an argument
						for _, a := range z.Args {
							if id, isId := ast.Unparen(a).(*ast.Ident); isId && info.Uses[id] == s.conn {
								done = true
							}
						}
					case *ast.ReturnStmt:
						for _, res := range z.Results {
							if mentionsConn(res) {
								done = true
							}
						}
					case *ast.AssignStmt:
						for i, rhs := range z.Rhs {
							if mentionsConn(rhs) && i < len(z.Lhs) {
								if id, isId := ast.Unparen(rhs).(*ast.Ident); isId && info.Uses[id] == s.conn {
									done = true // stored somewhere / copied
								}
								if u, isU := ast.Unparen(rhs).(*ast.UnaryExpr); isU && u.Op == token.AND {
									done = true
								}
							}
							if cl, isCL := ast.Unparen(rhs).(*ast.CompositeLit); isCL && mentionsConn(cl) {
								done = true
							}
							if u, isU := ast.Unparen(rhs).(*ast.UnaryExpr); isU {
								if cl, isCL := ast.Unparen(u.X).(*ast.CompositeLit); isCL && mentionsConn(cl) {
									done = true
								}
							}
						}
					case *ast.SendStmt:
						if mentionsConn(z.Value) {
							done = true
						}
					case *ast.FuncLit:
						if mentionsConn(z.Body) {
							done = true // captured: the closure is responsible
						}
						return false
					case *ast.CompositeLit:
						if mentionsConn(z) {
							done = true
						}
					}
					return true
				})
				return done
			}
			// path-sensitively: marks for "obtained", "discharged" and "the error variable was assigned again"
			g.markNodes, g.unmarkNodes = map[ast.Node]string{}, map[ast.Node]string{}
			inspectNoLit(fi.Decl.Body, func(x ast.Node) bool {
				st, isStmt := x.(ast.Stmt)
				if !isStmt {
					return true
				}
				switch st.(type) {
				case *ast.BlockStmt, *ast.IfStmt, *ast.ForStmt, *ast.RangeStmt, *ast.SwitchStmt, *ast.TypeSwitchStmt, *ast.SelectStmt, *ast.CaseClause, *ast.CommClause, *ast.LabeledStmt:
					return true
				}
				if st == ast.Stmt(s.as) {
					return true
				}
				if discharges(st) {
					g.markNodes[st] = "done"
					return true
				}
				if as, isA := st.(*ast.AssignStmt); isA && s.err != nil {
					for _, l := range as.Lhs {
						if isIdentOf(info, l, s.err) {
							g.markNodes[st] = "stale"
						}
					}
				}
				return true
			})
			g.markNodes[s.as] = "got"
			g.unmarkNodes[s.as] = "done,stale"
			errName := ""
			if s.err != nil {
				errName = s.err.Name()
			}
			ps := g.GuardFactsPSAbout(func(atom string) bool {
				if strings.HasPrefix(atom, "§") || !strings.ContainsAny(atom, " .(") {
					return true
				}
				return atom == s.conn.Name()+" == nil" || errName != "" && atom == errName+" == nil"
			})
			for _, e := range g.Exits() {
				if e.Kind == ExitPanic {
					continue
				}
				var at ast.Node = fi.Decl
				var ds FactsPS
				var ok bool
				if e.Node != nil {
					ds, ok = ps.Before(e.Node)
					at = e.Node
				} else {
					ds, ok = ps.AtExit(e)
				}
				if !ok {
					continue
				}
				name := fmt.Sprintf("%s closes or hands on the connection %s it obtained at %s", fi.Name, s.conn.Name(), p.Pos(s.as))
				// the return statement itself may hand the connection back
				if e.Node != nil && discharges(e.Node) {
					n++
					r.OK(at, name, "returned")
					continue
				}
				leak := false
				for _, d := range ds {
					if !d.m["§got"] || d.m["§done"] {
						continue
					}
					if v, known := d.KnownStr(s.conn.Name() + " == nil"); known && v {
						continue
					}
					if errName != "" && !d.m["§stale"] {
						if v, known := d.KnownStr(errName + " == nil"); known && !v {
							continue
						}
					}
					leak = true
				}
				n++
				r.Check(!leak, at, name, "Close / return / store / hand-over on every path (or the call that obtains it failed)",
					"the function can leave here with the connection it obtained neither closed nor given to anyone: the socket and the goroutines serving it stay behind for the life of the process")
			}
			g.markNodes, g.unmarkNodes = nil, nil
		}
	}
	return n
}

// endlessLoops: every loop without a condition (`for { ... }`) in the module can be left: its body contains a return,
// a break that leaves it (directly, or labelled), a goto, or a call that does not return (panic). A service loop that
// lost its stop case runs for the life of the process: Close does not end the driver's background goroutines.
// For loops that wait in a select, the way out must be one of the select's cases (a stop / done / quit / ctx channel
// or a timer), or be reachable from one.
func endlessLoops(p *Program, r *Report) int {
	n := 0
	for _, fi := range p.SortedFuncs() {
		if fi.Decl.Body == nil {
			continue
		}
		info := fi.Pkg.TypesInfo
		ast.Inspect(fi.Decl.Body, func(x ast.Node) bool {
			loop, ok := x.(*ast.ForStmt)
			if !ok || loop.Cond != nil {
				return true
			}
			n++
			label := ""
			if ls, isLS := p.Parent(loop).(*ast.LabeledStmt); isLS {
				label = ls.Label.Name
			}
			exits := false
			var walk func(nd ast.Node, breakable bool)
			walk = func(nd ast.Node, breakable bool) {
				ast.Inspect(nd, func(y ast.Node) bool {
					if exits {
						return false
					}
					switch z := y.(type) {
					case *ast.FuncLit:
						return false
					case *ast.ReturnStmt:
						exits = true
					case *ast.BranchStmt:
						switch {
						case z.Tok == token.GOTO:
							exits = true
						case z.Tok == token.BREAK && z.Label != nil && z.Label.Name == label && label != "":
							exits = true
						case z.Tok == token.BREAK && z.Label == nil && breakable:
							exits = true
						case z.Tok == token.BREAK && z.Label != nil && z.Label.Name != label:
							// leaves an enclosing loop: certainly leaves this one
							if enc := p.enclosing(loop, fi.Decl, func(m ast.Node) bool {
								ls, isLS := m.(*ast.LabeledStmt)
								return isLS && ls.Label.Name == z.Label.Name
							}); enc != nil {
								exits = true
							}
						}
					case *ast.CallExpr:
						if cn := calleeName(info, z); cn == "builtin.panic" || cn == "os.Exit" || cn == "runtime.Goexit" || cn == "log.Fatal" || cn == "log.Fatalf" {
							exits = true
						}
					case *ast.ForStmt, *ast.RangeStmt, *ast.SwitchStmt, *ast.TypeSwitchStmt, *ast.SelectStmt:
						if y != nd {
							// an unlabelled break inside belongs to the inner statement
							switch w := z.(type) {
							case *ast.ForStmt:
								walk(w.Body, false)
							case *ast.RangeStmt:
								walk(w.Body, false)
							case *ast.SwitchStmt:
								walk(w.Body, false)
							case *ast.TypeSwitchStmt:
								walk(w.Body, false)
							case *ast.SelectStmt:
								walk(w.Body, false)
							}
							return false
						}
					}
					return true
				})
			}
			walk(loop.Body, true)
			r.Check(exits, loop, fi.Name+": the loop without a condition at "+p.Pos(loop)+" can be left", "a return / break out / panic in its body",
				"the loop has no way out: the goroutine that runs it never ends (a service loop that lost its stop case keeps running after Close, and whoever waits for it hangs)")
			return true
		})
	}
	return n
}

// noopBreaks: an unlabelled `break` that is the last statement of a case of a switch or select inside a loop does
// nothing (it leaves the switch / select, which ends there anyway) - what was meant is to leave the loop. The stop
// case of a service loop written that way never stops the loop.
func noopBreaks(p *Program, r *Report) int {
	n := 0
	for _, fi := range p.SortedFuncs() {
		if fi.Decl.Body == nil {
			continue
		}
		ast.Inspect(fi.Decl.Body, func(x ast.Node) bool {
			var body []ast.Stmt
			switch c := x.(type) {
			case *ast.CaseClause:
				body = c.Body
			case *ast.CommClause:
				body = c.Body
			default:
				return true
			}
			// the switch / select sits in a loop of the same function (or literal)
			inLoop := false
			for pn := p.Parent(x); pn != nil; pn = p.Parent(pn) {
				if _, isLit := pn.(*ast.FuncLit); isLit {
					break
				}
				switch pn.(type) {
				case *ast.ForStmt, *ast.RangeStmt:
					inLoop = true
				}
				if pn == ast.Node(fi.Decl) {
					break
				}
			}
			if !inLoop {
				return true
			}
			n++
			if len(body) == 0 {
				return true
			}
			br, isBr := body[len(body)-1].(*ast.BranchStmt)
			if isBr && br.Tok == token.BREAK && br.Label == nil {
				r.Bad(br, fi.Name+": break at the end of a case inside a loop", "the unlabelled break only leaves the switch / select, which ends here anyway: the loop goes on (a stop case written like this never stops its goroutine)")
			}
			return true
		})
	}
	return n
}

// c02r14: sibling agreement of the per-type encoders. Every marshal<Type>(info, value) function answers the unset
// marker (unsetColumn, which reaches them inside collections, tuples and UDTs) with (nil, nil) - or the dispatcher
// Marshal does so once before it dispatches. An encoder that lost the case turns an unset element into a marshal error.
func c02r14(p *Program, r *Report) {
	answersUnset := func(fi *FuncInfo) bool {
		info := fi.Pkg.TypesInfo
		found := false
		ast.Inspect(fi.Decl.Body, func(x ast.Node) bool {
			rs, ok := x.(*ast.ReturnStmt)
			if !ok || len(rs.Results) != 2 || !isNil(info, rs.Results[0]) {
				return true
			}
			// (nil, nil), or for the composite types that do not support the marker an explicit error
			if !isNil(info, rs.Results[1]) {
				if c, isC := ast.Unparen(rs.Results[1]).(*ast.CallExpr); !isC || !strings.Contains(exprStr(c), "nsupported") && !strings.Contains(exprStr(c), "UnsetValue") {
					return true
				}
			}
			for pn := p.Parent(rs); pn != nil && pn != ast.Node(fi.Decl); pn = p.Parent(pn) {
				switch c := pn.(type) {
				case *ast.CaseClause:
					for _, e := range c.List {
						if exprStr(e) == "unsetColumn" {
							found = true
						}
					}
				case *ast.IfStmt:
					if posWithin(c.Body, rs.Pos()) && strings.Contains(exprStr(c.Cond), "unsetColumn") {
						found = true
					}
					if c.Init != nil && posWithin(c.Body, rs.Pos()) && strings.Contains(exprStrNode(c.Init), "unsetColumn") {
						found = true
					}
				}
			}
			return true
		})
		return found
	}
	if m := p.Func("Marshal"); m != nil && m.Decl.Body != nil && answersUnset(m) {
		r.OK(m.Decl, "Marshal answers the unset marker before it dispatches", "return nil, nil under a test for unsetColumn")
		return
	}
	// the siblings: what the dispatcher Marshal calls with (info, value)
	siblings := map[*FuncInfo]bool{}
	if m := p.Func("Marshal"); m != nil && m.Decl.Body != nil {
		for _, c := range callsIn(m.Decl.Body) {
			if fn := calleeOf(m.Pkg.TypesInfo, c); fn != nil {
				if h := p.FuncOf(fn); h != nil && h != m {
					siblings[h] = true
				}
			}
		}
	}
	n := 0
	for _, fi := range p.SortedFuncs() {
		if fi.Decl.Body == nil || fi.Pkg != p.Root || fi.Decl.Recv != nil || !siblings[fi] {
			continue
		}
		sig, _ := fi.Obj.Type().(*types.Signature)
		if sig == nil || sig.Params().Len() != 2 || sig.Results().Len() != 2 || typeNameOf(sig.Params().At(0).Type()) != "TypeInfo" {
			continue
		}
		if _, isIface := sig.Params().At(1).Type().Underlying().(*types.Interface); !isIface {
			continue
		}
		n++
		ok := answersUnset(fi)
		if !ok {
			// through a helper of the package that the function hands the value to
			for _, u := range p.unitsOf(fi) {
				if u != fi && answersUnset(u) {
					ok = true
				}
			}
		}
		r.Check(ok, fi.Decl, fi.Name+" has an answer for an unset value", "return nil, nil (or the explicit 'unsupported' error of tuples and UDTs) in the case / under the test for unsetColumn", "this encoder has no answer for the unset marker while its siblings have: an unset element of a collection, tuple or UDT of this type becomes a marshal error instead of a null")
	}
	if n == 0 {
		r.Unresolved("no marshal<Type>(info, value) functions found")
	}
}

// c13r12: every execution that (*queryExecutor).run starts reports back: on every path to every exit of run (and of
// what it is split into) the result was sent on the results channel, or the select that sends it took the ctx.Done()
// case. An execution that returns without either leaves executeQuery waiting for a result that never comes (with a
// speculative policy and an idempotent query the caller blocks until its context ends).
func c13r12(p *Program, r *Report) {
	// the function is known by its signature: the one that is handed the channel on which executions report
	var fi *FuncInfo
	var resParam types.Object
	for _, cand := range p.SortedFuncs() {
		if cand.Decl.Body == nil || cand.Pkg != p.Root {
			continue
		}
		cinfo := cand.Pkg.TypesInfo
		for i := 0; ; i++ {
			po := paramObj(cinfo, cand.Decl.Type, i)
			if po == nil {
				break
			}
			if ch, isCh := po.Type().Underlying().(*types.Chan); isCh && typeNameOf(ch.Elem()) == "Iter" && fi == nil {
				// the one that sends on it (the coordinator that receives from it is not the reporter)
				sends := false
				ast.Inspect(cand.Decl.Body, func(y ast.Node) bool {
					if snd, isS := y.(*ast.SendStmt); isS && isIdentOf(cinfo, snd.Chan, po) {
						sends = true
					}
					return true
				})
				if sends {
					fi, resParam = cand, po
				}
			}
		}
	}
	if fi == nil {
		r.Unresolved("no function takes a channel of *Iter results (queryExecutor.run)")
		return
	}
	g := p.GraphOfInl(fi)
	info := g.Info
	sol := Solve(g, Lattice[int]{
		Join: func(a, b int) int {
			if a < b {
				return a
			}
			return b
		},
		Eq: func(a, b int) bool { return a == b },
		Step: func(st int, step Step) int {
			switch step.Kind {
			case StComm:
				if cc, ok := step.Clause.(*ast.CommClause); ok && cc.Comm != nil {
					if snd, isS := cc.Comm.(*ast.SendStmt); isS && isIdentOf(info, snd.Chan, resParam) {
						return 1
					}
					if ch := recvChan(cc.Comm); ch != nil && strings.HasSuffix(strings.ReplaceAll(exprStr(ch), " ", ""), ".Done()") {
						return 1
					}
				}
			case StNode:
				if snd, isS := step.Node.(*ast.SendStmt); isS && isIdentOf(info, snd.Chan, resParam) {
					return 1
				}
			}
			return st
		},
	})
	n := 0
	for _, e := range g.Exits() {
		if e.Kind == ExitPanic {
			continue
		}
		var st int
		var ok bool
		var at ast.Node = fi.Decl
		if e.Node != nil {
			st, ok = sol.Before(e.Node)
			at = e.Node
		} else {
			st, ok = sol.AtExit(e)
		}
		if !ok {
			continue
		}
		n++
		r.Check(st == 1, at, fi.Name+" reports the outcome of the execution it ran", "a send on the results channel (or the ctx.Done() case of that select) on every path to the exit",
			"run can return without having sent a result and without its context having ended: executeQuery waits for a result of this execution that never comes")
	}
	if n == 0 {
		r.Unresolved("run has no exit")
	}
}

// c16r16: the refresh debouncer cancels pending requests *before* it refreshes, never after: between the call of
// refreshFn and the next wait of the flusher loop the timer is neither stopped nor drained. A request that arrives
// while the refresh is running (the refresh has already read the peers table) must cause another refresh; stopping
// the timer afterwards throws it away and the ring stays without the node that just came up.
func c16r16(p *Program, r *Report) {
	fi := r.NeedFunc("(*refreshDebouncer).flusher")
	if fi == nil {
		return
	}
	fnF := p.Field("refreshDebouncer", "refreshFn")
	timerF := p.Field("refreshDebouncer", "timer")
	if fnF == nil || timerF == nil {
		r.Unresolved("refreshDebouncer.refreshFn / timer not found")
		return
	}
	g := p.GraphOfInl(fi)
	info := g.Info
	callsRefresh := func(nd ast.Node) bool {
		for _, c := range callsIn(nd) {
			if fieldOf(info, c.Fun) == fnF {
				return true
			}
		}
		return false
	}
	cancels := func(nd ast.Node) bool {
		for _, c := range callsIn(nd) {
			if sel, ok := ast.Unparen(c.Fun).(*ast.SelectorExpr); ok && (sel.Sel.Name == "Stop" || sel.Sel.Name == "Reset") && fieldOf(info, sel.X) == timerF {
				return sel.Sel.Name == "Stop"
			}
		}
		return false
	}
	isTimerC := func(e ast.Expr) bool {
		sel, ok := ast.Unparen(e).(*ast.SelectorExpr)
		return ok && sel.Sel.Name == "C" && fieldOf(info, sel.X) == timerF
	}
	nref := 0
	var bad ast.Node
	sol := Solve(g, Lattice[int]{
		Join: func(a, b int) int {
			if a > b {
				return a
			}
			return b
		},
		Eq: func(a, b int) bool { return a == b },
		Step: func(st int, step Step) int {
			switch step.Kind {
			case StComm:
				cc, ok := step.Clause.(*ast.CommClause)
				if !ok {
					return st
				}
				// the drain: a select with a default clause that takes from timer.C
				sel, _ := p.Parent(p.Parent(cc)).(*ast.SelectStmt)
				hasDefault := false
				if sel != nil {
					for _, cl := range sel.Body.List {
						if c2, isC := cl.(*ast.CommClause); isC && c2.Comm == nil {
							hasDefault = true
						}
					}
				}
				if hasDefault {
					if cc.Comm != nil {
						if ch := recvChan(cc.Comm); ch != nil && isTimerC(ch) && st == 1 && bad == nil {
							bad = cc
						}
					}
					return st
				}
				return 0 // the loop's wait: a new round begins
			case StNode:
				if callsRefresh(step.Node) {
					return 1
				}
				if st == 1 && cancels(step.Node) && bad == nil {
					bad = step.Node
				}
			}
			return st
		},
	})
	_ = sol
	for _, u := range g.Units() {
		for _, c := range callsIn(u.Decl.Body) {
			if fieldOf(u.Pkg.TypesInfo, c.Fun) == fnF {
				nref++
			}
		}
	}
	if nref == 0 {
		r.Unresolved("flusher never calls refreshFn")
		return
	}
	var at ast.Node = fi.Decl
	if bad != nil {
		at = bad
	}
	r.Check(bad == nil, at, "(*refreshDebouncer).flusher cancels pending requests before the refresh only", "no timer.Stop() / drain of timer.C between refreshFn() and the next wait",
		"the debounce timer is stopped or drained after refreshFn ran: a refresh request that arrived while the refresh was in flight is thrown away, so a node that came up meanwhile is missing from the ring, the pools and the policy until some later event")
}
