package main

import (
	"fmt"
	"go/ast"
	"go/token"
	"go/types"
	"os"
	"sort"
	"strconv"
	"strings"
)

func init() {
	register(&PropertySpec{
		ID: "C05",
		Explanation: "Structural necessary conditions of 'no bytes from the network can crash the application', decided for every function reachable (VTA call graph) from the decode entry points: R1 every bounds check the Go compiler's prove pass could not eliminate in that scope is discharged by a dominating length guard (guard-fact dataflow, one level of call-site preconditions), otherwise reported with the unguarded expression; " +
			"R2 wire-derived integers reach make/reflect.MakeSlice/MakeMapWithSize only after a sign and size guard; R3 every explicit panic value reachable under parseFrame's recover implements error (the handler does r.(error)); R4 no explicit panic is reachable from a public decode entry point without passing a recover; R5 every consumer of a parsed frame has a non-panicking default branch; R6 the authenticator returned by Challenge is nil-checked before use; R7 type assertions on TypeInfo in the scope are comma-ok or dominated by the matching Type() test; R8 census of goroutine roots that parse network data." +
			" R10 the header pointer readFrame installs on success is dereferenced only where that call's error is known nil.",
		NotDecided: "runtime panics inside reflect/math/big/inf driven by the caller's destination values; memory proportionality after decompression; stack exhaustion by deep type recursion; sites outside the decode scope.",
		Rules: []*Rule{
			{ID: "C05.R1", Floor: 40, Doc: "compiler-unproven bounds checks in the decode scope are discharged by dominating guards", Run: c05r1},
			{ID: "C05.R2", Floor: 10, Doc: "allocation sizes in the decode scope (make, reflect.MakeSlice, reflect.MakeMapWithSize) are non-negative and bounded by a constant, a 16-bit origin or the remaining data", Run: c05r2},
			{ID: "C05.R3", Floor: 15, Doc: "explicit panic values reachable from parseFrame implement error", Run: c05r3},
			{ID: "C05.R4", Floor: 10, Doc: "no explicit panic reachable from public decode entry points without a recover", Run: c05r4},
			{ID: "C05.R5", Floor: 10, Doc: "consumers of parseFrame results: default / failed-assertion branch does not panic or dereference", Run: c05r5},
			{ID: "C05.R6", Floor: 1, Doc: "every method call on a value of the Authenticator interface (the configured one, one returned by Challenge, one kept in an exchange state) is made where the value is known not to be nil", Run: c05r6},
			{ID: "C05.R9", Floor: 3, Doc: "pointer locals that start nil are assigned or nil-checked on every path before a field is read through them (response handling in the root package)", Run: c05r9},
			{ID: "C05.R8", Floor: 20, Doc: "goroutine roots census: go statements whose callee parses network data run under recover or reach only rule-checked code", Run: c05r8},
			{ID: "C05.R10", Floor: 1, Doc: "the header pointer readFrame installs on success is dereferenced only where readFrame is known to have succeeded", Run: c05r10},
			{ID: "C05.R11", Floor: 50, Doc: "no error of a call is overwritten before it is examined (in every function of the module)", Run: func(p *Program, r *Report) {
				if lostErrors(p, r, func(fi *FuncInfo) bool { return fi.Pkg == p.Root || strings.Contains(fi.Pkg.PkgPath, "/internal/") }, "lost error") == 0 {
					r.Unresolved("no error assignment found")
				}
			}},
			{ID: "C05.R15", Floor: 1, Doc: "the session's event debouncers, which the event path uses without a nil test, are assigned unconditionally in NewSession, before any connection can deliver an EVENT frame", Run: c05DebouncersExist},
			{ID: "C05.R14", Floor: 20, Doc: "no field is accessed through a pointer at a point where a dominating test found the pointer nil (every function of the module)", Run: func(p *Program, r *Report) {
				if nilDerefs(p, r, func(fi *FuncInfo) bool { return true }) == 0 {
					r.Unresolved("no pointer is tested against nil anywhere")
				}
			}},
			{ID: "C05.R13", Floor: 1, Doc: "readTypeInfo returns the plain NativeType only for ids that are not tuple, UDT, map, list or set: the unchecked assertions of the decoders rely on the concrete type following Type()", Run: c05r13},
			{ID: "C05.R12", Floor: 1, Doc: "no `if err := ..` whose body falls through hides the call's error from code that reads an outer err afterwards", Run: func(p *Program, r *Report) {
				if shadowedErrors(p, r, func(fi *FuncInfo) bool { return fi.Pkg == p.Root || strings.Contains(fi.Pkg.PkgPath, "/internal/") }, "shadowed error") == 0 {
					r.OK(nil, "no if-init shadows an outer error variable", "0 candidates")
				}
			}},
		},
		Variants: []Variant{{Name: "linux/386", GOARCH: "386"}},
	})
}

// decodeEntries are the functions through which network bytes enter the decoders.
var decodeEntries = []string{
	"readHeader", "(*framer).readFrame", "(*framer).parseFrame",
	"Unmarshal",
	"(*Iter).Scan", "(*Iter).MapScan", "(*Iter).SliceMap", "(*Iter).RowData", "(*Iter).readColumn",
	"(*iterScanner).Next", "(*iterScanner).Scan",
	"(*Session).handleEvent",
	"getCassandraType", "getCassandraBaseType", "parseType", "getTypeInfo",
	"(*Session).routingKeyInfo",
	"(*Session).hostInfoFromMap", "(*Session).hostInfoFromIter",
	"(*Conn).recv", "(*Conn).discardFrame",
}

// decodeCuts are edges/functions where request execution is re-entered (page fetch), user callbacks and loggers.
var decodeCuts = map[string]string{
	"(*nextIter).fetch":            "page fetch re-enters request execution (the whole driver)",
	"(*nextIter).fetchAsync":       "page fetch re-enters request execution",
	"(*Session).executeQuery":      "request execution",
	"(*Session).Query":             "request construction",
	"(*Conn).exec":                 "request execution",
	"(*Conn).executeQuery":         "request execution",
	"(*controlConn).query":         "request execution",
	"(*Conn).closeWithError":       "connection teardown, no decoding",
	"(*Session).getConn":           "pool access",
	"(*Conn).awaitSchemaAgreement": "request execution",
	"(*Query).Iter":                "request execution",
	"(*Query).Exec":                "request execution",
	"(*Query).Scan":                "request execution",
	"Marshal":                      "encoder for caller-supplied values, not a decoder",
	"createRoutingKey":             "encodes caller-supplied values",
}

func decodeScope(p *Program, r *Report) (map[*FuncInfo]bool, map[*FuncInfo]*FuncInfo) {
	cg := p.CallGraph()
	var roots []*FuncInfo
	for _, n := range decodeEntries {
		if fi := p.Func(n); fi != nil {
			roots = append(roots, fi)
		} else if r != nil {
			r.Unresolved("decode entry %s not found", n)
		}
	}
	set, parent := cg.Reach(roots, func(f *FuncInfo) bool {
		_, cut := decodeCuts[f.Name]
		return cut || f.Pkg != p.Root
	}, nil)
	return set, parent
}

// constructKey is the stable key of an expression-level obligation: function + normalised expression text.
func constructKey(fi *FuncInfo, n ast.Node) string {
	s := ""
	switch x := n.(type) {
	case ast.Expr:
		s = exprStr(x)
	default:
		s = fmt.Sprintf("%T", n)
	}
	if len(s) > 70 {
		s = s[:70]
	}
	return fi.Name + " " + s
}

// siteKey names an indexing / slicing / allocation by its operands alone: fields are qualified by the type they
// belong to, locals with a single definition are replaced by it, other variables by their type. The enclosing
// function and the spelling of locals do not appear, so the key survives moving the code into a helper.
func siteKey(p *Program, fi *FuncInfo, e ast.Expr) string {
	info := fi.Pkg.TypesInfo
	short := func(t types.Type) string {
		if t == nil {
			return "?"
		}
		return types.TypeString(t, func(*types.Package) string { return "" })
	}
	var canon func(e ast.Expr, depth int) string
	// an index or slice bound: a constant, something measured from a length, or just its type (where the value
	// comes from - a loop variable, a field, an element of another table - is not part of the site's identity)
	bound := func(e ast.Expr, depth int) string {
		if k, ok := constInt(info, e); ok {
			return fmt.Sprint(k)
		}
		c := canon(e, depth)
		if strings.Contains(c, "len(") {
			return c
		}
		// a local that holds a constant
		if _, err := strconv.Atoi(c); err == nil {
			return c
		}
		return short(info.TypeOf(e))
	}
	canon = func(e ast.Expr, depth int) string {
		e = ast.Unparen(e)
		if k, ok := constInt(info, e); ok {
			return fmt.Sprint(k)
		}
		switch x := e.(type) {
		case *ast.Ident:
			if v, isVar := info.Uses[x].(*types.Var); isVar && !v.IsField() {
				if depth < 3 {
					if def := localDef(info, fi, x); def != nil && len(callsIn(def)) <= 1 {
						return canon(def, depth+1)
					}
				}
				return short(v.Type())
			}
			return x.Name
		case *ast.SelectorExpr:
			if fv := fieldOf(info, x); fv != nil {
				return typeNameOf(info.TypeOf(x.X)) + "." + fv.Name()
			}
			return exprStr(x)
		case *ast.IndexExpr:
			return canon(x.X, depth) + "[" + bound(x.Index, depth) + "]"
		case *ast.SliceExpr:
			part := func(e ast.Expr) string {
				if e == nil {
					return ""
				}
				return bound(e, depth)
			}
			return canon(x.X, depth) + "[" + part(x.Low) + ":" + part(x.High) + "]"
		case *ast.BinaryExpr:
			return canon(x.X, depth) + x.Op.String() + canon(x.Y, depth)
		case *ast.UnaryExpr:
			return x.Op.String() + canon(x.X, depth)
		case *ast.StarExpr:
			return canon(x.X, depth)
		case *ast.CallExpr:
			if tv, ok := info.Types[x.Fun]; ok && tv.IsType() && len(x.Args) == 1 {
				return canon(x.Args[0], depth)
			}
			var args []string
			for _, a := range x.Args {
				if tv, ok := info.Types[a]; ok && tv.IsType() {
					args = append(args, short(tv.Type))
					continue
				}
				args = append(args, canon(a, depth))
			}
			fn := exprStr(x.Fun)
			if f := calleeOf(info, x); f != nil {
				fn = f.Name()
			}
			return fn + "(" + strings.Join(args, ",") + ")"
		}
		return exprStr(e)
	}
	s := canon(e, 0)
	if len(s) > 120 {
		s = s[:120]
	}
	return s
}

func c05r1(p *Program, r *Report) {
	sites, err := compilerUnproven(p.RepoDir, p.Variant)
	if err != nil {
		r.Unresolved("%v", err)
		return
	}
	scope, _ := decodeScope(p, r)
	obs, unmatched := boundsObligations(p, sites, scope)
	for _, u := range unmatched {
		r.Unresolved("compiler bounds check at %s:%d:%d inside the decode scope could not be mapped to syntax", u.File, u.Line, u.Col)
	}
	sort.Slice(obs, func(i, j int) bool {
		if obs[i].Site.File != obs[j].Site.File {
			return obs[i].Site.File < obs[j].Site.File
		}
		if obs[i].Site.Line != obs[j].Site.Line {
			return obs[i].Site.Line < obs[j].Site.Line
		}
		return obs[i].Site.Col < obs[j].Site.Col
	})
	for _, ob := range obs {
		if callerSupplied(p, ob) {
			continue
		}
		ok, why := dischargeBounds(p, ob)
		if !ok {
			if ok2, why2 := dischargeAtCallSites(p, ob); ok2 {
				ok, why = true, why2
			} else if ok3, why3 := dischargeAtCallSitesRel(p, ob); ok3 {
				ok, why = true, why3
			} else if why2 != "" {
				why += "; as a precondition: " + why2
			} else if why3 != "" {
				why += "; as a precondition: " + why3
			}
		}
		if !ok {
			if ok4, why4 := dischargeByReplay(p, ob); ok4 {
				ok, why = true, why4
			}
		}
		if !ok {
			if reason, exempt := safeByInvariant[constructKey(ob.Fn, ob.Node)]; exempt {
				ok, why = true, "frozen safe-by-invariant: "+reason
			}
		}
		if e, isE := ob.Node.(ast.Expr); isE {
			r.WithFindKey(siteKey(p, ob.Fn, e))
		}
		r.Check(ok, ob.Node, constructKey(ob.Fn, ob.Node), why, "unguarded "+ob.Kind+" on data that can come from the network: "+why)
	}
}

// safeByInvariant: constructs the local analysis cannot prove, each confirmed by reading, one reason each.
var safeByInvariant = map[string]string{}

// callerSupplied: the operand is a caller-provided destination (dest ...interface{} / []interface{} values),
// not network data: its length is the caller's contract.
func callerSupplied(p *Program, ob BoundsOb) bool {
	var x ast.Expr
	switch n := ob.Node.(type) {
	case *ast.IndexExpr:
		x = n.X
	case *ast.SliceExpr:
		x = n.X
	default:
		return false
	}
	info := ob.Fn.Pkg.TypesInfo
	t := info.TypeOf(x)
	if t == nil {
		return false
	}
	sl, ok := t.Underlying().(*types.Slice)
	if !ok {
		return false
	}
	if _, isIface := sl.Elem().Underlying().(*types.Interface); !isIface {
		return false
	}
	id := rootIdent(x)
	if id == nil {
		return false
	}
	v, ok := info.Uses[id].(*types.Var)
	if !ok {
		return false
	}
	sig := ob.Fn.Obj.Type().(*types.Signature)
	isParam := func(o types.Object) bool {
		for i := 0; i < sig.Params().Len(); i++ {
			if sig.Params().At(i) == o {
				return true
			}
		}
		return false
	}
	if isParam(v) {
		return true
	}
	// a (comma-ok) type assertion of a parameter:  dests, ok := value.([]interface{})
	if singleAssigned(info, ob.Fn.Decl.Body, v) {
		if d := localDefMulti(info, ob.Fn, id); d != nil {
			if ta, ok := ast.Unparen(d).(*ast.TypeAssertExpr); ok && ta.Type != nil {
				if sid, ok := ast.Unparen(ta.X).(*ast.Ident); ok && isParam(info.Uses[sid]) {
					return true
				}
			}
		}
	}
	// binding of a type switch over a parameter:  switch v := value.(type) { case []interface{}: ... v[i] }
	found := false
	ast.Inspect(ob.Fn.Decl.Body, func(n ast.Node) bool {
		ts, ok := n.(*ast.TypeSwitchStmt)
		if !ok || !posWithin(ts, id.Pos()) {
			return true
		}
		if subj := typeSwitchSubjectExpr(ts); subj != nil {
			if sid, ok := ast.Unparen(subj).(*ast.Ident); ok && isParam(info.Uses[sid]) {
				if as, ok := ts.Assign.(*ast.AssignStmt); ok && len(as.Lhs) == 1 {
					if lid, ok := as.Lhs[0].(*ast.Ident); ok && lid.Name == id.Name {
						found = true
					}
				}
			}
		}
		return true
	})
	return found
}

// dischargeAtCallSites: an obligation on a parameter slice with a constant requirement (p[k], Uint32(p), p[:k],
// p[1:h] with h bounded by a constant) becomes a precondition len(arg) >= need at every static call site.
func dischargeAtCallSites(p *Program, ob BoundsOb) (bool, string) {
	info := ob.Fn.Pkg.TypesInfo
	g := p.GraphOf(ob.Fn)
	f, reach := g.GuardFacts().Before(ob.Node)
	if !reach {
		return true, "unreachable"
	}
	d := newDBM(g, f, assumedFacts[ob.Fn.Name])
	upper := func(e ast.Expr) int {
		if e == nil {
			return -1
		}
		if !d.nonNeg(e) {
			return -1
		}
		if k, ok := d.constUpper(e); ok {
			return k
		}
		return -1
	}
	var x ast.Expr
	need := -1
	switch n := ob.Node.(type) {
	case *ast.IndexExpr:
		if k := upper(n.Index); k >= 0 {
			x, need = n.X, k+1
		}
	case *ast.SliceExpr:
		x = n.X
		if n.High != nil {
			need = upper(n.High)
			if n.Low != nil && (upper(n.Low) < 0 || !d.leExpr(n.Low, 0, n.High, 0)) {
				need = -1
			}
		} else if n.Low != nil {
			need = upper(n.Low)
		}
	case *ast.CallExpr:
		if ob.Kind == "libcall" && len(n.Args) > 0 {
			x, need = n.Args[0], libLenPrecond[ob.Callee]
		}
	}
	if need < 0 || x == nil {
		return false, ""
	}
	id, ok := ast.Unparen(x).(*ast.Ident)
	if !ok {
		return false, ""
	}
	pv, ok := info.Uses[id].(*types.Var)
	if !ok {
		return false, ""
	}
	sig := ob.Fn.Obj.Type().(*types.Signature)
	idx := -1
	for i := 0; i < sig.Params().Len(); i++ {
		if sig.Params().At(i) == pv {
			idx = i
		}
	}
	if idx < 0 {
		return false, ""
	}
	// the parameter must not have been re-sliced before the obligation (p = p[4:]) unless facts were re-established
	reassignedBefore := false
	ast.Inspect(ob.Fn.Decl.Body, func(n ast.Node) bool {
		if as, ok := n.(*ast.AssignStmt); ok && as.Pos() < ob.Node.Pos() {
			for _, l := range as.Lhs {
				if isIdentOf(info, l, pv) {
					reassignedBefore = true
				}
			}
		}
		return true
	})
	if reassignedBefore {
		return false, ""
	}
	nsites := 0
	bad := ""
	for _, caller := range p.SortedFuncs() {
		if caller.Decl.Body == nil {
			continue
		}
		cinfo := caller.Pkg.TypesInfo
		ast.Inspect(caller.Decl.Body, func(n ast.Node) bool {
			c, ok := n.(*ast.CallExpr)
			if !ok {
				return true
			}
			fn := calleeOf(cinfo, c)
			if fn == nil || p.FuncOf(fn) != ob.Fn || idx >= len(c.Args) {
				return true
			}
			nsites++
			if !lenAtLeast(p, caller, c, c.Args[idx], nil, need) {
				bad = fmt.Sprintf("call site %s in %s passes %s without establishing len >= %d", p.Pos(c), caller.Name, exprStr(c.Args[idx]), need)
			}
			return true
		})
	}
	if bad != "" {
		return false, bad
	}
	if nsites == 0 {
		return false, "no static call site found for precondition on parameter " + id.Name
	}
	return true, fmt.Sprintf("precondition len(%s) >= %d established at all %d call sites", id.Name, need, nsites)
}

func c05r2(p *Program, r *Report) {
	scope, _ := decodeScope(p, nil)
	var list []*FuncInfo
	for f := range scope {
		list = append(list, f)
	}
	sort.Slice(list, func(i, j int) bool { return list[i].Name < list[j].Name })
	for _, fi := range list {
		info := fi.Pkg.TypesInfo
		ast.Inspect(fi.Decl.Body, func(n ast.Node) bool {
			c, ok := n.(*ast.CallExpr)
			if !ok {
				return true
			}
			var sizes []ast.Expr
			switch calleeName(info, c) {
			case "builtin.make":
				sizes = c.Args[1:]
			case "reflect.MakeSlice":
				if len(c.Args) == 3 {
					sizes = c.Args[1:]
				}
			case "reflect.MakeMapWithSize":
				if len(c.Args) == 2 {
					sizes = c.Args[1:]
				}
			default:
				return true
			}
			for _, sz := range sizes {
				if _, isC := constInt(info, sz); isC {
					continue
				}
				if sc, ok := ast.Unparen(sz).(*ast.CallExpr); ok {
					// sizes taken from the caller's destination through reflection (Value.Len/Cap, Type.NumField) are not wire data
					if n := calleeName(info, sc); strings.HasPrefix(n, "reflect.(Value).") || strings.HasPrefix(n, "reflect.Type.") {
						continue
					}
				}
				g := p.GraphOf(fi)
				if lit, ok := p.enclosingFuncNode(c).(*ast.FuncLit); ok {
					g = p.GraphOfLit(fi, lit)
				}
				f, reach := g.GuardFacts().Before(c)
				if !reach {
					continue
				}
				d := newDBM(g, f, assumedFacts[fi.Name])
				nn := d.nonNeg(sz)
				if !nn {
					// one level of call-site preconditions: the size is (a field of) a parameter and every caller
					// has excluded negative values before the call
					nn = nonNegAtCallSites(p, fi, sz)
					// a local copy of such a value (count := meta.colCount)
					if id, isId := ast.Unparen(sz).(*ast.Ident); !nn && isId {
						if def := localDef(info, fi, id); def != nil && isFieldPath(def) {
							nn = nonNegAtCallSites(p, fi, def)
						}
					}
				}
				ub, hasUB := d.constUpper(sz)
				bounded := hasUB && ub <= maxDecodeAlloc
				why := ""
				if bounded {
					why = fmt.Sprintf("size in [0,%d]", ub)
				}
				if !bounded {
					// bounded by the length of existing data: size <= len(x) for some x mentioned in the facts
					if t, k, ok := d.term(sz); ok {
						for node := range d.nodes {
							if strings.HasPrefix(node, "len(") && d.le(t, k, node, 0) {
								bounded = true
								why = "size <= " + node
							}
						}
					}
				}
				if !nn || !bounded {
					// an allocation of the same size evaluated earlier in the same statement: a negative size panics
					// there, and this one is no larger than what that one already allocated
					if stmt := p.stmtOf(c, fi); stmt != nil {
						ast.Inspect(stmt, func(m ast.Node) bool {
							if mc, isC := m.(*ast.CallExpr); isC && mc != c && mc.End() <= c.Pos() && calleeName(info, mc) == "builtin.make" && len(mc.Args) >= 2 && exprStr(mc.Args[1]) == exprStr(sz) && len(callsIn(sz)) == 0 {
								nn, bounded, why = true, true, "same size as the allocation evaluated just before it in the statement"
							}
							return true
						})
					}
				}
				key := constructKey(fi, c)
				if reason, ok := allocExempt[key]; ok {
					r.OK(c, key, "frozen: "+reason)
					continue
				}
				r.WithFindKey(siteKey(p, fi, c)).Check(nn && bounded, c, key, "allocation size non-negative and bounded: "+why,
					fmt.Sprintf("allocation size %s is taken from decoded data without %s: a negative value panics (re-raised by parseFrame as a runtime error), a huge one allocates gigabytes", exprStr(sz), ifs(!nn, "a sign check", "an upper bound")))
			}
			return true
		})
	}
}

// maxDecodeAlloc: largest element count accepted as "bounded by a constant" (16-bit counts, colCount < 1000, frame size limit).
const maxDecodeAlloc = 256 * 1024 * 1024

// allocExempt: allocations whose size does not come from the wire (one reason each).
var allocExempt = map[string]string{}

// ---------------------------------------------------------------------------

func panicCalls(fi *FuncInfo) []*ast.CallExpr {
	var out []*ast.CallExpr
	info := fi.Pkg.TypesInfo
	ast.Inspect(fi.Decl.Body, func(n ast.Node) bool {
		if c, ok := n.(*ast.CallExpr); ok && calleeName(info, c) == "builtin.panic" {
			out = append(out, c)
		}
		return true
	})
	return out
}

func c05r3(p *Program, r *Report) {
	pf := r.NeedFunc("(*framer).parseFrame")
	if pf == nil {
		return
	}
	cg := p.CallGraph()
	set, parent := cg.Reach([]*FuncInfo{pf}, func(f *FuncInfo) bool {
		_, cut := decodeCuts[f.Name]
		return cut || f.Pkg != p.Root
	}, nil)
	var list []*FuncInfo
	for f := range set {
		list = append(list, f)
	}
	sort.Slice(list, func(i, j int) bool { return list[i].Name < list[j].Name })
	rtErr := types.Universe.Lookup("error").Type()
	_ = rtErr
	for _, fi := range list {
		info := fi.Pkg.TypesInfo
		for _, c := range panicCalls(fi) {
			arg := c.Args[0]
			t := info.TypeOf(arg)
			// re-panic of the recovered value inside the deferred handler is the documented behaviour
			if id, ok := ast.Unparen(arg).(*ast.Ident); ok {
				_, inLit := p.enclosingFuncNode(c).(*ast.FuncLit)
				if (inLit || callsRecoverDirectly(fi)) && isRecoverVar(info, fi, id) {
					r.OK(c, constructKey(fi, c), "re-panic of the recovered runtime error (deliberate)")
					continue
				}
			}
			ok := t != nil && implementsError(t)
			r.Check(ok, c, constructKey(fi, c), "panic value implements error: converted into a returned error by parseFrame",
				fmt.Sprintf("panic value of type %s does not implement error: parseFrame's recover does r.(error), which itself panics (path: %s)", t, pathTo(parent, fi)))
		}
	}
}

func isRecoverVar(info *types.Info, fi *FuncInfo, id *ast.Ident) bool {
	obj := info.Uses[id]
	found := false
	ast.Inspect(fi.Decl.Body, func(n ast.Node) bool {
		if as, ok := n.(*ast.AssignStmt); ok && len(as.Rhs) == 1 {
			if c, ok := ast.Unparen(as.Rhs[0]).(*ast.CallExpr); ok && calleeName(info, c) == "builtin.recover" {
				for _, l := range as.Lhs {
					if lid, ok := l.(*ast.Ident); ok && info.Defs[lid] == obj {
						found = true
					}
				}
			}
		}
		return true
	})
	return found
}

// publicDecodeEntries: API called by the application on received data.
var publicDecodeEntries = []string{
	"(*Iter).Scan", "(*Iter).MapScan", "(*Iter).SliceMap", "(*Iter).RowData", "(*iterScanner).Next", "(*iterScanner).Scan",
	"Unmarshal", "(*Session).handleEvent", "(*Conn).recv", "(*Iter).Close", "(*Iter).Columns",
}

func c05r4(p *Program, r *Report) {
	cg := p.CallGraph()
	for _, name := range publicDecodeEntries {
		root := r.NeedFunc(name)
		if root == nil {
			continue
		}
		set, parent := cg.Reach([]*FuncInfo{root}, func(f *FuncInfo) bool {
			if _, cut := decodeCuts[f.Name]; cut || f.Pkg != p.Root {
				return true
			}
			return p.hasDeferredRecover(f.Pkg.TypesInfo, f) // panics below a recover are converted
		}, nil)
		var list []*FuncInfo
		for f := range set {
			list = append(list, f)
		}
		sort.Slice(list, func(i, j int) bool { return list[i].Name < list[j].Name })
		n := 0
		for _, fi := range list {
			for _, c := range panicCalls(fi) {
				n++
				key := name + " reaches panic in " + constructKey(fi, c)
				if reason, ok := panicUnreachableByInvariant[constructKey(fi, c)]; ok {
					r.OK(c, key, "frozen: "+reason)
					continue
				}
				if fi != root {
					if ok, why := panicExcludedByCallers(p, cg, set, fi, c); ok {
						r.OK(c, key, why)
						continue
					}
				}
				r.Bad(c, key, "explicit panic reachable from "+name+" with no recover on the path ("+pathTo(parent, fi)+"): network data can crash the calling goroutine")
			}
		}
		if n == 0 {
			r.OK(root.Decl, name+" reaches no unrecovered explicit panic", fmt.Sprintf("%d functions reachable, none panics outside a recover", len(set)))
		}
	}
}

// panicExcludedByCallers: the panic sits in `if C { panic }` at the top of callee g, and every call site of g
// inside the reach set establishes !C (after substituting receiver and arguments) by its own dominating guards.
func panicExcludedByCallers(p *Program, cg *CallGraph, reach map[*FuncInfo]bool, g *FuncInfo, pc *ast.CallExpr) (bool, string) {
	ginfo := g.Pkg.TypesInfo
	// the guarding if statement: panic is the (only) effect of a then-branch of a top-level if
	es, _ := p.Parent(pc).(*ast.ExprStmt)
	if es == nil {
		return false, ""
	}
	blk, _ := p.Parent(es).(*ast.BlockStmt)
	if blk == nil {
		return false, ""
	}
	ifs, _ := p.Parent(blk).(*ast.IfStmt)
	if ifs == nil || ifs.Body != blk || ifs.Init != nil || p.Parent(ifs) != ast.Node(g.Decl.Body) {
		return false, ""
	}
	// nothing before the if may write the operands of C
	idx, list := p.stmtIndex(ifs)
	roots := map[string]bool{}
	ast.Inspect(ifs.Cond, func(n ast.Node) bool {
		if id, ok := n.(*ast.Ident); ok {
			roots[id.Name] = true
		}
		return true
	})
	for _, st := range list[:idx] {
		bad := false
		ast.Inspect(st, func(n ast.Node) bool {
			for _, l := range assignedLHS(n) {
				if r := rootIdent(l); r != nil && roots[r.Name] {
					bad = true
				}
			}
			if c, ok := n.(*ast.CallExpr); ok && calleeName(ginfo, c) != "builtin.len" {
				bad = true // a call could change the buffer
			}
			return true
		})
		if bad {
			return false, ""
		}
	}
	// parameter / receiver substitution
	var params []types.Object
	if g.Decl.Recv != nil && len(g.Decl.Recv.List) > 0 && len(g.Decl.Recv.List[0].Names) > 0 {
		params = append(params, ginfo.Defs[g.Decl.Recv.List[0].Names[0]])
	} else if g.Decl.Recv != nil {
		params = append(params, nil)
	}
	nrecv := len(params)
	for _, f := range g.Decl.Type.Params.List {
		for _, nm := range f.Names {
			params = append(params, ginfo.Defs[nm])
		}
	}
	ncalls := 0
	for caller := range reach {
		cinfo := caller.Pkg.TypesInfo
		okAll := true
		ast.Inspect(caller.Decl.Body, func(n ast.Node) bool {
			c, ok := n.(*ast.CallExpr)
			if !ok {
				return true
			}
			fn := calleeOf(cinfo, c)
			if fn == nil || p.FuncOf(fn) != g {
				return true
			}
			ncalls++
			sub := map[types.Object]ast.Expr{}
			if nrecv == 1 {
				if rx := recvExpr(c); rx != nil && params[0] != nil {
					sub[params[0]] = rx
				}
			}
			for i, a := range c.Args {
				if nrecv+i < len(params) && params[nrecv+i] != nil {
					sub[params[nrecv+i]] = a
				}
			}
			cond := substExpr(ginfo, ifs.Cond, sub)
			gr := p.GraphOf(caller)
			if lit, ok := p.enclosingFuncNode(c).(*ast.FuncLit); ok {
				gr = p.GraphOfLit(caller, lit)
			}
			f, reachable := gr.GuardFacts().Before(c)
			if !reachable {
				return true
			}
			if v, known := f.Known(cond); known && !v {
				return true
			}
			// relational: C is a < b ; prove b <= a
			if ra, ok := canonRel(cinfo, cond); ok && ra.Op == token.LSS {
				d := newDBM(gr, f, assumedFacts[caller.Name])
				_, flip := canonAtom(cinfo, cond)
				if !flip && d.leExpr(ra.Y, 0, ra.X, 0) {
					return true
				}
			}
			okAll = false
			return true
		})
		if !okAll {
			return false, ""
		}
	}
	// g may also be reached through dynamic edges (interface / func values): require at least one static call and
	// that every reach-set caller edge is static
	for caller := range reach {
		for _, e := range cg.edges[caller][g] {
			if e.Site != nil && e.Site.Common().StaticCallee() == nil {
				return false, ""
			}
		}
	}
	if ncalls == 0 {
		return false, ""
	}
	return true, fmt.Sprintf("guarded by `%s`, which every one of the %d call sites on these paths excludes by its own check", exprStr(ifs.Cond), ncalls)
}

// substExpr returns a copy of e with identifiers denoting keys of sub replaced.
func substExpr(info *types.Info, e ast.Expr, sub map[types.Object]ast.Expr) ast.Expr {
	switch x := e.(type) {
	case *ast.Ident:
		if r, ok := sub[info.Uses[x]]; ok && info.Uses[x] != nil {
			return r
		}
		return x
	case *ast.ParenExpr:
		return &ast.ParenExpr{X: substExpr(info, x.X, sub)}
	case *ast.SelectorExpr:
		return &ast.SelectorExpr{X: substExpr(info, x.X, sub), Sel: x.Sel}
	case *ast.BinaryExpr:
		return &ast.BinaryExpr{X: substExpr(info, x.X, sub), Op: x.Op, Y: substExpr(info, x.Y, sub), OpPos: x.OpPos}
	case *ast.UnaryExpr:
		return &ast.UnaryExpr{Op: x.Op, X: substExpr(info, x.X, sub)}
	case *ast.CallExpr:
		args := make([]ast.Expr, len(x.Args))
		for i, a := range x.Args {
			args[i] = substExpr(info, a, sub)
		}
		return &ast.CallExpr{Fun: x.Fun, Args: args}
	case *ast.IndexExpr:
		return &ast.IndexExpr{X: substExpr(info, x.X, sub), Index: substExpr(info, x.Index, sub)}
	}
	return e
}

// panicUnreachableByInvariant: explicit panics that network data cannot trigger; one reason each (confirmed by reading).
var panicUnreachableByInvariant = map[string]string{
	`(*Conn).recv panic(fmt.Sprintf("call has incorrect streamID: got %d expected %d", c`: "calls[k] is only stored by addCall under k == call.streamID (C01.R5) and callReq.streamID is never re-assigned (C01.R1), so the header id that found the call equals its streamID",
}

func c05r5(p *Program, r *Report) {
	// every call site of parseFrame: find the type switch / assertions over its result
	n := 0
	p.forEachFunc(false, func(fi *FuncInfo) {
		if strings.HasPrefix(fi.Name, "Fuzz") {
			return
		}
		info := fi.Pkg.TypesInfo
		ast.Inspect(fi.Decl.Body, func(x ast.Node) bool {
			as, ok := x.(*ast.AssignStmt)
			if !ok || len(as.Rhs) != 1 {
				return true
			}
			c, ok := ast.Unparen(as.Rhs[0]).(*ast.CallExpr)
			if !ok {
				return true
			}
			name := calleeName(info, c)
			if name != "(*framer).parseFrame" && name != "(*startupCoordinator).write" && name != "(*controlConn).writeFrame" {
				return true
			}
			id, ok := as.Lhs[0].(*ast.Ident)
			if !ok || id.Name == "_" {
				return true
			}
			obj := info.Defs[id]
			if obj == nil {
				obj = info.Uses[id]
			}
			n++
			checkFrameConsumer(p, r, fi, obj, as)
			return true
		})
	})
	if n == 0 {
		r.Unresolved("no parseFrame consumers found")
	}
}

// checkFrameConsumer inspects every type switch and type assertion on frame variable obj in fi.
func checkFrameConsumer(p *Program, r *Report, fi *FuncInfo, obj types.Object, def ast.Node) {
	info := fi.Pkg.TypesInfo
	found := false
	ast.Inspect(fi.Decl.Body, func(x ast.Node) bool {
		switch s := x.(type) {
		case *ast.TypeSwitchStmt:
			subj := typeSwitchSubjectExpr(s)
			if subj == nil || !isIdentOf(info, subj, obj) {
				return true
			}
			found = true
			hasDefault := false
			for _, cl := range s.Body.List {
				cc := cl.(*ast.CaseClause)
				if cc.List != nil {
					continue
				}
				hasDefault = true
				bad := ""
				for _, st := range cc.Body {
					ast.Inspect(st, func(m ast.Node) bool {
						if c, ok := m.(*ast.CallExpr); ok && calleeName(info, c) == "builtin.panic" {
							bad = "panics"
						}
						return true
					})
				}
				r.Check(bad == "", cc, fi.Name+" frame switch default", "unexpected frame kinds are reported, not fatal",
					"the default branch of the frame type switch "+bad+": a well-formed frame of an unexpected kind crashes the process")
			}
			if !hasDefault {
				r.OK(s, fi.Name+" frame switch without default", "unexpected frame kinds fall through")
			}
		case *ast.TypeAssertExpr:
			if s.Type == nil || !isIdentOf(info, s.X, obj) {
				return true
			}
			found = true
			// must be comma-ok
			commaOk := false
			if as, ok := p.Parent(s).(*ast.AssignStmt); ok && len(as.Lhs) == 2 && len(as.Rhs) == 1 {
				commaOk = true
			}
			if vs, ok := p.Parent(s).(*ast.ValueSpec); ok && len(vs.Names) == 2 {
				commaOk = true
			}
			r.Check(commaOk, s, fi.Name+" frame assertion "+exprStr(s), "comma-ok assertion", "bare type assertion on a frame received from the network: an unexpected frame kind panics")
		}
		return true
	})
	if !found {
		r.OK(def, fi.Name+" frame result not inspected by type", "result passed on or only nil-checked")
	}
}

func typeSwitchSubjectExpr(sw *ast.TypeSwitchStmt) ast.Expr {
	var x ast.Expr
	switch a := sw.Assign.(type) {
	case *ast.AssignStmt:
		if len(a.Rhs) == 1 {
			x = a.Rhs[0]
		}
	case *ast.ExprStmt:
		x = a.X
	}
	if ta, ok := ast.Unparen(x).(*ast.TypeAssertExpr); ok {
		return ta.X
	}
	return nil
}

func c05r6(p *Program, r *Report) {
	// Authenticator.Challenge may hand back a nil Authenticator (PasswordAuthenticator does), and a configuration
	// may have none at all: every method call on a value of the interface type - a local, a field of an exchange
	// state, the connection's authenticator - is made only where that value is known not to be nil.
	n := 0
	p.forEachFunc(false, func(fi *FuncInfo) {
		if fi.Pkg != p.Root || fi.Decl.Body == nil {
			return
		}
		info := fi.Pkg.TypesInfo
		var g *Graph
		ast.Inspect(fi.Decl.Body, func(x ast.Node) bool {
			c, ok := x.(*ast.CallExpr)
			if !ok {
				return true
			}
			rx := recvExpr(c)
			if rx == nil || !strings.HasPrefix(calleeName(info, c), "Authenticator.") {
				return true
			}
			if !isFieldPath(rx) {
				return true
			}
			n++
			if g == nil {
				g = p.GraphOf(fi)
			}
			gg := g
			if lit, isLit := p.enclosingFuncNode(c).(*ast.FuncLit); isLit {
				gg = p.GraphOfLit(fi, lit)
			}
			f, reach := gg.GuardFacts().Before(p.stmtOf(c, fi))
			if cn, okN := gg.cfgNodeOf(c); okN {
				if f2, ok2 := gg.GuardFacts().Before(cn); ok2 {
					f, reach = f2, true
				}
			}
			v, known := f.KnownStr(strings.ReplaceAll(exprStr(ast.Unparen(rx)), " ", "") + " == nil")
			r.Check(!reach || known && !v, c, fi.Name+" "+exprStr(c.Fun)+" on an authenticator", "nil-checked on every path",
				"the Authenticator returned by Challenge may be nil (PasswordAuthenticator returns nil) and "+exprStr(c.Fun)+" is invoked without a nil check: a server sending AUTH_CHALLENGE crashes the connecting goroutine")
			return true
		})
	})
	if n == 0 {
		r.Unresolved("no method call on a value of type Authenticator")
	}
}

func c05r8(p *Program, r *Report) {
	scope, _ := decodeScope(p, nil)
	p.forEachFunc(false, func(fi *FuncInfo) {
		info := fi.Pkg.TypesInfo
		ast.Inspect(fi.Decl.Body, func(x ast.Node) bool {
			gs, ok := x.(*ast.GoStmt)
			if !ok {
				return true
			}
			target := ""
			var tfi *FuncInfo
			if fn := calleeOf(info, gs.Call); fn != nil {
				tfi = p.FuncOf(fn)
				target = funcQualNameAny(fn)
			} else if _, isLit := gs.Call.Fun.(*ast.FuncLit); isLit {
				target = "func literal"
			} else {
				target = exprStr(gs.Call.Fun)
			}
			inScope := tfi != nil && scope[tfi]
			why := "goroutine root " + target
			if inScope {
				why += " (parses network data: covered by R1-R7 on everything it reaches)"
			}
			r.OK(gs, fi.Name+" go "+target, why)
			return true
		})
	})
	_ = token.NoPos
}

// c05r9: a local `var x *T` starts nil. On every path to a field access x.f (or *x) the variable must have
// been assigned, or the access must be dominated by a test that excludes nil. Decided by a may-be-nil
// forward dataflow over go/cfg combined with the guard facts.
func c05r9(p *Program, r *Report) {
	p.forEachFunc(false, func(fi *FuncInfo) {
		if fi.Pkg != p.Root || fi.Decl.Body == nil {
			return
		}
		info := fi.Pkg.TypesInfo
		// candidate variables
		cands := map[types.Object]bool{}
		ast.Inspect(fi.Decl.Body, func(x ast.Node) bool {
			if _, isLit := x.(*ast.FuncLit); isLit {
				return false
			}
			if vs, ok := x.(*ast.ValueSpec); ok && len(vs.Values) == 0 {
				for _, id := range vs.Names {
					if obj := info.Defs[id]; obj != nil {
						if _, isPtr := obj.Type().Underlying().(*types.Pointer); isPtr {
							cands[obj] = true
						}
					}
				}
			}
			return true
		})
		if len(cands) == 0 {
			return
		}
		// captured by a closure that assigns it: give up on that variable (assigned elsewhere)
		ast.Inspect(fi.Decl.Body, func(x ast.Node) bool {
			if lit, isLit := x.(*ast.FuncLit); isLit {
				ast.Inspect(lit.Body, func(y ast.Node) bool {
					if id, ok := y.(*ast.Ident); ok && cands[info.Uses[id]] {
						delete(cands, info.Uses[id])
					}
					return true
				})
				return false
			}
			if u, ok := x.(*ast.UnaryExpr); ok && u.Op == token.AND {
				if id, ok := ast.Unparen(u.X).(*ast.Ident); ok && cands[info.Uses[id]] {
					delete(cands, info.Uses[id]) // address taken: may be set through the pointer
				}
			}
			return true
		})
		if len(cands) == 0 {
			return
		}
		g := p.GraphOf(fi)
		sol := Solve(g, Lattice[strset]{
			Init: strset{},
			Join: func(a, b strset) strset { return a.union(b) },
			Eq:   func(a, b strset) bool { return a.eq(b) },
			Step: func(s strset, st Step) strset {
				if st.Kind != StNode {
					return s
				}
				switch x := st.Node.(type) {
				case *ast.ValueSpec:
					if len(x.Values) == 0 {
						for _, id := range x.Names {
							if cands[info.Defs[id]] {
								s = s.with(id.Name)
							}
						}
					}
				case *ast.AssignStmt:
					for i, l := range x.Lhs {
						id, ok := l.(*ast.Ident)
						if !ok || !cands[info.Uses[id]] {
							continue
						}
						if len(x.Rhs) == len(x.Lhs) && isNil(info, x.Rhs[i]) {
							s = s.with(id.Name)
						} else {
							s = s.without(id.Name)
						}
					}
				}
				return s
			},
		})
		facts := g.GuardFacts()
		seq := map[string]int{}
		inspectNoLit(fi.Decl.Body, func(x ast.Node) bool {
			var base ast.Expr
			switch e := x.(type) {
			case *ast.SelectorExpr:
				base = e.X
				// a method value/call on a pointer receiver does not necessarily dereference; field reads do
				if sel := info.Selections[e]; sel == nil || sel.Kind() != types.FieldVal {
					return true
				}
			case *ast.StarExpr:
				base = e.X
			default:
				return true
			}
			id, ok := ast.Unparen(base).(*ast.Ident)
			if !ok || !cands[info.Uses[id]] {
				return true
			}
			stmt := p.stmtOf(x, fi)
			st, okS := sol.Before(stmt)
			if !okS {
				return true
			}
			key := fmt.Sprintf("%s: %s read through %s", fi.Name, exprStr(x.(ast.Expr)), id.Name)
			seq[key]++
			construct := key
			if seq[key] > 1 {
				construct = fmt.Sprintf("%s #%d", key, seq[key])
			}
			if !st[id.Name] {
				r.OK(x, construct, "assigned on every path")
				return true
			}
			f, _ := facts.Before(stmt)
			// the access may sit inside the condition that tests it (x != nil && x.f): accept when an enclosing
			// && operand or if-condition tests the variable
			guarded := false
			if v, known := f.m[id.Name+" == nil"]; known && !v {
				guarded = true
			}
			for n := p.Parent(x); n != nil && !guarded; n = p.Parent(n) {
				if be, ok := n.(*ast.BinaryExpr); ok && be.Op == token.LAND {
					if strings.Contains(exprStr(be.X), id.Name+" != nil") && posWithin(be.Y, x.Pos()) {
						guarded = true
					}
				}
				if n == ast.Node(stmt) {
					break
				}
			}
			if !guarded {
				// path-sensitively: the paths on which the variable was not assigned are excluded by a flag that was
				// set together with it (`textDst, asText = v, true` ... `case !asText: *timeDst = ..`)
				g.markNodes = map[ast.Node]string{}
				ast.Inspect(fi.Decl.Body, func(y ast.Node) bool {
					if as, isA := y.(*ast.AssignStmt); isA {
						for i, l := range as.Lhs {
							if lid, isId := l.(*ast.Ident); isId && info.Uses[lid] == info.Uses[id] && !(len(as.Rhs) == len(as.Lhs) && isNil(info, as.Rhs[i])) {
								g.markNodes[as] = "set"
							}
						}
					}
					return true
				})
				ps := g.GuardFactsPSAbout(func(atom string) bool {
					return strings.HasPrefix(atom, "§") || !strings.ContainsAny(atom, " .(")
				})
				node, found := g.cfgNodeOf(x)
				if found {
					if ds, has := ps.Before(node); has && len(ds) > 0 {
						all := true
						if os.Getenv("DBGC05R9") != "" {
							for _, d := range ds {
								fmt.Fprintln(os.Stderr, "R9", id.Name, factsKey(d))
							}
						}
						for _, d := range ds {
							if !d.m["§set"] {
								all = false
							}
						}
						guarded = all
					}
				}
				g.markNodes = nil
			}
			r.Check(guarded, x, construct, "dominated by a nil test",
				fmt.Sprintf("`%s` is nil on a path that reaches this field access (declared without a value, assigned only on some branches) and no nil test dominates it: a well-formed but unexpected response makes the driver dereference nil", id.Name))
			return true
		})
	})
}

// nonNegAtCallSites: sz is p or p.f... for a parameter p of fi that fi does not modify before use; at every
// static call site the corresponding argument expression is known to be non-negative (`arg.f < 0` is false).
func nonNegAtCallSites(p *Program, fi *FuncInfo, sz ast.Expr) bool {
	info := fi.Pkg.TypesInfo
	root := rootIdent(sz)
	if root == nil {
		return false
	}
	pv, ok := info.Uses[root].(*types.Var)
	if !ok {
		return false
	}
	sig := fi.Obj.Type().(*types.Signature)
	idx := -1
	for i := 0; i < sig.Params().Len(); i++ {
		if sig.Params().At(i) == pv {
			idx = i
		}
	}
	if idx < 0 {
		return false
	}
	szStr := exprStr(sz)
	// not modified in the callee
	modified := false
	ast.Inspect(fi.Decl.Body, func(n ast.Node) bool {
		switch s := n.(type) {
		case *ast.AssignStmt:
			for _, l := range s.Lhs {
				if exprStr(l) == szStr || isIdentOf(info, l, pv) {
					modified = true
				}
			}
		case *ast.IncDecStmt:
			if exprStr(s.X) == szStr {
				modified = true
			}
		}
		return true
	})
	if modified {
		return false
	}
	nsites, okAll := 0, true
	for _, caller := range p.SortedFuncs() {
		if caller.Decl.Body == nil {
			continue
		}
		cinfo := caller.Pkg.TypesInfo
		ast.Inspect(caller.Decl.Body, func(n ast.Node) bool {
			c, ok := n.(*ast.CallExpr)
			if !ok {
				return true
			}
			fn := calleeOf(cinfo, c)
			if fn == nil || p.FuncOf(fn) != fi || idx >= len(c.Args) {
				return true
			}
			nsites++
			argE := ast.Unparen(c.Args[idx])
			if u, ok := argE.(*ast.UnaryExpr); ok && u.Op == token.AND {
				argE = ast.Unparen(u.X)
			}
			cands := []string{exprStr(argE)}
			// an embedded struct passed by address: its fields are also visible (promoted) on the outer value
			for {
				sel, ok := argE.(*ast.SelectorExpr)
				if !ok {
					break
				}
				if fv := fieldOf(cinfo, sel); fv == nil || !fv.Embedded() {
					break
				}
				argE = ast.Unparen(sel.X)
				cands = append(cands, exprStr(argE))
			}
			g := p.GraphOf(caller)
			if lit, ok := p.enclosingFuncNode(c).(*ast.FuncLit); ok {
				g = p.GraphOfLit(caller, lit)
			}
			f, reach := g.GuardFacts().Before(p.stmtOf(c, caller))
			if !reach {
				return true
			}
			siteOK := false
			for _, arg := range cands {
				sub := arg + strings.TrimPrefix(szStr, root.Name)
				if v, known := f.m[sub+" < 0"]; known && !v {
					siteOK = true
				}
			}
			if !siteOK {
				okAll = false
			}
			return true
		})
	}
	return nsites > 0 && okAll
}

// c05r10: framer.header is nil until readFrame has read and decoded a whole body. A function that calls readFrame on
// a framer and then reads through that framer's header must do so only where the error of that call is known to be
// nil (a malformed or oversized frame makes readFrame fail without setting the header: dereferencing it crashes the
// reader goroutine instead of handing the error to the waiting caller).
func c05r10(p *Program, r *Report) {
	hdr := p.Field("framer", "header")
	n := 0
	p.forEachFunc(false, func(fi *FuncInfo) {
		if fi.Pkg != p.Root || fi.Decl.Body == nil {
			return
		}
		info := fi.Pkg.TypesInfo
		// readFrame calls: framer text -> error variable
		errOf := map[string]string{}
		var calls []*ast.CallExpr
		for _, c := range callsIn(fi.Decl.Body) {
			if isCallTo(info, c, "(*framer).readFrame") {
				if rx := recvExpr(c); rx != nil {
					errOf[exprStr(ast.Unparen(rx))] = resultVarOf(p, c, 0)
					calls = append(calls, c)
				}
			}
		}
		if len(calls) == 0 {
			return
		}
		g := p.GraphOf(fi)
		facts := g.GuardFacts()
		inspectNoLit(fi.Decl.Body, func(x ast.Node) bool {
			sel, ok := x.(*ast.SelectorExpr)
			if !ok {
				return true
			}
			inner, ok := ast.Unparen(sel.X).(*ast.SelectorExpr)
			if !ok || fieldOf(info, inner) != hdr {
				return true
			}
			fr := exprStr(ast.Unparen(inner.X))
			ev, has := errOf[fr]
			if !has {
				return true
			}
			// only uses after a readFrame call
			after := false
			for _, c := range calls {
				if sel.Pos() > c.End() {
					after = true
				}
			}
			if !after {
				return true
			}
			n++
			f, _ := facts.Before(p.stmtOf(sel, fi))
			okNil := false
			if ev != "" && ev != "_" {
				if v, known := f.KnownStr(ev + " == nil"); known && v {
					okNil = true
				}
			}
			if v, known := f.KnownStr(fr + ".header == nil"); known && !v {
				okNil = true
			}
			r.Check(okNil, sel, fi.Name+" reads "+exprStr(sel)+" only after a successful readFrame", "readFrame's error known nil (or header known non-nil)",
				exprStr(sel)+" is read on a path where "+fr+".readFrame may have failed: the header pointer is only set on success, so a frame that cannot be read (oversized length, compressed body without a compressor, decode error) makes this a nil dereference in the goroutine that reads the connection")
			return true
		})
	})
	if n == 0 {
		// nothing dereferences the header after readFrame in the function that called it: fine, but say so
		r.OK(nil, "no function reads framer.header after calling readFrame on it", "census: 0 uses")
	}
}

func exprStr0(n ast.Node) string {
	if e, ok := n.(ast.Expr); ok {
		return exprStr(e)
	}
	return fmt.Sprintf("%T", n)
}
