package main

import (
	"fmt"
	"go/ast"
	"go/token"
	"go/types"
	"sort"
	"strings"
)

// E6a: byte-order tables.
//
// Writers: expressions byte(v>>s) / byte(v) / constants / byte variables that
// are appended to or stored into a buffer. Readers: T(p[i])<<s | T(p[j])<<t ...

// ByteItem is one byte produced by a writer.
type ByteItem struct {
	Base    string // source text of the value the byte is taken from ("stream", "length", "f.proto"), "" for constants
	Shift   int    // right shift applied before truncation to byte
	IsConst bool
	Val     int64
	Expr    ast.Expr
}

func (b ByteItem) String() string {
	if b.IsConst {
		return fmt.Sprintf("%d", b.Val)
	}
	if b.Shift == 0 {
		return "byte(" + b.Base + ")"
	}
	return fmt.Sprintf("byte(%s>>%d)", b.Base, b.Shift)
}

// parseByteItem recognises byte(X >> k), byte(X), uint8(...), constants, and plain byte-typed expressions.
func parseByteItem(info *types.Info, e ast.Expr) ByteItem {
	e = ast.Unparen(e)
	if v, ok := constInt(info, e); ok {
		return ByteItem{IsConst: true, Val: v, Expr: e}
	}
	if c, ok := e.(*ast.CallExpr); ok && len(c.Args) == 1 {
		if tv, ok := info.Types[c.Fun]; ok && tv.IsType() {
			if b, ok := tv.Type.Underlying().(*types.Basic); ok && (b.Kind() == types.Uint8 || b.Kind() == types.Byte) {
				inner := ast.Unparen(c.Args[0])
				if be, ok := inner.(*ast.BinaryExpr); ok && be.Op == token.SHR {
					if k, ok := constInt(info, be.Y); ok {
						return ByteItem{Base: stripConv(info, be.X), Shift: int(k), Expr: e}
					}
				}
				return ByteItem{Base: stripConv(info, inner), Shift: 0, Expr: e}
			}
		}
	}
	return ByteItem{Base: exprStr(e), Shift: 0, Expr: e}
}

// stripConv removes integer conversions around e: uint32(x) -> x.
func stripConv(info *types.Info, e ast.Expr) string {
	for {
		e = ast.Unparen(e)
		c, ok := e.(*ast.CallExpr)
		if !ok || len(c.Args) != 1 {
			break
		}
		tv, ok := info.Types[c.Fun]
		if !ok || !tv.IsType() {
			break
		}
		if _, ok := tv.Type.Underlying().(*types.Basic); !ok {
			break
		}
		e = c.Args[0]
	}
	return exprStr(e)
}

// Layout is the byte sequence a writer function appends under a set of branch assumptions.
type Layout struct {
	Conds []string // "cond=true/false" assumptions on the path
	Items []ByteItem
}

func (l Layout) String() string {
	var s []string
	for _, it := range l.Items {
		s = append(s, it.String())
	}
	return strings.Join(l.Conds, "&") + ": [" + strings.Join(s, " ") + "]"
}

// appendLayouts abstractly runs the statements of body, following if/else forks (bounded), and
// records the bytes appended to the buffer expression `buf` (e.g. "f.buf") through
// `buf = append(buf, items...)`; `buf = buf[:0]` resets the layout. Only straight-line code with
// if/else is supported; any other statement that mentions buf makes the result incomplete (ok=false).
func appendLayouts(info *types.Info, body []ast.Stmt, buf string) (out []Layout, ok bool) {
	ok = true
	type state struct {
		conds []string
		items []ByteItem
	}
	var run func(stmts []ast.Stmt, st state) []state
	run = func(stmts []ast.Stmt, st state) []state {
		cur := []state{st}
		for _, s := range stmts {
			var next []state
			for _, c := range cur {
				switch x := s.(type) {
				case *ast.AssignStmt:
					if len(x.Lhs) == 1 && len(x.Rhs) == 1 && exprStr(x.Lhs[0]) == buf {
						rhs := ast.Unparen(x.Rhs[0])
						if call, isCall := rhs.(*ast.CallExpr); isCall && calleeName(info, call) == "builtin.append" && len(call.Args) >= 1 && exprStr(call.Args[0]) == buf && !call.Ellipsis.IsValid() {
							n := state{conds: c.conds, items: append([]ByteItem{}, c.items...)}
							for _, a := range call.Args[1:] {
								n.items = append(n.items, parseByteItem(info, a))
							}
							next = append(next, n)
							continue
						}
						if sl, isSl := rhs.(*ast.SliceExpr); isSl && exprStr(sl.X) == buf && sl.Low == nil {
							if hv, isC := constInt(info, sl.High); isC && hv == 0 {
								next = append(next, state{conds: c.conds})
								continue
							}
						}
						ok = false
					}
					next = append(next, c)
				case *ast.IfStmt:
					cs := exprStr(x.Cond)
					thenS := run(x.Body.List, state{conds: append(append([]string{}, c.conds...), cs+"=true"), items: c.items})
					var elseS []state
					base := state{conds: append(append([]string{}, c.conds...), cs+"=false"), items: c.items}
					switch e := x.Else.(type) {
					case nil:
						elseS = []state{base}
					case *ast.BlockStmt:
						elseS = run(e.List, base)
					default:
						elseS = run([]ast.Stmt{e}, base)
					}
					next = append(next, thenS...)
					next = append(next, elseS...)
				default:
					next = append(next, c)
				}
			}
			cur = next
			if len(cur) > 64 {
				ok = false
				return cur
			}
		}
		return cur
	}
	for _, s := range run(body, state{}) {
		out = append(out, Layout{Conds: s.conds, Items: s.items})
	}
	return out, ok
}

// ByteRead is one term of a reader expression: the byte at Index of Base, shifted left by Shift.
type ByteRead struct {
	Base  string
	Index int
	Shift int
	Conv  string // conversion applied to the byte before shifting ("int16", "int32", "uint64", ...)
}

// parseOrChain decomposes T(p[i])<<s | T(p[j])<<t | ... ; ok=false if e has another shape.
func parseOrChain(info *types.Info, e ast.Expr) (out []ByteRead, ok bool) {
	e = ast.Unparen(e)
	// strip outer conversions: int(int16(..)<<8 | ...)
	for {
		c, isCall := e.(*ast.CallExpr)
		if !isCall || len(c.Args) != 1 {
			break
		}
		tv, has := info.Types[c.Fun]
		if !has || !tv.IsType() {
			break
		}
		// stop if the argument is an index expression: that's a term, not an outer conversion
		if _, isIdx := ast.Unparen(c.Args[0]).(*ast.IndexExpr); isIdx {
			break
		}
		e = ast.Unparen(c.Args[0])
	}
	var terms []ast.Expr
	var split func(x ast.Expr)
	split = func(x ast.Expr) {
		x = ast.Unparen(x)
		if b, isB := x.(*ast.BinaryExpr); isB && (b.Op == token.OR || b.Op == token.ADD) {
			split(b.X)
			split(b.Y)
			return
		}
		terms = append(terms, x)
	}
	split(e)
	for _, t := range terms {
		shift := 0
		if b, isB := t.(*ast.BinaryExpr); isB && b.Op == token.SHL {
			k, isC := constInt(info, b.Y)
			if !isC {
				return nil, false
			}
			shift = int(k)
			t = ast.Unparen(b.X)
		}
		conv := ""
		for {
			c, isCall := t.(*ast.CallExpr)
			if !isCall || len(c.Args) != 1 {
				break
			}
			tv, has := info.Types[c.Fun]
			if !has || !tv.IsType() {
				break
			}
			if conv == "" {
				conv = tv.Type.String()
			}
			t = ast.Unparen(c.Args[0])
		}
		ix, isIdx := t.(*ast.IndexExpr)
		if !isIdx {
			return nil, false
		}
		k, isC := constInt(info, ix.Index)
		if !isC {
			return nil, false
		}
		out = append(out, ByteRead{Base: exprStr(ix.X), Index: int(k), Shift: shift, Conv: conv})
	}
	return out, len(out) > 0
}

// isBigEndian reports whether reads are a big-endian field of width n starting at index lo.
func isBigEndian(reads []ByteRead) (lo, n int, ok bool) {
	if len(reads) == 0 {
		return 0, 0, false
	}
	rs := append([]ByteRead{}, reads...)
	sort.Slice(rs, func(i, j int) bool { return rs[i].Index < rs[j].Index })
	lo, n = rs[0].Index, len(rs)
	for i, r := range rs {
		if r.Index != lo+i || r.Shift != 8*(n-1-i) || r.Base != rs[0].Base {
			return lo, n, false
		}
	}
	return lo, n, true
}

// indexStores collects `p[k] = byte(v>>s)` statements in body: index constant (or "base+k" with symbolic base).
type ByteStore struct {
	Buf   string
	Index string // source text of the index expression
	Off   int    // constant offset part
	Sym   string // symbolic part ("" if constant)
	Item  ByteItem
}

func indexStores(info *types.Info, body ast.Node) []ByteStore {
	var out []ByteStore
	ast.Inspect(body, func(n ast.Node) bool {
		as, ok := n.(*ast.AssignStmt)
		if !ok || len(as.Lhs) != len(as.Rhs) {
			return true
		}
		for i, l := range as.Lhs {
			ix, ok := ast.Unparen(l).(*ast.IndexExpr)
			if !ok {
				continue
			}
			t := info.TypeOf(ix.X)
			if t == nil {
				continue
			}
			isBytes := false
			switch u := t.Underlying().(type) {
			case *types.Slice:
				isBytes = isByteType(u.Elem())
			case *types.Array:
				isBytes = isByteType(u.Elem())
			case *types.Pointer:
				if a, ok := u.Elem().Underlying().(*types.Array); ok {
					isBytes = isByteType(a.Elem())
				}
			}
			if !isBytes {
				continue
			}
			st := ByteStore{Buf: exprStr(ix.X), Index: exprStr(ix.Index), Item: parseByteItem(info, as.Rhs[i])}
			if k, ok := constInt(info, ix.Index); ok {
				st.Off = int(k)
			} else if b, ok := ast.Unparen(ix.Index).(*ast.BinaryExpr); ok && b.Op == token.ADD {
				if k, ok := constInt(info, b.Y); ok {
					st.Off, st.Sym = int(k), exprStr(b.X)
				} else if k, ok := constInt(info, b.X); ok {
					st.Off, st.Sym = int(k), exprStr(b.Y)
				} else {
					st.Sym = exprStr(ix.Index)
				}
			} else {
				st.Sym = exprStr(ix.Index)
			}
			out = append(out, st)
		}
		return true
	})
	return out
}

func isByteType(t types.Type) bool {
	b, ok := t.Underlying().(*types.Basic)
	return ok && (b.Kind() == types.Uint8 || b.Kind() == types.Byte)
}

// ---- normal forms for fixed-width big-endian coding (hand-written shifts or encoding/binary) ----

var binaryPut = map[string]int{"binary.(bigEndian).PutUint16": 2, "binary.(bigEndian).PutUint32": 4, "binary.(bigEndian).PutUint64": 8}
var binaryPutLE = map[string]int{"binary.(littleEndian).PutUint16": 2, "binary.(littleEndian).PutUint32": 4, "binary.(littleEndian).PutUint64": 8}
var binaryGet = map[string]int{"binary.(bigEndian).Uint16": 2, "binary.(bigEndian).Uint32": 4, "binary.(bigEndian).Uint64": 8}
var binaryGetLE = map[string]int{"binary.(littleEndian).Uint16": 2, "binary.(littleEndian).Uint32": 4, "binary.(littleEndian).Uint64": 8}

// fixedEncoding describes the bytes a statement list produces for one integer value.
type fixedEncoding struct {
	Width     int
	Value     string // source text of the encoded value, conversions stripped
	BigEndian bool
	How       string
}

// encodingOf recognises how stmts (and the returned / written expression) encode an integer:
//   - a []byte composite literal of byte(x>>k) items (ret),
//   - p := make([]byte, W) followed by p[i] = byte(x>>k) stores,
//   - p := make([]byte, W) / var a [W]byte followed by binary.BigEndian.PutUintW(p, uintW(x)),
//   - a run of WriteByte(byte(x>>k)) calls.
func encodingOf(info *types.Info, stmts []ast.Stmt, ret ast.Expr) (fixedEncoding, bool) {
	if ret != nil {
		if cl, ok := ast.Unparen(ret).(*ast.CompositeLit); ok && len(cl.Elts) > 0 {
			var items []ByteItem
			for _, e := range cl.Elts {
				items = append(items, parseByteItem(info, e))
			}
			return fromItems(items, "composite literal")
		}
	}
	// binary.BigEndian.PutUintW(buf, uintW(x))
	for _, st := range stmts {
		for _, c := range callsIn(st) {
			name := calleeName(info, c)
			if w, ok := binaryPut[name]; ok && len(c.Args) == 2 {
				return fixedEncoding{Width: w, Value: stripConv(info, c.Args[1]), BigEndian: true, How: name}, true
			}
			if w, ok := binaryPutLE[name]; ok && len(c.Args) == 2 {
				return fixedEncoding{Width: w, Value: stripConv(info, c.Args[1]), BigEndian: false, How: name}, true
			}
		}
	}
	// WriteByte runs
	var items []ByteItem
	for _, st := range stmts {
		for _, c := range callsIn(st) {
			if calleeName(info, c) == "bytes.(*Buffer).WriteByte" && len(c.Args) == 1 {
				items = append(items, parseByteItem(info, c.Args[0]))
			}
		}
	}
	if len(items) > 0 {
		return fromItems(items, "WriteByte run")
	}
	// indexed stores
	var stores []ByteStore
	for _, st := range stmts {
		stores = append(stores, indexStores(info, st)...)
	}
	if len(stores) > 0 {
		sort.Slice(stores, func(i, j int) bool { return stores[i].Off < stores[j].Off })
		for i, s := range stores {
			if s.Sym != "" || s.Off != i {
				return fixedEncoding{}, false
			}
			items = append(items, s.Item)
		}
		return fromItems(items, "indexed stores")
	}
	return fixedEncoding{}, false
}

func fromItems(items []ByteItem, how string) (fixedEncoding, bool) {
	n := len(items)
	if n == 0 {
		return fixedEncoding{}, false
	}
	be, le := true, true
	for i, it := range items {
		if it.IsConst || it.Base != items[0].Base {
			return fixedEncoding{}, false
		}
		if it.Shift != 8*(n-1-i) {
			be = false
		}
		if it.Shift != 8*i {
			le = false
		}
	}
	if !be && !le {
		return fixedEncoding{Width: n, Value: items[0].Base, How: how + " (neither byte order)"}, true
	}
	return fixedEncoding{Width: n, Value: items[0].Base, BigEndian: be, How: how}, true
}

// fixedDecoding describes how an expression decodes bytes.
type fixedDecoding struct {
	Width     int
	Base      string // the byte slice read
	Offset    int
	BigEndian bool
	Conv      string // innermost signedness-relevant conversion: "int32", "int16", "int", "uint64", ...
	How       string
}

// decodingOf recognises T(p[i])<<s | ... chains and T(binary.BigEndian.UintW(p)) calls.
func decodingOf(info *types.Info, e ast.Expr) (fixedDecoding, bool) {
	if reads, ok := parseOrChain(info, e); ok && len(reads) > 1 {
		lo, n, be := isBigEndian(reads)
		return fixedDecoding{Width: n, Base: reads[0].Base, Offset: lo, BigEndian: be, Conv: reads[0].Conv, How: "shift chain"}, true
	}
	// conversions around a binary.*Endian.UintW call: the innermost conversion decides sign extension
	cur := ast.Unparen(e)
	conv := ""
	for {
		c, ok := cur.(*ast.CallExpr)
		if !ok {
			return fixedDecoding{}, false
		}
		if tv, isT := info.Types[c.Fun]; isT && tv.IsType() && len(c.Args) == 1 {
			conv = tv.Type.String()
			cur = ast.Unparen(c.Args[0])
			continue
		}
		name := calleeName(info, c)
		if w, ok := binaryGet[name]; ok && len(c.Args) == 1 {
			base, off := sliceBase(info, c.Args[0])
			return fixedDecoding{Width: w, Base: base, Offset: off, BigEndian: true, Conv: conv, How: name}, true
		}
		if w, ok := binaryGetLE[name]; ok && len(c.Args) == 1 {
			base, off := sliceBase(info, c.Args[0])
			return fixedDecoding{Width: w, Base: base, Offset: off, BigEndian: false, Conv: conv, How: name}, true
		}
		return fixedDecoding{}, false
	}
}

// sliceBase: p or p[k:] -> ("p", k)
func sliceBase(info *types.Info, e ast.Expr) (string, int) {
	e = ast.Unparen(e)
	if sl, ok := e.(*ast.SliceExpr); ok {
		off := 0
		if sl.Low != nil {
			if k, ok := constInt(info, sl.Low); ok {
				off = int(k)
			} else {
				return exprStr(e), 0
			}
		}
		return exprStr(sl.X), off
	}
	return exprStr(e), 0
}

// decodingOfP is decodingOf that also follows a one-purpose decoder helper of the module (decShort(data[:2])): the
// helper's widest decodable return expression over its only parameter gives width, byte order and the innermost
// conversion (the helper's result type decides the sign extension of the caller's conversion); base and offset are
// those of the argument.
func decodingOfP(p *Program, info *types.Info, e ast.Expr) (fixedDecoding, bool) {
	if d, ok := decodingOf(info, e); ok {
		return d, true
	}
	cur := ast.Unparen(e)
	var nearest types.Type // the conversion applied directly to the helper's result
	for {
		c, ok := cur.(*ast.CallExpr)
		if !ok {
			return fixedDecoding{}, false
		}
		if tv, isT := info.Types[c.Fun]; isT && tv.IsType() && len(c.Args) == 1 {
			nearest = tv.Type
			cur = ast.Unparen(c.Args[0])
			continue
		}
		h := p.FuncOf(calleeOf(info, c))
		if h == nil || h.Decl.Body == nil || len(c.Args) != 1 || h.Decl.Type.Params.NumFields() != 1 {
			return fixedDecoding{}, false
		}
		pn := paramObj(h.Pkg.TypesInfo, h.Decl.Type, 0)
		var dec fixedDecoding
		okDec := false
		ast.Inspect(h.Decl.Body, func(x ast.Node) bool {
			if rs, ok := x.(*ast.ReturnStmt); ok && len(rs.Results) == 1 {
				if dd, ok := decodingOf(h.Pkg.TypesInfo, rs.Results[0]); ok && dd.Width > dec.Width && pn != nil && dd.Base == pn.Name() {
					dec, okDec = dd, true
				}
			}
			return true
		})
		if !okDec {
			return fixedDecoding{}, false
		}
		base, off := sliceBase(info, c.Args[0])
		if dec.Conv == "" || isUnsignedName(dec.Conv) {
			// the helper's result type still decides how the caller's widening conversion extends
			if rt := h.Decl.Type.Results; rt != nil && len(rt.List) == 1 {
				dec.Conv = exprStr(rt.List[0].Type)
			}
		}
		// uint16(decShort(..)): a conversion to the unsigned type of the same size reinterprets the bits, and the
		// widening that follows zero-extends
		if nearest != nil {
			if nb, ok := nearest.Underlying().(*types.Basic); ok && nb.Info()&types.IsUnsigned != 0 {
				if rt := info.TypeOf(c); rt != nil {
					if rb, ok := rt.Underlying().(*types.Basic); ok && p.sizeofBasic(rb) == p.sizeofBasic(nb) {
						dec.Conv = nb.Name()
					}
				}
			}
		}
		dec.Base, dec.Offset = base, off+dec.Offset
		dec.How = h.Name + " (" + dec.How + ")"
		return dec, true
	}
}

func isUnsignedName(s string) bool { return strings.HasPrefix(s, "uint") || s == "byte" }

func (p *Program) sizeofBasic(b *types.Basic) int {
	switch b.Kind() {
	case types.Int8, types.Uint8:
		return 1
	case types.Int16, types.Uint16:
		return 2
	case types.Int32, types.Uint32:
		return 4
	case types.Int64, types.Uint64:
		return 8
	}
	return 0
}
