package main

import (
	"fmt"
	"go/ast"
	"go/token"
	"go/types"
	"strings"
)

// E3: guarded-field tables. Each entry was discovered by counting accesses under a lock, then confirmed by
// reading; the table is frozen here and every access in the current source is checked against it.

type guardedField struct {
	Type, Field, Mutex string
	// LockedByCaller: functions that touch the field without locking because their callers hold the lock
	// (the repo marks these in comments); every call site is checked instead.
	LockedByCaller map[string]string
	// Exempt: function -> reason (one named symbol, one reason).
	Exempt map[string]string
}

// isWriteAccess reports whether selector sel (denoting the field) is written at this occurrence.
func (p *Program) isWriteAccess(info *types.Info, sel *ast.SelectorExpr) bool {
	var cur ast.Node = sel
	for {
		par := p.Parent(cur)
		switch x := par.(type) {
		case *ast.ParenExpr:
			cur = par
			continue
		case *ast.IndexExpr:
			if x.X == cur {
				cur = par
				continue
			}
			return false
		case *ast.SliceExpr:
			return false
		case *ast.AssignStmt:
			for _, l := range x.Lhs {
				if l == cur {
					return true
				}
			}
			return false
		case *ast.IncDecStmt:
			return x.X == cur
		case *ast.CallExpr:
			name := calleeName(info, x)
			if name == "builtin.delete" && len(x.Args) > 0 && x.Args[0] == cur {
				return true
			}
			return false
		case *ast.UnaryExpr:
			return x.Op == token.AND // address taken: treat as write
		case *ast.RangeStmt:
			return false
		}
		return false
	}
}

// freshLocal reports whether root is a local variable of fn initialised from a composite literal / new(T)
// in fn (an object not yet published when accessed).
func freshLocal(info *types.Info, fn *ast.FuncDecl, root *ast.Ident) bool {
	obj := info.Uses[root]
	if obj == nil {
		obj = info.Defs[root]
	}
	v, ok := obj.(*types.Var)
	if !ok || v.IsField() {
		return false
	}
	fresh := false
	ast.Inspect(fn.Body, func(n ast.Node) bool {
		as, ok := n.(*ast.AssignStmt)
		if !ok || len(as.Lhs) != len(as.Rhs) {
			return true
		}
		for i, l := range as.Lhs {
			id, ok := l.(*ast.Ident)
			if !ok || info.Defs[id] != obj {
				continue
			}
			rhs := ast.Unparen(as.Rhs[i])
			if u, ok := rhs.(*ast.UnaryExpr); ok && u.Op == token.AND {
				rhs = ast.Unparen(u.X)
			}
			switch x := rhs.(type) {
			case *ast.CompositeLit:
				fresh = true
			case *ast.CallExpr:
				if id, ok := x.Fun.(*ast.Ident); ok && id.Name == "new" {
					fresh = true
				}
			}
		}
		return true
	})
	return fresh
}

// checkGuardedFields checks every access to the listed fields in the root package.
func checkGuardedFields(p *Program, r *Report, table []guardedField) {
	for _, gf := range table {
		fv := p.Field(gf.Type, gf.Field)
		if fv == nil {
			r.Unresolved("guarded field %s.%s not found", gf.Type, gf.Field)
			continue
		}
		if p.Field(gf.Type, gf.Mutex) == nil {
			r.Unresolved("mutex %s.%s not found", gf.Type, gf.Mutex)
			continue
		}
		naccess := 0
		p.forEachFunc(false, func(fi *FuncInfo) {
			info := fi.Pkg.TypesInfo
			var uses []*ast.SelectorExpr
			ast.Inspect(fi.Decl.Body, func(x ast.Node) bool {
				if sel, ok := x.(*ast.SelectorExpr); ok && fieldOf(info, sel) == fv {
					uses = append(uses, sel)
				}
				return true
			})
			if len(uses) == 0 {
				return
			}
			if reason, ok := gf.Exempt[fi.Name]; ok {
				r.OK(fi.Decl, fi.Name+" accesses "+gf.Type+"."+gf.Field+" (exempt)", reason)
				naccess += len(uses)
				return
			}
			_, byCaller := gf.LockedByCaller[fi.Name]
			for _, sel := range uses {
				naccess++
				if _, inLit := p.Parent(sel).(*ast.KeyValueExpr); inLit {
					continue
				}
				root := rootIdent(sel.X)
				rootStr := exprStr(sel.X)
				mode := "read"
				write := p.isWriteAccess(info, sel)
				if write {
					mode = "write"
				}
				name := fi.Name + " " + mode + " of " + gf.Type + "." + gf.Field
				if root != nil && freshLocal(info, fi.Decl, root) {
					r.OK(sel, name, "object constructed in this function, not yet published")
					continue
				}
				if byCaller {
					r.OK(sel, name, "lock held by caller (checked at call sites): "+gf.LockedByCaller[fi.Name])
					continue
				}
				g := p.GraphOf(fi)
				if lit, ok := p.enclosingFuncNode(sel).(*ast.FuncLit); ok {
					g = p.GraphOfLit(fi, lit)
				}
				ls, reach := g.Lockset().Before(sel)
				if !reach {
					continue
				}
				mu := rootStr + "." + gf.Mutex
				held := ls[mu] || !write && ls["R:"+mu]
				why := "under " + mu
				bad := mode + " of " + gf.Type + "." + gf.Field + " without holding " + mu
				if write && !ls[mu] && ls["R:"+mu] {
					bad = "write of " + gf.Type + "." + gf.Field + " under the read lock only"
				}
				if !held && root != nil && exprStr(sel.X) == root.Name && p.isReceiverOf(fi, root) {
					if _, inLit := p.enclosingFuncNode(sel).(*ast.FuncLit); !inLit {
						// a private helper that relies on its callers: every call site must hold the lock
						if okC, whyC := p.heldAtAllCallSites(fi, gf.Mutex, write, 0); okC {
							held, why = true, whyC
						} else if whyC != "" {
							bad += "; " + whyC
						}
					}
				}
				r.Check(held, sel, name, why, bad+" (data race; the field is guarded by that mutex everywhere else)")
			}
		})
		// call sites of locked-by-caller functions
		for fname := range gf.LockedByCaller {
			target := p.Func(fname)
			if target == nil {
				// the helper was merged into its caller or renamed: its accesses are judged where they now are
				// (under the caller's own lock, or through heldAtAllCallSites for an unlisted helper)
				continue
			}
			p.forEachFunc(false, func(fi *FuncInfo) {
				info := fi.Pkg.TypesInfo
				ast.Inspect(fi.Decl.Body, func(x ast.Node) bool {
					c, ok := x.(*ast.CallExpr)
					if !ok {
						return true
					}
					fn := calleeOf(info, c)
					if fn == nil || p.FuncOf(fn) != target {
						return true
					}
					if _, also := gf.LockedByCaller[fi.Name]; also {
						return true // caller is itself locked-by-caller on the same object
					}
					rx := recvExpr(c)
					if rx == nil {
						return true
					}
					g := p.GraphOf(fi)
					if lit, ok := p.enclosingFuncNode(c).(*ast.FuncLit); ok {
						g = p.GraphOfLit(fi, lit)
					}
					ls, reach := g.Lockset().Before(c)
					if !reach {
						return true
					}
					mu := exprStr(rx) + "." + gf.Mutex
					r.Check(ls[mu] || ls["R:"+mu], c, fi.Name+" calls "+fname+" (requires "+gf.Mutex+")", "caller holds "+mu,
						fname+" touches "+gf.Type+"."+gf.Field+" and requires its caller to hold "+mu+"; this call site does not")
					return true
				})
			})
		}
		if naccess == 0 {
			r.Unresolved("no access to %s.%s found", gf.Type, gf.Field)
		}
	}
}

// heldLocks renders a lockset.
func heldLocks(ls strset) string { return strings.Join(ls.sorted(), ",") }

// isReceiverOf: id is the receiver variable of method fi.
func (p *Program) isReceiverOf(fi *FuncInfo, id *ast.Ident) bool {
	if fi.Decl.Recv == nil || len(fi.Decl.Recv.List) != 1 || len(fi.Decl.Recv.List[0].Names) != 1 {
		return false
	}
	info := fi.Pkg.TypesInfo
	return info.Uses[id] != nil && info.Uses[id] == info.Defs[fi.Decl.Recv.List[0].Names[0]]
}

// heldAtAllCallSites: target is an unexported method that is only ever called, and every call site holds
// <receiver>.<mutexField> (the write lock when needWrite) - directly, or because the calling method is itself
// such a helper on the same receiver.
func (p *Program) heldAtAllCallSites(target *FuncInfo, mutexField string, needWrite bool, depth int) (bool, string) {
	if depth > 3 || target.Obj == nil || target.Obj.Exported() {
		return false, ""
	}
	if p.usedAsValue(target) {
		return false, target.Name + " is also used as a function value"
	}
	nsites := 0
	bad := ""
	for _, caller := range p.SortedFuncs() {
		if caller.Decl.Body == nil {
			continue
		}
		cinfo := caller.Pkg.TypesInfo
		ast.Inspect(caller.Decl.Body, func(x ast.Node) bool {
			c, ok := x.(*ast.CallExpr)
			if !ok || bad != "" {
				return true
			}
			fn := calleeOf(cinfo, c)
			if fn == nil || p.FuncOf(fn) != target {
				return true
			}
			nsites++
			switch p.Parent(c).(type) {
			case *ast.GoStmt:
				bad = "started as a goroutine at " + p.Pos(c)
				return true
			case *ast.DeferStmt:
				bad = "deferred at " + p.Pos(c)
				return true
			}
			rx := recvExpr(c)
			if rx == nil {
				bad = "call without receiver at " + p.Pos(c)
				return true
			}
			g := p.GraphOf(caller)
			if lit, ok := p.enclosingFuncNode(c).(*ast.FuncLit); ok {
				g = p.GraphOfLit(caller, lit)
			}
			ls, reach := g.Lockset().Before(c)
			if !reach {
				return true
			}
			mu := exprStr(rx) + "." + mutexField
			if ls[mu] || !needWrite && ls["R:"+mu] {
				return true
			}
			if id, isId := ast.Unparen(rx).(*ast.Ident); isId && p.isReceiverOf(caller, id) {
				if _, inLit := p.enclosingFuncNode(c).(*ast.FuncLit); !inLit {
					if okUp, _ := p.heldAtAllCallSites(caller, mutexField, needWrite, depth+1); okUp {
						return true
					}
				}
			}
			bad = "call site " + p.Pos(c) + " in " + caller.Name + " does not hold " + mu
			return true
		})
	}
	if bad != "" {
		return false, target.Name + " relies on its callers for the lock, but " + bad
	}
	if nsites == 0 {
		return false, ""
	}
	return true, fmt.Sprintf("lock held at all %d call sites of %s", nsites, target.Name)
}
