package main

import (
	"go/ast"
	"go/token"
	"go/types"
	"os"
	"sort"
	"strconv"
	"strings"
)

var poolGuards = []guardedField{
	{Type: "hostConnPool", Field: "conns", Mutex: "mu"},
	{Type: "hostConnPool", Field: "closed", Mutex: "mu"},
	{Type: "hostConnPool", Field: "filling", Mutex: "mu"},
	{Type: "policyConnPool", Field: "hostConnPools", Mutex: "mu"},
}

var sessionGuards = []guardedField{
	{Type: "Session", Field: "cons", Mutex: "mu", Exempt: map[string]string{
		"NewSession": "the session is not yet published while NewSession runs",
	}},
	{Type: "Session", Field: "pageSize", Mutex: "mu", Exempt: map[string]string{"NewSession": "the session is not yet published while NewSession runs"}},
	{Type: "Session", Field: "prefetch", Mutex: "mu", Exempt: map[string]string{"NewSession": "the session is not yet published while NewSession runs"}},
	{Type: "Session", Field: "trace", Mutex: "mu", Exempt: map[string]string{"NewSession": "the session is not yet published while NewSession runs"}},
	{Type: "Session", Field: "isClosed", Mutex: "sessionStateMu"},
	{Type: "Session", Field: "isClosing", Mutex: "sessionStateMu"},
	{Type: "Session", Field: "isInitialized", Mutex: "sessionStateMu"},
	{Type: "queryMetrics", Field: "m", Mutex: "l", LockedByCaller: map[string]string{
		"(*queryMetrics).hostMetricsLocked": "named and documented as requiring qm.l to be held by the caller",
	}},
	{Type: "queryMetrics", Field: "totalAttempts", Mutex: "l"},
	{Type: "routingKeyInfoLRU", Field: "lru", Mutex: "mu"},
	{Type: "eventDebouncer", Field: "events", Mutex: "mu", LockedByCaller: map[string]string{
		"(*eventDebouncer).flush": "documented: flush must be called with mu locked",
	}},
	{Type: "refreshDebouncer", Field: "stopped", Mutex: "mu"},
	{Type: "refreshDebouncer", Field: "broadcaster", Mutex: "mu"},
	{Type: "errorBroadcaster", Field: "listeners", Mutex: "mu"},
}

func init() {
	register(&PropertySpec{
		ID: "C17",
		Explanation: "Structural necessary conditions of 'pools stay within bounds; a session is safe to share and always closes': R1 the pool's connection list and state flags are only touched under pool.mu (writes under the write lock); R2 a single filler: filling is set in the same write-locked section that re-checks closed/filling/fill count, every exit of the fill work reaches fillingStopped, and connectMany waits for every dial it started; " +
			"R3 only connect grows the pool, under the write lock after the closed check, and a late connection of a closed pool is closed; R4 no method calls, while holding a mutex of its receiver, a method that locks the same mutex or closes a pool-owned connection (self-deadlock through the error handler); R5 Session.Close test-and-sets isClosing in one critical section, stops every component on every path and then sets isClosed, and the query entry points check Closed() first; R6 stop handshakes pair (=C06.R8/R9); R7 frozen guarded-field tables of Session, query metrics, debouncers and caches." +
			" R2 also: the number of connections to create is computed from the pool's fields inside the write-locked section that sets filling; R9 a send on a service's stop channel is blocking, or non-blocking into a buffered channel, so the signal cannot be lost." +
			" R10 (go directive < 1.22) closures started with go / defer in a loop do not capture the loop variable; R11 no blocking send to a service goroutine while holding the mutex that goroutine takes; R12 the control connection being replaced is closed on every path on which it exists.",
		NotDecided: "absence of data races in general (only the frozen guarded-field tables); bounded goroutine exit time; the exact number of connections under every interleaving of fills and failures.",
		Rules: []*Rule{
			{ID: "C17.R1", Floor: 25, Doc: "hostConnPool.conns/closed/filling and policyConnPool.hostConnPools only under their mutex", Run: func(p *Program, r *Report) { checkGuardedFields(p, r, poolGuards) }},
			{ID: "C17.R2", Floor: 5, Doc: "single filler: filling set with the re-check in one write-locked section; every fill path reaches fillingStopped; connectMany joins its dials", Run: c17r2},
			{ID: "C17.R3", Floor: 3, Doc: "only connect appends to pool.conns, under the write lock, after the closed check whose true branch closes the connection", Run: c17r3},
			{ID: "C17.R4", Floor: 12, Doc: "no call, under a receiver's mutex, to a method that locks the same mutex, nor to Conn.Close/closeWithError under hostConnPool.mu", Run: c17r4},
			{ID: "C17.R5", Floor: 10, Doc: "Session.Close sequence and Closed() checks at the query entry points", Run: c17r5},
			{ID: "C17.R6", Floor: 3, Doc: "stop handshakes pair (bare send on quit vs. returns of the receiving loop)", Run: c06r8},
			{ID: "C17.R7", Floor: 40, Doc: "guarded-field tables: Session, queryMetrics, routingKeyInfoLRU, debouncers, errorBroadcaster", Run: func(p *Program, r *Report) { checkGuardedFields(p, r, sessionGuards) }},
			{ID: "C17.R8", Floor: 3, Doc: "stoppable services: work is accepted (a listener registered, a timer armed) only after testing the stopped flag under the same lock, and the stopping side releases what was registered", Run: c17r8},
			{ID: "C17.R9", Floor: 2, Doc: "stop signals cannot be lost: a send on a service's stop channel either blocks until taken or goes into a buffered channel", Run: c17r9},
			{ID: "C17.R10", Floor: 1, Doc: "goroutines and deferred closures started in a loop do not capture the loop's iteration variable (the module's go version gives it per-loop scope)", Run: c17r10},
			{ID: "C17.R11", Floor: 1, Doc: "no blocking channel operation on an object's channel while holding that object's mutex when the goroutine on the other end takes the same mutex", Run: c17r11},
			{ID: "C17.R12", Floor: 1, Doc: "the control connection that is being replaced is closed on every path", Run: c17r12},
			{ID: "C17.R13", Floor: 1, Doc: "no else-if that tests an error is already decided false by the branch before it (shadowed error variables)", Run: func(p *Program, r *Report) {
				if deadErrorBranches(p, r, func(fi *FuncInfo) bool { return fi.Pkg == p.Root }, "dead error branch") == 0 {
					r.Unresolved("no else-if on an error value found")
				}
			}},
			{ID: "C17.R19", Floor: 1, Doc: "no unlabelled break as the last statement of a switch / select case inside a loop (it leaves the switch, not the loop)", Run: func(p *Program, r *Report) {
				n := noopBreaks(p, r)
				if n == 0 {
					r.Unresolved("no switch or select inside a loop in the module")
				} else {
					r.OK(nil, itoa(n)+" cases of switches / selects inside loops examined", "census")
				}
			}},
			{ID: "C17.R18", Floor: 6, Doc: "every loop without a condition in the module can be left (return, break out, panic): no background goroutine is unstoppable by construction", Run: func(p *Program, r *Report) {
				if endlessLoops(p, r) == 0 {
					r.Unresolved("no loop without a condition in the module")
				}
			}},
			{ID: "C17.R17", Floor: 3, Doc: "a connection a function obtains is closed, returned, stored or handed on on every path (except where obtaining it failed)", Run: func(p *Program, r *Report) {
				if connLeaks(p, r) == 0 {
					r.Unresolved("no function obtains a connection together with an error")
				}
			}},
			{ID: "C17.R16", Floor: 10, Doc: "a field that is accessed through sync/atomic anywhere is accessed through sync/atomic everywhere (outside the construction of the object)", Run: func(p *Program, r *Report) {
				if atomicDiscipline(p, r) == 0 {
					r.Unresolved("no field is accessed through sync/atomic")
				}
			}},
			{ID: "C17.R20", Floor: 8, Doc: "no goroutine waits on a channel (bare receive, range over a channel) while it certainly holds a mutex (every function and function literal of the module)", Run: c17BlockingUnderLock},
			{ID: "C17.R15", Floor: 100, Doc: "every mutex a function locks is unlocked again on every path to every exit (every function and function literal of the module)", Run: func(p *Program, r *Report) {
				if lockBalance(p, r, func(fi *FuncInfo) bool { return true }) == 0 {
					r.Unresolved("no function locks a mutex")
				}
			}},
			{ID: "C17.R14", Floor: 1, Doc: "a pool's connection list is shortened by one only after the last element has been moved into the slot of the connection being removed", Run: c17r14},
		},
	})
}

func c17r2(p *Program, r *Report) {
	fi := r.NeedFunc("(*hostConnPool).fill")
	if fi == nil {
		return
	}
	g := p.GraphOf(fi)
	info := g.Info
	nset := 0
	// the "connections missing" variables: assigned from <pool>.size - ...
	countVars := map[string]bool{}
	for _, u := range p.unitsOf(fi) {
		ast.Inspect(u.Decl.Body, func(n ast.Node) bool {
			if as, ok := n.(*ast.AssignStmt); ok && len(as.Lhs) == len(as.Rhs) {
				for i, rhs := range as.Rhs {
					if b, isB := ast.Unparen(rhs).(*ast.BinaryExpr); isB && b.Op == token.SUB && p.isField(info, b.X, "hostConnPool", "size") {
						if id, isId := as.Lhs[i].(*ast.Ident); isId {
							countVars[id.Name] = true
						}
					}
					// the same difference computed by a one-line helper: missing(size) = size - len(conns)
					if c, isC := ast.Unparen(rhs).(*ast.CallExpr); isC {
						if fn := calleeOf(info, c); fn != nil {
							if h := p.FuncOf(fn); h != nil && h.Decl.Body != nil && len(h.Decl.Body.List) == 1 {
								if rs, isR := h.Decl.Body.List[0].(*ast.ReturnStmt); isR && len(rs.Results) == 1 {
									if b, isB := ast.Unparen(rs.Results[0]).(*ast.BinaryExpr); isB && b.Op == token.SUB {
										hinfo := h.Pkg.TypesInfo
										sizeOK := p.isField(hinfo, b.X, "hostConnPool", "size")
										if pid, isId := ast.Unparen(b.X).(*ast.Ident); isId {
											if k := paramIndexByName(h.Decl.Type, pid.Name); k >= 0 && k < len(c.Args) && p.isField(info, c.Args[k], "hostConnPool", "size") {
												sizeOK = true
											}
										}
										connsOK := false
										ast.Inspect(b.Y, func(y ast.Node) bool {
											if sel, isSel := y.(*ast.SelectorExpr); isSel && p.isField(hinfo, sel, "hostConnPool", "conns") {
												connsOK = true
											}
											return true
										})
										if id, isId := as.Lhs[i].(*ast.Ident); isId && sizeOK && connsOK {
											countVars[id.Name] = true
										}
									}
								}
							}
						}
					}
				}
			}
			return true
		})
	}
	// a caller variable that receives such a count from a helper's named result carries the same meaning
	for pass := 0; pass < 2; pass++ {
		for _, u := range p.unitsOf(fi) {
			ast.Inspect(u.Decl.Body, func(n ast.Node) bool {
				as, ok := n.(*ast.AssignStmt)
				if !ok || len(as.Rhs) != 1 {
					return true
				}
				c, isC := ast.Unparen(as.Rhs[0]).(*ast.CallExpr)
				if !isC {
					return true
				}
				fn := calleeOf(info, c)
				if fn == nil {
					return true
				}
				h := p.FuncOf(fn)
				if h == nil || h.Decl.Type.Results == nil {
					return true
				}
				k := 0
				for _, rf := range h.Decl.Type.Results.List {
					for _, rn := range rf.Names {
						if countVars[rn.Name] && k < len(as.Lhs) {
							if id, isId := as.Lhs[k].(*ast.Ident); isId && id.Name != "_" {
								countVars[id.Name] = true
							}
						}
						k++
					}
				}
				return true
			})
		}
	}
	// fill and the helpers it was split into
	for _, u := range p.unitsOf(fi) {
		ug := p.GraphOf(u)
		facts := ug.GuardFacts()
		locks := ug.Lockset()
		if u.Name == "(*hostConnPool).fillingStopped" {
			continue
		}
		ast.Inspect(u.Decl.Body, func(n ast.Node) bool {
			as, ok := n.(*ast.AssignStmt)
			if !ok {
				return true
			}
			for i, l := range as.Lhs {
				if !p.isField(info, l, "hostConnPool", "filling") {
					continue
				}
				nset++
				root := exprStr(ast.Unparen(l).(*ast.SelectorExpr).X)
				v, isC := info.Types[as.Rhs[i]]
				if !isC || v.Value == nil || v.Value.String() != "true" {
					r.Bad(as, "(*hostConnPool).fill clears filling", "fill may only set filling; it is cleared by fillingStopped")
					continue
				}
				f, _ := facts.Before(as)
				ls, _ := locks.Before(as)
				closedV, ck := f.KnownStr(root + ".closed")
				fillV, fk := f.KnownStr(root + ".filling")
				r.Check(ls[root+".mu"], as, "(*hostConnPool).fill sets filling under the write lock", "write lock held", "filling is set without the write lock: two fillers can both start")
				r.Check(ck && !closedV && fk && !fillV, as, "(*hostConnPool).fill sets filling after re-checking closed and filling in the same critical section",
					"closed and filling known false since the lock was taken", "filling=true is not dominated by a re-check of closed/filling made in the same write-locked section (a second filler, or a fill of a closed pool, can start)")
				// fill count re-checked too: a variable computed as <pool>.size - <number of connections> is known positive
				okCount := false
				for atom, val := range f.m {
					for cv := range countVars {
						if mentions(atom, cv) && (strings.HasSuffix(atom, " < 1") && !val || strings.HasPrefix(atom, "0 < ") && val) {
							okCount = true
						}
					}
				}
				// or the relation itself is known: fewer connections than the size
				if v, known := f.KnownStr("len(" + root + ".conns) < " + root + ".size"); known && v {
					okCount = true
				}
				r.Check(okCount, as, "(*hostConnPool).fill sets filling only when connections are missing", "fillCount > 0 known in the same section", "filling starts without a positive fill count computed under the lock: the pool can grow beyond its size")
				// ... and that count was computed from the pool's fields inside this critical section (a count taken
				// before the lock was re-acquired describes a pool another filler may have filled meanwhile)
				fresh := Solve(ug, Lattice[strset]{
					Init: strset{}, Join: func(a, b strset) strset { return a.intersect(b) }, Eq: func(a, b strset) bool { return a.eq(b) },
					Step: func(st strset, step Step) strset {
						if step.Kind != StNode {
							return st
						}
						for _, c := range callsIn(step.Node) {
							if _, isMu := isMutexMethod(calleeName(info, c)); isMu {
								if _, isDefer := step.Node.(*ast.DeferStmt); !isDefer {
									return strset{}
								}
							}
						}
						if a2, ok := step.Node.(*ast.AssignStmt); ok && len(a2.Rhs) == 1 && len(a2.Lhs) > 1 {
							// counts returned by a helper that reads the pool's fields
							if hc, isCall := ast.Unparen(a2.Rhs[0]).(*ast.CallExpr); isCall {
								if fn := calleeOf(info, hc); fn != nil {
									if h := p.FuncOf(fn); h != nil && h.Decl.Body != nil {
										reads := false
										ast.Inspect(h.Decl.Body, func(y ast.Node) bool {
											if sel, isSel := y.(*ast.SelectorExpr); isSel && p.isFieldOf(h.Pkg.TypesInfo, sel, "hostConnPool") {
												reads = true
											}
											return true
										})
										for _, l2 := range a2.Lhs {
											if id, isId := l2.(*ast.Ident); isId && id.Name != "_" {
												if reads {
													st = st.with(id.Name)
												} else {
													st = st.without(id.Name)
												}
											}
										}
									}
								}
							}
							return st
						}
						if a2, ok := step.Node.(*ast.AssignStmt); ok && len(a2.Lhs) == len(a2.Rhs) {
							for j, l2 := range a2.Lhs {
								id, isId := l2.(*ast.Ident)
								if !isId {
									continue
								}
								// computed from fields of the pool and from locals that are themselves fresh
								readsPool, okOperands := false, true
								ast.Inspect(a2.Rhs[j], func(y ast.Node) bool {
									switch z := y.(type) {
									case *ast.SelectorExpr:
										if p.isFieldOf(info, z, "hostConnPool") {
											readsPool = true
										}
										return false
									case *ast.Ident:
										if v, isVar := info.Uses[z].(*types.Var); isVar && !v.IsField() && v.Parent() != nil && v.Parent() != v.Pkg().Scope() {
											if _, isInt := v.Type().Underlying().(*types.Basic); isInt && !st[z.Name] {
												okOperands = false
											}
										}
									}
									return true
								})
								if okOperands && (readsPool || len(st) > 0 && mentionsAny(exprStr(a2.Rhs[j]), st)) {
									st = st.with(id.Name)
								} else {
									st = st.without(id.Name)
								}
							}
						}
						return st
					},
				})
				fs, _ := fresh.Before(as)
				okFresh := false
				for cv := range countVars {
					if fs[cv] {
						okFresh = true
					}
				}
				r.Check(okFresh, as, "(*hostConnPool).fill computes the number of missing connections in the critical section that starts the fill", "count taken from the pool's fields since the write lock was acquired",
					"the number of connections to create was computed before the write lock was (re)acquired: another filler can have completed in between, and this one then dials the same connections again (the pool ends up above its configured size)")
			}
			return true
		})
	}
	if nset == 0 {
		r.Unresolved("fill never sets hostConnPool.filling")
	}
	// every exit after filling=true reaches fillingStopped (directly or in the goroutine it starts)
	litStops := func(lit *ast.FuncLit) bool {
		lg := p.GraphOfLit(fi, lit)
		ef := lg.Events(func(st Step) []string {
			if st.Kind == StNode {
				for _, c := range callsIn(st.Node) {
					if isCallTo(info, c, "(*hostConnPool).fillingStopped") {
						return []string{"stopped"}
					}
				}
			}
			return nil
		})
		for _, e := range lg.Exits() {
			s, ok := ef.ExitState(e)
			if ok && e.Kind != ExitPanic && !s.Must["stopped"] {
				return false
			}
		}
		return true
	}
	ef := g.Events(func(st Step) []string {
		if st.Kind != StNode {
			return nil
		}
		var evs []string
		if gs, ok := st.Node.(*ast.GoStmt); ok {
			if lit, ok := gs.Call.Fun.(*ast.FuncLit); ok && litStops(lit) {
				evs = append(evs, "stopped")
			} else if fn := calleeOf(info, gs.Call); fn != nil {
				// go pool.method(...): the method reaches fillingStopped on every path
				if h := p.FuncOf(fn); h != nil && h.Decl.Body != nil && h.Pkg == p.Root {
					hg := p.GraphOf(h)
					hef := hg.Events(func(st2 Step) []string {
						if st2.Kind == StNode {
							for _, c := range callsIn(st2.Node) {
								if isCallTo(info, c, "(*hostConnPool).fillingStopped") {
									return []string{"stopped"}
								}
							}
						}
						return nil
					})
					all, nex := true, 0
					for _, e := range hg.Exits() {
						s, ok := hef.ExitState(e)
						if ok && e.Kind != ExitPanic {
							nex++
							if !s.Must["stopped"] {
								all = false
							}
						}
					}
					if all && nex > 0 {
						evs = append(evs, "stopped")
					}
				}
			}
			return evs
		}
		for _, l := range assignedLHS(st.Node) {
			if p.isField(info, l, "hostConnPool", "filling") {
				evs = append(evs, "setFilling")
			}
		}
		for _, c := range callsIn(st.Node) {
			if isCallTo(info, c, "(*hostConnPool).fillingStopped") {
				evs = append(evs, "stopped")
			}
		}
		return evs
	})
	for _, e := range g.Exits() {
		s, ok := ef.ExitState(e)
		if !ok || e.Kind == ExitPanic || !s.Must["setFilling"] {
			continue
		}
		r.Check(s.Must["stopped"], e.Node, "(*hostConnPool).fill exit "+exitDesc(p, e)+" reaches fillingStopped", "filling is cleared on every path",
			"a path sets filling=true and returns without reaching fillingStopped: the pool can never be filled again")
	}
	// fillingStopped clears filling under the lock
	if fs := r.NeedFunc("(*hostConnPool).fillingStopped"); fs != nil {
		sg := p.GraphOf(fs)
		cleared := false
		ast.Inspect(fs.Decl.Body, func(n ast.Node) bool {
			as, ok := n.(*ast.AssignStmt)
			if !ok {
				return true
			}
			for _, l := range as.Lhs {
				if p.isField(fs.Pkg.TypesInfo, l, "hostConnPool", "filling") {
					ls, _ := sg.Lockset().Before(as)
					root := exprStr(ast.Unparen(l).(*ast.SelectorExpr).X)
					cleared = ls[root+".mu"]
				}
			}
			return true
		})
		r.Check(cleared, fs.Decl, "(*hostConnPool).fillingStopped clears filling under the write lock", "cleared under pool.mu", "fillingStopped does not clear filling under the write lock")
	}
	// connectMany joins every dial it starts
	if cm := r.NeedFunc("(*hostConnPool).connectMany"); cm != nil {
		cg := p.GraphOf(cm)
		cinfo := cg.Info
		ngo := 0
		ast.Inspect(cm.Decl.Body, func(n ast.Node) bool {
			if gs, ok := n.(*ast.GoStmt); ok {
				ngo++
				// the goroutine must signal completion on every path: defer wg.Done()
				okDone := false
				// the goroutine is a literal, or a method / function of the module started by name
				if _, isLit := gs.Call.Fun.(*ast.FuncLit); !isLit {
					if fn := calleeOf(cinfo, gs.Call); fn != nil {
						if m := p.FuncOf(fn); m != nil && m.Decl.Body != nil && m.Pkg == p.Root {
							minfo := m.Pkg.TypesInfo
							ast.Inspect(m.Decl.Body, func(x ast.Node) bool {
								if d, ok := x.(*ast.DeferStmt); ok && isCallTo(minfo, d.Call, "sync.(*WaitGroup).Done") {
									okDone = true
								}
								return true
							})
							if !okDone {
								mg := p.GraphOf(m)
								mef := mg.Events(func(st Step) []string {
									if st.Kind == StNode {
										if _, ok := st.Node.(*ast.SendStmt); ok {
											return []string{"sent"}
										}
									}
									return nil
								})
								okDone = true
								for _, e := range mg.Exits() {
									if s, ok := mef.ExitState(e); ok && e.Kind != ExitPanic && !s.Must["sent"] {
										okDone = false
									}
								}
							}
						}
					}
				}
				if lit, ok := gs.Call.Fun.(*ast.FuncLit); ok {
					ast.Inspect(lit.Body, func(m ast.Node) bool {
						if d, ok := m.(*ast.DeferStmt); ok && isCallTo(cinfo, d.Call, "sync.(*WaitGroup).Done") {
							okDone = true
						}
						return true
					})
					if !okDone {
						// or: every exit of the goroutine has sent its result on a channel
						lg := p.GraphOfLit(cm, lit)
						lef := lg.Events(func(st Step) []string {
							if st.Kind == StNode {
								if _, ok := st.Node.(*ast.SendStmt); ok {
									return []string{"sent"}
								}
							}
							return nil
						})
						okDone = true
						for _, e := range lg.Exits() {
							if s, ok := lef.ExitState(e); ok && e.Kind != ExitPanic && !s.Must["sent"] {
								okDone = false
							}
						}
					}
				}
				r.Check(okDone, gs, "(*hostConnPool).connectMany dial goroutine signals completion", "defer wg.Done() / result sent on every path", "a dial goroutine does not signal its completion on every path (no deferred WaitGroup.Done, no result sent on every exit)")
			}
			return true
		})
		if ngo == 0 {
			r.OK(cm.Decl, "(*hostConnPool).connectMany dials synchronously", "no goroutines to join")
		} else {
			ef := cg.Events(func(st Step) []string {
				if st.Kind != StNode {
					return nil
				}
				if _, ok := st.Node.(*ast.GoStmt); ok {
					return []string{"spawned"}
				}
				for _, c := range callsIn(st.Node) {
					if isCallTo(cinfo, c, "sync.(*WaitGroup).Wait") {
						return []string{"joined"}
					}
				}
				return nil
			})
			_ = ef
			// a counting loop that receives one result per dial and cannot be left early also joins
			ef = cg.Events(func(st Step) []string {
				switch st.Kind {
				case StNode:
					if _, ok := st.Node.(*ast.GoStmt); ok {
						return []string{"spawned"}
					}
					for _, c := range callsIn(st.Node) {
						if isCallTo(cinfo, c, "sync.(*WaitGroup).Wait") {
							return []string{"joined"}
						}
					}
				case StCond:
					if fs, ok := p.Parent(st.Node).(*ast.ForStmt); ok && fs.Cond == st.Node && !st.Val {
						recv, early := false, false
						inspectNoLit(fs.Body, func(n ast.Node) bool {
							switch x := n.(type) {
							case *ast.UnaryExpr:
								if x.Op == token.ARROW {
									recv = true
								}
							case *ast.ReturnStmt:
								early = true
							case *ast.BranchStmt:
								if x.Tok == token.BREAK || x.Tok == token.GOTO {
									early = true
								}
							}
							return true
						})
						if recv && !early {
							return []string{"joined"}
						}
					}
				}
				return nil
			})
			for _, e := range cg.Exits() {
				s, ok := ef.ExitState(e)
				if !ok || e.Kind == ExitPanic || s.Max["spawned"] == 0 {
					continue
				}
				r.Check(s.Must["joined"], e.Node, "(*hostConnPool).connectMany exit "+exitDesc(p, e)+" waits for its dials", "all dials joined (wg.Wait() or one receive per dial) on every path after they were started",
					"connectMany can return while dials it started are still in flight: fill clears `filling`, a second filler counts the pool without them, and the stragglers are appended anyway (pool exceeds its size)")
			}
		}
	}
}

func c17r3(p *Program, r *Report) {
	n := 0
	p.forEachFunc(false, func(fi *FuncInfo) {
		info := fi.Pkg.TypesInfo
		ast.Inspect(fi.Decl.Body, func(x ast.Node) bool {
			c, ok := x.(*ast.CallExpr)
			if !ok || calleeName(info, c) != "builtin.append" || len(c.Args) == 0 || !p.isField(info, c.Args[0], "hostConnPool", "conns") {
				return true
			}
			n++
			name := fi.Name + " appends to hostConnPool.conns"
			// connect, or a helper that only connect uses
			inConnect := fi.Name == "(*hostConnPool).connect"
			if cf := p.Func("(*hostConnPool).connect"); cf != nil && !inConnect {
				for _, u := range p.unitsOf(cf) {
					if u == fi && p.onlyCalledWithin(fi, p.unitsOf(cf)) {
						inConnect = true
					}
				}
			}
			if !r.Check(inConnect, c, name, "the only place that grows a pool", "a pool's connection list is grown outside (*hostConnPool).connect: the size bookkeeping of fill does not cover it") {
				return true
			}
			g := p.GraphOf(fi)
			f, _ := g.GuardFacts().Before(c)
			ls, _ := g.Lockset().Before(c)
			root := exprStr(ast.Unparen(c.Args[0]).(*ast.SelectorExpr).X)
			cv, ck := f.KnownStr(root + ".closed")
			r.Check(ls[root+".mu"] && ck && !cv, c, name+" under the write lock after the closed check", "write lock held and pool known open",
				"the connection is appended without the write lock or without checking (in the same critical section) that the pool is not closed: a connection is left open after its pool was closed")
			return true
		})
	})
	if n == 0 {
		r.Unresolved("no append to hostConnPool.conns")
	}
	// connect: the closed branch closes the late connection
	if fi := r.NeedFunc("(*hostConnPool).connect"); fi != nil {
		info := fi.Pkg.TypesInfo
		found := false
		for _, u := range p.unitsOf(fi) {
			ast.Inspect(u.Decl.Body, func(x ast.Node) bool {
				ifs, ok := x.(*ast.IfStmt)
				if !ok {
					return true
				}
				cond := ast.Unparen(ifs.Cond)
				negated := false
				strip := func() {
					for {
						if un, isU := cond.(*ast.UnaryExpr); isU && un.Op == token.NOT {
							cond, negated = ast.Unparen(un.X), !negated
							continue
						}
						break
					}
				}
				strip()
				if id, isId := cond.(*ast.Ident); isId {
					// a local that captured pool.closed (or its negation) under the lock
					if d := localDef(info, u, id); d != nil && singleAssigned(info, u.Decl.Body, info.Uses[id]) {
						cond = ast.Unparen(d)
						strip()
					}
				}
				if !p.isField(info, cond, "hostConnPool", "closed") {
					return true
				}
				// the branch taken when the pool is closed
				var closedBranch ast.Node = ifs.Body
				if negated {
					closedBranch = nil
					if ifs.Else != nil {
						closedBranch = ifs.Else
					}
				}
				if closedBranch == nil {
					return true // `if !closed { add }`: the closing side is another if
				}
				found = true
				closes := false
				ast.Inspect(closedBranch, func(m ast.Node) bool {
					if c, ok := m.(*ast.CallExpr); ok && isCallTo(info, c, "(*Conn).Close", "(*Conn).closeWithError") {
						closes = true
					}
					return true
				})
				if !closes {
					// the test lives in a helper that reports the outcome: the caller closes where the pool is known closed
					for _, u2 := range p.unitsOf(fi) {
						g2 := p.GraphOf(u2)
						for _, c := range callsIn(u2.Decl.Body) {
							if !isCallTo(info, c, "(*Conn).Close", "(*Conn).closeWithError") {
								continue
							}
							f2, ok2 := g2.GuardFacts().Before(p.stmtOf(c, u2))
							if !ok2 {
								continue
							}
							for atom, v := range f2.m {
								if v && strings.HasSuffix(atom, ".closed") && !strings.Contains(atom, " ") {
									closes = true
								}
							}
						}
					}
				}
				r.Check(closes, ifs, "(*hostConnPool).connect closes a connection that arrives after Close", "late connection closed (that it is not added is the append's own obligation)",
					"when the pool was closed meanwhile the new connection is not closed (or is still added): a connection outlives its pool")
				return true
			})
		}
		if !found {
			r.Bad(fi.Decl, "(*hostConnPool).connect checks closed before adding", "connect does not test pool.closed before adding the connection")
		}
	}
}

// lockingMethods: for every method, the receiver mutex fields it locks directly (not deferred to callees).
func lockingMethods(p *Program) map[*FuncInfo]map[string]bool {
	out := map[*FuncInfo]map[string]bool{}
	p.forEachFunc(false, func(fi *FuncInfo) {
		if fi.Decl.Recv == nil || len(fi.Decl.Recv.List) == 0 || len(fi.Decl.Recv.List[0].Names) == 0 {
			return
		}
		info := fi.Pkg.TypesInfo
		recv := fi.Decl.Recv.List[0].Names[0].Name
		inspectNoLit(fi.Decl.Body, func(n ast.Node) bool {
			c, ok := n.(*ast.CallExpr)
			if !ok {
				return true
			}
			if kind, ok := isMutexMethod(calleeName(info, c)); ok && (kind == "Lock" || kind == "RLock") {
				if rx, ok := ast.Unparen(recvExpr(c)).(*ast.SelectorExpr); ok {
					if id, ok := ast.Unparen(rx.X).(*ast.Ident); ok && id.Name == recv {
						if out[fi] == nil {
							out[fi] = map[string]bool{}
						}
						out[fi][rx.Sel.Name] = true
					}
				}
			}
			return true
		})
	})
	return out
}

func c17r4(p *Program, r *Report) {
	lm := lockingMethods(p)
	p.forEachFunc(false, func(fi *FuncInfo) {
		info := fi.Pkg.TypesInfo
		var graphs []*Graph
		graphs = append(graphs, p.GraphOf(fi))
		for _, lit := range allFuncLits(fi.Decl.Body) {
			graphs = append(graphs, p.GraphOfLit(fi, lit))
		}
		for _, g := range graphs {
			locks := g.Lockset()
			hasLock := false
			inspectNoLit(g.Body, func(n ast.Node) bool {
				if c, ok := n.(*ast.CallExpr); ok {
					if _, ok := isMutexMethod(calleeName(info, c)); ok {
						hasLock = true
					}
				}
				return true
			})
			if !hasLock {
				continue
			}
			inspectNoLit(g.Body, func(n ast.Node) bool {
				c, ok := n.(*ast.CallExpr)
				if !ok {
					return true
				}
				switch p.Parent(c).(type) {
				case *ast.GoStmt, *ast.DeferStmt:
					return true
				}
				ls, reach := locks.Before(c)
				if !reach || len(ls) == 0 {
					return true
				}
				callee := calleeOf(info, c)
				if callee == nil {
					return true
				}
				cfi := p.FuncOf(callee)
				name := funcQualNameAny(callee)
				rx := recvExpr(c)
				// (a) same-object re-entrancy
				if cfi != nil && rx != nil && lm[cfi] != nil {
					for mu := range lm[cfi] {
						key := exprStr(rx) + "." + mu
						if ls[key] || ls["R:"+key] {
							r.Bad(c, fi.Name+" calls "+name+" while holding "+key, "the callee locks "+key+" again: self-deadlock (sync mutexes are not re-entrant; a read lock re-acquired behind a waiting writer deadlocks too)")
							return true
						}
					}
					r.OK(c, fi.Name+" calls "+name+" under "+heldLocks(ls), "callee does not lock a mutex held here on the same object")
					return true
				}
				// (b) closing a pool-owned connection under the pool lock
				if name == "(*Conn).Close" || name == "(*Conn).closeWithError" {
					held := ""
					for k := range ls {
						if strings.HasSuffix(strings.TrimPrefix(k, "R:"), ".mu") {
							if t := info.TypeOf(rootOfLock(fi, g, k)); t != nil && typeNameOf(t) == "hostConnPool" {
								held = k
							}
						}
					}
					r.Check(held == "", c, fi.Name+" closes a connection under "+heldLocks(ls), "not under a hostConnPool mutex",
						"a connection is closed while "+held+" is held: Conn.Close reports a close error to its error handler, which for pooled connections is this pool's HandleError and locks the same mutex (self-deadlock)")
				}
				return true
			})
		}
	})
}

// rootOfLock returns the expression X for a lock key "X.mu" / "R:X.mu" by searching the function for it.
func rootOfLock(fi *FuncInfo, g *Graph, key string) ast.Expr {
	key = strings.TrimPrefix(key, "R:")
	var out ast.Expr
	ast.Inspect(g.Body, func(n ast.Node) bool {
		if sel, ok := n.(*ast.SelectorExpr); ok && exprStr(sel) == key && out == nil {
			out = sel.X
		}
		return true
	})
	return out
}

func allFuncLits(n ast.Node) []*ast.FuncLit {
	var out []*ast.FuncLit
	ast.Inspect(n, func(x ast.Node) bool {
		if l, ok := x.(*ast.FuncLit); ok {
			out = append(out, l)
		}
		return true
	})
	return out
}

func c17r5(p *Program, r *Report) {
	fi := r.NeedFunc("(*Session).Close")
	if fi == nil {
		return
	}
	g := p.GraphOf(fi)
	info := g.Info
	facts := g.GuardFacts()
	locks := g.Lockset()
	components := []string{"pool", "control", "nodeEvents", "schemaEvents", "ringRefresher", "cancel"}
	isComp := func(e ast.Expr) string {
		for _, c := range components {
			if p.isField(info, e, "Session", c) {
				return c
			}
		}
		return ""
	}
	var cls Classifier
	// a teardown written as a table of steps that a loop runs one after the other: what every step does on all of
	// its paths happens when the loop is entered
	tableEvents := func(loop ast.Stmt) []string {
		var evs []string
		for _, lit := range p.runAllLoop(info, loop) {
			lg := p.newGraph(lit, lit.Body, info, fi.Name+"$step@"+p.Pos(lit))
			lef := lg.Events(cls)
			var must map[string]bool
			for _, e := range lg.Exits() {
				if e.Kind == ExitPanic {
					continue
				}
				es, ok := lef.ExitState(e)
				if !ok {
					continue
				}
				if must == nil {
					must = map[string]bool{}
					for k := range es.Must {
						must[k] = true
					}
				} else {
					for k := range must {
						if !es.Must[k] {
							delete(must, k)
						}
					}
				}
			}
			for k := range must {
				evs = append(evs, k)
			}
		}
		sort.Strings(evs)
		return evs
	}
	cls = func(st Step) []string {
		var evs []string
		switch st.Kind {
		case StRange:
			if rs, ok := st.Node.(*ast.RangeStmt); ok {
				return tableEvents(rs)
			}
		case StCond:
			// s.F != nil false  /  s.F == nil true
			if b, ok := ast.Unparen(st.Node.(ast.Expr)).(*ast.BinaryExpr); ok && (b.Op == token.NEQ || b.Op == token.EQL) {
				var f ast.Expr
				if isNil(info, b.Y) {
					f = b.X
				} else if isNil(info, b.X) {
					f = b.Y
				}
				if f != nil {
					if c := isComp(f); c != "" && st.Val == (b.Op == token.EQL) {
						evs = append(evs, "done:"+c)
					}
				}
			}
		case StNode:
			if _, ok := st.Node.(*ast.GoStmt); ok {
				return nil
			}
			if fs, ok := p.Parent(st.Node).(*ast.ForStmt); ok && fs.Init == st.Node {
				evs = append(evs, tableEvents(fs)...)
			}
			for _, c := range callsIn(st.Node) {
				if rx := recvExpr(c); rx != nil {
					if comp := isComp(rx); comp != "" {
						evs = append(evs, "done:"+comp)
					}
				}
				if comp := isComp(c.Fun); comp != "" { // s.cancel()
					evs = append(evs, "done:"+comp)
				}
			}
			for _, l := range assignedLHS(st.Node) {
				if p.isField(info, l, "Session", "isClosing") {
					evs = append(evs, "setClosing")
				}
				if p.isField(info, l, "Session", "isClosed") {
					evs = append(evs, "setClosed")
				}
			}
		}
		return evs
	}
	ef := g.Events(cls)
	nset := 0
	for _, u := range p.unitsOf(fi)[1:] {
		ug := p.GraphOf(u)
		ast.Inspect(u.Decl.Body, func(n ast.Node) bool {
			as, ok := n.(*ast.AssignStmt)
			if !ok {
				return true
			}
			for _, l := range as.Lhs {
				if p.isField(info, l, "Session", "isClosing") {
					nset++
					f, _ := ug.GuardFacts().Before(as)
					ls, _ := ug.Lockset().Before(as)
					root := exprStr(ast.Unparen(l).(*ast.SelectorExpr).X)
					v, known := f.KnownStr(root + ".isClosing")
					r.Check(ls[root+".sessionStateMu"] && known && !v, as, "(*Session).Close test-and-set of isClosing", "isClosing tested false and set true in one critical section",
						"isClosing is set without having been tested false in the same critical section: two overlapping Close calls both run the teardown (the event debouncers' stop() is once-only: send on closed channel)")
				}
			}
			return true
		})
	}
	// captured: locals that hold the value isClosing had before it was set (read under the state mutex)
	captured := map[string]bool{}
	ast.Inspect(fi.Decl.Body, func(n ast.Node) bool {
		as, ok := n.(*ast.AssignStmt)
		if !ok || len(as.Lhs) != len(as.Rhs) || as.Tok != token.DEFINE {
			return true
		}
		for i, l := range as.Lhs {
			if id, isId := l.(*ast.Ident); isId && p.isField(info, as.Rhs[i], "Session", "isClosing") && singleAssigned(info, fi.Decl.Body, info.Defs[id]) {
				if ls, _ := locks.Before(as); ls[exprStr(ast.Unparen(as.Rhs[i]).(*ast.SelectorExpr).X)+".sessionStateMu"] {
					captured[id.Name] = true
				}
			}
		}
		return true
	})
	earlyOut := func(at ast.Node) bool { // a captured previous value is known true here: somebody else is closing
		f, _ := facts.Before(at)
		for c := range captured {
			if v, known := f.m[c]; known && v {
				return true
			}
		}
		return false
	}
	ast.Inspect(fi.Decl.Body, func(n ast.Node) bool {
		as, ok := n.(*ast.AssignStmt)
		if !ok {
			return true
		}
		for _, l := range as.Lhs {
			if p.isField(info, l, "Session", "isClosing") {
				nset++
				f, _ := facts.Before(as)
				ls, _ := locks.Before(as)
				root := exprStr(ast.Unparen(l).(*ast.SelectorExpr).X)
				v, known := f.KnownStr(root + ".isClosing")
				if !(known && !v) && len(captured) > 0 && ls[root+".sessionStateMu"] {
					// exchange form: previous value captured in the same critical section, flag set unconditionally,
					// and every teardown step runs only where the captured value is known false
					same := true
					for c := range captured {
						id := identNamed(fi, c)
						if id == nil {
							same = false
							continue
						}
						var defStmt ast.Node
						ast.Inspect(fi.Decl.Body, func(m ast.Node) bool {
							if d, isAs := m.(*ast.AssignStmt); isAs && d.Tok == token.DEFINE {
								for _, dl := range d.Lhs {
									if did, isId := dl.(*ast.Ident); isId && info.Defs[did] == info.Uses[id] {
										defStmt = d
									}
								}
							}
							return true
						})
						if defStmt == nil || defStmt.Pos() > as.Pos() || !sameCriticalSection(p, fi, defStmt, as, root+".sessionStateMu") {
							same = false
						}
					}
					guarded := true
					for _, c := range callsIn(fi.Decl.Body) {
						comp := ""
						if rx := recvExpr(c); rx != nil {
							comp = isComp(rx)
						}
						if comp == "" {
							comp = isComp(c.Fun)
						}
						if comp == "" {
							continue
						}
						cf, _ := facts.Before(p.stmtOf(c, fi))
						okC := false
						for cname := range captured {
							if cv, ck := cf.m[cname]; ck && !cv {
								okC = true
							}
						}
						if !okC {
							guarded = false
						}
					}
					if same && guarded {
						known, v = true, false
					}
				}
				r.Check(ls[root+".sessionStateMu"] && known && !v, as, "(*Session).Close test-and-set of isClosing", "isClosing tested false and set true in one critical section",
					"isClosing is set without having been tested false in the same critical section: two overlapping Close calls both run the teardown (the event debouncers' stop() is once-only: send on closed channel)")
			}
			if p.isField(info, l, "Session", "isClosed") {
				s, _ := ef.Sol.Before(as)
				ls, _ := locks.Before(as)
				root := exprStr(ast.Unparen(l).(*ast.SelectorExpr).X)
				all := true
				for _, c := range components {
					if !s.Must["done:"+c] {
						all = false
					}
				}
				r.Check(all && ls[root+".sessionStateMu"], as, "(*Session).Close sets isClosed after the teardown", "all components stopped before isClosed=true, under the state mutex", "isClosed is set before every component was stopped (or without the state mutex)")
			}
		}
		return true
	})
	if nset == 0 {
		r.Bad(fi.Decl, "(*Session).Close test-and-set of isClosing", "Close never sets isClosing: concurrent Close calls all run the teardown")
	}
	for _, e := range g.Exits() {
		s, ok := ef.ExitState(e)
		if !ok || e.Kind == ExitPanic || !s.Must["setClosing"] {
			continue
		}
		if e.Node != nil && earlyOut(e.Node) {
			continue // the flag was already set before this call: the first closer does the teardown
		}
		for _, c := range components {
			r.Check(s.Must["done:"+c], e.Node, "(*Session).Close exit "+exitDesc(p, e)+" stops "+c, "stopped (or nil) on every path", "a path through Close returns without stopping s."+c+": its goroutines/connections outlive the session")
		}
		r.Check(s.Must["setClosed"], e.Node, "(*Session).Close exit "+exitDesc(p, e)+" sets isClosed", "isClosed set", "Close returns without setting isClosed: new queries are not refused")
	}
	// entry points check Closed() first
	for _, name := range []string{"(*Session).executeQuery", "(*Session).executeBatch", "(*Session).KeyspaceMetadata"} {
		ep := r.NeedFunc(name)
		if ep == nil {
			continue
		}
		einfo := ep.Pkg.TypesInfo
		ok := false
		if len(ep.Decl.Body.List) > 0 {
			if ifs, isIf := ep.Decl.Body.List[0].(*ast.IfStmt); isIf {
				if c, isCall := ast.Unparen(ifs.Cond).(*ast.CallExpr); isCall && isCallTo(einfo, c, "(*Session).Closed") && p.terminates(einfo, ifs.Body.List) {
					ok = strings.Contains(exprStrNode(ifs.Body), "ErrSessionClosed")
				}
			}
		}
		r.Check(ok, ep.Decl, name+" fails fast on a closed session", "first statement returns ErrSessionClosed when Closed()", name+" does not start with the Closed() check returning ErrSessionClosed")
	}
}

func exprStrNode(n ast.Node) string {
	var sb strings.Builder
	ast.Inspect(n, func(x ast.Node) bool {
		if id, ok := x.(*ast.Ident); ok {
			sb.WriteString(id.Name)
			sb.WriteByte(' ')
		}
		return true
	})
	return sb.String()
}

var _ = types.Typ

// c17r8: refreshDebouncer is stopped by Session.Close. A listener registered after the flusher goroutine has
// gone is never answered, so (a) every method that registers a listener or arms the timer must test `stopped`
// under d.mu first, and (b) every exit of the flusher releases the listeners registered so far (broadcaster
// stopped under d.mu) - otherwise a caller of refreshNow (Session.refreshRing from a control connection
// reconnect) blocks forever after Close.
func c17r8(p *Program, r *Report) {
	for _, name := range []string{"(*refreshDebouncer).refreshNow", "(*refreshDebouncer).debounce"} {
		fi := r.NeedFunc(name)
		if fi == nil {
			continue
		}
		g := p.GraphOf(fi)
		info := g.Info
		facts := g.GuardFacts()
		locks := g.Lockset()
		n := 0
		inspectNoLit(fi.Decl.Body, func(x ast.Node) bool {
			var what string
			switch s := x.(type) {
			case *ast.AssignStmt:
				for i, l := range s.Lhs {
					if p.isField(info, l, "refreshDebouncer", "broadcaster") && i < len(s.Rhs) && !isNil(info, s.Rhs[i]) {
						what = "registers a broadcaster"
					}
				}
			case *ast.CallExpr:
				if calleeName(info, s) == "time.(*Timer).Reset" {
					what = "arms the timer"
				}
				if calleeName(info, s) == "(*errorBroadcaster).newListener" {
					what = "registers a listener"
				}
			}
			if what == "" {
				return true
			}
			n++
			stmt := p.stmtOf(x, fi)
			f, _ := facts.Before(stmt)
			ls, _ := locks.Before(stmt)
			v, known := f.m["d.stopped"]
			r.Check(known && !v && heldAny(ls, "d.mu"), x, name+" "+what+" only while not stopped", "d.stopped tested false under d.mu",
				name+" "+what+" without having tested d.stopped under d.mu: after stop() (Session.Close) nobody runs the refresh or stops the broadcaster, so the caller waits forever on the returned channel")
			return true
		})
		if n == 0 {
			r.Unresolved("%s registers nothing", name)
		}
	}
	if fi := r.NeedFunc("(*refreshDebouncer).flusher"); fi != nil {
		// every return of the flusher is preceded by stopping the broadcaster (directly or through a helper)
		g := p.GraphOf(fi)
		info := g.Info
		stops := func(n ast.Node) bool {
			for _, c := range callsIn(n) {
				name := calleeName(info, c)
				if name == "(*errorBroadcaster).stop" {
					return true
				}
				if fn := calleeOf(info, c); fn != nil {
					if callee := p.FuncOf(fn); callee != nil && callee.Decl.Body != nil && callee != fi {
						for _, cc := range callsIn(callee.Decl.Body) {
							if calleeName(callee.Pkg.TypesInfo, cc) == "(*errorBroadcaster).stop" {
								return true
							}
						}
					}
				}
			}
			return false
		}
		ef := g.Events(func(st Step) []string {
			if st.Kind == StNode {
				// a helper that stops it is summarised by the event analysis itself; only direct calls count here
				for _, c := range callsIn(st.Node) {
					if calleeName(info, c) == "(*errorBroadcaster).stop" {
						return []string{"stopBroadcaster"}
					}
				}
				if _, isExpr := st.Node.(ast.Expr); !isExpr && stops(st.Node) {
					if _, isIf := st.Node.(*ast.IfStmt); !isIf {
						return []string{"stopBroadcaster"}
					}
				}
			}
			if st.Kind == StCond {
				// no broadcaster registered: nothing to release
				if b, ok := ast.Unparen(st.Node.(ast.Expr)).(*ast.BinaryExpr); ok && (b.Op == token.NEQ || b.Op == token.EQL) {
					var f ast.Expr
					if isNil(info, b.Y) {
						f = b.X
					} else if isNil(info, b.X) {
						f = b.Y
					}
					if f != nil && p.isField(info, f, "refreshDebouncer", "broadcaster") && st.Val == (b.Op == token.EQL) {
						return []string{"stopBroadcaster"}
					}
				}
			}
			return nil
		})
		n := 0
		for _, e := range g.Exits() {
			if e.Kind == ExitPanic {
				continue
			}
			n++
			s, _ := ef.ExitState(e)
			r.Check(s.Must["stopBroadcaster"], e.Node, "(*refreshDebouncer).flusher exit "+exitDesc(p, e)+" releases the registered listeners", "broadcaster stopped before the goroutine ends",
				"the flusher goroutine ends without stopping the current broadcaster: listeners registered just before the stop are never answered")
		}
		if n == 0 {
			r.Unresolved("flusher has no exit")
		}
	}
}

// sameCriticalSection: b follows a in the same statement list and the mutex is not released between them.
func sameCriticalSection(p *Program, fi *FuncInfo, a, b ast.Node, mu string) bool {
	pa, ok1 := p.Parent(a).(*ast.BlockStmt)
	pb, ok2 := p.Parent(b).(*ast.BlockStmt)
	if !ok1 || !ok2 || pa != pb {
		return false
	}
	info := fi.Pkg.TypesInfo
	in := false
	for _, st := range pa.List {
		if st == a {
			in = true
			continue
		}
		if st == b {
			return in
		}
		if in {
			for _, c := range callsIn(st) {
				if kind, ok := isMutexMethod(calleeName(info, c)); ok && (kind == "Unlock" || kind == "RUnlock") {
					if rx := recvExpr(c); rx != nil && exprStr(rx) == mu {
						return false
					}
				}
			}
		}
	}
	return false
}

func mentionsAny(text string, names strset) bool {
	for n := range names {
		if mentions(text, n) {
			return true
		}
	}
	return false
}

// c17r9: a background service (heartbeat, debouncer, flusher) stops when it receives from its stop channel. The
// stopper's send must not be droppable: a `select { case quit <- x: default: }` on an unbuffered channel loses the
// signal whenever the service is busy (reconnecting, refreshing), and the goroutine then outlives Close.
func c17r9(p *Program, r *Report) {
	// stop channels: struct{}-channel fields received from inside a loop
	stops := map[*types.Var]bool{}
	p.forEachFunc(false, func(fi *FuncInfo) {
		if fi.Pkg != p.Root {
			return
		}
		info := fi.Pkg.TypesInfo
		ast.Inspect(fi.Decl.Body, func(n ast.Node) bool {
			fs, ok := n.(*ast.ForStmt)
			if !ok {
				return true
			}
			ast.Inspect(fs.Body, func(x ast.Node) bool {
				if u, ok := x.(*ast.UnaryExpr); ok && u.Op == token.ARROW {
					if fv := fieldOf(info, u.X); fv != nil {
						if ch, isCh := fv.Type().Underlying().(*types.Chan); isCh {
							if st, isS := ch.Elem().Underlying().(*types.Struct); isS && st.NumFields() == 0 {
								stops[fv] = true
							}
						}
					}
				}
				return true
			})
			return true
		})
	})
	// capacities at creation
	capOf := map[*types.Var][]int64{}
	p.forEachFunc(false, func(fi *FuncInfo) {
		info := fi.Pkg.TypesInfo
		note := func(fv *types.Var, e ast.Expr) {
			c, ok := ast.Unparen(e).(*ast.CallExpr)
			if !ok || calleeName(info, c) != "builtin.make" {
				return
			}
			k := int64(0)
			if len(c.Args) == 2 {
				if v, isK := constInt(info, c.Args[1]); isK {
					k = v
				} else {
					k = -1
				}
			}
			capOf[fv] = append(capOf[fv], k)
		}
		ast.Inspect(fi.Decl.Body, func(n ast.Node) bool {
			switch x := n.(type) {
			case *ast.AssignStmt:
				if len(x.Lhs) == len(x.Rhs) {
					for i, l := range x.Lhs {
						if fv := fieldOf(info, l); fv != nil && stops[fv] {
							note(fv, x.Rhs[i])
						}
					}
				}
			case *ast.KeyValueExpr:
				if k, ok := x.Key.(*ast.Ident); ok {
					if fv, isV := info.Uses[k].(*types.Var); isV && stops[fv] {
						note(fv, x.Value)
					}
				}
			}
			return true
		})
	})
	n := 0
	p.forEachFunc(false, func(fi *FuncInfo) {
		if fi.Pkg != p.Root {
			return
		}
		info := fi.Pkg.TypesInfo
		ast.Inspect(fi.Decl.Body, func(x ast.Node) bool {
			snd, ok := x.(*ast.SendStmt)
			if !ok {
				return true
			}
			fv := fieldOf(info, snd.Chan)
			if fv == nil || !stops[fv] {
				return true
			}
			n++
			name := fi.Name + " stop signal on " + fv.Name() + " cannot be dropped"
			droppable := false
			if cc, isCC := p.Parent(snd).(*ast.CommClause); isCC && cc.Comm == ast.Stmt(snd) {
				if blk, isB := p.Parent(cc).(*ast.BlockStmt); isB {
					for _, cl := range blk.List {
						if c2, ok := cl.(*ast.CommClause); ok && c2.Comm == nil {
							droppable = true
						}
					}
				}
			}
			if !droppable {
				r.OK(snd, name, "blocking send")
				return true
			}
			buffered := len(capOf[fv]) > 0
			for _, k := range capOf[fv] {
				if k < 1 {
					buffered = false
				}
			}
			r.Check(buffered, snd, name, "non-blocking send into a buffered channel",
				"the stop signal is sent with `select { case "+exprStr(snd.Chan)+" <- ...: default: }` on an unbuffered channel: when the service goroutine is busy (not parked in its select) the signal is dropped and the goroutine keeps running after Close")
			return true
		})
	})
	if n == 0 {
		r.Unresolved("no send on a service stop channel found")
	}
}

// goVersionBefore122: the go directive of the analysed module is below 1.22 (loop variables are shared by all
// iterations).
func goVersionBefore122(p *Program) (bool, string) {
	data, err := os.ReadFile(p.RepoDir + "/go.mod")
	if err != nil {
		return true, "unknown"
	}
	for _, line := range strings.Split(string(data), "\n") {
		f := strings.Fields(line)
		if len(f) == 2 && f[0] == "go" {
			parts := strings.Split(f[1], ".")
			if len(parts) >= 2 {
				maj, _ := strconv.Atoi(parts[0])
				min, _ := strconv.Atoi(parts[1])
				return maj < 1 || maj == 1 && min < 22, f[1]
			}
		}
	}
	return true, "unknown"
}

// c17r10: with a go directive below 1.22 the variables of a for / range clause exist once per loop. A function
// literal that is started with go (or deferred) inside the loop and mentions such a variable sees the value of a
// later iteration: every goroutine closes the last pool, the others stay open.
func c17r10(p *Program, r *Report) {
	before, ver := goVersionBefore122(p)
	if !before {
		r.OK(nil, "loop variables are per-iteration (go "+ver+")", "go directive >= 1.22")
		return
	}
	n := 0
	p.forEachFunc(false, func(fi *FuncInfo) {
		if fi.Pkg != p.Root || fi.Decl.Body == nil {
			return
		}
		info := fi.Pkg.TypesInfo
		ast.Inspect(fi.Decl.Body, func(x ast.Node) bool {
			var vars []types.Object
			var body *ast.BlockStmt
			switch l := x.(type) {
			case *ast.RangeStmt:
				if l.Tok != token.DEFINE {
					return true
				}
				for _, e := range []ast.Expr{l.Key, l.Value} {
					if id, ok := e.(*ast.Ident); ok && id.Name != "_" {
						vars = append(vars, info.Defs[id])
					}
				}
				body = l.Body
			case *ast.ForStmt:
				if as, ok := l.Init.(*ast.AssignStmt); ok && as.Tok == token.DEFINE {
					for _, e := range as.Lhs {
						if id, ok := e.(*ast.Ident); ok && id.Name != "_" {
							vars = append(vars, info.Defs[id])
						}
					}
				}
				body = l.Body
			default:
				return true
			}
			if len(vars) == 0 || body == nil {
				return true
			}
			ast.Inspect(body, func(y ast.Node) bool {
				var call *ast.CallExpr
				kind := ""
				switch z := y.(type) {
				case *ast.GoStmt:
					call, kind = z.Call, "go"
				case *ast.DeferStmt:
					call, kind = z.Call, "defer"
				default:
					return true
				}
				lit, ok := ast.Unparen(call.Fun).(*ast.FuncLit)
				if !ok {
					return true
				}
				n++
				captured := ""
				ast.Inspect(lit.Body, func(w ast.Node) bool {
					if id, ok := w.(*ast.Ident); ok {
						for _, v := range vars {
							if v != nil && info.Uses[id] == v {
								captured = id.Name
							}
						}
					}
					return true
				})
				r.Check(captured == "", y, fi.Name+": closure started with "+kind+" at "+p.Pos(y)+" does not capture the loop variable", "the value is passed as an argument or copied first",
					"the function literal started with `"+kind+"` inside the loop uses the loop variable `"+captured+"` (go "+ver+": one variable for all iterations): by the time it runs the variable holds a later element, so the work is done for the last element several times and never for the others")
				return true
			})
			return true
		})
	})
	if n == 0 {
		r.OK(nil, "no closure is started with go / defer inside a loop", "census: 0")
	}
}

// c17r11: stop() hands its signal to the service goroutine through an unbuffered channel. If the stopper still holds
// the object's mutex while it blocks on that channel, and the service goroutine has to take the same mutex before it
// gets back to its select, both wait for ever (Session.Close hangs).
func c17r11(p *Program, r *Report) {
	// channel fields -> functions that receive from them in a loop and lock a mutex of the same object
	type peer struct {
		fn *FuncInfo
		mu string
	}
	recvLocks := map[*types.Var][]peer{}
	p.forEachFunc(false, func(fi *FuncInfo) {
		if fi.Pkg != p.Root || fi.Decl.Body == nil {
			return
		}
		info := fi.Pkg.TypesInfo
		locks := map[string]bool{}
		for _, c := range callsIn(fi.Decl.Body) {
			if kind, isMu := isMutexMethod(calleeName(info, c)); isMu && (kind == "Lock" || kind == "RLock") {
				if rx := recvExpr(c); rx != nil {
					if fv := fieldOf(info, rx); fv != nil {
						locks[fv.Name()] = true
					}
				}
			}
		}
		if len(locks) == 0 {
			return
		}
		ast.Inspect(fi.Decl.Body, func(x ast.Node) bool {
			fs, ok := x.(*ast.ForStmt)
			if !ok {
				return true
			}
			ast.Inspect(fs.Body, func(y ast.Node) bool {
				if u, ok := y.(*ast.UnaryExpr); ok && u.Op == token.ARROW {
					if fv := fieldOf(info, u.X); fv != nil {
						for m := range locks {
							recvLocks[fv] = append(recvLocks[fv], peer{fi, m})
						}
					}
				}
				return true
			})
			return true
		})
	})
	n := 0
	p.forEachFunc(false, func(fi *FuncInfo) {
		if fi.Pkg != p.Root || fi.Decl.Body == nil {
			return
		}
		info := fi.Pkg.TypesInfo
		var g *Graph
		var ls *Solution[strset]
		inspectNoLit(fi.Decl.Body, func(x ast.Node) bool {
			snd, ok := x.(*ast.SendStmt)
			if !ok {
				return true
			}
			fv := fieldOf(info, snd.Chan)
			if fv == nil || len(recvLocks[fv]) == 0 {
				return true
			}
			// a select with a default clause does not block
			if cc, isCC := p.Parent(snd).(*ast.CommClause); isCC {
				if blk, isB := p.Parent(cc).(*ast.BlockStmt); isB {
					for _, cl := range blk.List {
						if c2, ok := cl.(*ast.CommClause); ok && c2.Comm == nil {
							return true
						}
					}
				}
			}
			n++
			if g == nil {
				g = p.GraphOf(fi)
				ls = g.Lockset()
			}
			held, _ := ls.Before(p.stmtOf(snd, fi))
			root := ""
			if sel, isSel := ast.Unparen(snd.Chan).(*ast.SelectorExpr); isSel {
				root = exprStr(sel.X)
			}
			bad := ""
			for l := range held {
				m := strings.TrimPrefix(l, "R:")
				for _, pr := range recvLocks[fv] {
					if m == root+"."+pr.mu {
						bad = m + " (taken by " + pr.fn.Name + " before it receives)"
					}
				}
			}
			r.Check(bad == "", snd, fi.Name+" does not hold the object's mutex while it blocks on "+exprStr(snd.Chan), "mutex released before the hand-shake",
				fi.Name+" blocks on `"+exprStr(snd.Chan)+" <- ...` while holding "+bad+": when the receiving goroutine is woken for other work it blocks on that mutex and never reaches the receive, so both wait for ever")
			return true
		})
	})
	if n == 0 {
		r.Unresolved("no blocking send to a service goroutine that also locks the object's mutex found")
	}
}

// c17r12: when the control connection reconnects, the connection it had is closed whatever the new host list looks
// like: on every path from attemptReconnect's entry to the reconnect attempt on which the old connection exists, its
// Close has been called (a connection that is only closed when its host is still listed is leaked otherwise, and
// Session.Close cannot reach it any more).
func c17r12(p *Program, r *Report) {
	fi := r.NeedFunc("(*controlConn).attemptReconnect")
	if fi == nil {
		return
	}
	g := p.GraphOf(fi)
	info := g.Info
	// the old connection: local bound to getConn()
	old := ""
	ast.Inspect(fi.Decl.Body, func(x ast.Node) bool {
		if as, ok := x.(*ast.AssignStmt); ok && len(as.Lhs) == 1 && len(as.Rhs) == 1 {
			if c, isC := ast.Unparen(as.Rhs[0]).(*ast.CallExpr); isC && isCallTo(info, c, "(*controlConn).getConn") {
				old = exprStr(as.Lhs[0])
			}
		}
		return true
	})
	var target *ast.CallExpr
	for _, c := range callsIn(fi.Decl.Body) {
		if isCallTo(info, c, "(*controlConn).attemptReconnectToAnyOfHosts") && target == nil {
			target = c
		}
	}
	if old == "" || target == nil {
		r.Unresolved("attemptReconnect: old connection / reconnect attempt not found")
		return
	}
	g.markNodes = map[ast.Node]string{}
	ast.Inspect(fi.Decl.Body, func(x ast.Node) bool {
		if c, ok := x.(*ast.CallExpr); ok && isCallTo(info, c, "(*Conn).Close") {
			if rx := recvExpr(c); rx != nil && strings.HasPrefix(exprStr(rx), old+".") {
				g.markNodes[p.stmtOf(c, fi)] = "closedOld"
			}
		}
		return true
	})
	g.factsCache, g.factsPSCache = nil, nil
	ps, ok := g.GuardFactsPSAbout(func(atom string) bool { return strings.HasPrefix(atom, "§") || mentions(atom, old) }).Before(p.stmtOf(target, fi))
	g.markNodes = nil
	g.factsCache, g.factsPSCache = nil, nil
	okAll := ok && len(ps) > 0
	for _, f := range ps {
		if v, known := f.KnownStr(old + " == nil"); known && v {
			continue // there was no old connection
		}
		if !f.m["§closedOld"] {
			okAll = false
		}
	}
	r.Check(okAll, target, "(*controlConn).attemptReconnect closes the connection it replaces on every path", old+".conn.Close() before the reconnect attempt wherever "+old+" != nil",
		"a path reaches the reconnect attempt with the previous control connection still open (it is closed only under a condition on the host list): the old connection is replaced but never closed, and Session.Close cannot reach it")
}
