// gocqlverif: repository-specific static checker for gocql.
//
//	gocqlverif check -property C05 [-tier quick|thorough] [-repo /repo]
//	gocqlverif census [-property Cxx]
//	gocqlverif explain <violation.json>
//	gocqlverif selftest [-property Cxx]
package main

import (
	"encoding/json"
	"flag"
	"fmt"
	"os"
	"os/exec"
	"path/filepath"
	"runtime/debug"
	"sort"
	"strconv"
	"strings"
	"time"
)

// PropertySpec is the registration of one property's rules.
type PropertySpec struct {
	ID          string
	Explanation string // what is decided structurally
	NotDecided  string
	Rules       []*Rule
	Variants    []Variant // extra build variants analysed in the thorough tier
	// SkipVariants: the thorough tier's common variants (gocql_debug, linux/386) this property is not decided on, with the reason
	SkipVariants map[string]string
	NeedsLZ4     bool
}

var registry = map[string]*PropertySpec{}

func register(ps *PropertySpec) { registry[ps.ID] = ps }

func verifDir() string {
	if d := os.Getenv("VERIF_DIR"); d != "" {
		return d
	}
	exe, err := os.Executable()
	if err == nil {
		d := filepath.Dir(filepath.Dir(exe))
		if _, err := os.Stat(filepath.Join(d, "properties.jsonl")); err == nil {
			return d
		}
	}
	return "/verif"
}

func main() {
	if len(os.Args) < 2 {
		fmt.Fprintln(os.Stderr, "usage: gocqlverif check|census|explain|selftest ...")
		os.Exit(2)
	}
	switch os.Args[1] {
	case "check":
		os.Exit(cmdCheck(os.Args[2:]))
	case "census":
		os.Exit(cmdCensus(os.Args[2:]))
	case "explain":
		os.Exit(cmdExplain(os.Args[2:]))
	case "selftest":
		os.Exit(cmdSelftest(os.Args[2:]))
	case "rules":
		os.Exit(cmdRules())
	default:
		fmt.Fprintln(os.Stderr, "unknown subcommand", os.Args[1])
		os.Exit(2)
	}
}

type runResult struct {
	rep      *Report
	prog     *Program
	variant  Variant
	panicked string
}

// runRules runs the property's rules on one loaded program.
func runRules(ps *PropertySpec, p *Program, deep bool) (rep *Report) {
	rep = NewReport(ps.ID, p)
	for _, rule := range ps.Rules {
		if rule.Deep && !deep {
			continue
		}
		rep.cur = rule
		t0 := time.Now()
		func() {
			defer func() {
				if x := recover(); x != nil {
					rep.Unresolved("checker panic: %v\n%s", x, firstLines(string(debug.Stack()), 14))
				}
			}()
			before := rep.Census[rule.ID]
			rule.Run(p, rep)
			n := rep.Census[rule.ID] - before
			if n < rule.Floor {
				rep.Unresolved("instance count %d below floor %d (rule no longer matches the code it was written for)", n, rule.Floor)
			}
		}()
		if os.Getenv("GV_TIMING") != "" {
			fmt.Fprintf(os.Stderr, "timing %s %.2fs\n", rule.ID, time.Since(t0).Seconds())
		}
	}
	rep.cur = nil
	return rep
}

func firstLines(s string, n int) string {
	lines := strings.Split(s, "\n")
	if len(lines) > n {
		lines = lines[:n]
	}
	return strings.Join(lines, "\n")
}

func cmdCheck(args []string) int {
	fs := flag.NewFlagSet("check", flag.ExitOnError)
	prop := fs.String("property", "", "property id (C01..C20)")
	tier := fs.String("tier", "", "quick|thorough")
	repo := fs.String("repo", "/repo", "repository working tree")
	noEvidence := fs.Bool("no-evidence", false, "do not write evidence (used by selftest)")
	verbose := fs.Bool("v", false, "print every obligation")
	fs.Parse(args)
	if *tier == "" {
		*tier = os.Getenv("VERIF_TIER")
	}
	if *tier != "thorough" {
		*tier = "quick"
	}
	seed, _ := strconv.Atoi(os.Getenv("VERIF_SEED"))
	ps := registry[*prop]
	if ps == nil {
		fmt.Fprintf(os.Stderr, "unknown property %q\n", *prop)
		return 2
	}
	start := time.Now()
	vdir := verifDir()
	deep := *tier == "thorough"

	variants := []Variant{defaultVariant}
	if deep {
		variants = append(variants, ps.Variants...)
		// every property is also decided on the builds the default analysis does not see: the debug build
		// (gocql_debug makes the `if gocqlDebug` branches live) and a 32-bit target (int is 32 bits wide)
		for _, v := range []Variant{{Name: "gocql_debug", GOARCH: "amd64", Tags: "gocql_debug"}, {Name: "linux/386", GOARCH: "386"}} {
			dup := ps.SkipVariants[v.Name] != ""
			for _, w := range variants {
				if w.Name == v.Name {
					dup = true
				}
			}
			if !dup {
				variants = append(variants, v)
			}
		}
	}

	var all []Obligation
	var unres []string
	census := map[string]int{}
	analysed := []map[string]interface{}{}
	if deep {
		for name, why := range ps.SkipVariants {
			analysed = append(analysed, map[string]interface{}{"variant": name, "skipped": why})
		}
	}
	for vi, v := range variants {
		p, err := Load(*repo, v)
		if err != nil {
			fmt.Printf("UNRESOLVED property=%s rule=load variant=%s reason=%v\n", ps.ID, v.Name, err)
			return 2
		}
		for _, h := range debugHooks {
			h(p)
		}
		rep := runRules(ps, p, deep)
		nfuncs := len(p.Funcs)
		analysed = append(analysed, map[string]interface{}{"variant": v.Name, "tags": v.Tags, "packages": len(p.Pkgs), "files": p.NFiles, "functions": nfuncs})
		for _, o := range rep.Obls {
			if vi > 0 {
				o.Construct = o.Construct + " [" + v.Name + "]"
			}
			all = append(all, o)
		}
		for _, u := range rep.Unres {
			unres = append(unres, u+" variant="+v.Name)
		}
		if vi == 0 {
			for k, n := range rep.Census {
				census[k] = n
			}
		}
	}
	if ps.NeedsLZ4 {
		// rules that need the lz4 module load it themselves through loadLZ4Cached
	}

	findings, err := loadFindings(filepath.Join(vdir, "known_findings.json"))
	if err != nil {
		fmt.Printf("UNRESOLVED property=%s rule=findings reason=%v\n", ps.ID, err)
		return 2
	}
	known := map[string]Finding{}
	for _, f := range findings {
		if f.Property == ps.ID && f.Status == "known" {
			known[f.Rule+"|"+f.Construct] = f
		}
	}

	nViol, nKnown, nDis := 0, 0, 0
	var violations []Obligation
	usedKnown := map[string]bool{}
	knownSeen := map[string]int{}
	for _, o := range all {
		switch o.verdict {
		case Discharged:
			nDis++
		default:
			base := o.Construct
			variant := ""
			if i := strings.Index(base, " ["); i >= 0 {
				base, variant = base[:i], base[i:]
			}
			if i := strings.LastIndex(base, " #"); i >= 0 {
				base = base[:i]
			}
			if o.FindKey != "" {
				base = o.FindKey
			}
			if os.Getenv("DUMPFINDKEYS") != "" {
				fmt.Printf("FINDKEY\t%s\t%s\t%s\n", o.Rule, o.Construct, base)
			}
			if f, ok := known[o.Rule+"|"+base]; ok {
				cnt := f.Count
				if cnt == 0 {
					cnt = 1
				}
				knownSeen[o.Rule+"|"+base+variant]++
				if knownSeen[o.Rule+"|"+base+variant] <= cnt {
					if !usedKnown[o.Rule+"|"+base] {
						fmt.Printf("KNOWN-FINDING: property=%s %s [%s %s at %s]\n", ps.ID, f.WhatFails, o.Rule, base, o.Pos)
					}
					usedKnown[o.Rule+"|"+base] = true
					nKnown++
					continue
				}
			}
			nViol++
			violations = append(violations, o)
		}
	}
	for k, f := range known {
		if !usedKnown[k] {
			fmt.Printf("note: known finding %s (%s) no longer produced by the checker (repaired or renamed?)\n", k, f.WhatFails)
		}
	}

	if *verbose {
		for _, o := range all {
			fmt.Printf("  %-10s %-11s %s  %s  -- %s\n", o.Rule, o.Verdict, o.Pos, o.Construct, o.Why)
		}
	}

	// print violations
	vioDir := filepath.Join(vdir, "evidence", "violations")
	for i, o := range violations {
		path := filepath.Join(vioDir, fmt.Sprintf("%s-%d.json", ps.ID, i+1))
		if !*noEvidence {
			writeJSON(path, map[string]interface{}{"property": ps.ID, "rule": o.Rule, "construct": o.Construct, "pos": o.Pos, "why": o.Why, "verdict": o.Verdict, "repo": *repo})
		}
		fmt.Printf("VIOLATION property=%s replay=%s\n", ps.ID, path)
		fmt.Printf("  %s: %s: %s: %s\n", o.Pos, o.Rule, o.Construct, o.Why)
	}
	for _, u := range unres {
		fmt.Printf("UNRESOLVED property=%s %s\n", ps.ID, u)
	}

	// armed-ness evidence (thorough tier, clean base check only): the seeded changes kept under
	// /verif/seeded/<id>-*/patch.diff are applied one at a time to a scratch copy of the analysed tree and the
	// property's rules must report a violation there. Informational: never changes the exit code.
	var seeded map[string]interface{}
	if deep && !*noEvidence && nViol == 0 && len(unres) == 0 {
		seeded = runSeeded(ps.ID, *repo, vdir)
	}

	wall := time.Since(start).Seconds()
	if !*noEvidence {
		censusOut := map[string]interface{}{}
		ruleDocs := map[string]string{}
		for _, rule := range ps.Rules {
			if rule.Deep && !deep {
				continue
			}
			censusOut[rule.ID] = map[string]int{"instances": census[rule.ID], "floor": rule.Floor}
			ruleDocs[rule.ID] = rule.Doc
		}
		samples := pickSamples(all, 14)
		ev := Evidence{
			PropertyID: ps.ID, Tier: *tier, Seed: seed, Level: "other",
			Coverage: map[string]interface{}{
				"explanation":         ps.Explanation + " NOT decided: " + ps.NotDecided,
				"obligations":         len(all),
				"discharged":          nDis,
				"known_findings":      nKnown,
				"unresolved":          len(unres),
				"evaluations":         len(all),
				"distinct_nontrivial": distinctConstructs(all),
				"rule":                "one obligation per (rule, construct) found by resolving the rule's anchors in the type-checked program; distinct = distinct rule+construct keys; every obligation is decided from the current source, none is a constant",
				"samples":             samples,
				"rule_census":         censusOut,
				"rules":               ruleDocs,
				"analysed":            analysed,
				"checker_cmd":         "bin/gocqlverif check -property " + ps.ID + " -tier " + *tier,
				"exhaustive":          true,
			},
			Assumptions: []string{
				"go/types, go/cfg and go/ssa of golang.org/x/tools v0.29.0 model the Go source faithfully",
				"the frozen tables in the checker (guarded fields, accepted idioms, CQL protocol spec tables) were confirmed by reading the pinned tree",
				"decides structural necessary conditions only; see coverage.explanation for the clauses not decided",
			},
			WallS: wall, Violations: nViol,
		}
		if seeded != nil {
			ev.Coverage["seeded_changes"] = seeded
		}
		if err := writeJSON(filepath.Join(vdir, "evidence", ps.ID+".json"), ev); err != nil {
			fmt.Fprintln(os.Stderr, "evidence:", err)
			return 2
		}
	}
	fmt.Printf("%s tier=%s obligations=%d discharged=%d known=%d violations=%d unresolved=%d rules=%d wall=%.1fs\n",
		ps.ID, *tier, len(all), nDis, nKnown, nViol, len(unres), len(census), wall)
	if nViol > 0 {
		return 1
	}
	if len(unres) > 0 {
		return 2
	}
	return 0
}

func cmdCensus(args []string) int {
	fs := flag.NewFlagSet("census", flag.ExitOnError)
	prop := fs.String("property", "", "property id (empty = all)")
	repo := fs.String("repo", "/repo", "repository working tree")
	fs.Parse(args)
	p, err := Load(*repo, defaultVariant)
	if err != nil {
		fmt.Println("load:", err)
		return 2
	}
	var ids []string
	for id := range registry {
		if *prop == "" || *prop == id {
			ids = append(ids, id)
		}
	}
	sort.Strings(ids)
	for _, id := range ids {
		ps := registry[id]
		rep := runRules(ps, p, true)
		fmt.Printf("== %s\n", id)
		for _, rule := range ps.Rules {
			fmt.Printf("  %-8s instances=%-4d floor=%-4d %s\n", rule.ID, rep.Census[rule.ID], rule.Floor, rule.Doc)
		}
		for _, o := range rep.Obls {
			fmt.Printf("    %-8s %-10s %-22s %s -- %s\n", o.Rule, o.Verdict, o.Pos, o.Construct, o.Why)
		}
		for _, u := range rep.Unres {
			fmt.Printf("    UNRESOLVED %s\n", u)
		}
	}
	return 0
}

func cmdExplain(args []string) int {
	if len(args) < 1 {
		fmt.Fprintln(os.Stderr, "usage: gocqlverif explain <violation.json>")
		return 2
	}
	b, err := os.ReadFile(args[0])
	if err != nil {
		fmt.Fprintln(os.Stderr, err)
		return 2
	}
	var v struct{ Property, Rule, Construct, Pos, Why, Repo string }
	if err := json.Unmarshal(b, &v); err != nil {
		fmt.Fprintln(os.Stderr, err)
		return 2
	}
	ps := registry[v.Property]
	if ps == nil {
		fmt.Fprintln(os.Stderr, "unknown property", v.Property)
		return 2
	}
	repo := v.Repo
	if repo == "" {
		repo = "/repo"
	}
	p, err := Load(repo, defaultVariant)
	if err != nil {
		fmt.Println("load:", err)
		return 2
	}
	rep := runRules(ps, p, true)
	found := false
	for _, o := range rep.Obls {
		if o.Rule == v.Rule && o.Construct == v.Construct {
			fmt.Printf("%s %s %s\n  at %s\n  %s\n", o.Rule, o.Verdict, o.Construct, o.Pos, o.Why)
			for _, rule := range ps.Rules {
				if rule.ID == o.Rule {
					fmt.Printf("  rule: %s\n", rule.Doc)
				}
			}
			found = true
			if o.verdict != Discharged {
				fmt.Printf("VIOLATION property=%s replay=%s\n", v.Property, args[0])
				return 1
			}
		}
	}
	if !found {
		fmt.Printf("obligation %s | %s no longer exists in %s\n", v.Rule, v.Construct, repo)
	}
	return 0
}

// runSeeded applies each seeded change of the property to a scratch copy of repo and runs the property's
// quick check on it in a child process.
func runSeeded(id, repo, vdir string) map[string]interface{} {
	patches, _ := filepath.Glob(filepath.Join(vdir, "seeded", id+"-*", "patch.diff"))
	sort.Strings(patches)
	self, err := os.Executable()
	if err != nil || len(patches) == 0 {
		return nil
	}
	killed, skipped, known := 0, 0, 0
	var details []map[string]interface{}
	for _, pf := range patches {
		name := filepath.Base(filepath.Dir(pf))
		d := map[string]interface{}{"seed": name}
		tmp, err := os.MkdirTemp("", "gocqlverif-seed-")
		if err != nil {
			continue
		}
		func() {
			defer os.RemoveAll(tmp)
			dst := filepath.Join(tmp, "repo")
			if err := copyTree(repo, dst); err != nil {
				d["status"] = "skipped: copy failed: " + err.Error()
				skipped++
				return
			}
			if out, err := exec.Command("patch", "-p1", "-s", "-d", dst, "-i", pf).CombinedOutput(); err != nil {
				d["status"] = "skipped: patch does not apply to this tree: " + firstLines(string(out), 2)
				skipped++
				return
			}
			cmd := exec.Command(self, "check", "-property", id, "-repo", dst, "-no-evidence")
			out, _ := cmd.CombinedOutput()
			var rules []string
			seen := map[string]bool{}
			for _, line := range strings.Split(string(out), "\n") {
				if !strings.HasPrefix(line, "  ") {
					continue
				}
				f := strings.Fields(line)
				if len(f) >= 2 && strings.HasPrefix(f[1], id+".R") {
					r := strings.TrimSuffix(f[1], ":")
					if !seen[r] {
						seen[r] = true
						rules = append(rules, r)
					}
				}
			}
			if cmd.ProcessState != nil && cmd.ProcessState.ExitCode() == 1 && len(rules) > 0 {
				killed++
				d["status"] = "reported"
				d["rules"] = rules
			} else if why := seedLimitation(filepath.Dir(pf)); why != "" {
				known++
				d["status"] = "not reported - documented limit of the static rules: " + why
			} else {
				d["status"] = fmt.Sprintf("NOT reported (exit %d)", cmd.ProcessState.ExitCode())
			}
		}()
		details = append(details, d)
	}
	fmt.Printf("seeded changes of %s: %d of %d reported, %d skipped, %d beyond the rules (documented)\n", id, killed, len(patches)-skipped, skipped, known)
	return map[string]interface{}{"reported": killed, "of": len(patches) - skipped, "skipped": skipped, "documented_misses": known, "details": details,
		"note": "each /verif/seeded/<id>-*/patch.diff (a change that breaks the property, compiles and keeps the test suite green) applied to a scratch copy of the analysed tree; the property's rules must report it"}
}

func copyTree(src, dst string) error {
	return filepath.Walk(src, func(path string, info os.FileInfo, err error) error {
		if err != nil {
			return err
		}
		rel, _ := filepath.Rel(src, path)
		if info.IsDir() {
			if info.Name() == ".git" {
				return filepath.SkipDir
			}
			return os.MkdirAll(filepath.Join(dst, rel), 0o755)
		}
		if !info.Mode().IsRegular() {
			return nil
		}
		b, err := os.ReadFile(path)
		if err != nil {
			return err
		}
		return os.WriteFile(filepath.Join(dst, rel), b, 0o644)
	})
}

// seedLimitation returns the documented reason why a seeded change is beyond the static rules (meta.json field
// "not_detected_reason"), or "".
func seedLimitation(dir string) string {
	b, err := os.ReadFile(filepath.Join(dir, "meta.json"))
	if err != nil {
		return ""
	}
	var m struct {
		Reason string `json:"not_detected_reason"`
	}
	if json.Unmarshal(b, &m) != nil {
		return ""
	}
	return m.Reason
}

// cmdRules prints the rule registry as markdown (DESIGN.md, appendix R is generated from it).
func cmdRules() int {
	var ids []string
	for id := range registry {
		ids = append(ids, id)
	}
	sort.Strings(ids)
	for _, id := range ids {
		ps := registry[id]
		fmt.Printf("### %s\n\n", id)
		fmt.Printf("*Decides:* %s\n\n*Not decided:* %s\n\n", ps.Explanation, ps.NotDecided)
		if len(ps.Variants) > 0 {
			var vs []string
			for _, v := range ps.Variants {
				vs = append(vs, v.Name)
			}
			fmt.Printf("*Extra build variants in the thorough tier:* %s\n\n", strings.Join(vs, ", "))
		}
		fmt.Println("| rule | floor | what is checked |")
		fmt.Println("|---|---|---|")
		for _, r := range ps.Rules {
			fmt.Printf("| %s | %d | %s |\n", r.ID, r.Floor, strings.ReplaceAll(r.Doc, "|", "/"))
		}
		fmt.Println()
	}
	return 0
}

// debugHooks run on the loaded program before the rules (developer diagnostics, enabled by environment variables).
var debugHooks []func(p *Program)
