package main

import (
	"go/ast"
	"go/token"
	"go/types"
	"sort"
	"strings"
)

var ringGuards = []guardedField{
	{Type: "ring", Field: "hosts", Mutex: "mu"},
	{Type: "ring", Field: "hostIPToUUID", Mutex: "mu"},
	{Type: "ring", Field: "hostList", Mutex: "mu"},
	{Type: "ringDescriber", Field: "prevHosts", Mutex: "mu"},
	{Type: "ringDescriber", Field: "prevPartitioner", Mutex: "mu"},
}

func init() {
	register(&PropertySpec{
		ID: "C16",
		Explanation: "Structural necessary conditions of 'the driver's picture of the cluster follows what the cluster reports': R1 the ring's three indexes are only touched under ring.mu; R2 a function that mutates one index mutates all three in one critical section, and the by-address index is written and deleted under the same key derivation; R3 deletion from the by-address index is guarded by the mapped id being the one removed; " +
			"R4 removal fan-out: Session.removeHost reaches policy, pool and ring; refreshRing removes every host left over from the previous ring; handleNodeDown marks, notifies and removes; R5 peer validation dominates adding a peer; R6 the event buffer is bounded and a topology burst triggers one refresh request outside the per-frame loop; R7 status events are coalesced per address keeping the last one; R8 event consumers do not panic on unexpected frames (=C05.R5 instances)." +
			" R5 also: isValidPeer answers true only after excluding a missing address, host id, datacenter, rack and token list; R11 ring.hosts and policyConnPool.hostConnPools are indexed with host ids only (values of HostID(), keys of those maps, values of the address index, parameters that receive such values at every call site)." +
			" R12 the ring's guarded maps and lists are never returned by reference; R13 refreshRing hands Session.removeHost only hosts taken from the previous view, and the token-aware policy rebuilds its ring from the host list read after the change.",
		NotDecided: "set equality between the session's hosts and the cluster's report after arbitrary histories; ordering of concurrent refreshes and events; connection establishment to new nodes.",
		Rules: []*Rule{
			{ID: "C16.R1", Floor: 20, Doc: "ring.hosts/hostIPToUUID/hostList (and ringDescriber.prev*) only under their mutex", Run: func(p *Program, r *Report) { checkGuardedFields(p, r, ringGuards) }},
			{ID: "C16.R2", Floor: 5, Doc: "index co-update in one critical section; same key derivation for insert and delete of the by-address index", Run: c16r2},
			{ID: "C16.R3", Floor: 1, Doc: "by-address index deletion guarded by the mapped id equalling the id being removed", Run: c16r3},
			{ID: "C16.R4", Floor: 8, Doc: "removal fan-out in Session.removeHost, refreshRing and handleNodeDown", Run: c16r4},
			{ID: "C16.R5", Floor: 1, Doc: "isValidPeer dominates adding a peer row", Run: c16r5},
			{ID: "C16.R6", Floor: 2, Doc: "bounded event buffer; ring refresh requested outside the per-frame loop", Run: c16r6},
			{ID: "C16.R7", Floor: 1, Doc: "status events coalesced per address keep the last status", Run: c16r7},
			{ID: "C16.R8", Floor: 2, Doc: "event handlers' frame switches do not panic on unexpected frames", Run: c16r8},
			{ID: "C16.R9", Floor: 1, Doc: "the event batch handed to the handler goroutine does not share storage with the buffer that keeps collecting events", Run: ruleGoHandoff},
			{ID: "C16.R10", Floor: 4, Doc: "published host/token snapshots are read-only for their readers (=C11.R6)", Run: ruleSharedSlices},
			{ID: "C16.R11", Floor: 6, Doc: "the host-id keyed tables (ring.hosts, policyConnPool.hostConnPools) are only ever indexed with host ids", Run: c16r11},
			{ID: "C16.R12", Floor: 2, Doc: "the ring's guarded maps and lists never leave its methods by reference: what is returned is a copy made under the lock", Run: c16r12},
			{ID: "C16.R13", Floor: 2, Doc: "refreshRing removes hosts of the previous view only (never the freshly fetched HostInfo); the token-aware policy rebuilds its ring from the host list as it is after the change", Run: c16r13},
			{ID: "C16.R14", Floor: 1, Doc: "handleNodeEvent dispatches the status events of a batch on every path (scheduling a ring refresh does not replace them)", Run: c16r14},
			{ID: "C16.R17", Floor: 3, Doc: "a host's up/down state changes only through the setter with the state the caller names; it is never copied from another (freshly read) HostInfo", Run: c16HostState},
			{ID: "C16.R18", Floor: 1, Doc: "HostInfo.Equal means 'same connect address': the host list's duplicate test (Equal) and its removal (by connect address) agree", Run: c16HostEqualByAddress},
			{ID: "C16.R16", Floor: 1, Doc: "the refresh debouncer stops / drains its timer before it refreshes, never between the refresh and the next wait", Run: c16r16},
			{ID: "C16.R15", Floor: 1, Doc: "cowHostList.remove recognises an address that is not in the list (the not-found test holds initially and changes only on a match)", Run: c16r15},
		},
	})
}

// keyShape: the chain of callee names of an expression like h.nodeToNodeAddress().String().
func keyShape(info *types.Info, e ast.Expr) string {
	var parts []string
	for {
		e = ast.Unparen(e)
		c, ok := e.(*ast.CallExpr)
		if !ok {
			break
		}
		parts = append([]string{calleeName(info, c)}, parts...)
		rx := recvExpr(c)
		if rx == nil {
			break
		}
		e = rx
	}
	if len(parts) == 0 {
		if id, ok := e.(*ast.Ident); ok {
			return "var:" + id.Name
		}
		return exprStr(e)
	}
	return strings.Join(parts, ">")
}

func c16r2(p *Program, r *Report) {
	idx := []string{"hosts", "hostIPToUUID", "hostList"}
	keyShapes := map[string][]string{} // shape -> sites
	keyVars := map[string]ast.Expr{}
	nfun := 0
	// a mutation made by an unexported helper that relies on its callers' lock belongs to those callers
	writesOf := func(fi *FuncInfo) map[string][]ast.Node {
		info := fi.Pkg.TypesInfo
		written := map[string][]ast.Node{}
		ast.Inspect(fi.Decl.Body, func(x ast.Node) bool {
			sel, ok := x.(*ast.SelectorExpr)
			if !ok {
				return true
			}
			for _, f := range idx {
				if p.isField(info, sel, "ring", f) && p.isWriteAccess(info, sel) {
					// nil-initialisation `r.hosts = make(...)` is not a mutation of the mapping
					if as, ok := p.Parent(sel).(*ast.AssignStmt); ok && len(as.Rhs) == 1 {
						if c, ok := ast.Unparen(as.Rhs[0]).(*ast.CallExpr); ok && calleeName(info, c) == "builtin.make" {
							continue
						}
					}
					written[f] = append(written[f], sel)
				}
			}
			return true
		})
		return written
	}
	locksItself := func(fi *FuncInfo) bool {
		n := 0
		inspectNoLit(fi.Decl.Body, func(x ast.Node) bool {
			if c, ok := x.(*ast.CallExpr); ok {
				if k, ok := isMutexMethod(calleeName(fi.Pkg.TypesInfo, c)); ok && k == "Lock" {
					n++
				}
			}
			return true
		})
		return n > 0
	}
	isLockedHelper := func(fi *FuncInfo) bool {
		if fi.Obj == nil || fi.Obj.Exported() || locksItself(fi) || len(writesOf(fi)) == 0 {
			return false
		}
		ok, _ := p.heldAtAllCallSites(fi, "mu", true, 0)
		return ok
	}
	p.forEachFunc(false, func(fi *FuncInfo) {
		info := fi.Pkg.TypesInfo
		if isLockedHelper(fi) {
			return // accounted for in its callers
		}
		written := writesOf(fi)
		var merge func(f *FuncInfo, depth int)
		merge = func(f *FuncInfo, depth int) {
			if depth > 2 {
				return
			}
			for _, h := range p.privateCallees(f) {
				if isLockedHelper(h) {
					for fld, ns := range writesOf(h) {
						written[fld] = append(written[fld], ns...)
					}
					merge(h, depth+1)
				}
			}
		}
		merge(fi, 0)
		if len(written) == 0 {
			return
		}
		nfun++
		var missing []string
		for _, f := range idx {
			if len(written[f]) == 0 {
				missing = append(missing, f)
			}
		}
		r.Check(len(missing) == 0, fi.Decl, fi.Name+" updates all three ring indexes", "hosts, hostIPToUUID and hostList updated together",
			"the function mutates ring."+strings.Join(sortedKeys2(written), "/")+" but not ring."+strings.Join(missing, "/")+": lookups by id, by address and the host list disagree afterwards")
		// one critical section: exactly one Lock, all writes under it
		nlock := 0
		inspectNoLit(fi.Decl.Body, func(x ast.Node) bool {
			if c, ok := x.(*ast.CallExpr); ok {
				if k, ok := isMutexMethod(calleeName(info, c)); ok && k == "Lock" {
					nlock++
				}
			}
			return true
		})
		r.Check(nlock == 1, fi.Decl, fi.Name+" updates the ring indexes in one critical section", "a single write-locked section", "the three indexes are updated in "+itoa(nlock)+" separate critical sections: a reader can see them disagree")
	})
	// by-address key derivations, wherever the index is written (also in helpers that rely on their callers' lock)
	p.forEachFunc(false, func(fi *FuncInfo) {
		info := fi.Pkg.TypesInfo
		// by-address key derivations
		ast.Inspect(fi.Decl.Body, func(x ast.Node) bool {
			switch s := x.(type) {
			case *ast.AssignStmt:
				for _, l := range s.Lhs {
					if ix, ok := ast.Unparen(l).(*ast.IndexExpr); ok && p.isField(info, ix.X, "ring", "hostIPToUUID") {
						sh := resolveKeyShape(info, fi, ix.Index)
						keyShapes[sh] = append(keyShapes[sh], fi.Name+" insert")
						keyVars[sh] = ix.Index
					}
				}
			case *ast.CallExpr:
				if calleeName(info, s) == "builtin.delete" && len(s.Args) == 2 && p.isField(info, s.Args[0], "ring", "hostIPToUUID") {
					sh := resolveKeyShape(info, fi, s.Args[1])
					keyShapes[sh] = append(keyShapes[sh], fi.Name+" delete")
					keyVars[sh] = s.Args[1]
				}
			}
			return true
		})
	})
	if nfun < 2 {
		r.Unresolved("fewer than 2 functions mutate the ring indexes (%d)", nfun)
	}
	var shapes []string
	for s := range keyShapes {
		shapes = append(shapes, s)
	}
	sort.Strings(shapes)
	desc := ""
	for _, s := range shapes {
		desc += s + " [" + strings.Join(keyShapes[s], ", ") + "]; "
	}
	r.Check(len(shapes) == 1, nil, "ring.hostIPToUUID key derivation is the same at every write and delete", "one derivation: "+desc,
		"the by-address index is written and deleted under differently derived keys: "+desc+"a removed host leaves a stale entry (events for that address hit a nil or wrong host)")
}

// resolveKeyShape follows a local variable to its single definition.
func resolveKeyShape(info *types.Info, fi *FuncInfo, e ast.Expr) string {
	if id, ok := ast.Unparen(e).(*ast.Ident); ok {
		obj := info.Uses[id]
		var def ast.Expr
		ast.Inspect(fi.Decl.Body, func(n ast.Node) bool {
			if as, ok := n.(*ast.AssignStmt); ok && len(as.Lhs) == len(as.Rhs) {
				for i, l := range as.Lhs {
					if lid, ok := l.(*ast.Ident); ok && info.Defs[lid] == obj {
						def = as.Rhs[i]
					}
				}
			}
			return true
		})
		if def != nil {
			return keyShape(info, def)
		}
	}
	return keyShape(info, e)
}

func sortedKeys2(m map[string][]ast.Node) []string {
	var ks []string
	for k := range m {
		ks = append(ks, k)
	}
	sort.Strings(ks)
	return ks
}

func c16r3(p *Program, r *Report) {
	fi := r.NeedFunc("(*ring).removeHost")
	if fi == nil {
		return
	}
	info := fi.Pkg.TypesInfo
	idObj := paramObj(info, fi.Decl.Type, 0)
	n := 0
	// removeHost and the unexported helpers it hands the id to
	for _, u := range p.unitsOf(fi) {
		u := u
		g := p.GraphOf(u)
		facts := g.GuardFacts()
		// the name the removed id has in this unit
		idName := ""
		if u == fi && idObj != nil {
			idName = idObj.Name()
		} else if idObj != nil {
			for _, cc := range callsIn(fi.Decl.Body) {
				if fn := calleeOf(info, cc); fn != nil && p.FuncOf(fn) == u {
					k := 0
					for _, pf := range u.Decl.Type.Params.List {
						for _, pn := range pf.Names {
							if k < len(cc.Args) && isIdentOf(info, cc.Args[k], idObj) {
								idName = pn.Name
							}
							k++
						}
					}
				}
			}
		}
		ast.Inspect(u.Decl.Body, func(x ast.Node) bool {
			c, ok := x.(*ast.CallExpr)
			if !ok || calleeName(info, c) != "builtin.delete" || len(c.Args) != 2 || !p.isField(info, c.Args[0], "ring", "hostIPToUUID") {
				return true
			}
			n++
			f, _ := facts.Before(p.stmtOf(c, u))
			key := exprStr(c.Args[1])
			guard := false
			for atom, v := range f.m {
				if v && strings.Contains(atom, "hostIPToUUID["+key+"]") && strings.Contains(atom, " == ") && idName != "" && mentions(atom, idName) {
					guard = true
				}
			}
			r.Check(guard, c, "(*ring).removeHost deletes the address entry only if it maps to the removed id", "guarded by hostIPToUUID[addr] == hostID",
				"the by-address entry is deleted without checking that it still maps to the host being removed: after a node was replaced on the same address, removing the old host makes the live one unreachable by address (its UP/DOWN events are ignored)")
			return true
		})
	}
	if n == 0 {
		r.Bad(fi.Decl, "(*ring).removeHost deletes from hostIPToUUID", "removeHost never deletes the by-address entry")
	}
}

func mustCallsAtExits(p *Program, r *Report, fi *FuncInfo, scope string, wants map[string][]string, onlyIf func(EvState) bool, extra Classifier) {
	g := p.GraphOf(fi)
	info := g.Info
	ef := g.Events(func(st Step) []string {
		var evs []string
		if extra != nil {
			evs = extra(st)
		}
		if st.Kind != StNode {
			return evs
		}
		if _, ok := st.Node.(*ast.GoStmt); ok {
			return evs
		}
		for _, c := range callsIn(st.Node) {
			name := calleeName(info, c)
			for ev, names := range wants {
				for _, n := range names {
					if name == n {
						evs = append(evs, ev)
					}
				}
			}
		}
		return evs
	})
	var keys []string
	for k := range wants {
		keys = append(keys, k)
	}
	sort.Strings(keys)
	n := 0
	for _, e := range g.Exits() {
		s, ok := ef.ExitState(e)
		if !ok || e.Kind == ExitPanic || (onlyIf != nil && !onlyIf(s)) {
			continue
		}
		n++
		for _, k := range keys {
			r.Check(s.Must[k], e.Node, fi.Name+" "+scope+" exit "+exitDesc(p, e)+" "+k, "on every path", "a path through "+fi.Name+" "+scope+" does not "+k)
		}
	}
	if n == 0 {
		r.Unresolved("%s: no exit matches %s", fi.Name, scope)
	}
}

func c16r4(p *Program, r *Report) {
	if fi := r.NeedFunc("(*Session).removeHost"); fi != nil {
		mustCallsAtExits(p, r, fi, "", map[string][]string{
			"removes the host from the policy": {"HostSelectionPolicy.RemoveHost", "HostStateNotifier.RemoveHost"},
			"removes the host's pool":          {"(*policyConnPool).removeHost"},
			"removes the host from the ring":   {"(*ring).removeHost"},
		}, nil, nil)
	}
	if fi := r.NeedFunc("(*Session).handleNodeDown"); fi != nil {
		// on every path where the host is known: marked down; and unless it is filtered out: policy told, pool removed
		tr := newReadTracer(p)
		tr.prims = map[string]string{"(*HostInfo).setState": "setState", "HostSelectionPolicy.HostDown": "hostDown", "HostStateNotifier.HostDown": "hostDown", "(*policyConnPool).removeHost": "removePool"}
		tr.noAuto = func(string) bool { return true }
		for _, c := range p.privateCallees(fi) {
			if c.Pkg == p.Root && !strings.HasPrefix(c.Name, "(*ring)") && !strings.HasPrefix(c.Name, "(*policyConnPool)") && !strings.HasPrefix(c.Name, "(*HostInfo)") {
				tr.inline[c.Name] = true
			}
		}
		nKnown := 0
		miss := map[string]*pathState{}
		// the variable that says whether the ring knows the address: second result of the lookup
		okName := "ok"
		ast.Inspect(fi.Decl.Body, func(x ast.Node) bool {
			if as, isAs := x.(*ast.AssignStmt); isAs && len(as.Lhs) == 2 && len(as.Rhs) == 1 {
				if c, isC := ast.Unparen(as.Rhs[0]).(*ast.CallExpr); isC {
					viaRing := strings.HasPrefix(calleeName(fi.Pkg.TypesInfo, c), "(*ring).")
					// or a helper that hands the ring's answer through
					if fn := calleeOf(fi.Pkg.TypesInfo, c); fn != nil && !viaRing {
						if h := p.FuncOf(fn); h != nil && h.Decl.Body != nil && len(h.Decl.Body.List) == 1 {
							if rs, isRet := h.Decl.Body.List[0].(*ast.ReturnStmt); isRet && len(rs.Results) == 1 {
								if rc, isRC := ast.Unparen(rs.Results[0]).(*ast.CallExpr); isRC && strings.HasPrefix(calleeName(h.Pkg.TypesInfo, rc), "(*ring).") {
									viaRing = true
								}
							}
						}
					}
					if id, isId := as.Lhs[1].(*ast.Ident); isId && id.Name != "_" && viaRing {
						okName = id.Name
					}
				}
			}
			return true
		})
		for _, st := range tr.run(fi, 4) {
			known, filtered, filterSeen := false, false, false
			for k, v := range st.assume {
				if k == okName && v {
					known = true
				}
				if strings.Contains(k, ".filterHost(") && strings.HasSuffix(k, ")") {
					filtered, filterSeen = v, true
				}
			}
			if !known {
				continue
			}
			nKnown++
			has := map[string]bool{}
			for _, it := range flat(st.trace) {
				has[it.Prim] = true
			}
			if !has["setState"] {
				miss["marks the host down"] = st
			}
			if !filtered || !filterSeen {
				if !has["hostDown"] {
					miss["notifies the selection policy"] = st
				}
				if !has["removePool"] {
					miss["removes the host's pool"] = st
				}
			}
		}
		if nKnown == 0 {
			r.Unresolved("handleNodeDown: no path for a known host (no `ok` test of the ring lookup)")
		} else {
			for _, what := range []string{"marks the host down", "notifies the selection policy", "removes the host's pool"} {
				st := miss[what]
				r.Check(st == nil, fi.Decl, "(*Session).handleNodeDown "+what, "on every path for a known, unfiltered host", "for a known host handleNodeDown no longer "+what+ifs(st != nil, " on path ["+assumeStrOf(st)+"]", "")+": a node reported down keeps being offered for queries")
			}
		}
	}
	// refreshRing: leftover hosts are removed
	if fi := r.NeedFunc("refreshRing"); fi != nil {
		info := fi.Pkg.TypesInfo
		var prevObj types.Object
		ast.Inspect(fi.Decl.Body, func(n ast.Node) bool {
			if as, ok := n.(*ast.AssignStmt); ok && len(as.Rhs) == 1 {
				if c, ok := ast.Unparen(as.Rhs[0]).(*ast.CallExpr); ok && isCallTo(info, c, "(*ring).currentHosts") {
					if id, ok := as.Lhs[0].(*ast.Ident); ok {
						prevObj = info.Defs[id]
					}
				}
			}
			return true
		})
		if prevObj == nil {
			r.Unresolved("refreshRing: no snapshot of the current hosts")
			return
		}
		okLoop, okDelete := false, false
		ast.Inspect(fi.Decl.Body, func(n ast.Node) bool {
			switch s := n.(type) {
			case *ast.RangeStmt:
				if isIdentOf(info, s.X, prevObj) {
					ast.Inspect(s.Body, func(m ast.Node) bool {
						if c, ok := m.(*ast.CallExpr); ok && isCallTo(info, c, "(*Session).removeHost") && len(c.Args) == 1 && s.Value != nil && exprStr(c.Args[0]) == exprStr(s.Value) {
							okLoop = true
						}
						return true
					})
				}
			case *ast.CallExpr:
				if calleeName(info, s) == "builtin.delete" && len(s.Args) == 2 && isIdentOf(info, s.Args[0], prevObj) {
					okDelete = true
				}
			}
			return true
		})
		if !okDelete {
			// or: the processed ids are collected in a set, and the final loop over the snapshot removes only the
			// hosts whose id is known not to be in that set
			facts := p.GraphOf(fi).GuardFacts()
			ast.Inspect(fi.Decl.Body, func(n ast.Node) bool {
				rs, ok := n.(*ast.RangeStmt)
				if !ok || !isIdentOf(info, rs.X, prevObj) || rs.Key == nil {
					return true
				}
				keyName := exprStr(rs.Key)
				// _, in := S[key]
				var set types.Object
				inName := ""
				ast.Inspect(rs.Body, func(m ast.Node) bool {
					if as, isAs := m.(*ast.AssignStmt); isAs && len(as.Lhs) == 2 && len(as.Rhs) == 1 {
						if ix, isIx := ast.Unparen(as.Rhs[0]).(*ast.IndexExpr); isIx && exprStr(ix.Index) == keyName {
							if sid, isId := ast.Unparen(ix.X).(*ast.Ident); isId {
								if _, isMap := info.TypeOf(sid).Underlying().(*types.Map); isMap {
									set = info.Uses[sid]
									inName = exprStr(as.Lhs[1])
								}
							}
						}
					}
					return true
				})
				if set == nil || inName == "" || inName == "_" {
					return true
				}
				// every removal in the loop happens where the id is known not to be in the set
				nrem, okRem := 0, true
				for _, c := range callsIn(rs.Body) {
					if isCallTo(info, c, "(*Session).removeHost") {
						nrem++
						f, _ := facts.Before(p.stmtOf(c, fi))
						if v, known := f.KnownStr(inName); !known || v {
							okRem = false
						}
					}
				}
				// the set is filled with the id of each reported host inside a loop that comes before
				filled := false
				ast.Inspect(fi.Decl.Body, func(m ast.Node) bool {
					as, isAs := m.(*ast.AssignStmt)
					if !isAs || as.Pos() > rs.Pos() {
						return true
					}
					for _, l := range as.Lhs {
						if ix, isIx := ast.Unparen(l).(*ast.IndexExpr); isIx && isIdentOf(info, ix.X, set) && p.inLoop(as, fi.Decl) && strings.Contains(exprStr(ix.Index), "HostID()") {
							filled = true
						}
					}
					return true
				})
				if nrem > 0 && okRem && filled {
					okDelete = true
				}
				return true
			})
		}
		r.Check(okDelete, fi.Decl, "refreshRing strikes reported hosts off the previous set", "delete(prevHosts, id) for every reported host", "reported hosts are not removed from the snapshot of previous hosts: every host would be removed after each refresh")
		// a reported host that the host filter now rejects must stay in the leftover set (so that it is removed):
		// striking it off is allowed only on paths where the filter accepted it
		{
			g := p.GraphOf(fi)
			gf := g.GuardFacts()
			for _, c := range callsIn(fi.Decl.Body) {
				if calleeName(info, c) != "builtin.delete" || len(c.Args) != 2 || !isIdentOf(info, c.Args[0], prevObj) {
					continue
				}
				f, _ := gf.Before(p.stmtOf(c, fi))
				accepted := false
				for atom, v := range f.m {
					if !v && strings.Contains(atom, "filterHost(") {
						accepted = true
					}
				}
				r.Check(accepted, c, "refreshRing strikes a host off the previous set only after the host filter accepted it", "dominated by !filterHost(h)",
					"a reported host is struck off the leftover set before the host filter is consulted: a node that is still reported but is now rejected by the filter (moved to a non-whitelisted address or datacenter) is never removed from ring, pool and policy")
			}
		}
		r.Check(okLoop, fi.Decl, "refreshRing removes every host the cluster no longer reports", "removeHost for each leftover of the previous ring", "hosts that vanished from the cluster's report are never removed from ring, pool and policy")
		// reported, unfiltered, unknown hosts are added and filled
		mustCallsAtExits(p, r, fi, "(success)", map[string][]string{
			"sets the partitioner": {"(*clusterMetadata).setPartitioner"},
		}, func(s EvState) bool { return s.Must["okReturn"] }, func(st Step) []string {
			if st.Kind == StNode {
				if rs, ok := st.Node.(*ast.ReturnStmt); ok && len(rs.Results) == 1 && isNil(info, rs.Results[0]) {
					return []string{"okReturn"}
				}
			}
			return nil
		})
	}
}

func c16r5(p *Program, r *Report) {
	fi := r.NeedFunc("(*ringDescriber).getClusterPeerInfo")
	if fi == nil {
		return
	}
	g := p.GraphOf(fi)
	info := g.Info
	facts := g.GuardFacts()
	n := 0
	ast.Inspect(fi.Decl.Body, func(x ast.Node) bool {
		c, ok := x.(*ast.CallExpr)
		if !ok || calleeName(info, c) != "builtin.append" || len(c.Args) != 2 {
			return true
		}
		if t := info.TypeOf(c.Args[0]); t == nil || !strings.Contains(t.String(), "HostInfo") {
			return true
		}
		n++
		f, _ := facts.Before(c)
		v, known := f.KnownStr("isValidPeer(" + exprStr(c.Args[1]) + ")")
		r.Check(known && v, c, "(*ringDescriber).getClusterPeerInfo adds only validated peers", "isValidPeer(host) known true", "a peer row is added to the cluster view without isValidPeer having accepted it (rows without address, id, DC, rack or tokens)")
		return true
	})
	if n == 0 {
		r.Unresolved("getClusterPeerInfo: no append of a peer")
	}
	// what isValidPeer accepts: a row is a usable peer only with an address, a host id, a datacenter, a rack and
	// tokens; every `true` answer must have excluded each of the five gaps
	if vp := r.NeedFunc("isValidPeer"); vp != nil {
		vg := p.GraphOf(vp)
		vinfo := vg.Info
		vfacts := vg.GuardFacts()
		needs := []struct {
			what string
			keys []string
		}{
			{"an RPC address", []string{"RPCAddress", "rpcAddress", "ConnectAddress", "connectAddress"}},
			{"a host id", []string{"hostId", "HostID"}},
			{"a datacenter", []string{"dataCenter", "DataCenter"}},
			{"a rack", []string{"rack", "Rack"}},
			{"tokens", []string{"tokens", "Tokens"}},
		}
		nret := 0
		for _, e := range vg.Exits() {
			rs, ok := e.Node.(*ast.ReturnStmt)
			if !ok || len(rs.Results) != 1 {
				continue
			}
			f0, okF := vfacts.Before(rs)
			if !okF {
				continue
			}
			f := f0.clone()
			if tv, isC := vinfo.Types[rs.Results[0]]; isC && tv.Value != nil {
				if tv.Value.String() != "true" {
					continue
				}
			} else {
				f.assume(rs.Results[0], true)
			}
			nret++
			var missing []string
			for _, nd := range needs {
				excluded := false
				for atom, v := range f.m {
					hit := false
					for _, k := range nd.keys {
						if mentionsField(atom, k) || strings.Contains(atom, "."+k+"()") {
							hit = true
						}
					}
					if !hit {
						continue
					}
					a := strings.ReplaceAll(atom, " ", "")
					emptyTest := strings.HasSuffix(a, "==\"\"") || strings.HasPrefix(a, "\"\"==") || strings.HasSuffix(a, "==0") || strings.HasPrefix(a, "0==") || strings.HasSuffix(a, "==nil")
					nonEmptyTest := strings.HasPrefix(a, "0<len(")
					if emptyTest && !v || nonEmptyTest && v {
						excluded = true
					}
				}
				if !excluded {
					missing = append(missing, nd.what)
				}
			}
			r.Check(len(missing) == 0, rs, "isValidPeer accepts a row only with address, host id, datacenter, rack and tokens", "all five gaps excluded on this path",
				"isValidPeer answers true for a row without "+strings.Join(missing, " / ")+": such a peer enters the ring (a node that is still joining has no tokens; one without address or id cannot be connected to or keyed)")
		}
		if nret == 0 {
			r.Unresolved("isValidPeer never answers true")
		}
	}
}

func c16r6(p *Program, r *Report) {
	if fi := r.NeedFunc("(*eventDebouncer).debounce"); fi != nil {
		g := p.GraphOf(fi)
		info := g.Info
		facts := g.GuardFacts()
		n := 0
		ast.Inspect(fi.Decl.Body, func(x ast.Node) bool {
			c, ok := x.(*ast.CallExpr)
			if !ok || calleeName(info, c) != "builtin.append" || len(c.Args) < 2 || !p.isField(info, c.Args[0], "eventDebouncer", "events") {
				return true
			}
			n++
			f, _ := facts.Before(c)
			d := newDBM(g, f, nil)
			ub, ok := d.constUpper(lenCall(c.Args[0]))
			r.Check(ok && ub < 1<<20, c, "(*eventDebouncer).debounce buffer bounded", "len(events) bounded by a constant before appending", "events are buffered without a bound: a burst of events grows memory without limit")
			return true
		})
		if n == 0 {
			r.Unresolved("debounce: no append to events")
		}
	}
	if fi := r.NeedFunc("(*Session).handleNodeEvent"); fi != nil {
		info := fi.Pkg.TypesInfo
		n := 0
		ast.Inspect(fi.Decl.Body, func(x ast.Node) bool {
			c, ok := x.(*ast.CallExpr)
			if !ok || !isCallTo(info, c, "(*Session).debounceRingRefresh", "(*Session).refreshRing") {
				return true
			}
			n++
			r.Check(!p.inLoop(c, fi.Decl), c, "(*Session).handleNodeEvent requests one refresh per batch", "outside the per-frame loop", "a ring refresh is requested once per topology frame instead of once per batch: a burst of events causes a burst of refreshes")
			return true
		})
		if n == 0 {
			r.Bad(fi.Decl, "(*Session).handleNodeEvent requests a ring refresh on topology events", "topology events no longer trigger a ring refresh")
		}
	}
}

func c16r7(p *Program, r *Report) {
	fi := r.NeedFunc("(*Session).handleNodeEvent")
	if fi == nil {
		return
	}
	// every path through the *statusChangeEventFrame clause stores the frame's status for its address: into the
	// pending event of that address, or into a new one
	tr := newReadTracer(p)
	tr.prims = map[string]string{}
	tr.noAuto = func(string) bool { return true }
	tr.trackField = "change"
	tr.markTypeCases = true
	for _, c := range p.unitsOf(fi)[1:] {
		if c.Pkg == p.Root && (strings.HasPrefix(c.Name, "(*Session).") || !strings.Contains(c.Name, ").")) {
			tr.inline[c.Name] = true
		}
	}
	found, records := false, true
	var bad *pathState
	for _, st := range tr.run(fi, 4) {
		var walk func(ts []TraceItem, in bool) (bool, bool)
		walk = func(ts []TraceItem, in bool) (entered, stored bool) {
			for _, it := range ts {
				switch it.Prim {
				case "typecase":
					in = strings.HasSuffix(it.Arg, "statusChangeEventFrame")
					if in {
						entered = true
					}
				case "field":
					if in && strings.HasSuffix(exprStr(it.Expr), ".change") {
						stored = true
					}
				case "loop":
					e, s2 := walk(it.Body, in)
					entered = entered || e
					stored = stored || s2
				}
			}
			return
		}
		entered, stored := walk(st.trace, false)
		if !entered {
			continue
		}
		found = true
		if !stored {
			records, bad = false, st
		}
	}
	if len(tr.unsup) > 0 {
		r.Unresolved("handleNodeEvent: %s", strings.Join(tr.unsup, "; "))
		return
	}
	why := ""
	if bad != nil {
		why = " (path: " + assumeStr(bad) + ")"
	}
	if found {
		r.Check(records, fi.Decl, "(*Session).handleNodeEvent keeps the last status per address", "every status frame overwrites the pending status of its address",
			"a later status event for an address does not replace the earlier one in the same batch"+why+": after DOWN then UP within one debounce window the node stays down (or a down node stays in rotation)")
	}
	if !found {
		r.Unresolved("handleNodeEvent: no case for *statusChangeEventFrame")
	}
}

func c16r8(p *Program, r *Report) {
	for _, name := range []string{"(*Session).handleEvent", "(*Session).handleNodeEvent", "(*Session).handleSchemaEvent"} {
		fi := r.NeedFunc(name)
		if fi == nil {
			continue
		}
		info := fi.Pkg.TypesInfo
		bad := false
		ast.Inspect(fi.Decl.Body, func(x ast.Node) bool {
			if c, ok := x.(*ast.CallExpr); ok && calleeName(info, c) == "builtin.panic" {
				bad = true
			}
			if ta, ok := x.(*ast.TypeAssertExpr); ok && ta.Type != nil {
				if as, ok := p.Parent(ta).(*ast.AssignStmt); !ok || len(as.Lhs) != 2 {
					bad = true
				}
			}
			return true
		})
		r.Check(!bad, fi.Decl, name+" never panics on an unexpected frame", "no panic, no bare type assertion", name+" panics or uses a bare type assertion on event frames: an unexpected event takes the process down")
	}
	_ = token.NoPos
}

func assumeStrOf(st *pathState) string {
	if st == nil {
		return ""
	}
	return assumeStr(st)
}

// c16r11: ring.hosts and policyConnPool.hostConnPools are keyed by host id. An index expression on either must be a
// host id: <host>.HostID() (or the hostId field), a local bound to one, the key of a range over one of the two maps,
// a value of the address index ring.hostIPToUUID, or a parameter that receives such a value at every call site.
// An address used as the key finds nothing: the pool of a node that went down is never removed.
func c16r11(p *Program, r *Report) {
	tables := map[*types.Var]string{}
	if f := p.Field("ring", "hosts"); f != nil {
		tables[f] = "ring.hosts"
	}
	if f := p.Field("policyConnPool", "hostConnPools"); f != nil {
		tables[f] = "policyConnPool.hostConnPools"
	}
	ipIndex := p.Field("ring", "hostIPToUUID")
	var isID func(fi *FuncInfo, e ast.Expr, depth int) (bool, string)
	isID = func(fi *FuncInfo, e ast.Expr, depth int) (bool, string) {
		info := fi.Pkg.TypesInfo
		e = ast.Unparen(e)
		if depth > 4 {
			return false, "too deep"
		}
		switch x := e.(type) {
		case *ast.CallExpr:
			if strings.HasSuffix(calleeName(info, x), ".HostID") && len(x.Args) == 0 {
				return true, exprStr(x)
			}
		case *ast.SelectorExpr:
			if fv := fieldOf(info, x); fv != nil && (fv.Name() == "hostId" || fv.Name() == "hostID") {
				return true, exprStr(x)
			}
		case *ast.IndexExpr:
			if fv := fieldOf(info, x.X); fv != nil && fv == ipIndex {
				return true, exprStr(x)
			}
		case *ast.Ident:
			obj := info.Uses[x]
			if obj == nil {
				return false, exprStr(e)
			}
			// range key over one of the tables
			var ok bool
			var why string
			ast.Inspect(fi.Decl.Body, func(y ast.Node) bool {
				if rs, isR := y.(*ast.RangeStmt); isR && rs.Key != nil {
					if kid, isId := rs.Key.(*ast.Ident); isId && info.Defs[kid] == obj {
						if fv := fieldOf(info, rs.X); fv != nil && tables[fv] != "" {
							ok, why = true, "key of "+exprStr(rs.X)
						}
						// a local set whose keys were all host ids
						if mid, isM := ast.Unparen(rs.X).(*ast.Ident); isM && depth < 3 {
							if _, isMap := info.TypeOf(mid).Underlying().(*types.Map); isMap {
								nkeys, allIDs := 0, true
								ast.Inspect(fi.Decl.Body, func(z ast.Node) bool {
									for _, l := range assignedLHS(z) {
										if mix, isIx := ast.Unparen(l).(*ast.IndexExpr); isIx && isIdentOf(info, mix.X, info.Uses[mid]) {
											nkeys++
											if okK, _ := isID(fi, mix.Index, depth+1); !okK {
												allIDs = false
											}
										}
									}
									return true
								})
								if nkeys > 0 && allIDs {
									ok, why = true, "key of the local set "+mid.Name+", filled with host ids"
								}
							}
						}
					}
					if vid, isId := rs.Value.(*ast.Ident); isId && info.Defs[vid] == obj {
						if fv := fieldOf(info, rs.X); fv != nil && fv == ipIndex {
							ok, why = true, "value of "+exprStr(rs.X)
						}
					}
				}
				return true
			})
			if ok {
				return true, why
			}
			// a local with definitions that are all ids (comma-ok lookups in the address index included)
			ndef, all := 0, true
			ast.Inspect(fi.Decl.Body, func(y ast.Node) bool {
				as, isAs := y.(*ast.AssignStmt)
				if !isAs {
					return true
				}
				for i, l := range as.Lhs {
					lid, isId := l.(*ast.Ident)
					if !isId || (info.Defs[lid] != obj && info.Uses[lid] != obj) {
						continue
					}
					ndef++
					var rhs ast.Expr
					if len(as.Rhs) == len(as.Lhs) {
						rhs = as.Rhs[i]
					} else if len(as.Rhs) == 1 && i == 0 {
						rhs = as.Rhs[0]
					}
					if rhs == nil {
						all = false
						continue
					}
					if okR, _ := isID(fi, rhs, depth+1); !okR {
						all = false
					}
				}
				return true
			})
			if ndef > 0 {
				return all, "local " + x.Name
			}
			// a parameter: every call site passes an id
			if fi.Obj != nil {
				sig := fi.Obj.Type().(*types.Signature)
				for i := 0; i < sig.Params().Len(); i++ {
					if sig.Params().At(i) != obj {
						continue
					}
					nsite, allSites := 0, true
					bad := ""
					p.forEachFunc(false, func(caller *FuncInfo) {
						ci := caller.Pkg.TypesInfo
						for _, c := range callsIn(caller.Decl.Body) {
							if fn := calleeOf(ci, c); fn != nil && fn == fi.Obj && i < len(c.Args) {
								nsite++
								if okA, _ := isID(caller, c.Args[i], depth+1); !okA {
									allSites = false
									bad = p.Pos(c) + ": " + exprStr(c.Args[i])
								}
							}
						}
					})
					if nsite == 0 {
						return true, "parameter " + x.Name + " (no call site in the module)"
					}
					if !allSites {
						return false, "parameter " + x.Name + " receives " + bad
					}
					return true, "parameter " + x.Name + ", a host id at every call site"
				}
			}
		}
		return false, exprStr(e)
	}
	n := 0
	p.forEachFunc(false, func(fi *FuncInfo) {
		if fi.Pkg != p.Root {
			return
		}
		info := fi.Pkg.TypesInfo
		inspectNoLit(fi.Decl.Body, func(x ast.Node) bool {
			ix, ok := x.(*ast.IndexExpr)
			if !ok {
				return true
			}
			fv := fieldOf(info, ix.X)
			if fv == nil || tables[fv] == "" {
				return true
			}
			n++
			okK, why := isID(fi, ix.Index, 0)
			r.Check(okK, ix, fi.Name+" indexes "+tables[fv]+" with a host id", why,
				tables[fv]+" is keyed by host id but is indexed here with "+why+": the entry is not found (a pool is never removed, a host is looked up under its address)")
			return true
		})
	})
	if n == 0 {
		r.Unresolved("no index expression on ring.hosts / policyConnPool.hostConnPools found")
	}
}

// c16r12: ring.hosts, ring.hostIPToUUID and ring.hostList are protected by ring.mu. A method that returns one of them
// itself (directly or through a local alias) hands its caller a reference that is read and written outside the lock:
// refreshRing, for one, deletes from the map currentHosts returns.
func c16r12(p *Program, r *Report) {
	guarded := map[*types.Var]bool{}
	for _, gf := range ringGuards {
		if gf.Type == "ring" {
			if f := p.Field(gf.Type, gf.Field); f != nil {
				guarded[f] = true
			}
		}
	}
	n := 0
	p.forEachFunc(false, func(fi *FuncInfo) {
		if fi.Pkg != p.Root || fi.Decl.Recv == nil || fi.Decl.Body == nil {
			return
		}
		info := fi.Pkg.TypesInfo
		if rt := info.TypeOf(fi.Decl.Recv.List[0].Type); rt == nil || typeNameOf(rt) != "ring" {
			return
		}
		inspectNoLit(fi.Decl.Body, func(x ast.Node) bool {
			rs, ok := x.(*ast.ReturnStmt)
			if !ok {
				return true
			}
			for _, res := range rs.Results {
				t := info.TypeOf(res)
				if t == nil {
					continue
				}
				switch t.Underlying().(type) {
				case *types.Map, *types.Slice:
				default:
					continue
				}
				n++
				_, e := p.resolveValue(fi, res, 0)
				fv := fieldOf(info, e)
				leak := fv != nil && guarded[fv]
				r.Check(!leak, rs, fi.Name+" returns a copy, not the guarded "+exprStr(ast.Unparen(e)), "fresh map / slice filled under the lock",
					fi.Name+" returns "+exprStr(e)+" itself: the caller reads and writes the ring's own index outside ring.mu (refreshRing deletes from the map it gets, which empties the ring; concurrent readers race)")
			}
			return true
		})
	})
	if n == 0 {
		r.Unresolved("no ring method returns a map or a slice")
	}
}

// c16r13: (a) in refreshRing the hosts handed to Session.removeHost come from the previous view of the ring (the map
// currentHosts returned): that is the HostInfo the policies and pools know, under the old address. (b) in the
// token-aware policy, a token ring rebuilt after the host list changed is built from the list read after the change.
func c16r13(p *Program, r *Report) {
	if fi := r.NeedFunc("refreshRing"); fi != nil {
		info := fi.Pkg.TypesInfo
		// the previous view: the local bound to ring.currentHosts()
		var prev types.Object
		ast.Inspect(fi.Decl.Body, func(x ast.Node) bool {
			if as, ok := x.(*ast.AssignStmt); ok && len(as.Lhs) == 1 && len(as.Rhs) == 1 {
				if c, isC := ast.Unparen(as.Rhs[0]).(*ast.CallExpr); isC && isCallTo(info, c, "(*ring).currentHosts") {
					if id, isId := as.Lhs[0].(*ast.Ident); isId {
						prev = info.Defs[id]
					}
				}
			}
			return true
		})
		n := 0
		for _, c := range callsIn(fi.Decl.Body) {
			if !isCallTo(info, c, "(*Session).removeHost") || len(c.Args) != 1 {
				continue
			}
			n++
			fromPrev := false
			if id, isId := ast.Unparen(c.Args[0]).(*ast.Ident); isId && prev != nil {
				obj := info.Uses[id]
				ast.Inspect(fi.Decl.Body, func(y ast.Node) bool {
					switch z := y.(type) {
					case *ast.AssignStmt:
						for i, l := range z.Lhs {
							if lid, ok := l.(*ast.Ident); ok && (info.Defs[lid] == obj || info.Uses[lid] == obj) {
								var rhs ast.Expr
								if len(z.Rhs) == len(z.Lhs) {
									rhs = z.Rhs[i]
								} else if len(z.Rhs) == 1 && i == 0 {
									rhs = z.Rhs[0]
								}
								if ix, isIx := ast.Unparen(rhs).(*ast.IndexExpr); isIx && isIdentOf(info, ix.X, prev) {
									fromPrev = true
								}
							}
						}
					case *ast.RangeStmt:
						if vid, ok := z.Value.(*ast.Ident); ok && info.Defs[vid] == obj && isIdentOf(info, z.X, prev) {
							fromPrev = true
						}
					}
					return true
				})
			}
			r.Check(fromPrev, c, "refreshRing removes a host of the previous view", "argument taken from the map returned by currentHosts()",
				"Session.removeHost is given "+exprStr(c.Args[0])+", which is not the HostInfo of the previous view of the ring: the policies remove by the address of the object they are given, so the old HostInfo (old address) stays in the selection policy and is offered for ever")
		}
		if n == 0 {
			r.Unresolved("refreshRing never calls Session.removeHost")
		}
	}
	// (b)
	nb := 0
	p.forEachFunc(false, func(fi *FuncInfo) {
		if fi.Pkg != p.Root || fi.Decl.Body == nil {
			return
		}
		info := fi.Pkg.TypesInfo
		isMut := func(c *ast.CallExpr) bool {
			if isCallTo(info, c, "(*cowHostList).add", "(*cowHostList).remove", "(*cowHostList).update", "(*cowHostList).set") {
				return true
			}
			// a change handed in by the caller: a function-typed parameter applied to the host list
			if id, isId := ast.Unparen(c.Fun).(*ast.Ident); isId {
				if v, isVar := info.Uses[id].(*types.Var); isVar {
					if sig, isSig := v.Type().Underlying().(*types.Signature); isSig && sig.Params().Len() == 1 && typeNameOf(sig.Params().At(0).Type()) == "cowHostList" {
						return true
					}
				}
			}
			return false
		}
		hasMut := false
		for _, c := range callsIn(fi.Decl.Body) {
			if isMut(c) {
				hasMut = true
			}
		}
		if !hasMut {
			return
		}
		// the rebuild may sit in a helper shared by the functions that change the list: judged in place
		g := p.GraphOfInl(fi)
		ef := g.Events(func(st Step) []string {
			if st.Kind != StNode {
				return nil
			}
			for _, c := range callsIn(st.Node) {
				if isMut(c) {
					return []string{"changed"}
				}
			}
			return nil
		})
		for _, u := range g.Units() {
			for _, c := range callsIn(u.Decl.Body) {
				if !isCallTo(info, c, "(*clusterMeta).resetTokenRing") || len(c.Args) < 2 {
					continue
				}
				nb++
				arg := ast.Unparen(c.Args[1])
				okArg := false
				why := exprStr(arg)
				if gc, isC := arg.(*ast.CallExpr); isC && isCallTo(info, gc, "(*cowHostList).get") {
					okArg = true // read at the call, after whatever preceded it
				} else if id, isId := arg.(*ast.Ident); isId {
					// a local: its definition reads the list after the change
					obj := info.Uses[id]
					ast.Inspect(u.Decl.Body, func(y ast.Node) bool {
						as, ok := y.(*ast.AssignStmt)
						if !ok || len(as.Lhs) != len(as.Rhs) {
							return true
						}
						for i, l := range as.Lhs {
							if lid, ok := l.(*ast.Ident); ok && (info.Defs[lid] == obj || info.Uses[lid] == obj) {
								if gc, isC := ast.Unparen(as.Rhs[i]).(*ast.CallExpr); isC && isCallTo(info, gc, "(*cowHostList).get") {
									if s, okS := ef.Sol.Before(as); okS && s.Must["changed"] {
										okArg = true
									} else {
										why = id.Name + " := " + exprStr(as.Rhs[i]) + " at " + p.Pos(as) + ", before the list is changed"
									}
								}
							}
						}
						return true
					})
				}
				r.Check(okArg, c, fi.Name+" rebuilds the token ring from the host list as it is after the change", "hosts.get() read after add / remove",
					"the token ring is rebuilt from "+why+": a copy-on-write snapshot taken before the list was changed still contains the removed node (or lacks the new one), so the node keeps its ranges and replica-set membership until the next change")
			}
		}
	})
	if nb == 0 {
		r.Unresolved("no function changes the token-aware policy's host list and rebuilds the ring")
	}
}
