package main

import (
	"go/ast"
	"go/token"
	"go/types"
	"strconv"
	"strings"
)

// Difference-bound prover (the classic DBM abstract domain, queried on demand):
// nodes are normalised integer terms, an edge u -> v with weight w states  u <= v + w.
// Facts of the guard analysis, types (unsigned, len()), syntactic invariants of the function
// (induction variables, variables only assigned constants) and a few library facts
// (strings.HasPrefix) supply the edges; a query is a shortest-path question.

type dbm struct {
	info    *types.Info
	g       *Graph
	edges   map[string]map[string]int
	nodes   map[string]bool
	busy    map[types.Object]bool
	busySum map[string]bool
	sums    bool // relate a sum of two variable terms to its operands (set by the bounds discharger: costly)
}

const zeroNode = "0"

// term splits e into (symbolic term, constant offset); pure constants give (zeroNode, k).
func (d *dbm) term(e ast.Expr) (string, int, bool) {
	e = stripWidening(d.info, e)
	if lit, ok := e.(*ast.BasicLit); ok && lit.Kind == token.INT {
		if k, err := strconv.ParseInt(lit.Value, 0, 64); err == nil {
			return zeroNode, int(k), true
		}
	}
	if u, ok := e.(*ast.UnaryExpr); ok && u.Op == token.SUB {
		if lit, ok := u.X.(*ast.BasicLit); ok && lit.Kind == token.INT {
			if k, err := strconv.ParseInt(lit.Value, 0, 64); err == nil {
				return zeroNode, -int(k), true
			}
		}
	}
	if k, ok := constInt(d.info, e); ok {
		if k > 1<<40 || k < -(1<<40) {
			return "", 0, false
		}
		return zeroNode, int(k), true
	}
	if b, ok := e.(*ast.BinaryExpr); ok && (b.Op == token.ADD || b.Op == token.SUB) {
		if t, k, ok := d.term(b.Y); ok && t == zeroNode {
			if lt, lk, ok := d.term(b.X); ok {
				if b.Op == token.ADD {
					return lt, lk + k, true
				}
				return lt, lk - k, true
			}
		}
		if b.Op == token.ADD {
			if t, k, ok := d.term(b.X); ok && t == zeroNode {
				if rt, rk, ok := d.term(b.Y); ok {
					return rt, rk + k, true
				}
			}
		}
	}
	if t := d.info.TypeOf(e); t != nil {
		if _, _, isInt := intInfo(t); !isInt {
			// len(x) of synthetic nodes has no recorded type; allow calls to len
			if c, ok := e.(*ast.CallExpr); !ok || exprStr(c.Fun) != "len" {
				return "", 0, false
			}
		}
	}
	return normStr(d.info, e), 0, true
}

// termExpr is term() returning the base expression instead of its string.
func (d *dbm) termExpr(e ast.Expr) (ast.Expr, int, bool) {
	e = stripWidening(d.info, e)
	if lit, ok := e.(*ast.BasicLit); ok && lit.Kind == token.INT {
		if k, err := strconv.ParseInt(lit.Value, 0, 64); err == nil {
			return nil, int(k), true
		}
	}
	if u, ok := e.(*ast.UnaryExpr); ok && u.Op == token.SUB {
		if lit, ok := u.X.(*ast.BasicLit); ok && lit.Kind == token.INT {
			if k, err := strconv.ParseInt(lit.Value, 0, 64); err == nil {
				return nil, -int(k), true
			}
		}
	}
	if k, ok := constInt(d.info, e); ok {
		return nil, int(k), true
	}
	if b, ok := e.(*ast.BinaryExpr); ok && (b.Op == token.ADD || b.Op == token.SUB) {
		if base, k, ok := d.termExpr(b.Y); ok && base == nil {
			if lb, lk, ok := d.termExpr(b.X); ok {
				if b.Op == token.ADD {
					return lb, lk + k, true
				}
				return lb, lk - k, true
			}
		}
		if b.Op == token.ADD {
			if base, k, ok := d.termExpr(b.X); ok && base == nil {
				if rb, rk, ok := d.termExpr(b.Y); ok {
					return rb, rk + k, true
				}
			}
		}
	}
	if _, _, ok := d.term(e); !ok {
		return nil, 0, false
	}
	return e, 0, true
}

// dist returns the tightest known w with u <= v + w.
func (d *dbm) dist(u, v string) (int, bool) {
	if u == v {
		return 0, true
	}
	dist := map[string]int{u: 0}
	for iter := 0; iter < len(d.nodes)+1; iter++ {
		changed := false
		for x, dx := range dist {
			for y, w := range d.edges[x] {
				if dy, ok := dist[y]; !ok || dx+w < dy {
					dist[y] = dx + w
					changed = true
				}
			}
		}
		if !changed {
			break
		}
	}
	w, ok := dist[v]
	return w, ok
}

func (d *dbm) add(u, v string, w int) {
	if d.edges[u] == nil {
		d.edges[u] = map[string]int{}
	}
	if old, ok := d.edges[u][v]; !ok || w < old {
		d.edges[u][v] = w
	}
	d.nodes[u], d.nodes[v] = true, true
}

// addLE records a + ak <= b + bk.
func (d *dbm) addLE(a string, ak int, b string, bk int) { d.add(a, b, bk-ak) }

func (d *dbm) addRel(ra relAtom, val bool) {
	xt, xk, ok1 := d.term(ra.X)
	yt, yk, ok2 := d.term(ra.Y)
	if !ok1 || !ok2 {
		return
	}
	switch ra.Op {
	case token.LSS:
		if val { // x < y  =>  x + 1 <= y
			d.addLE(xt, xk+1, yt, yk)
		} else { // !(x < y) => y <= x
			d.addLE(yt, yk, xt, xk)
		}
	case token.EQL:
		if val {
			d.addLE(xt, xk, yt, yk)
			d.addLE(yt, yk, xt, xk)
		}
	}
}

// le proves a + ak <= b + bk by shortest path.
func (d *dbm) le(a string, ak int, b string, bk int) bool {
	if a == b {
		return ak <= bk
	}
	// Bellman-Ford from a
	dist := map[string]int{a: 0}
	for iter := 0; iter < len(d.nodes)+1; iter++ {
		changed := false
		for u, du := range dist {
			for v, w := range d.edges[u] {
				if dv, ok := dist[v]; !ok || du+w < dv {
					dist[v] = du + w
					changed = true
				}
			}
		}
		if !changed {
			break
		}
	}
	db, ok := dist[b]
	// a <= b + db  ; want a + ak <= b + bk  <=  db <= bk - ak
	return ok && db <= bk-ak
}

// leExpr proves x + xk <= y + yk for expressions.
func (d *dbm) leExpr(x ast.Expr, xk int, y ast.Expr, yk int) bool {
	xt, xo, ok1 := d.term(x)
	yt, yo, ok2 := d.term(y)
	if !ok1 || !ok2 {
		return false
	}
	d.noteTerm(x)
	d.noteTerm(y)
	return d.le(xt, xo+xk, yt, yo+yk)
}

func lenCall(x ast.Expr) ast.Expr {
	return &ast.CallExpr{Fun: ast.NewIdent("len"), Args: []ast.Expr{x}}
}

// noteTerm adds type-derived and structural facts about a term that appears in a query.
func (d *dbm) noteTerm(e ast.Expr) {
	e = stripWidening(d.info, e)
	t, _, ok := d.term(e)
	if !ok || t == zeroNode {
		return
	}
	base := e
	if b, isB := e.(*ast.BinaryExpr); isB && (b.Op == token.ADD || b.Op == token.SUB) {
		if _, isC := constInt(d.info, b.Y); isC {
			base = stripWidening(d.info, b.X)
		} else if _, isC := constInt(d.info, b.X); isC && b.Op == token.ADD {
			base = stripWidening(d.info, b.Y)
		}
	}
	// unsigned type or len(): 0 <= t
	if ty := d.info.TypeOf(base); ty != nil {
		if bits, u, isInt := intInfo(ty); isInt && u {
			d.addLE(zeroNode, 0, t, 0)
			if bits <= 16 {
				d.addLE(t, 0, zeroNode, 1<<uint(bits)-1)
			}
		}
	}
	if c, isCall := base.(*ast.CallExpr); isCall && len(c.Args) == 1 {
		fn := exprStr(c.Fun)
		if fn == "len" || fn == "cap" {
			d.addLE(zeroNode, 0, t, 0)
			d.noteLen(c.Args[0])
		}
		// math/bits counting functions: 0 <= r <= N; LeadingZerosN of a value widened from w bits: r >= N - w
		if n, isBits := bitsCount[calleeName(d.info, c)]; isBits {
			d.addLE(zeroNode, 0, t, 0)
			d.addLE(t, 0, zeroNode, n)
			if strings.HasPrefix(calleeName(d.info, c), "bits.LeadingZeros") {
				arg := ast.Unparen(c.Args[0])
				if cv, isConv := arg.(*ast.CallExpr); isConv && len(cv.Args) == 1 {
					if tv, isT := d.info.Types[cv.Fun]; isT && tv.IsType() {
						if w, uns, isInt := intInfo(d.info.TypeOf(cv.Args[0])); isInt && uns && w < n {
							d.addLE(zeroNode, n-w, t, 0)
						}
					}
				}
			}
		}
	}
	// a helper of the module that reduces an index below its size parameter: 0 <= r, and r < size when size is
	// known to exceed every constant the helper may return instead
	if c, isCall := base.(*ast.CallExpr); isCall && d.g != nil {
		if fn := calleeOf(d.info, c); fn != nil {
			if callee := d.g.P.FuncOf(fn); callee != nil && callee.Pkg == d.g.P.Root {
				if rb := d.g.P.resultBelowParam(callee); rb != nil && rb.paramIdx < len(c.Args) {
					d.addLE(zeroNode, 0, t, 0)
					arg := c.Args[rb.paramIdx]
					if at, ak, ok := d.term(arg); ok {
						d.noteTerm(arg)
						if d.le(zeroNode, int(rb.maxConst)+1, at, ak) {
							d.addLE(t, 1, at, ak)
						}
					}
				}
			}
		}
	}
	if id, isId := base.(*ast.Ident); isId {
		d.noteVar(id)
	}
	if ix, isIx := base.(*ast.IndexExpr); isIx {
		// element of a package-level constant table that is never written: min/max of its elements
		if lo, hi, ok := d.constTableRange(ix.X); ok {
			d.addLE(zeroNode, lo, t, 0)
			d.addLE(t, 0, zeroNode, hi)
		}
	}
	// x % m: 0 <= result <= m-1 when x, m non-negative ; x / k <= x
	if b, isB := base.(*ast.BinaryExpr); isB {
		switch b.Op {
		case token.ADD:
			// a sum of two variable terms is a node of its own: it is at least each operand when the other is
			// non-negative
			if _, isC := constInt(d.info, b.Y); !isC && d.sums {
				if _, isC2 := constInt(d.info, b.X); !isC2 && !d.busySum[t] {
					if d.busySum == nil {
						d.busySum = map[string]bool{}
					}
					d.busySum[t] = true
					xt, xk, okX := d.term(b.X)
					yt, yk, okY := d.term(b.Y)
					if okX && okY {
						if d.nonNeg(b.Y) {
							d.addLE(xt, xk, t, 0)
						}
						if d.nonNeg(b.X) {
							d.addLE(yt, yk, t, 0)
						}
					}
				}
			}
		case token.REM:
			if d.nonNeg(b.X) {
				d.addLE(zeroNode, 0, t, 0)
				mt, mk, ok := d.term(b.Y)
				if ok {
					d.noteTerm(b.Y)
					d.addLE(t, 0, mt, mk-1)
				}
			}
		case token.QUO:
			if _, isC := constInt(d.info, b.Y); !isC && d.nonNeg(b.X) {
				// x / y <= x when x >= 0 and y >= 1
				if yt, yk, ok := d.term(b.Y); ok {
					d.noteTerm(b.Y)
					if d.le(zeroNode, 1, yt, yk) {
						d.addLE(zeroNode, 0, t, 0)
						if xt, xk, ok := d.term(b.X); ok {
							d.addLE(t, 0, xt, xk)
						}
					}
				}
			}
			if k, isC := constInt(d.info, b.Y); isC && k > 0 && d.nonNeg(b.X) {
				if xt, xk, ok := d.term(b.X); ok {
					d.addLE(t, 0, xt, xk)
				}
				d.addLE(zeroNode, 0, t, 0)
				// x/k <= (xmax)/k when x <= c known: derive via constant upper bound of x
				if ub, ok := d.constUpper(b.X); ok {
					d.addLE(t, 0, zeroNode, ub/int(k))
				}
			}
		case token.AND:
			for _, side := range []ast.Expr{b.X, b.Y} {
				if k, isC := constInt(d.info, side); isC && k >= 0 {
					d.addLE(zeroNode, 0, t, 0)
					d.addLE(t, 0, zeroNode, int(k))
				}
			}
		case token.SHR:
			if d.nonNeg(b.X) {
				d.addLE(zeroNode, 0, t, 0)
			}
		}
	}
}

// constUpper returns a provable constant upper bound of e.
func (d *dbm) constUpper(e ast.Expr) (int, bool) {
	t, k, ok := d.term(e)
	if !ok {
		return 0, false
	}
	if t == zeroNode {
		return k, true
	}
	d.noteTerm(e)
	// search smallest c with t <= 0 + c : shortest path distance
	dist := map[string]int{t: 0}
	for iter := 0; iter < len(d.nodes)+1; iter++ {
		changed := false
		for u, du := range dist {
			for v, w := range d.edges[u] {
				if dv, ok := dist[v]; !ok || du+w < dv {
					dist[v] = du + w
					changed = true
				}
			}
		}
		if !changed {
			break
		}
	}
	if c, ok := dist[zeroNode]; ok {
		return c + k, true
	}
	return 0, false
}

// noteLen adds facts about len(x) from the shape / type of x.
func (d *dbm) noteLen(x ast.Expr) {
	x = ast.Unparen(x)
	lt, _, ok := d.term(lenCall(x))
	if !ok {
		return
	}
	d.addLE(zeroNode, 0, lt, 0)
	if t := d.info.TypeOf(x); t != nil {
		var arr *types.Array
		switch u := t.Underlying().(type) {
		case *types.Array:
			arr = u
		case *types.Pointer:
			arr, _ = u.Elem().Underlying().(*types.Array)
		}
		if arr != nil {
			d.addLE(lt, 0, zeroNode, int(arr.Len()))
			d.addLE(zeroNode, int(arr.Len()), lt, 0)
		}
	}
	switch s := x.(type) {
	case *ast.SliceExpr:
		// len(X[lo:hi]) = hi - lo ; len(X[lo:]) = len(X) - lo
		lo, lok := zeroNode, 0
		okLo := true
		if s.Low != nil {
			lo, lok, okLo = d.term(s.Low)
			d.noteTerm(s.Low)
		}
		if !okLo {
			return
		}
		var ht string
		var hk int
		okHi := true
		if s.High != nil {
			ht, hk, okHi = d.term(s.High)
			d.noteTerm(s.High)
		} else {
			ht, hk, okHi = d.term(lenCall(s.X))
			d.noteLen(s.X)
		}
		if !okHi {
			return
		}
		if lo == zeroNode {
			// len = hi - lok
			d.addLE(lt, 0, ht, hk-lok)
			d.addLE(ht, hk-lok, lt, 0)
		}
	case *ast.CallExpr:
		if calleeName(d.info, s) == "builtin.make" && len(s.Args) >= 2 {
			if nt, nk, ok := d.term(s.Args[1]); ok {
				d.addLE(lt, 0, nt, nk)
				d.addLE(nt, nk, lt, 0)
			}
		}
		// a helper that returns x[k:n]: len(result) == n - k
		if d.g != nil {
			if hi, lo, ok := d.g.P.resultLenOf(d.info, s, 0); ok {
				if nt, nk, ok := d.term(hi); ok {
					d.noteTerm(hi)
					d.addLE(lt, 0, nt, nk-lo)
					d.addLE(nt, nk-lo, lt, 0)
				}
			}
		}
	case *ast.BasicLit:
		if s.Kind == token.STRING {
			if v, err := strconv.Unquote(s.Value); err == nil {
				d.addLE(lt, 0, zeroNode, len(v))
				d.addLE(zeroNode, len(v), lt, 0)
			}
		}
	}
	if v, ok := constString(d.info, x); ok {
		d.addLE(lt, 0, zeroNode, len(v))
		d.addLE(zeroNode, len(v), lt, 0)
	}
}

// noteVar adds syntactic invariants of a local variable: only assigned constants (range), or an
// induction variable (initialised non-negative, only incremented).
func (d *dbm) noteVar(id *ast.Ident) {
	obj, _ := d.info.Uses[id].(*types.Var)
	if obj == nil || obj.IsField() || d.g == nil {
		return
	}
	if obj.Parent() == nil || obj.Pkg() == nil || obj.Parent() == obj.Pkg().Scope() {
		return
	}
	minC, maxC := 0, 0
	first := true
	allConst, nonNegInduct := true, true
	nAssign := 0
	isParam := false
	if fd, ok := d.g.Fn.(*ast.FuncDecl); ok {
		for _, f := range fd.Type.Params.List {
			for _, n := range f.Names {
				if d.info.Defs[n] == obj {
					isParam = true
				}
			}
		}
	}
	if fl, ok := d.g.Fn.(*ast.FuncLit); ok {
		for _, f := range fl.Type.Params.List {
			for _, n := range f.Names {
				if d.info.Defs[n] == obj {
					isParam = true
				}
			}
		}
	}
	root := d.g.Fn
	// the variable may be declared in an enclosing function (closure): be conservative
	declared := false
	ast.Inspect(root, func(n ast.Node) bool {
		if i, ok := n.(*ast.Ident); ok && d.info.Defs[i] == obj {
			declared = true
		}
		return true
	})
	if !declared || isParam {
		return
	}
	ast.Inspect(root, func(n ast.Node) bool {
		switch s := n.(type) {
		case *ast.AssignStmt:
			for i, l := range s.Lhs {
				lid, ok := ast.Unparen(l).(*ast.Ident)
				if !ok || (d.info.Defs[lid] != obj && d.info.Uses[lid] != obj) {
					continue
				}
				nAssign++
				if len(s.Lhs) != len(s.Rhs) {
					allConst, nonNegInduct = false, false
					continue
				}
				rhs := s.Rhs[i]
				k, isC := constInt(d.info, rhs)
				if ix, isIx := ast.Unparen(rhs).(*ast.IndexExpr); isIx && !isC && (s.Tok == token.DEFINE || s.Tok == token.ASSIGN) {
					// an element of a constant table
					if lo, hi, ok := d.constTableRange(ix.X); ok {
						if first || lo < minC {
							minC = lo
						}
						if first || hi > maxC {
							maxC = hi
						}
						first = false
						if lo < 0 {
							nonNegInduct = false
						}
						continue
					}
				}
				switch s.Tok {
				case token.DEFINE, token.ASSIGN:
					if isC {
						if first || int(k) < minC {
							minC = int(k)
						}
						if first || int(k) > maxC {
							maxC = int(k)
						}
						first = false
						if k < 0 {
							nonNegInduct = false
						}
					} else {
						allConst = false
						if !d.syntacticNonNeg(rhs, obj) && !d.nonNegGuarded(rhs, obj) {
							nonNegInduct = false
						}
					}
				case token.ADD_ASSIGN:
					allConst = false
					if !(isC && k >= 0) && !d.syntacticNonNeg(rhs, obj) {
						nonNegInduct = false
					}
				default:
					allConst, nonNegInduct = false, false
				}
			}
		case *ast.IncDecStmt:
			if lid, ok := ast.Unparen(s.X).(*ast.Ident); ok && d.info.Uses[lid] == obj {
				allConst = false
				if s.Tok == token.DEC {
					nonNegInduct = false
				}
			}
		case *ast.UnaryExpr:
			if s.Op == token.AND {
				if lid, ok := ast.Unparen(s.X).(*ast.Ident); ok && d.info.Uses[lid] == obj {
					allConst, nonNegInduct = false, false
				}
			}
		case *ast.RangeStmt:
			for _, l := range []ast.Expr{s.Key, s.Value} {
				if lid, ok := l.(*ast.Ident); ok && (d.info.Defs[lid] == obj || d.info.Uses[lid] == obj) {
					nAssign++
					if l == s.Value {
						// the elements of a constant table
						if lo, hi, ok := d.constTableRange(s.X); ok {
							if first || lo < minC {
								minC = lo
							}
							if first || hi > maxC {
								maxC = hi
							}
							first = false
							if lo < 0 {
								nonNegInduct = false
							}
							continue
						}
						nonNegInduct = false
					}
					allConst = false
				}
			}
		case *ast.ValueSpec:
			for i, nm := range s.Names {
				if d.info.Defs[nm] != obj {
					continue
				}
				nAssign++
				if i < len(s.Values) {
					if k, isC := constInt(d.info, s.Values[i]); isC {
						if first || int(k) < minC {
							minC = int(k)
						}
						if first || int(k) > maxC {
							maxC = int(k)
						}
						first = false
						if k < 0 {
							nonNegInduct = false
						}
					} else {
						allConst = false
						if !d.syntacticNonNeg(s.Values[i], obj) {
							nonNegInduct = false
						}
					}
				} else {
					// zero value
					if first || 0 < minC {
						minC = 0
					}
					if first || 0 > maxC {
						maxC = 0
					}
					first = false
				}
			}
		}
		return true
	})
	if nAssign == 0 {
		return
	}
	name := id.Name
	if allConst && !first {
		d.addLE(zeroNode, minC, name, 0)
		d.addLE(name, 0, zeroNode, maxC)
	} else if nonNegInduct {
		d.addLE(zeroNode, 0, name, 0)
	}
}

// nonNegGuarded: rhs proven non-negative by the prover itself (recursion guarded per variable).
func (d *dbm) nonNegGuarded(e ast.Expr, self types.Object) bool {
	if d.busy == nil {
		d.busy = map[types.Object]bool{}
	}
	if d.busy[self] {
		return false
	}
	d.busy[self] = true
	defer delete(d.busy, self)
	return d.nonNeg(e)
}

// syntacticNonNeg: rhs is obviously >= 0 (len, unsigned, non-negative constant, sum/product of such, or the variable itself).
func (d *dbm) syntacticNonNeg(e ast.Expr, self types.Object) bool {
	e = stripWidening(d.info, e)
	if k, ok := constInt(d.info, e); ok {
		return k >= 0
	}
	if t := d.info.TypeOf(e); t != nil {
		if _, u, ok := intInfo(t); ok && u {
			return true
		}
	}
	switch x := e.(type) {
	case *ast.Ident:
		return d.info.Uses[x] == self
	case *ast.CallExpr:
		fn := exprStr(x.Fun)
		return fn == "len" || fn == "cap"
	case *ast.BinaryExpr:
		switch x.Op {
		case token.ADD, token.MUL, token.QUO, token.REM, token.SHR:
			return d.syntacticNonNeg(x.X, self) && d.syntacticNonNeg(x.Y, self)
		}
	}
	return false
}

// nonNeg proves e >= 0.
func (d *dbm) nonNeg(e ast.Expr) bool {
	t, k, ok := d.term(e)
	if !ok {
		return false
	}
	d.noteTerm(e)
	if d.le(zeroNode, 0, t, k) {
		return true
	}
	s := stripWidening(d.info, e)
	if b, ok := s.(*ast.BinaryExpr); ok {
		switch b.Op {
		case token.ADD, token.MUL, token.QUO, token.SHR, token.REM:
			return d.nonNeg(b.X) && d.nonNeg(b.Y)
		}
	}
	return false
}

// newDBM builds the prover for the program point described by facts f in graph g.
func newDBM(g *Graph, f Facts, assumed []assumedFact) *dbm {
	d := &dbm{info: g.Info, g: g, edges: map[string]map[string]int{}, nodes: map[string]bool{zeroNode: true}}
	for atom, ra := range f.rel {
		if v, ok := f.m[atom]; ok {
			d.addRel(ra, v)
			d.noteTerm(ra.X)
			d.noteTerm(ra.Y)
		}
	}
	// strings.HasPrefix(x, lit) == true  =>  len(lit) <= len(x) ; bytes.HasPrefix likewise
	for atom, v := range f.m {
		if !v {
			continue
		}
		for _, pre := range []string{"strings.HasPrefix(", "bytes.HasPrefix(", "strings.HasSuffix("} {
			if len(atom) > len(pre) && atom[:len(pre)] == pre && atom[len(atom)-1] == ')' {
				inner := atom[len(pre) : len(atom)-1]
				// split at the last ", " that precedes a string literal
				for i := len(inner) - 1; i > 0; i-- {
					if inner[i] == '"' && i >= 2 && inner[i-2:i] == ", " {
						if lit, err := strconv.Unquote(inner[i:]); err == nil {
							x := inner[:i-2]
							d.addLE(zeroNode, len(lit), "len("+x+")", 0)
						}
						break
					}
				}
			}
		}
	}
	// C <= A - B  (written `A - B < C` false: what is left of a buffer behind a cursor covers C)  =>  B + C <= A,
	// with the sum as one term (it is what a slice bound `buf[off : off+m]` is compared with)
	for atom, ra := range f.rel {
		if v, ok := f.m[atom]; !ok || v || ra.Op != token.LSS {
			continue
		}
		sub, isSub := ast.Unparen(ra.X).(*ast.BinaryExpr)
		if !isSub || sub.Op != token.SUB {
			continue
		}
		at, ak, ok := d.term(sub.X)
		if !ok {
			continue
		}
		d.noteTerm(sub.X)
		for _, sum := range []ast.Expr{&ast.BinaryExpr{X: sub.Y, Op: token.ADD, Y: ra.Y}, &ast.BinaryExpr{X: ra.Y, Op: token.ADD, Y: sub.Y}} {
			d.addLE(normStr(d.info, sum), 0, at, ak)
		}
	}
	// x ≡ y (x is a copy of the slice / map header y, neither reassigned since): same length
	for atom, v := range f.m {
		if !v || !strings.Contains(atom, " ≡ ") {
			continue
		}
		parts := strings.SplitN(atom, " ≡ ", 2)
		lx, ly := "len("+parts[0]+")", "len("+parts[1]+")"
		d.addLE(lx, 0, ly, 0)
		d.addLE(ly, 0, lx, 0)
		d.addLE(zeroNode, 0, lx, 0)
		d.addLE(zeroNode, 0, ly, 0)
	}
	for _, a := range assumed {
		d.addLE(a.a, a.ak, a.b, a.bk)
	}
	// x != c with c <= x known  =>  c+1 <= x   (e.g. len(h) != 0 => len(h) >= 1); likewise x <= c => x <= c-1
	for atom, ra := range f.rel {
		if v, ok := f.m[atom]; !ok || v || ra.Op != token.EQL {
			continue
		}
		xt, xk, ok1 := d.term(ra.X)
		yt, yk, ok2 := d.term(ra.Y)
		if !ok1 || !ok2 {
			continue
		}
		// x + xk != y + yk
		if d.le(xt, xk, yt, yk) {
			d.addLE(xt, xk+1, yt, yk)
		}
		if d.le(yt, yk, xt, xk) {
			d.addLE(yt, yk+1, xt, xk)
		}
	}
	return d
}

// assumedFact: a + ak <= b + bk taken as an axiom for one function (frozen, with a reason).
type assumedFact struct {
	a      string
	ak     int
	b      string
	bk     int
	reason string
}

// constTableRange: x is a package-level variable initialised with a literal of integer constants and never
// assigned (nor its elements) anywhere in its package: returns the range of its elements.
func (d *dbm) constTableRange(x ast.Expr) (lo, hi int, ok bool) {
	id, isId := ast.Unparen(x).(*ast.Ident)
	if !isId || d.g == nil {
		return 0, 0, false
	}
	v, isVar := d.info.Uses[id].(*types.Var)
	if !isVar || v.Pkg() == nil || v.IsField() {
		return 0, 0, false
	}
	p := d.g.P
	local := v.Parent() != v.Pkg().Scope()
	for _, pkg := range p.Pkgs {
		if pkg.Types != v.Pkg() {
			continue
		}
		var lit *ast.CompositeLit
		written := false
		var roots []ast.Node
		if local {
			roots = []ast.Node{d.g.Fn}
		} else {
			for _, f := range pkg.Syntax {
				roots = append(roots, f)
			}
		}
		for _, f := range roots {
			ast.Inspect(f, func(n ast.Node) bool {
				switch s := n.(type) {
				case *ast.ValueSpec:
					for i, nm := range s.Names {
						if pkg.TypesInfo.Defs[nm] == v && i < len(s.Values) {
							lit, _ = ast.Unparen(s.Values[i]).(*ast.CompositeLit)
						}
					}
				case *ast.AssignStmt:
					for i, l := range s.Lhs {
						if lid, ok := l.(*ast.Ident); ok && pkg.TypesInfo.Defs[lid] == v && s.Tok == token.DEFINE && i < len(s.Rhs) {
							lit, _ = ast.Unparen(s.Rhs[i]).(*ast.CompositeLit)
							continue
						}
						if r := rootIdent(l); r != nil && pkg.TypesInfo.Uses[r] == v {
							written = true
						}
					}
				case *ast.IncDecStmt:
					if r := rootIdent(s.X); r != nil && pkg.TypesInfo.Uses[r] == v {
						written = true
					}
				case *ast.UnaryExpr:
					if s.Op == token.AND {
						if r := rootIdent(s.X); r != nil && pkg.TypesInfo.Uses[r] == v {
							written = true
						}
					}
				}
				return true
			})
		}
		if lit == nil || written || len(lit.Elts) == 0 {
			return 0, 0, false
		}
		first := true
		for _, el := range lit.Elts {
			if kv, isKV := el.(*ast.KeyValueExpr); isKV {
				el = kv.Value
			}
			k, isC := constInt(pkg.TypesInfo, el)
			if !isC {
				return 0, 0, false
			}
			if first || int(k) < lo {
				lo = int(k)
			}
			if first || int(k) > hi {
				hi = int(k)
			}
			first = false
		}
		return lo, hi, true
	}
	return 0, 0, false
}

// bitsCount: math/bits functions whose result is a bit count in 0..N.
var bitsCount = map[string]int{
	"bits.LeadingZeros8": 8, "bits.LeadingZeros16": 16, "bits.LeadingZeros32": 32, "bits.LeadingZeros64": 64,
	"bits.TrailingZeros8": 8, "bits.TrailingZeros16": 16, "bits.TrailingZeros32": 32, "bits.TrailingZeros64": 64,
	"bits.Len8": 8, "bits.Len16": 16, "bits.Len32": 32, "bits.Len64": 64,
	"bits.OnesCount8": 8, "bits.OnesCount16": 16, "bits.OnesCount32": 32, "bits.OnesCount64": 64,
}
