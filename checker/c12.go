package main

import (
	"fmt"
	"go/ast"
	"go/constant"
	"go/token"
	"go/types"
	"math/bits"
	"sort"
	"strconv"
	"strings"
)

func init() {
	register(&PropertySpec{
		ID: "C12",
		Explanation: "Structural necessary conditions of 'encoded values are the specification's bytes': R1 every successful return of the encoder of a fixed-width CQL type has the specification's length (abstract byte-length analysis through helpers), the empty value only under the documented zero guards; R2 every encoder of a variable-width type returns through that type's one encoding routine (duration: three vints; varint: trimmed two's complement; decimal: 4-byte scale + two's complement); " +
			"R3 the fixed-width primitives are big-endian (tables shared with C02.R3) and floats go through IEEE bit patterns; R4 date is floor(days) centred on 2^31 in both directions, time is nanoseconds, timestamp milliseconds; R5 collection/tuple/UDT writers frame count and elements in the specification's order with the protocol's size width; R6 vint coding: the zig-zag formulas are the reference ones, and the length formula, first-byte marker and decoder prefix count agree with the specification for every bit length / first byte (exhaustive evaluation of the extracted expressions over their finite domains)." +
			" R6 zig-zag coding is compared as terms of the abstract interpreter (arithmetic shift on encode, logical on decode); R10 = C02.R9; R11 the element loops of the tuple / UDT decoders reach the next iteration only after taking the current element off the input." +
			" R8 also judges where the trimming stops (minimal encoding); R12 every element of a collection / UDT is decoded into a reflect value created in its own iteration (or into its own slot).",
		NotDecided: "minimality of varint/decimal trimming for every value (encBigInt2C and the trim loop are value-dependent), float formatting, UUID parsing, arithmetic overflow of timestamp conversion: numerical.",
		Rules: []*Rule{
			{ID: "C12.R1", Floor: 60, Doc: "fixed-width encoders return the specification's length", Run: c12r1},
			{ID: "C12.R2", Floor: 8, Doc: "one encoding routine per variable-width type", Run: c12r2},
			{ID: "C12.R3", Floor: 12, Doc: "big-endian primitives; IEEE bit patterns for floats", Run: c12r3},
			{ID: "C12.R4", Floor: 8, Doc: "date/time/timestamp units, floor and origin", Run: c12r4},
			{ID: "C12.R5", Floor: 10, Doc: "collection / tuple / UDT framing order", Run: c12r5},
			{ID: "C12.R7", Floor: 3, Doc: "encBigInt2C boundary handling: sign byte for positives, redundant 0xff for negatives", Run: c12r7},
			{ID: "C12.R8", Floor: 1, Doc: "varint trimming keeps the sign byte when it is needed (=C02.R8)", Run: c02r8},
			{ID: "C12.R9", Floor: 10, Doc: "collection / tuple / UDT writers emit length -1 exactly for a nil encoding (=C02.R4)", Run: c02r4},
			{ID: "C12.R10", Floor: 1, Doc: "the sign extension of a short varint subtracts exactly 2^(8*len) (=C02.R9)", Run: signExtendAmount},
			{ID: "C12.R11", Floor: 4, Doc: "element loops of the tuple / UDT decoders consume every element they pass over", Run: c12r11},
			{ID: "C12.R12", Floor: 3, Doc: "collection / UDT decoders give every element its own destination: the reflect value an element is decoded into is created in that element's iteration (or is the element's own slot)", Run: c12r12},
			{ID: "C12.R13", Floor: 1, Doc: "no slice in the marshalling code is made with a non-zero length and then only grown by append", Run: c12r13},
			{ID: "C12.R6", Floor: 6, Doc: "vint coding agrees with the specification on its finite domains", Run: c12r6},
		},
	})
}

// ---------- R1: abstract byte lengths ----------

type lenSet struct {
	lens    map[int]bool
	nilOK   bool // may be nil (null)
	unknown bool // statically unknown length
	user    bool // produced by a user Marshaler
}

func (l lenSet) String() string {
	var out []string
	var ks []int
	for k := range l.lens {
		ks = append(ks, k)
	}
	sort.Ints(ks)
	for _, k := range ks {
		out = append(out, fmt.Sprint(k))
	}
	if l.nilOK {
		out = append(out, "nil")
	}
	if l.unknown {
		out = append(out, "?")
	}
	if l.user {
		out = append(out, "user")
	}
	return "{" + strings.Join(out, ",") + "}"
}

func (l *lenSet) add(o lenSet) {
	if l.lens == nil {
		l.lens = map[int]bool{}
	}
	for k := range o.lens {
		l.lens[k] = true
	}
	l.nilOK = l.nilOK || o.nilOK
	l.unknown = l.unknown || o.unknown
	l.user = l.user || o.user
}

func oneLen(k int) lenSet { return lenSet{lens: map[int]bool{k: true}} }

// byteLens: possible lengths of the []byte expression e evaluated at statement `at` of fi.
func (p *Program) byteLens(fi *FuncInfo, at ast.Node, e ast.Expr, depth int) lenSet {
	g := p.GraphOf(fi)
	info := g.Info
	e = ast.Unparen(e)
	if isNil(info, e) {
		return lenSet{nilOK: true}
	}
	if depth > 4 {
		return lenSet{unknown: true}
	}
	var facts Facts
	if at != nil {
		facts, _ = g.GuardFacts().Before(at)
	}
	switch x := e.(type) {
	case *ast.CompositeLit:
		if t := info.TypeOf(x); t != nil {
			if a, ok := t.Underlying().(*types.Array); ok {
				return oneLen(int(a.Len()))
			}
		}
		for _, el := range x.Elts {
			if _, kv := el.(*ast.KeyValueExpr); kv {
				return lenSet{unknown: true}
			}
		}
		return oneLen(len(x.Elts))
	case *ast.SliceExpr:
		if t := info.TypeOf(x.X); t != nil {
			if pt, ok := t.Underlying().(*types.Pointer); ok {
				t = pt.Elem()
			}
			if a, ok := t.Underlying().(*types.Array); ok && x.Low == nil && x.High == nil {
				return oneLen(int(a.Len()))
			}
		}
		if x.Low != nil && x.High != nil {
			lo, ok1 := constInt(info, x.Low)
			hi, ok2 := constInt(info, x.High)
			if ok1 && ok2 {
				return oneLen(int(hi - lo))
			}
		}
		return lenSet{unknown: true}
	case *ast.Ident:
		if facts.m != nil {
			for atom, v := range facts.m {
				if !v {
					continue
				}
				if ra, ok := facts.rel[atom]; ok && ra.Op == token.EQL {
					for _, pr := range [][2]ast.Expr{{ra.X, ra.Y}, {ra.Y, ra.X}} {
						if exprStr(pr[0]) == "len("+x.Name+")" {
							if k, ok := constInt(info, pr[1]); ok {
								return oneLen(int(k))
							}
						}
					}
				}
			}
		}
		obj := info.Uses[x]
		if obj == nil {
			return lenSet{unknown: true}
		}
		// every definition of the variable in the function
		var out lenSet
		n := 0
		ast.Inspect(fi.Decl.Body, func(y ast.Node) bool {
			as, ok := y.(*ast.AssignStmt)
			if !ok {
				return true
			}
			for i, l := range as.Lhs {
				id, ok := l.(*ast.Ident)
				if !ok || (info.Defs[id] != obj && info.Uses[id] != obj) {
					continue
				}
				n++
				if len(as.Lhs) == len(as.Rhs) {
					out.add(p.byteLens(fi, as, as.Rhs[i], depth+1))
				} else if i == 0 && len(as.Rhs) == 1 {
					out.add(p.byteLens(fi, as, as.Rhs[0], depth+1))
				} else {
					out.unknown = true
				}
			}
			return true
		})
		if n == 0 {
			return lenSet{unknown: true}
		}
		// nil excluded by a dominating `x == nil` false
		if v, ok := facts.m[x.Name+" == nil"]; ok && !v {
			out.nilOK = false
		}
		return out
	case *ast.CallExpr:
		if exprStr(x.Fun) == "make" && len(x.Args) >= 2 {
			if k, ok := constInt(info, x.Args[1]); ok {
				return oneLen(int(k))
			}
			return lenSet{unknown: true}
		}
		name := calleeName(info, x)
		switch name {
		case "Marshaler.MarshalCQL":
			return lenSet{user: true}
		case "net.(IP).To4":
			return lenSet{lens: map[int]bool{4: true}, nilOK: true}
		case "net.(IP).To16":
			return lenSet{lens: map[int]bool{16: true}, nilOK: true}
		}
		if fn := calleeOf(info, x); fn != nil {
			if callee := p.FuncOf(fn); callee != nil && callee.Decl.Body != nil {
				var out lenSet
				cg := p.GraphOf(callee)
				for _, ex := range cg.Exits() {
					rs, ok := ex.Node.(*ast.ReturnStmt)
					if !ok || len(rs.Results) == 0 {
						out.unknown = true
						continue
					}
					if len(rs.Results) >= 2 && !isNil(cg.Info, rs.Results[len(rs.Results)-1]) && implementsError(cg.Info.TypeOf(rs.Results[len(rs.Results)-1])) {
						continue // error return
					}
					out.add(p.byteLens(callee, rs, rs.Results[0], depth+1))
				}
				return out
			}
		}
		return lenSet{unknown: true}
	}
	return lenSet{unknown: true}
}

var fixedWidth = map[string][]int{
	"marshalBool": {1}, "marshalTinyInt": {1}, "marshalSmallInt": {2}, "marshalInt": {4}, "marshalBigInt": {8},
	"marshalFloat": {4}, "marshalDouble": {8}, "marshalTime": {8}, "marshalTimestamp": {8}, "marshalDate": {4},
	"marshalUUID": {16}, "marshalInet": {4, 16},
}

// zeroGuards: the documented cases in which an empty (zero-length) value is written.
var zeroGuards = map[string][]string{
	"marshalTimestamp": {"v.IsZero()"},
	"marshalDate":      {"v.IsZero()", `v == ""`, `"" == v`},
}

func c12r1(p *Program, r *Report) {
	var names []string
	for n := range fixedWidth {
		names = append(names, n)
	}
	sort.Strings(names)
	for _, name := range names {
		fi := r.NeedFunc(name)
		if fi == nil {
			continue
		}
		g := p.GraphOf(fi)
		info := g.Info
		facts := g.GuardFacts()
		allowed := map[int]bool{}
		for _, k := range fixedWidth[name] {
			allowed[k] = true
		}
		seq := map[string]int{}
		for _, ex := range g.Exits() {
			rs, ok := ex.Node.(*ast.ReturnStmt)
			if !ok || len(rs.Results) != 2 || !isNil(info, rs.Results[1]) {
				continue
			}
			if isNil(info, rs.Results[0]) {
				continue // explicit null
			}
			base := fmt.Sprintf("%s returns %s", name, exprStr(rs.Results[0]))
			if cc, ok := p.enclosing(rs, fi.Decl, func(n ast.Node) bool { _, is := n.(*ast.CaseClause); return is }).(*ast.CaseClause); ok && len(cc.List) > 0 {
				base += " in case " + exprStr(cc.List[0])
			}
			seq[base]++
			construct := base
			if seq[base] > 1 {
				construct = fmt.Sprintf("%s #%d", base, seq[base])
			}
			ls := p.byteLens(fi, rs, rs.Results[0], 0)
			if ls.user && len(ls.lens) == 0 && !ls.unknown {
				r.OK(rs, construct, "user Marshaler")
				continue
			}
			bad := ls.unknown
			for k := range ls.lens {
				if allowed[k] {
					continue
				}
				if k == 0 {
					// the documented empty value
					f, _ := facts.Before(rs)
					okZero := false
					if _, documented := zeroGuards[name]; documented {
						// the zero time / the empty string, whatever the value is called
						for atom, v := range f.m {
							a := strings.ReplaceAll(atom, " ", "")
							if v && (strings.HasSuffix(a, ".IsZero()") && !strings.ContainsAny(a, "=<!&|") || strings.HasSuffix(a, `==""`) || strings.HasPrefix(a, `""==`)) {
								okZero = true
							}
						}
					}
					if okZero {
						continue
					}
				}
				bad = true
			}
			r.Check(!bad, rs, construct, "length "+ls.String()+" within "+fmt.Sprint(fixedWidth[name]),
				fmt.Sprintf("a successful return has length %s; the CQL type is %v bytes wide (the empty value only for the documented zero cases)", ls.String(), fixedWidth[name]))
		}
	}
}

// ---------- R2: one encoding routine per variable-width type ----------

func c12r2(p *Program, r *Report) {
	successReturns := func(fi *FuncInfo) []*ast.ReturnStmt {
		var out []*ast.ReturnStmt
		g := p.GraphOf(fi)
		for _, ex := range g.Exits() {
			rs, ok := ex.Node.(*ast.ReturnStmt)
			if ok && len(rs.Results) == 2 && isNil(g.Info, rs.Results[1]) && !isNil(g.Info, rs.Results[0]) {
				out = append(out, rs)
			}
		}
		sort.Slice(out, func(i, j int) bool { return out[i].Pos() < out[j].Pos() })
		return out
	}
	if fi := r.NeedFunc("marshalDuration"); fi != nil {
		info := fi.Pkg.TypesInfo
		seq := 0
		for _, rs := range successReturns(fi) {
			seq++
			c, ok := ast.Unparen(rs.Results[0]).(*ast.CallExpr)
			okEnc := ok && (isCallTo(info, c, "encVints") || calleeName(info, c) == "Marshaler.MarshalCQL")
			r.Check(okEnc, rs, fmt.Sprintf("marshalDuration return #%d is three vints", seq), exprStr(rs.Results[0]),
				"a duration is returned as `"+exprStr(rs.Results[0])+"`, not as the three zig-zag vints (months, days, nanoseconds) of the specification")
		}
		// months and days from the Duration fields in that order
		okOrder := false
		for _, c := range callsIn(fi.Decl.Body) {
			if isCallTo(info, c, "encVints") && len(c.Args) == 3 && exprStr(c.Args[0]) == "v.Months" && exprStr(c.Args[1]) == "v.Days" && exprStr(c.Args[2]) == "v.Nanoseconds" {
				okOrder = true
			}
		}
		r.Check(okOrder, fi.Decl, "marshalDuration: Duration fields in the order months, days, nanoseconds", "encVints(v.Months, v.Days, v.Nanoseconds)", "the Duration struct is not encoded as (months, days, nanoseconds)")
	}
	if fi := r.NeedFunc("encVints"); fi != nil {
		info := fi.Pkg.TypesInfo
		var args []string
		for _, c := range callsIn(fi.Decl.Body) {
			if isCallTo(info, c, "encVint") && len(c.Args) == 1 {
				args = append(args, stripConv(info, c.Args[0]))
			}
		}
		var params []string
		for _, f := range fi.Decl.Type.Params.List {
			for _, n := range f.Names {
				params = append(params, n.Name)
			}
		}
		// calls are collected in evaluation order of the nested appends
		sort.SliceStable(args, func(i, j int) bool { return false })
		okOrder := len(args) == 3 && len(params) == 3 && sameSet(args, params) && encVintsOrder(fi, info, params)
		if !okOrder && len(params) == 3 {
			// statement form: buf := encVint(a); buf = append(buf, encVint(b)...); ... - every path emits the vints of
			// the parameters in order (evaluation order of the calls, each result appended behind what was there)
			tr := newReadTracer(p)
			tr.prims = map[string]string{"encVint": "vint"}
			tr.noAuto = func(string) bool { return true }
			okAll, npaths := true, 0
			for _, st := range tr.run(fi, 4) {
				if st.done != "return" {
					continue
				}
				npaths++
				var got []string
				for _, it := range flat(st.trace) {
					if it.Prim == "vint" && it.Call != nil && len(it.Call.Args) == 1 {
						got = append(got, stripConv(info, it.Call.Args[0]))
					}
				}
				if strings.Join(got, ",") != strings.Join(params, ",") {
					okAll = false
				}
			}
			// no prepend: every append keeps the accumulated buffer as its first argument
			ast.Inspect(fi.Decl.Body, func(x ast.Node) bool {
				if c, ok := x.(*ast.CallExpr); ok && exprStr(c.Fun) == "append" && len(c.Args) == 2 {
					if ic, isC := ast.Unparen(c.Args[0]).(*ast.CallExpr); isC && isCallTo(info, ic, "encVint") {
						return true
					}
					if _, isId := ast.Unparen(c.Args[0]).(*ast.Ident); !isId {
						okAll = false
					}
					if as, isAs := p.Parent(c).(*ast.AssignStmt); isAs && len(as.Lhs) == 1 && exprStr(as.Lhs[0]) != exprStr(c.Args[0]) {
						if _, isDef := ast.Unparen(c.Args[0]).(*ast.CallExpr); !isDef && as.Tok != token.DEFINE {
							okAll = false
						}
					}
				}
				return true
			})
			okOrder = okAll && npaths > 0 && len(tr.unsup) == 0
		}
		r.Check(okOrder, fi.Decl, "encVints concatenates the three vints in parameter order", strings.Join(args, ","), "encVints does not emit vint(months) vint(days) vint(nanoseconds) in that order")
	}
	if fi := r.NeedFunc("decVints"); fi != nil {
		info := fi.Pkg.TypesInfo
		var idx []string
		for _, c := range callsIn(fi.Decl.Body) {
			if isCallTo(info, c, "decVint") && len(c.Args) == 2 {
				idx = append(idx, exprStr(c.Args[1]))
			}
		}
		// each call starts where the previous one ended: its start argument is the variable the previous call's
		// second result was bound to
		okChain := len(idx) == 3 && idx[0] == "0"
		var prevEnd string
		k := 0
		ast.Inspect(fi.Decl.Body, func(x ast.Node) bool {
			as, ok := x.(*ast.AssignStmt)
			if !ok || len(as.Rhs) != 1 || len(as.Lhs) != 3 {
				return true
			}
			c, ok := ast.Unparen(as.Rhs[0]).(*ast.CallExpr)
			if !ok || !isCallTo(info, c, "decVint") || len(c.Args) != 2 {
				return true
			}
			if k > 0 && (prevEnd == "" || prevEnd == "_" || exprStr(c.Args[1]) != prevEnd) {
				okChain = false
			}
			prevEnd = exprStr(as.Lhs[1])
			k++
			return true
		})
		if !(okChain && k == 3) {
			// loop form: one decVint call in a loop of exactly three iterations; it starts at a position variable that is 0
			// before the loop and receives the call's second result in every iteration
			var loopCall *ast.CallExpr
			var loop ast.Node
			for _, c := range callsIn(fi.Decl.Body) {
				if isCallTo(info, c, "decVint") && len(c.Args) == 2 {
					if l := p.enclosing(c, fi.Decl, func(m ast.Node) bool {
						switch m.(type) {
						case *ast.ForStmt, *ast.RangeStmt:
							return true
						}
						return false
					}); l != nil {
						loopCall, loop = c, l
					}
				}
			}
			if loopCall != nil && len(idx) == 1 {
				three := false
				switch l := loop.(type) {
				case *ast.RangeStmt:
					if t := info.TypeOf(l.X); t != nil {
						if a, isA := t.Underlying().(*types.Array); isA && a.Len() == 3 {
							three = true
						}
					}
					if k3, isK := constInt(info, l.X); isK && k3 == 3 {
						three = true
					}
				case *ast.ForStmt:
					if _, n3, isIdx := indexLoopBounds(info, l); isIdx {
						if k3, isK := constInt(info, n3); isK && k3 == 3 {
							three = true
						}
					}
				}
				posID, isId := ast.Unparen(loopCall.Args[1]).(*ast.Ident)
				okPos := false
				if isId {
					obj := info.Uses[posID]
					next := resultVarOf(p, loopCall, 1)
					startsZero, advanced, other := false, false, false
					ast.Inspect(fi.Decl.Body, func(x ast.Node) bool {
						as, ok := x.(*ast.AssignStmt)
						if !ok || len(as.Lhs) != len(as.Rhs) && len(as.Rhs) != 1 {
							return true
						}
						for i, l := range as.Lhs {
							if !isIdentOf(info, l, obj) && !(as.Tok == token.DEFINE && exprStr(l) == posID.Name && info.Defs[l.(*ast.Ident)] == obj) {
								continue
							}
							inLoop := posWithin(loop, as.Pos())
							switch {
							case !inLoop && len(as.Rhs) == len(as.Lhs):
								if z, isK := constInt(info, as.Rhs[i]); isK && z == 0 {
									startsZero = true
								} else {
									other = true
								}
							case inLoop && len(as.Rhs) == len(as.Lhs) && exprStr(ast.Unparen(as.Rhs[i])) == next:
								advanced = true
							case inLoop && len(as.Rhs) == 1 && ast.Unparen(as.Rhs[0]) == ast.Expr(loopCall) && i == 1:
								advanced = true
							default:
								other = true
							}
						}
						return true
					})
					// `var pos int`: starts at the zero value
					ast.Inspect(fi.Decl.Body, func(x ast.Node) bool {
						if vs, isVS := x.(*ast.ValueSpec); isVS && !posWithin(loop, vs.Pos()) {
							for i, nm := range vs.Names {
								if info.Defs[nm] != obj {
									continue
								}
								if len(vs.Values) == 0 {
									startsZero = true
								} else if i < len(vs.Values) {
									if z, isK := constInt(info, vs.Values[i]); isK && z == 0 {
										startsZero = true
									} else {
										other = true
									}
								}
							}
						}
						return true
					})
					okPos = startsZero && advanced && !other
				}
				if three && okPos {
					okChain, k = true, 3
				}
			}
		}
		r.Check(okChain && k == 3, fi.Decl, "decVints reads three consecutive vints", strings.Join(idx, ","), "decVints does not read three vints each starting where the previous ended")
	}
	if fi := r.NeedFunc("marshalDecimal"); fi != nil {
		info := fi.Pkg.TypesInfo
		var scale4, unscaledAt4, viaEnc bool
		// the output buffer: make([]byte, 4+len(U)); U holds encBigInt2C(v.UnscaledBig())
		bufName, unscaledName := "", ""
		ast.Inspect(fi.Decl.Body, func(x ast.Node) bool {
			as, ok := x.(*ast.AssignStmt)
			if !ok || len(as.Lhs) != 1 || len(as.Rhs) != 1 {
				return true
			}
			c, ok := ast.Unparen(as.Rhs[0]).(*ast.CallExpr)
			if !ok {
				return true
			}
			if calleeName(info, c) == "builtin.make" && len(c.Args) == 2 {
				if name, k, ok := constPlusLen(info, c.Args[1]); ok && k == 4 {
					bufName, unscaledName = exprStr(as.Lhs[0]), name
				}
			}
			return true
		})
		ast.Inspect(fi.Decl.Body, func(x ast.Node) bool {
			c, ok := x.(*ast.CallExpr)
			if !ok {
				return true
			}
			if exprStr(c.Fun) == "copy" && len(c.Args) == 2 && bufName != "" {
				b, lo, hi, okR := p.regionConst(fi, c.Args[0])
				if okR && b == bufName && lo == 0 && hi == 4 {
					if ic, ok := c.Args[1].(*ast.CallExpr); ok && isCallTo(info, ic, "encInt") && strings.Contains(exprStr(ic.Args[0]), "Scale()") {
						scale4 = true
					}
				}
				if okR && b == bufName && lo == 4 && hi < 0 && exprStr(c.Args[1]) == unscaledName {
					unscaledAt4 = true
				}
			}
			if isCallTo(info, c, "encBigInt2C") && strings.Contains(exprStr(c.Args[0]), "UnscaledBig()") {
				if as, ok := p.Parent(c).(*ast.AssignStmt); ok && len(as.Lhs) >= 1 && exprStr(as.Lhs[0]) == unscaledName {
					viaEnc = true
				}
			}
			if calleeName(info, c) == "binary.(bigEndian).PutUint32" && len(c.Args) == 2 && bufName != "" {
				b, lo, _, okR := p.regionConst(fi, c.Args[0])
				if okR && b == bufName && lo == 0 && strings.Contains(exprStr(c.Args[1]), "Scale()") {
					scale4 = true
				}
			}
			return true
		})
		r.Check(scale4 && unscaledAt4 && viaEnc, fi.Decl, "marshalDecimal is [4-byte scale][two's-complement unscaled value]", "encInt(scale) at 0, encBigInt2C(unscaled) at 4", "a decimal is not encoded as the 4-byte big-endian scale followed by the varint of the unscaled value")
	}
	if fi := r.NeedFunc("unmarshalDecimal"); fi != nil {
		info := fi.Pkg.TypesInfo
		okS, okU := false, false
		dataName := "data"
		if po := paramObj(info, fi.Decl.Type, 1); po != nil {
			dataName = po.Name()
		}
		for _, c := range callsIn(fi.Decl.Body) {
			if len(c.Args) == 0 {
				continue
			}
			b, lo, hi, okR := p.regionConst(fi, c.Args[0])
			if !okR || b != dataName {
				continue
			}
			if isCallTo(info, c, "decInt") && lo == 0 && hi == 4 {
				okS = true
			}
			if calleeName(info, c) == "binary.(bigEndian).Uint32" && lo == 0 {
				okS = true
			}
			if isCallTo(info, c, "decBigInt2C") && lo == 4 && hi < 0 {
				okU = true
			}
		}
		r.Check(okS && okU, fi.Decl, "unmarshalDecimal reads [4-byte scale][two's-complement unscaled value]", "decInt(data[0:4]), decBigInt2C(data[4:])", "a decimal is not decoded from the 4-byte scale followed by the unscaled varint")
	}
	if fi := r.NeedFunc("marshalVarint"); fi != nil {
		info := fi.Pkg.TypesInfo
		// the fixed 8-byte encoding borrowed from marshalBigInt is trimmed before it is returned: re-sliced in
		// place (x = x[i:]) or passed through a helper that returns a re-slice of its parameter
		okTrim := false
		trimmed := ""
		var fixedVar string
		ast.Inspect(fi.Decl.Body, func(x ast.Node) bool {
			if as, ok := x.(*ast.AssignStmt); ok && len(as.Rhs) == 1 {
				if c, ok := ast.Unparen(as.Rhs[0]).(*ast.CallExpr); ok && isCallTo(info, c, "marshalBigInt") && len(as.Lhs) >= 1 {
					fixedVar = exprStr(as.Lhs[0])
				}
			}
			return true
		})
		returnsReslice := func(callee *FuncInfo) bool {
			okR := false
			if callee == nil || callee.Decl.Body == nil || callee.Decl.Type.Params.NumFields() != 1 {
				return false
			}
			pn := callee.Decl.Type.Params.List[0].Names[0].Name
			ast.Inspect(callee.Decl.Body, func(y ast.Node) bool {
				if rs, ok := y.(*ast.ReturnStmt); ok && len(rs.Results) == 1 {
					if sl, ok := ast.Unparen(rs.Results[0]).(*ast.SliceExpr); ok && exprStr(sl.X) == pn && sl.Low != nil && sl.High == nil {
						okR = true
					}
				}
				return true
			})
			if !okR {
				// the parameter itself is shortened from the front (p = p[k:]) and returned
				cinfo := callee.Pkg.TypesInfo
				pobj := cinfo.Defs[callee.Decl.Type.Params.List[0].Names[0]]
				nres, onlySuffix, retsParam := 0, true, true
				ast.Inspect(callee.Decl.Body, func(y ast.Node) bool {
					switch z := y.(type) {
					case *ast.AssignStmt:
						for i, l := range z.Lhs {
							if !isIdentOf(cinfo, l, pobj) {
								continue
							}
							if len(z.Rhs) != len(z.Lhs) {
								onlySuffix = false
								continue
							}
							sl, isSl := ast.Unparen(z.Rhs[i]).(*ast.SliceExpr)
							if isSl && isIdentOf(cinfo, sl.X, pobj) && sl.Low != nil && sl.High == nil {
								nres++
							} else {
								onlySuffix = false
							}
						}
					case *ast.ReturnStmt:
						if len(z.Results) != 1 || !isIdentOf(cinfo, z.Results[0], pobj) {
							retsParam = false
						}
					}
					return true
				})
				okR = nres > 0 && onlySuffix && retsParam
			}
			return okR
		}
		ast.Inspect(fi.Decl.Body, func(x ast.Node) bool {
			switch s := x.(type) {
			case *ast.AssignStmt:
				if len(s.Lhs) == 1 && len(s.Rhs) == 1 && exprStr(s.Lhs[0]) == fixedVar {
					if sl, ok := s.Rhs[0].(*ast.SliceExpr); ok && exprStr(sl.X) == fixedVar && sl.Low != nil && sl.High == nil {
						okTrim, trimmed = true, fixedVar+" = "+exprStr(s.Rhs[0])
					}
				}
			case *ast.ReturnStmt:
				if len(s.Results) == 2 {
					// return fixed[i:], nil with i advanced by the trimming loop
					if sl, ok := ast.Unparen(s.Results[0]).(*ast.SliceExpr); ok && exprStr(sl.X) == fixedVar && sl.Low != nil && sl.High == nil {
						if _, isK := constInt(info, sl.Low); !isK {
							okTrim, trimmed = true, "return "+exprStr(sl)
						}
					}
					if c, ok := ast.Unparen(s.Results[0]).(*ast.CallExpr); ok && len(c.Args) == 1 && exprStr(c.Args[0]) == fixedVar {
						if fn := calleeOf(info, c); fn != nil && returnsReslice(p.FuncOf(fn)) {
							okTrim, trimmed = true, "return "+exprStr(c)
						}
					}
				}
			}
			return true
		})
		if fixedVar == "" {
			r.Unresolved("marshalVarint no longer borrows the fixed-width encoding from marshalBigInt")
		} else {
			r.Check(okTrim, fi.Decl, "marshalVarint trims the fixed-width encoding before returning it", trimmed, "the 8-byte encoding obtained from marshalBigInt is returned without the leading-byte trim: varints are not minimal-length")
		}
		// the uint64 > MaxInt64 case is widened with a zero byte
		ok9 := false
		ast.Inspect(fi.Decl.Body, func(x ast.Node) bool {
			if ifs, ok := x.(*ast.IfStmt); ok && strings.Contains(exprStr(ifs.Cond), "math.MaxInt64") {
				// X = make([]byte, 9); binary.BigEndian.PutUint64(X[1:], v)
				nine := ""
				ast.Inspect(ifs.Body, func(y ast.Node) bool {
					if as, isAs := y.(*ast.AssignStmt); isAs && len(as.Lhs) == 1 && len(as.Rhs) == 1 {
						if mc, isC := ast.Unparen(as.Rhs[0]).(*ast.CallExpr); isC && calleeName(info, mc) == "builtin.make" && len(mc.Args) == 2 {
							if k, isK := constInt(info, mc.Args[1]); isK && k == 9 {
								nine = exprStr(as.Lhs[0])
							}
						}
					}
					return true
				})
				// or: a zeroed [9]byte array that holds the value at [1:] is handed out whole in this branch
				ast.Inspect(ifs.Body, func(y ast.Node) bool {
					as, isAs := y.(*ast.AssignStmt)
					if !isAs || len(as.Lhs) != 1 || len(as.Rhs) != 1 {
						return true
					}
					sl, isSl := ast.Unparen(as.Rhs[0]).(*ast.SliceExpr)
					if !isSl || sl.High != nil {
						return true
					}
					if sl.Low != nil {
						if k, isK := constInt(info, sl.Low); !isK || k != 0 {
							return true
						}
					}
					wid, isId := ast.Unparen(sl.X).(*ast.Ident)
					if !isId {
						return true
					}
					at, isArr := info.TypeOf(wid).Underlying().(*types.Array)
					if !isArr || at.Len() != 9 || !declaredZero(info, fi, wid) {
						return true
					}
					stored0 := false
					ast.Inspect(fi.Decl.Body, func(z ast.Node) bool {
						if a2, ok := z.(*ast.AssignStmt); ok {
							for _, l := range a2.Lhs {
								if ix, isIx := ast.Unparen(l).(*ast.IndexExpr); isIx && exprStr(ix.X) == wid.Name {
									stored0 = true
								}
							}
						}
						return true
					})
					for _, pc := range callsIn(fi.Decl.Body) {
						if calleeName(info, pc) == "binary.(bigEndian).PutUint64" && len(pc.Args) == 2 && pc.Pos() < ifs.Pos() && !stored0 {
							if b, lo, hi, okR := p.regionConst(fi, pc.Args[0]); okR && b == wid.Name && lo == 1 && hi < 0 {
								ok9 = true
							}
						}
					}
					return true
				})
				for _, pc := range callsIn(ifs.Body) {
					if calleeName(info, pc) == "binary.(bigEndian).PutUint64" && len(pc.Args) == 2 && nine != "" {
						if b, lo, hi, okR := p.regionConst(fi, pc.Args[0]); okR && b == nine && lo == 1 && hi < 0 {
							ok9 = true
						}
					}
				}
			}
			return true
		})
		r.Check(ok9, fi.Decl, "marshalVarint: uint64 above MaxInt64 gets a leading zero byte", "9 bytes, value at [1:]", "a uint64 above 2^63-1 is not given a leading zero byte: it would be read as a negative varint")
	}
}

func exprStr9(b *ast.BlockStmt) string {
	var sb strings.Builder
	for _, st := range b.List {
		switch s := st.(type) {
		case *ast.AssignStmt:
			for _, e := range s.Rhs {
				sb.WriteString(exprStr(e) + ";")
			}
		case *ast.ExprStmt:
			sb.WriteString(exprStr(s.X) + ";")
		}
	}
	return sb.String()
}

func sameSet(a, b []string) bool {
	if len(a) != len(b) {
		return false
	}
	x := append([]string{}, a...)
	y := append([]string{}, b...)
	sort.Strings(x)
	sort.Strings(y)
	for i := range x {
		if x[i] != y[i] {
			return false
		}
	}
	return true
}

// encVintsOrder: the bytes are appended as vint(p0) vint(p1) vint(p2): the innermost append's first operand is
// vint(p0) followed by vint(p1)..., then vint(p2) appended to that.
func encVintsOrder(fi *FuncInfo, info *types.Info, params []string) bool {
	var order []string
	var walk func(e ast.Expr)
	walk = func(e ast.Expr) {
		e = ast.Unparen(e)
		switch x := e.(type) {
		case *ast.CallExpr:
			if exprStr(x.Fun) == "append" {
				for _, a := range x.Args {
					walk(a)
				}
				return
			}
			if isCallTo(info, x, "encVint") && len(x.Args) == 1 {
				order = append(order, stripConv(info, x.Args[0]))
			}
		case *ast.Ident:
			// a local holding an earlier append
			if obj := info.Uses[x]; obj != nil {
				ast.Inspect(fi.Decl.Body, func(n ast.Node) bool {
					if as, ok := n.(*ast.AssignStmt); ok && len(as.Lhs) == 1 && len(as.Rhs) == 1 {
						if id, ok := as.Lhs[0].(*ast.Ident); ok && info.Defs[id] == obj {
							walk(as.Rhs[0])
						}
					}
					return true
				})
			}
		}
	}
	for _, st := range fi.Decl.Body.List {
		if rs, ok := st.(*ast.ReturnStmt); ok && len(rs.Results) == 1 {
			walk(rs.Results[0])
		}
	}
	if len(order) != len(params) {
		return false
	}
	for i := range order {
		if order[i] != params[i] {
			return false
		}
	}
	return true
}

// ---------- R3 ----------

func c12r3(p *Program, r *Report) {
	c02r3(p, r)
	// floats: IEEE-754 bit patterns both ways
	type fp struct{ enc, dec, bitsFn, fromFn string }
	for _, f := range []fp{{"marshalFloat", "unmarshalFloat", "math.Float32bits", "math.Float32frombits"}, {"marshalDouble", "unmarshalDouble", "math.Float64bits", "math.Float64frombits"}} {
		e, d := r.NeedFunc(f.enc), r.NeedFunc(f.dec)
		if e == nil || d == nil {
			continue
		}
		ne, nd := 0, 0
		for _, c := range callsIn(e.Decl.Body) {
			if calleeName(e.Pkg.TypesInfo, c) == f.bitsFn {
				ne++
			}
		}
		for _, c := range callsIn(d.Decl.Body) {
			if calleeName(d.Pkg.TypesInfo, c) == f.fromFn {
				nd++
			}
		}
		r.Check(ne >= 2 && nd >= 2, e.Decl, f.enc+"/"+f.dec+" use the IEEE-754 bit pattern", fmt.Sprintf("%s x%d, %s x%d", f.bitsFn, ne, f.fromFn, nd), f.enc+" / "+f.dec+" do not go through "+f.bitsFn+" / "+f.fromFn+" on every path (typed and reflected)")
	}
	// date decode is a big-endian uint32
	if fi := r.NeedFunc("unmarshalDate"); fi != nil {
		n, le := 0, 0
		for _, fn := range append([]*FuncInfo{fi}, p.privateCallees(fi)...) {
			ast.Inspect(fn.Decl.Body, func(x ast.Node) bool {
				if e, ok := x.(ast.Expr); ok {
					if d, ok := decodingOf(fn.Pkg.TypesInfo, e); ok && d.Width == 4 {
						if d.BigEndian {
							n++
						} else {
							le++
						}
						return false
					}
				}
				return true
			})
		}
		if le > 0 {
			r.Bad(fi.Decl, "unmarshalDate reads the day number big-endian", "the 4-byte day number is not read big-endian")
		} else if n == 0 {
			r.Unresolved("unmarshalDate: no 4-byte decode of the day number found")
		} else {
			r.OK(fi.Decl, "unmarshalDate reads the day number big-endian", fmt.Sprintf("%d big-endian 4-byte read(s)", n))
		}
	}
}

// ---------- R4: units, floor, origin ----------

func c12r4(p *Program, r *Report) {
	scope := p.Root.Types.Scope()
	if c, ok := scope.Lookup("millisecondsInADay").(*types.Const); ok {
		v, _ := constant.Int64Val(c.Val())
		r.Check(v == 86400000, nil, "millisecondsInADay", "86400000", fmt.Sprintf("millisecondsInADay = %d", v))
	} else {
		r.Unresolved("constant millisecondsInADay not found")
	}
	if fi := r.NeedFunc("encDate"); fi != nil {
		info := fi.Pkg.TypesInfo
		// floor: a truncating division whose result is decremented when the remainder is negative
		var quo *ast.AssignStmt
		floor, origin := false, false
		ast.Inspect(fi.Decl.Body, func(x ast.Node) bool {
			switch s := x.(type) {
			case *ast.AssignStmt:
				if len(s.Rhs) == 1 {
					if b, ok := ast.Unparen(s.Rhs[0]).(*ast.BinaryExpr); ok && b.Op == token.QUO && exprStr(b.Y) == "millisecondsInADay" {
						quo = s
					}
					if b, ok := ast.Unparen(s.Rhs[0]).(*ast.BinaryExpr); ok && b.Op == token.ADD {
						if k, ok := constInt(info, b.Y); ok && k == 1<<31 {
							origin = true
						}
					}
				}
			case *ast.IfStmt:
				if quo != nil && s.Pos() > quo.End() {
					if b, ok := ast.Unparen(s.Cond).(*ast.BinaryExpr); ok && b.Op == token.LSS {
						if m, ok := ast.Unparen(b.X).(*ast.BinaryExpr); ok && m.Op == token.REM && exprStr(m.Y) == "millisecondsInADay" {
							if k, ok := constInt(info, b.Y); ok && k == 0 && len(s.Body.List) == 1 {
								if inc, ok := s.Body.List[0].(*ast.IncDecStmt); ok && inc.Tok == token.DEC && exprStr(inc.X) == exprStr(quo.Lhs[0]) {
									floor = true
								}
							}
						}
					}
				}
			}
			return true
		})
		r.Check(quo != nil && floor, fi.Decl, "encDate counts days with floor", "q = t / day; if t % day < 0 { q-- }", "the day number is a truncating division: a time before 1970 that is not midnight lands on the following day")
		r.Check(origin, fi.Decl, "encDate centres the day number on 2^31", "+ 1<<31", "the day number is not offset by 2^31")
	} else {
		return
	}
	// the functions that implement a codec together with the private helpers it was split into
	withHelpers := func(fi *FuncInfo) []*FuncInfo { return append([]*FuncInfo{fi}, p.privateCallees(fi)...) }
	// time.Time -> milliseconds: Unix()*1e3 + Nanosecond()/1e6 and UnixMilli() count with floor; UnixNano()/1e6
	// truncates towards zero (and overflows outside 1678..2262)
	millisForms := func(fns []*FuncInfo) (okForms, trunc int, where ast.Node) {
		for _, fn := range fns {
			ast.Inspect(fn.Decl.Body, func(x ast.Node) bool {
				switch e := x.(type) {
				case *ast.CallExpr:
					if calleeName(fn.Pkg.TypesInfo, e) == "time.(Time).UnixMilli" {
						okForms++
					}
				case *ast.BinaryExpr:
					if e.Op == token.ADD && isMillisOfTime(fn.Pkg.TypesInfo, e) {
						okForms++
						return false
					}
					if e.Op == token.QUO {
						found := false
						ast.Inspect(e.X, func(y ast.Node) bool {
							if c, ok := y.(*ast.CallExpr); ok && calleeName(fn.Pkg.TypesInfo, c) == "time.(Time).UnixNano" {
								found = true
							}
							return true
						})
						if found {
							trunc++
							where = e
						}
					}
				}
				return true
			})
		}
		return
	}
	if fi := r.NeedFunc("marshalDate"); fi != nil {
		info := fi.Pkg.TypesInfo
		n := 0
		var stray []string
		returnsEncDate := func(fn *FuncInfo) bool {
			okR, any := true, false
			for _, ex := range p.GraphOf(fn).Exits() {
				rs, ok := ex.Node.(*ast.ReturnStmt)
				if !ok || len(rs.Results) == 0 {
					continue
				}
				if c, ok := ast.Unparen(rs.Results[0]).(*ast.CallExpr); ok && isCallTo(fn.Pkg.TypesInfo, c, "encDate") {
					any = true
				} else if !isNil(fn.Pkg.TypesInfo, rs.Results[0]) {
					okR = false
				}
			}
			return okR && any
		}
		for _, ex := range p.GraphOf(fi).Exits() {
			rs, ok := ex.Node.(*ast.ReturnStmt)
			if !ok || len(rs.Results) != 1 {
				continue
			}
			if c, ok := rs.Results[0].(*ast.CallExpr); ok {
				switch {
				case isCallTo(info, c, "encDate"):
					n++
				case calleeName(info, c) == "Marshaler.MarshalCQL":
				default:
					if fn := calleeOf(info, c); fn != nil && p.FuncOf(fn) != nil && returnsEncDate(p.FuncOf(fn)) {
						n++
					} else if isCallTo(info, c, "encInt", "encBigInt", "encShort") {
						stray = append(stray, exprStr(c))
					}
				}
			}
		}
		if len(stray) > 0 {
			r.Bad(fi.Decl, "marshalDate encodes every source type through encDate", "a source type of marshalDate is encoded by "+strings.Join(stray, ", ")+", bypassing encDate (floor / origin / range)")
		} else if n == 0 {
			r.Unresolved("marshalDate: no return goes through encDate")
		} else {
			r.OK(fi.Decl, "marshalDate encodes every source type through encDate", fmt.Sprintf("%d returns", n))
		}
		okF, tr, where := millisForms(withHelpers(fi))
		if tr > 0 {
			r.Bad(where, "marshalDate converts time.Time to milliseconds with floor", "a time.Time is converted with UnixNano()/k, which truncates towards zero: an instant before 1970 with a sub-millisecond part lands one millisecond (and possibly one day) late, and years outside 1678..2262 overflow")
		} else if okF == 0 {
			r.Unresolved("marshalDate: no recognised time.Time -> milliseconds conversion (Unix()*1e3+Nanosecond()/1e6 or UnixMilli())")
		} else {
			r.OK(fi.Decl, "marshalDate converts time.Time to milliseconds with floor", fmt.Sprintf("%d conversion(s): Unix()*1e3+Nanosecond()/1e6 or UnixMilli()", okF))
		}
	}
	if fi := r.NeedFunc("unmarshalDate"); fi != nil {
		// (days - 2^31) * millisecondsInADay somewhere in unmarshalDate or its helpers
		good, bad := 0, ""
		for _, fn := range withHelpers(fi) {
			finfo := fn.Pkg.TypesInfo
			constOf := func(e ast.Expr) (int64, bool) {
				if k, ok := constInt(finfo, stripAllConv(finfo, e)); ok {
					return k, true
				}
				if id, ok := stripAllConv(finfo, e).(*ast.Ident); ok {
					var val int64
					found := false
					ast.Inspect(fn.Decl.Body, func(y ast.Node) bool {
						if vs, ok := y.(*ast.ValueSpec); ok {
							for i, nm := range vs.Names {
								if nm.Name == id.Name && i < len(vs.Values) {
									if k, ok := constInt(finfo, vs.Values[i]); ok {
										val, found = k, true
									}
								}
							}
						}
						return true
					})
					return val, found
				}
				return 0, false
			}
			ast.Inspect(fn.Decl.Body, func(x ast.Node) bool {
				m, ok := x.(*ast.BinaryExpr)
				if !ok || m.Op != token.MUL {
					return true
				}
				var other ast.Expr
				isDayMs := func(e ast.Expr) bool {
					k, ok := constInt(finfo, ast.Unparen(e))
					return ok && k == 24*60*60*1000
				}
				switch {
				case isDayMs(m.Y):
					other = m.X
				case isDayMs(m.X):
					other = m.Y
				default:
					return true
				}
				// the day count may be held in a local first
				if oid, isId := ast.Unparen(stripAllConv(finfo, other)).(*ast.Ident); isId && finfo.Uses[oid] != nil && singleAssigned(finfo, fn.Decl.Body, finfo.Uses[oid]) {
					if d := localDef(finfo, fn, oid); d != nil {
						other = d
					}
				}
				sub, ok := ast.Unparen(stripAllConv(finfo, other)).(*ast.BinaryExpr)
				if !ok || sub.Op != token.SUB {
					return true
				}
				if k, ok := constOf(sub.Y); ok {
					if k == 1<<31 {
						good++
					} else {
						bad = fmt.Sprintf("%s subtracts %d", exprStr(m), k)
					}
				}
				return true
			})
		}
		if bad != "" {
			r.Bad(fi.Decl, "unmarshalDate: (days - 2^31) * ms/day", bad+", not the 2^31 origin of the CQL date type")
		} else if good == 0 {
			r.Unresolved("unmarshalDate: no `(days - 2^31) * millisecondsInADay` computation found")
		} else {
			r.OK(fi.Decl, "unmarshalDate: (days - 2^31) * ms/day", fmt.Sprintf("%d conversion(s)", good))
		}
	}
	if fi := r.NeedFunc("marshalTimestamp"); fi != nil {
		okF, tr, where := millisForms(withHelpers(fi))
		if tr > 0 {
			r.Bad(where, "marshalTimestamp is milliseconds since the epoch, counted with floor", "a time.Time timestamp is converted with UnixNano()/k, which truncates towards zero and overflows outside 1678..2262")
		} else if okF == 0 {
			r.Unresolved("marshalTimestamp: no recognised time.Time -> milliseconds conversion")
		} else {
			r.OK(fi.Decl, "marshalTimestamp is milliseconds since the epoch, counted with floor", "Unix()*1e3+Nanosecond()/1e6 or UnixMilli()")
		}
	}
	if fi := r.NeedFunc("unmarshalTimestamp"); fi != nil {
		var sec, nsec string
		viaLib := false
		for _, fn := range withHelpers(fi) {
			ast.Inspect(fn.Decl.Body, func(x ast.Node) bool {
				if as, isA := x.(*ast.AssignStmt); isA && len(as.Lhs) == 1 && len(as.Rhs) == 1 {
					switch exprStr(as.Lhs[0]) {
					case "sec":
						sec = strings.ReplaceAll(exprStr(as.Rhs[0]), " ", "")
					case "nsec":
						nsec = strings.ReplaceAll(exprStr(as.Rhs[0]), " ", "")
					}
				}
				if c, ok := x.(*ast.CallExpr); ok && calleeName(fn.Pkg.TypesInfo, c) == "time.UnixMilli" {
					viaLib = true
				}
				return true
			})
		}
		// time.Unix(S, N) with S := X / 1000 and N := (X - S*1000) * 1000000 (names free, constants evaluated)
		split, splitSeen := false, false
		for _, fn := range withHelpers(fi) {
			finfo := fn.Pkg.TypesInfo
			isK := func(e ast.Expr, k int64) bool {
				v, ok := constInt(finfo, ast.Unparen(e))
				return ok && v == k
			}
			for _, c := range callsIn(fn.Decl.Body) {
				if calleeName(finfo, c) != "time.Unix" || len(c.Args) != 2 {
					continue
				}
				splitSeen = true
				// any spelling: locals resolved, constants evaluated, conversions dropped; the remainder as x%1000 or
				// as x-(x/1000)*1000
				{
					var na func(e ast.Expr, depth int) string
					na = func(e ast.Expr, depth int) string {
						e = ast.Unparen(stripAllConv(finfo, e))
						if v, isC := constInt(finfo, e); isC {
							return fmt.Sprint(v)
						}
						switch y := e.(type) {
						case *ast.Ident:
							if obj := finfo.Uses[y]; obj != nil && depth < 4 && singleAssigned(finfo, fn.Decl.Body, obj) {
								if d := localDef(finfo, fn, y); d != nil {
									return na(d, depth+1)
								}
							}
							return y.Name
						case *ast.BinaryExpr:
							l, rr := na(y.X, depth), na(y.Y, depth)
							if _, lNum := strconv.ParseInt(l, 10, 64); y.Op == token.MUL && lNum == nil {
								if _, rNum := strconv.ParseInt(rr, 10, 64); rNum != nil {
									l, rr = rr, l // constants last
								}
							}
							return "(" + l + y.Op.String() + rr + ")"
						}
						return strings.ReplaceAll(exprStr(e), " ", "")
					}
					sN, nN := na(c.Args[0], 0), na(c.Args[1], 0)
					if strings.HasPrefix(sN, "(") && strings.HasSuffix(sN, "/1000)") {
						x := sN[1 : len(sN)-len("/1000)")]
						if nN == "(("+x+"%1000)*1000000)" || nN == "(("+x+"-(("+x+"/1000)*1000))*1000000)" {
							split = true
							continue
						}
					}
				}
				sid, ok1 := ast.Unparen(c.Args[0]).(*ast.Ident)
				nid, ok2 := ast.Unparen(c.Args[1]).(*ast.Ident)
				if !ok1 || !ok2 {
					continue
				}
				sd, nd := localDef(finfo, fn, sid), localDef(finfo, fn, nid)
				if sd == nil || nd == nil {
					continue
				}
				q, ok := ast.Unparen(sd).(*ast.BinaryExpr)
				if !ok || q.Op != token.QUO || !isK(q.Y, 1000) {
					continue
				}
				x := exprStr(ast.Unparen(q.X))
				m, ok := ast.Unparen(nd).(*ast.BinaryExpr)
				if !ok || m.Op != token.MUL || !isK(m.Y, 1000000) {
					continue
				}
				d, ok := ast.Unparen(m.X).(*ast.BinaryExpr)
				if !ok || d.Op != token.SUB || exprStr(ast.Unparen(d.X)) != x {
					continue
				}
				sm, ok := ast.Unparen(d.Y).(*ast.BinaryExpr)
				if !ok || sm.Op != token.MUL {
					continue
				}
				if (exprStr(ast.Unparen(sm.X)) == sid.Name && isK(sm.Y, 1000)) || (exprStr(ast.Unparen(sm.Y)) == sid.Name && isK(sm.X, 1000)) {
					split = true
				}
			}
		}
		switch {
		case viaLib:
			r.OK(fi.Decl, "unmarshalTimestamp converts milliseconds to a time", "time.UnixMilli")
		case split:
			r.OK(fi.Decl, "unmarshalTimestamp converts milliseconds to a time", "time.Unix(x/1000, (x - sec*1000)*1e6)")
		case splitSeen && (sec == "" || nsec == ""):
			r.Bad(fi.Decl, "unmarshalTimestamp converts milliseconds to a time", "milliseconds are not split as sec = x/1000, nsec = (x - sec*1000)*1e6")
		case sec == "" || nsec == "":
			r.Unresolved("unmarshalTimestamp: neither time.UnixMilli nor a sec/nsec split found")
		default:
			r.Check(sec == "x/1000" && nsec == "(x-sec*1000)*1000000", fi.Decl, "unmarshalTimestamp converts milliseconds to a time", sec+"; "+nsec, "milliseconds are not split as sec = x/1000, nsec = (x - sec*1000)*1e6: "+sec+"; "+nsec)
		}
	}
	if fi := r.NeedFunc("marshalTime"); fi != nil {
		ok := false
		for _, c := range callsIn(fi.Decl.Body) {
			if isCallTo(fi.Pkg.TypesInfo, c, "encBigInt") && exprStr(c.Args[0]) == "v.Nanoseconds()" {
				ok = true
			}
		}
		r.Check(ok, fi.Decl, "marshalTime is nanoseconds since midnight", "encBigInt(v.Nanoseconds())", "a time.Duration bound to a time column is not written in nanoseconds")
	}
}

func isMillisOfTime(info *types.Info, e ast.Expr) bool {
	b, ok := ast.Unparen(stripAllConv(info, e)).(*ast.BinaryExpr)
	if !ok || b.Op != token.ADD {
		return false
	}
	// <time>.Unix() * 1000 and <time>.Nanosecond() / 1000000, conversions anywhere
	part := func(x ast.Expr, method string, op token.Token, k int64) bool {
		be, ok := ast.Unparen(stripAllConv(info, x)).(*ast.BinaryExpr)
		if !ok || be.Op != op {
			return false
		}
		isCall := func(y ast.Expr) bool {
			c, ok := ast.Unparen(stripAllConv(info, y)).(*ast.CallExpr)
			return ok && calleeName(info, c) == "time.(Time)."+method
		}
		isK := func(y ast.Expr) bool {
			v, ok := constInt(info, ast.Unparen(stripAllConv(info, y)))
			return ok && v == k
		}
		if isCall(be.X) && isK(be.Y) {
			return true
		}
		return op == token.MUL && isCall(be.Y) && isK(be.X)
	}
	secs := func(x ast.Expr) bool { return part(x, "Unix", token.MUL, 1000) }
	nanos := func(x ast.Expr) bool { return part(x, "Nanosecond", token.QUO, 1000000) }
	return secs(b.X) && nanos(b.Y) || secs(b.Y) && nanos(b.X)
}

// ---------- R5: framing order ----------

// writeSeq: the sequence of framing operations in a block, in source order (nested blocks inlined).
func writeSeq(info *types.Info, n ast.Node, buf string) []string {
	return writeSeqP(nil, info, n, buf, 0)
}

// writeSeqP additionally follows helpers of the repository that receive the buffer (their framing operations
// are inlined with the helper's parameters replaced by the caller's arguments).
func writeSeqP(p *Program, info *types.Info, n ast.Node, buf string, depth int) []string {
	var out []string
	ast.Inspect(n, func(x ast.Node) bool {
		c, ok := x.(*ast.CallExpr)
		if !ok {
			return true
		}
		if p != nil && depth < 2 && !isCallTo(info, c, "writeCollectionSize", "appendInt", "appendBytes", "Marshal") {
			if fn := calleeOf(info, c); fn != nil {
				if callee := p.FuncOf(fn); callee != nil && callee.Decl.Body != nil && callee.Pkg == p.Root {
					passesBuf := false
					subst := map[string]string{}
					k := 0
					for _, pf := range callee.Decl.Type.Params.List {
						for _, pn := range pf.Names {
							if k < len(c.Args) {
								subst[pn.Name] = exprStr(c.Args[k])
								if exprStr(c.Args[k]) == buf {
									passesBuf = true
								}
							}
							k++
						}
					}
					if passesBuf {
						for _, it := range writeSeqP(p, callee.Pkg.TypesInfo, callee.Decl.Body, subst2(buf, subst), depth+1) {
							out = append(out, substIdents(it, subst))
						}
						return false
					}
				}
			}
		}
		switch {
		case isCallTo(info, c, "Marshal") && len(c.Args) == 2:
			out = append(out, "marshal("+exprStr(c.Args[0])+")")
		case isCallTo(info, c, "writeCollectionSize") && len(c.Args) == 3:
			out = append(out, "size("+lenNorm(info, n, c.Args[1])+")")
		case calleeName(info, c) == "bytes.(*Buffer).Write" && len(c.Args) == 1:
			out = append(out, "bytes("+exprStr(c.Args[0])+")")
		case isCallTo(info, c, "appendInt") && len(c.Args) == 2:
			if k, isK := constInt(info, ast.Unparen(stripAllConv(info, c.Args[1]))); isK {
				out = append(out, "int("+fmtInt(int(k))+")")
			} else if id, isId := ast.Unparen(stripAllConv(info, c.Args[1])).(*ast.Ident); isId {
				out = append(out, "int("+lenNorm(info, n, id)+")")
			} else {
				out = append(out, "int("+stripConv(info, c.Args[1])+")")
			}
		case isCallTo(info, c, "appendBytes") && len(c.Args) == 2:
			out = append(out, "lenbytes("+exprStr(c.Args[1])+")")
		case exprStr(c.Fun) == "append" && len(c.Args) == 2 && c.Ellipsis.IsValid():
			out = append(out, "bytes("+exprStr(c.Args[1])+")")
		}
		return true
	})
	return out
}

func c12r5(p *Program, r *Report) {
	if fi := r.NeedFunc("marshalList"); fi != nil {
		info := fi.Pkg.TypesInfo
		var loop *ast.ForStmt
		ast.Inspect(fi.Decl.Body, func(x ast.Node) bool {
			if f, ok := x.(*ast.ForStmt); ok && loop == nil {
				for _, it := range writeSeqP(p, info, f.Body, "buf", 0) {
					if strings.HasPrefix(it, "marshal(") {
						loop = f
					}
				}
			}
			return true
		})
		if loop == nil {
			r.Unresolved("marshalList: element loop not found")
		} else {
			seq := noMarshal(writeSeqP(p, info, loop.Body, "buf", 0))
			r.Check(framedPairs(seq, 1, "size"), loop, "marshalList element framing", strings.Join(seq, " "), "a list element is framed as `"+strings.Join(seq, " ")+"`, not [size][bytes]")
			// count before the loop, equal to the number of elements iterated
			var before []string
			_, sibs := p.stmtIndex(loop)
			for _, st := range sibs {
				if st == ast.Stmt(loop) {
					break
				}
				before = append(before, writeSeq(info, st, "buf")...)
			}
			bound := ""
			if b, ok := loop.Cond.(*ast.BinaryExpr); ok {
				bound = exprStr(b.Y)
			}
			r.Check(len(before) == 1 && before[0] == "size("+bound+")" && bound != "", loop, "marshalList writes the element count first and iterates that many elements", strings.Join(before, " ")+" ; loop bound "+bound, "the element count written ("+strings.Join(before, " ")+") is not the number of elements encoded ("+bound+")")
		}
	}
	if fi := r.NeedFunc("marshalMap"); fi != nil {
		info := fi.Pkg.TypesInfo
		var loop *ast.RangeStmt
		ast.Inspect(fi.Decl.Body, func(x ast.Node) bool {
			if f, ok := x.(*ast.RangeStmt); ok && loop == nil {
				loop = f
			}
			return true
		})
		if loop == nil {
			r.Unresolved("marshalMap: entry loop not found")
		} else {
			full := writeSeqP(p, info, loop.Body, "buf", 0)
			seq := noMarshal(full)
			r.Check(framedPairs(seq, 2, "size"), loop, "marshalMap entry framing", strings.Join(seq, " "), "a map entry is framed as `"+strings.Join(seq, " ")+"`, not [size][key][size][value]")
			// key marshalled with Key type first, value with Elem type second
			var ms []string
			for _, it := range full {
				if strings.HasPrefix(it, "marshal(") {
					ms = append(ms, strings.TrimSuffix(strings.TrimPrefix(it, "marshal("), ")"))
				}
			}
			r.Check(len(ms) == 2 && strings.HasSuffix(ms[0], ".Key") && strings.HasSuffix(ms[1], ".Elem"), loop, "marshalMap encodes the key with the key type, then the value with the value type", strings.Join(ms, ", "), "map entries are not encoded as (key: Key type, value: Elem type): "+strings.Join(ms, ", "))
			var before []string
			_, sibs := p.stmtIndex(loop)
			for _, st := range sibs {
				if st == ast.Stmt(loop) {
					break
				}
				before = append(before, writeSeq(info, st, "buf")...)
			}
			r.Check(len(before) == 1 && before[0] == "size(n)", loop, "marshalMap writes the entry count first", strings.Join(before, " "), "the entry count is not written first: "+strings.Join(before, " "))
		}
	}
	if fi := r.NeedFunc("marshalTuple"); fi != nil {
		info := fi.Pkg.TypesInfo
		n := 0
		ast.Inspect(fi.Decl.Body, func(x ast.Node) bool {
			loop, ok := x.(*ast.RangeStmt)
			if !ok {
				return true
			}
			n++
			seq := noMarshal(writeSeqP(p, info, loop.Body, "buf", 0))
			var rest []string
			nulls := 0
			for _, it := range seq {
				if it == "int(-1)" {
					nulls++
				} else {
					rest = append(rest, it)
				}
			}
			rs := strings.Join(rest, " ")
			r.Check(nulls >= 1 && framedPairs(rest, 1, "int") || len(rest) == 1 && strings.HasPrefix(rs, "lenbytes("), loop, fmt.Sprintf("marshalTuple loop %d element framing", n), strings.Join(seq, " "), "a tuple element is framed as `"+strings.Join(seq, " ")+"`, not [int length][bytes] with -1 for null")
			return true
		})
		if n < 1 {
			// (the []interface{}, struct and slice/array sources may share one loop over the element types)
			r.Unresolved("marshalTuple: expected at least one element loop, found %d", n)
		}
	}
	if fi := r.NeedFunc("marshalUDT"); fi != nil {
		info := fi.Pkg.TypesInfo
		n := 0
		ast.Inspect(fi.Decl.Body, func(x ast.Node) bool {
			loop, ok := x.(*ast.RangeStmt)
			if !ok || exprStr(loop.X) != "udt.Elements" {
				return true
			}
			n++
			seq := noMarshal(writeSeqP(p, info, loop.Body, "buf", 0))
			r.Check(len(seq) == 1 && strings.HasPrefix(seq[0], "lenbytes("), loop, fmt.Sprintf("marshalUDT loop %d field framing in declaration order", n), strings.Join(seq, " "), "a UDT field is framed as `"+strings.Join(seq, " ")+"`, not one [bytes] per declared field in order")
			return true
		})
		if n != 3 {
			r.Unresolved("marshalUDT: expected 3 field loops over udt.Elements, found %d", n)
		}
	}
}

// ---------- R6: vint coding over finite domains ----------

// evalEnv evaluates a pure integer expression of fi with given values for some identifiers/calls.
type evalEnv struct {
	info *types.Info
	fi   *FuncInfo
	vars map[string]int64                    // identifier -> value
	call func(c *ast.CallExpr) (int64, bool) // intercept calls
	seen map[types.Object]bool
}

func wrapTo(t types.Type, v int64) int64 {
	if t == nil {
		return v
	}
	b, ok := t.Underlying().(*types.Basic)
	if !ok {
		return v
	}
	switch b.Kind() {
	case types.Int8:
		return int64(int8(v))
	case types.Int16:
		return int64(int16(v))
	case types.Int32:
		return int64(int32(v))
	case types.Uint8:
		return int64(uint8(v))
	case types.Uint16:
		return int64(uint16(v))
	case types.Uint32:
		return int64(uint32(v))
	}
	return v // 64-bit kinds: two's complement bits kept in int64
}

func isUnsigned64(t types.Type) bool {
	if t == nil {
		return false
	}
	b, ok := t.Underlying().(*types.Basic)
	return ok && (b.Kind() == types.Uint64 || b.Kind() == types.Uint || b.Kind() == types.Uintptr)
}

func (ev *evalEnv) eval(e ast.Expr) (int64, bool) {
	e = ast.Unparen(e)
	if tv, ok := ev.info.Types[e]; ok && tv.Value != nil {
		if v := constant.ToInt(tv.Value); v.Kind() == constant.Int {
			if i, exact := constant.Int64Val(v); exact {
				return i, true
			}
			if u, exact := constant.Uint64Val(v); exact {
				return int64(u), true
			}
		}
		return 0, false
	}
	t := ev.info.TypeOf(e)
	switch x := e.(type) {
	case *ast.Ident:
		if v, ok := ev.vars[x.Name]; ok {
			return v, true
		}
		obj := ev.info.Uses[x]
		if obj == nil || ev.seen[obj] {
			return 0, false
		}
		if !singleAssigned(ev.info, ev.fi.Decl.Body, obj) {
			return 0, false
		}
		d := localDef(ev.info, ev.fi, x)
		if d == nil {
			return 0, false
		}
		ev.seen[obj] = true
		defer delete(ev.seen, obj)
		return ev.eval(d)
	case *ast.UnaryExpr:
		v, ok := ev.eval(x.X)
		if !ok {
			return 0, false
		}
		switch x.Op {
		case token.SUB:
			return wrapTo(t, -v), true
		case token.XOR:
			return wrapTo(t, ^v), true
		case token.ADD:
			return v, true
		}
	case *ast.BinaryExpr:
		a, ok1 := ev.eval(x.X)
		b, ok2 := ev.eval(x.Y)
		if !ok1 || !ok2 {
			return 0, false
		}
		uns := isUnsigned64(ev.info.TypeOf(x.X))
		var v int64
		switch x.Op {
		case token.ADD:
			v = a + b
		case token.SUB:
			v = a - b
		case token.MUL:
			v = a * b
		case token.QUO:
			if b == 0 {
				return 0, false
			}
			if uns {
				v = int64(uint64(a) / uint64(b))
			} else {
				v = a / b
			}
		case token.REM:
			if b == 0 {
				return 0, false
			}
			if uns {
				v = int64(uint64(a) % uint64(b))
			} else {
				v = a % b
			}
		case token.AND:
			v = a & b
		case token.OR:
			v = a | b
		case token.XOR:
			v = a ^ b
		case token.AND_NOT:
			v = a &^ b
		case token.SHL:
			if b < 0 || b > 63 {
				v = 0
			} else {
				v = a << uint(b)
			}
		case token.SHR:
			if b < 0 {
				return 0, false
			}
			lt := ev.info.TypeOf(x.X)
			if bits, u, ok := intInfo(lt); ok && (u || bits == 63 && u) {
				if b > 63 {
					v = 0
				} else {
					v = int64(uint64(a) >> uint(b))
				}
			} else {
				if b > 63 {
					b = 63
				}
				v = a >> uint(b)
			}
		default:
			return 0, false
		}
		return wrapTo(t, v), true
	case *ast.CallExpr:
		if ev.call != nil {
			if v, ok := ev.call(x); ok {
				return v, true
			}
		}
		if len(x.Args) == 1 {
			if tv, ok := ev.info.Types[x.Fun]; ok && tv.IsType() {
				v, ok := ev.eval(x.Args[0])
				if !ok {
					return 0, false
				}
				return wrapTo(tv.Type, v), true
			}
			switch calleeName(ev.info, x) {
			case "bits.LeadingZeros64":
				if v, ok := ev.eval(x.Args[0]); ok {
					return int64(bits.LeadingZeros64(uint64(v))), true
				}
			case "bits.LeadingZeros32":
				if v, ok := ev.eval(x.Args[0]); ok {
					return int64(bits.LeadingZeros32(uint32(v))), true
				}
			case "bits.LeadingZeros8":
				if v, ok := ev.eval(x.Args[0]); ok {
					return int64(bits.LeadingZeros8(uint8(v))), true
				}
			case "bits.Len64":
				if v, ok := ev.eval(x.Args[0]); ok {
					return int64(bits.Len64(uint64(v))), true
				}
			}
		}
	}
	return 0, false
}

func c12r6(p *Program, r *Report) {
	// zig-zag formulas
	// zig-zag formulas, as terms of the abstract interpreter (any spelling, through locals or helpers):
	//   enc(n) = (n >>arith 63) ^ (n << 1)        dec(u) = (u >>logical 1) ^ -(u & 1)
	zz := func(name string, ref func(n *term) *term, what, bad string) {
		fi := r.NeedFunc(name)
		if fi == nil {
			return
		}
		se := newSymEval(p)
		var pt types.Type
		if fi.Decl.Type.Params != nil && len(fi.Decl.Type.Params.List) == 1 {
			pt = fi.Pkg.TypesInfo.TypeOf(fi.Decl.Type.Params.List[0].Type)
		}
		if pt == nil {
			r.Unresolved("%s does not take exactly one parameter", name)
			return
		}
		vals, ok := se.evalFunc(fi, []sval{{kind: 'i', t: tSym("n"), typ: pt}})
		if !ok || len(se.unsup) > 0 || len(vals) != 1 || vals[0].kind != 'i' {
			r.Unresolved("%s: not interpretable (%s)", name, strings.Join(se.unsup, "; "))
			return
		}
		want := ref(tSym("n"))
		r.Check(vals[0].t.String() == want.String(), fi.Decl, what, vals[0].t.String(), bad+": computes "+vals[0].t.String()+", the specification's zig-zag is "+want.String())
	}
	zz("encIntZigZag", func(n *term) *term { return mk("xor", mk("ashr", n, tConst(63)), mk("shl", n, tConst(1))) },
		"encIntZigZag is (n >> 63) ^ (n << 1) with an arithmetic shift", "zig-zag encoding is not (n>>63)^(n<<1) on a signed n")
	zz("decIntZigZag", func(n *term) *term { return mk("xor", mk("lshr", n, tConst(1)), mk("neg", mk("and", n, tConst(1)))) },
		"decIntZigZag is (n >> 1) ^ -(n & 1) with a logical shift", "zig-zag decoding is not (n>>1)^-(n&1) with a logical (unsigned) shift")
	// encVint: number of bytes as a function of the bit length of the zig-zag value
	if fi := r.NeedFunc("encVint"); fi != nil {
		info := fi.Pkg.TypesInfo
		// the size variable: argument of make([]byte, X)
		var sizeExpr ast.Expr
		for _, c := range callsIn(fi.Decl.Body) {
			if exprStr(c.Fun) == "make" && len(c.Args) == 2 {
				sizeExpr = c.Args[1]
			}
		}
		// the zig-zag value: variable defined from encIntZigZag
		zz := ""
		ast.Inspect(fi.Decl.Body, func(x ast.Node) bool {
			if as, ok := x.(*ast.AssignStmt); ok && len(as.Rhs) == 1 && len(as.Lhs) == 1 {
				if c, ok := as.Rhs[0].(*ast.CallExpr); ok && isCallTo(info, c, "encIntZigZag") {
					zz = exprStr(as.Lhs[0])
				}
			}
			return true
		})
		if sizeExpr == nil || zz == "" {
			r.Unresolved("encVint: size expression or zig-zag value not found")
		} else {
			// the short form: a branch `size <= 1` returning one byte
			short := false
			ast.Inspect(fi.Decl.Body, func(x ast.Node) bool {
				if ifs, ok := x.(*ast.IfStmt); ok {
					c := strings.ReplaceAll(exprStr(ifs.Cond), " ", "")
					if c == exprStr(sizeExpr)+"<=1" || c == exprStr(sizeExpr)+"<2" {
						if rs, ok := ifs.Body.List[len(ifs.Body.List)-1].(*ast.ReturnStmt); ok {
							if cl, ok := rs.Results[0].(*ast.CompositeLit); ok && len(cl.Elts) == 1 && exprStr(cl.Elts[0]) == "byte("+zz+")" {
								short = true
							}
						}
					}
				}
				return true
			})
			r.Check(short, fi.Decl, "encVint: values that need one byte are written as that byte", "size <= 1 -> []byte{byte(value)}", "encVint has no one-byte form for values below 128")
			var bad []string
			for L := 0; L <= 64; L++ {
				// a representative value with bit length L
				var val uint64
				if L > 0 {
					val = uint64(1) << uint(L-1)
				}
				ev := &evalEnv{info: info, fi: fi, vars: map[string]int64{zz: int64(val)}, seen: map[types.Object]bool{}}
				got, ok := ev.eval(sizeExpr)
				if !ok {
					r.Unresolved("encVint: the size expression %s is not a pure integer expression of the zig-zag value", exprStr(sizeExpr))
					bad = nil
					break
				}
				if got <= 1 {
					got = 1
				}
				want := int64(1)
				if L > 7 {
					want = int64((L + 6) / 7)
					if want > 9 {
						want = 9
					}
				}
				// also the all-ones value of that bit length
				if L > 0 {
					ev2 := &evalEnv{info: info, fi: fi, vars: map[string]int64{zz: int64(^uint64(0) >> uint(64-L))}, seen: map[types.Object]bool{}}
					if g2, ok := ev2.eval(sizeExpr); ok {
						if g2 <= 1 {
							g2 = 1
						}
						if g2 != got {
							bad = append(bad, fmt.Sprintf("bit length %d: size depends on more than the bit length (%d vs %d)", L, got, g2))
						}
					}
				}
				if got != want {
					bad = append(bad, fmt.Sprintf("bit length %d: %d bytes, specification %d", L, got, want))
				}
			}
			r.Check(len(bad) == 0, fi.Decl, "encVint length equals the specification's vint size for every bit length 0..64", "size expression "+exprStr(sizeExpr)+" evaluated for 65 bit lengths",
				"the vint length differs from the specification (1 byte up to 7 bits, +1 per 7 bits, 9 bytes from 57 bits): "+strings.Join(bad, "; "))
			// first-byte marker: extraBytes leading one bits
			var marker ast.Expr
			ast.Inspect(fi.Decl.Body, func(x ast.Node) bool {
				if as, ok := x.(*ast.AssignStmt); ok && as.Tok == token.OR_ASSIGN && strings.HasSuffix(exprStr(as.Lhs[0]), "[0]") {
					marker = as.Rhs[0]
				}
				return true
			})
			if marker == nil {
				r.Bad(fi.Decl, "encVint first-byte marker", "the first byte is not OR-ed with the length marker")
			} else {
				var mbad []string
				for size := 2; size <= 9; size++ {
					ev := &evalEnv{info: info, fi: fi, vars: map[string]int64{exprStr(sizeExpr): int64(size)}, seen: map[types.Object]bool{}}
					got, ok := ev.eval(marker)
					want := int64(0xff) &^ (int64(0xff) >> uint(size-1))
					if !ok || got&0xff != want {
						mbad = append(mbad, fmt.Sprintf("%d bytes: marker %#x, specification %#x", size, got&0xff, want))
					}
				}
				r.Check(len(mbad) == 0, fi.Decl, "encVint first byte carries (size-1) leading one bits", exprStr(marker)+" evaluated for sizes 2..9", "the first-byte marker differs from the specification: "+strings.Join(mbad, "; "))
			}
			// big-endian payload: buf[i] = byte(v); v >>= 8 walking i downwards
			be := false
			ast.Inspect(fi.Decl.Body, func(x ast.Node) bool {
				if f, ok := x.(*ast.ForStmt); ok {
					if inc, ok := f.Post.(*ast.IncDecStmt); ok && inc.Tok == token.DEC && len(f.Body.List) == 2 {
						a, ok1 := f.Body.List[0].(*ast.AssignStmt)
						b, ok2 := f.Body.List[1].(*ast.AssignStmt)
						if ok1 && ok2 && exprStr(a.Rhs[0]) == "byte("+zz+")" && b.Tok == token.SHR_ASSIGN && exprStr(b.Lhs[0]) == zz && exprStr(b.Rhs[0]) == "8" {
							be = true
						}
					}
				}
				return true
			})
			if !be {
				// ascending form: for i := 0; i < size; i++ { buf[size-1-i] = byte(v >> (8*i)) }
				ast.Inspect(fi.Decl.Body, func(x ast.Node) bool {
					f, ok := x.(*ast.ForStmt)
					if !ok || len(f.Body.List) != 1 {
						return true
					}
					k, _, isIdx := indexLoopBounds(info, f)
					a, isAs := f.Body.List[0].(*ast.AssignStmt)
					if !isIdx || !isAs || len(a.Lhs) != 1 || len(a.Rhs) != 1 || a.Tok != token.ASSIGN {
						return true
					}
					ix, isIx := ast.Unparen(a.Lhs[0]).(*ast.IndexExpr)
					if !isIx {
						return true
					}
					// index: (size-1) - i
					sub, isSub := ast.Unparen(ix.Index).(*ast.BinaryExpr)
					if !isSub || sub.Op != token.SUB || exprStr(ast.Unparen(sub.Y)) != k {
						return true
					}
					topE := ast.Unparen(sub.X)
					if tid, isId := topE.(*ast.Ident); isId && info.Uses[tid] != nil && singleAssigned(info, fi.Decl.Body, info.Uses[tid]) {
						if d := localDef(info, fi, tid); d != nil {
							topE = d
						}
					}
					top := strings.ReplaceAll(exprStr(topE), " ", "")
					top = strings.NewReplacer("(", "", ")", "").Replace(top)
					if top != exprStr(sizeExpr)+"-1" {
						return true
					}
					// value: byte(v >> (8*i))
					cv, isCv := ast.Unparen(a.Rhs[0]).(*ast.CallExpr)
					if !isCv || len(cv.Args) != 1 {
						return true
					}
					if tv, isT := info.Types[cv.Fun]; !isT || !tv.IsType() || !isByteType(tv.Type) {
						return true
					}
					sh, isSh := ast.Unparen(cv.Args[0]).(*ast.BinaryExpr)
					if !isSh || sh.Op != token.SHR || exprStr(ast.Unparen(sh.X)) != zz {
						return true
					}
					m, isM := ast.Unparen(stripAllConv(info, ast.Unparen(sh.Y))).(*ast.BinaryExpr)
					if !isM || m.Op != token.MUL {
						return true
					}
					l, rr := ast.Unparen(stripAllConv(info, ast.Unparen(m.X))), ast.Unparen(stripAllConv(info, ast.Unparen(m.Y)))
					if c8, isC := constInt(info, l); isC && c8 == 8 && exprStr(rr) == k {
						be = true
					}
					if c8, isC := constInt(info, rr); isC && c8 == 8 && exprStr(l) == k {
						be = true
					}
					return true
				})
			}
			if !be {
				// any loop of the form `buf[IDX] = byte(v >> SH)`: for every size 2..9 and every iteration the shift is
				// 8*(size-1-IDX) and the iterations cover every index (index and shift expressions evaluated over the
				// finite domain of sizes and loop positions)
				ast.Inspect(fi.Decl.Body, func(x ast.Node) bool {
					var body *ast.BlockStmt
					var loopVar string
					var bound ast.Expr // nil: range over the buffer
					switch l := x.(type) {
					case *ast.ForStmt:
						k, n2, isIdx := indexLoopBounds(info, l)
						if !isIdx {
							return true
						}
						body, loopVar, bound = l.Body, k, n2
					case *ast.RangeStmt:
						kid, isId := l.Key.(*ast.Ident)
						if !isId || l.Value != nil {
							return true
						}
						body, loopVar = l.Body, kid.Name
					default:
						return true
					}
					if len(body.List) != 1 {
						return true
					}
					a, isAs := body.List[0].(*ast.AssignStmt)
					if !isAs || len(a.Lhs) != 1 || len(a.Rhs) != 1 || a.Tok != token.ASSIGN {
						return true
					}
					ix, isIx := ast.Unparen(a.Lhs[0]).(*ast.IndexExpr)
					cv, isCv := ast.Unparen(a.Rhs[0]).(*ast.CallExpr)
					if !isIx || !isCv || len(cv.Args) != 1 {
						return true
					}
					if tv, isT := info.Types[cv.Fun]; !isT || !tv.IsType() || !isByteType(tv.Type) {
						return true
					}
					sh, isSh := ast.Unparen(cv.Args[0]).(*ast.BinaryExpr)
					if !isSh || sh.Op != token.SHR || exprStr(ast.Unparen(sh.X)) != zz {
						return true
					}
					okAll := true
					for size := 2; size <= 9 && okAll; size++ {
						n := size
						if bound != nil {
							evb := &evalEnv{info: info, fi: fi, vars: map[string]int64{exprStr(sizeExpr): int64(size)}, seen: map[types.Object]bool{}}
							bv, okB := evb.eval(bound)
							if !okB {
								okAll = false
								break
							}
							n = int(bv)
						}
						covered := map[int64]bool{}
						for i := 0; i < n; i++ {
							ev := &evalEnv{info: info, fi: fi, vars: map[string]int64{exprStr(sizeExpr): int64(size), loopVar: int64(i)}, seen: map[types.Object]bool{}}
							idx, ok1 := ev.eval(ix.Index)
							ev2 := &evalEnv{info: info, fi: fi, vars: map[string]int64{exprStr(sizeExpr): int64(size), loopVar: int64(i)}, seen: map[types.Object]bool{}}
							shv, ok2 := ev2.eval(sh.Y)
							if !ok1 || !ok2 || idx < 0 || idx >= int64(size) || shv != 8*(int64(size)-1-idx) {
								okAll = false
								break
							}
							covered[idx] = true
						}
						if len(covered) != size {
							okAll = false
						}
					}
					if okAll {
						be = true
					}
					return true
				})
			}
			r.Check(be, fi.Decl, "encVint payload is big-endian", "buf[i] = byte(v); v >>= 8 for i descending", "the vint payload bytes are not written most-significant first")
		}
	}
	// decVint: the number of extra bytes is the number of leading one bits of the first byte
	if fi := r.NeedFunc("decVint"); fi != nil {
		info := fi.Pkg.TypesInfo
		var nb ast.Expr
		var nbName, fbName string
		ast.Inspect(fi.Decl.Body, func(x ast.Node) bool {
			if as, ok := x.(*ast.AssignStmt); ok && len(as.Lhs) == 1 && len(as.Rhs) == 1 && as.Tok == token.DEFINE {
				s := exprStr(as.Rhs[0])
				if strings.Contains(s, "LeadingZeros") {
					nb, nbName = as.Rhs[0], exprStr(as.Lhs[0])
				}
				if ix, ok := as.Rhs[0].(*ast.IndexExpr); ok && exprStr(ix.Index) == "start" {
					fbName = exprStr(as.Lhs[0])
				}
			}
			return true
		})
		if nb == nil || fbName == "" {
			r.Unresolved("decVint: prefix-count expression not found")
		} else {
			var bad []string
			for b := 0x80; b <= 0xff; b++ {
				ev := &evalEnv{info: info, fi: fi, vars: map[string]int64{fbName: int64(b)}, seen: map[types.Object]bool{}}
				got, ok := ev.eval(nb)
				want := int64(bits.LeadingZeros8(^uint8(b)))
				if !ok || got != want {
					bad = append(bad, fmt.Sprintf("first byte %#x: %d extra bytes, specification %d", b, got, want))
					if len(bad) > 4 {
						break
					}
				}
			}
			r.Check(len(bad) == 0, fi.Decl, "decVint: extra bytes = leading one bits of the first byte, for every first byte 0x80..0xff", exprStr(nb)+" evaluated for 128 first bytes", "the decoder's prefix count differs from the specification: "+strings.Join(bad, "; "))
			// payload mask of the first byte
			var mask ast.Expr
			ast.Inspect(fi.Decl.Body, func(x ast.Node) bool {
				if be, ok := x.(*ast.BinaryExpr); ok && be.Op == token.AND && exprStr(be.X) == fbName {
					if _, isC := constInt(info, be.Y); !isC {
						mask = be
					}
				}
				return true
			})
			if mask == nil {
				r.Bad(fi.Decl, "decVint first-byte payload mask", "the marker bits of the first byte are not masked off")
			} else {
				var mb []string
				for n := 1; n <= 8; n++ {
					fb := 0xff
					ev := &evalEnv{info: info, fi: fi, vars: map[string]int64{fbName: int64(fb), nbName: int64(n)}, seen: map[types.Object]bool{}}
					got, ok := ev.eval(mask)
					want := int64(0xff >> uint(n))
					if !ok || got != want {
						mb = append(mb, fmt.Sprintf("%d extra bytes: payload mask %#x, specification %#x", n, got, want))
					}
				}
				r.Check(len(mb) == 0, fi.Decl, "decVint masks the (n) marker bits off the first byte", exprStr(mask)+" evaluated for n = 1..8", "the first byte's payload mask differs from the specification: "+strings.Join(mb, "; "))
			}
		}
	}
}

// ---------- R7: two's complement of big integers ----------
//
// The minimal length of a negative n is floor(bitlen(-n-1)/8)+1. bitlen(|n|) equals bitlen(-n-1) except when
// |n| is a power of two, so no function of n.BitLen() alone gives the minimal length for both -128 (1 byte)
// and -129 (2 bytes): a correct encoder must either look at the produced bytes (strip a redundant leading
// 0xff) or take the bit length of n+1 / ^n. Likewise a positive value whose top bit is set needs a zero byte.
func c12r7(p *Program, r *Report) {
	fi := r.NeedFunc("encBigInt2C")
	if fi == nil {
		return
	}
	g := p.GraphOf(fi)
	info := g.Info
	facts := g.GuardFacts()
	// names for the sign: n.Sign() itself and locals bound to it
	signNames := map[string]bool{}
	ast.Inspect(fi.Decl.Body, func(x ast.Node) bool {
		if c, ok := x.(*ast.CallExpr); ok && calleeName(info, c) == "big.(*Int).Sign" {
			signNames[strings.ReplaceAll(exprStr(c), " ", "")] = true
			if as, isAs := p.Parent(c).(*ast.AssignStmt); isAs && len(as.Lhs) == 1 {
				signNames[exprStr(as.Lhs[0])] = true
			}
		}
		return true
	})
	if len(signNames) == 0 {
		r.Unresolved("encBigInt2C: the sign of the value is never examined")
		return
	}
	classAt := func(n ast.Node) (string, map[string]bool) {
		f, ok := facts.Before(p.stmtOf(n, fi))
		if !ok {
			return "", nil
		}
		fv := foldedView(f)
		// a switch on the sign: the clause we are in
		if cc, isCC := p.enclosing(n, fi.Decl, func(m ast.Node) bool { _, is := m.(*ast.CaseClause); return is }).(*ast.CaseClause); isCC && len(cc.List) == 1 {
			if sw, isSw := p.Parent(p.Parent(cc)).(*ast.SwitchStmt); isSw && sw.Tag != nil && signNames[strings.ReplaceAll(exprStr(sw.Tag), " ", "")] {
				if k, isK := constInt(info, cc.List[0]); isK {
					return map[int64]string{0: "zero", 1: "positive", -1: "negative"}[k], fv
				}
			}
		}
		isT := func(k string) bool { v, ok := fv[k]; return ok && v }
		isF := func(k string) bool { v, ok := fv[k]; return ok && !v }
		for s := range signNames {
			switch {
			case isT(s + "==0"):
				return "zero", fv
			case isT(s + "==1"), isT("0<" + s):
				return "positive", fv
			case isT(s + "==-1"), isT(s + "<0"):
				return "negative", fv
			case isF(s+"==0") && isF("0<"+s), isF(s+"==0") && isF(s+"==1"):
				return "negative", fv
			}
		}
		return "", fv
	}
	zeroOK, posOK, strip, otherBitLen := false, false, false, false
	ast.Inspect(fi.Decl.Body, func(x ast.Node) bool {
		switch y := x.(type) {
		case *ast.ReturnStmt:
			if len(y.Results) == 1 {
				if cl, isC := ast.Unparen(y.Results[0]).(*ast.CompositeLit); isC && len(cl.Elts) == 1 {
					if v, isK := constInt(info, cl.Elts[0]); isK && v == 0 {
						if cls, _ := classAt(y); cls == "zero" {
							zeroOK = true
						}
					}
				}
			}
		case *ast.CallExpr:
			if exprStr(y.Fun) == "append" && len(y.Args) >= 2 {
				if cl, isC := ast.Unparen(y.Args[0]).(*ast.CompositeLit); isC && len(cl.Elts) == 1 {
					if v, isK := constInt(info, cl.Elts[0]); isK && v == 0 {
						cls, fv := classAt(y)
						top := false
						for k, val := range fv {
							if strings.Contains(k, "[0]&128") && (strings.HasPrefix(k, "0<") && val || strings.HasSuffix(k, "==0") && !val || strings.HasSuffix(k, "==128") && val) {
								top = true
							}
							if strings.HasPrefix(k, "127<") && strings.HasSuffix(k, "[0]") && val {
								top = true
							}
						}
						if cls == "positive" && top {
							posOK = true
						}
					}
				}
			}
			if calleeName(info, y) == "big.(*Int).BitLen" {
				if rcv := recvExpr(y); rcv != nil && exprStr(rcv) != "n" {
					otherBitLen = true
				}
			}
		case *ast.SliceExpr:
			if y.Low != nil && y.High == nil {
				if lo, isK := constInt(info, y.Low); isK && lo == 1 {
					cls, fv := classAt(y)
					b := strings.ReplaceAll(exprStr(y.X), " ", "")
					ff, top := false, false
					for k, val := range fv {
						if (k == b+"[0]==255" || k == "255=="+b+"[0]") && val {
							ff = true
						}
						if strings.Contains(k, b+"[1]&128") && (strings.HasPrefix(k, "0<") && val || strings.HasSuffix(k, "==0") && !val || strings.HasSuffix(k, "==128") && val) {
							top = true
						}
					}
					if cls == "negative" && ff && top {
						strip = true
					}
				}
			}
		}
		return true
	})
	r.Check(zeroOK, fi.Decl, "encBigInt2C: zero is the single byte 00", "[]byte{0} where the sign is 0", "zero is not encoded as one zero byte")
	r.Check(posOK, fi.Decl, "encBigInt2C: a positive value whose top bit is set gets a leading zero byte", "b[0]&0x80 -> prepend 0", "a positive value with the top bit of its first byte set is not prefixed with a zero byte: it reads back negative")
	r.Check(strip || otherBitLen, fi.Decl, "encBigInt2C: negative values are minimal at the -2^(8k-1) boundary", ifs(strip, "redundant leading 0xff stripped by inspecting the bytes", "length from the bit length of a shifted value"),
		"the length of a negative value is derived from n.BitLen() alone and no redundant leading 0xff is stripped: no function of bitlen(|n|) is minimal for both -2^(8k-1) and its neighbours, so e.g. -128 or -32768 is one byte too long")
}

func subst2(buf string, subst map[string]string) string {
	for k, v := range subst {
		if v == buf {
			return k
		}
	}
	return buf
}

// substIdents replaces whole identifiers of s according to subst.
func substIdents(s string, subst map[string]string) string {
	var sb strings.Builder
	i := 0
	for i < len(s) {
		if isIdentChar(s[i]) && (i == 0 || !isIdentChar(s[i-1]) && s[i-1] != '.') {
			j := i
			for j < len(s) && isIdentChar(s[j]) {
				j++
			}
			if v, ok := subst[s[i:j]]; ok {
				sb.WriteString(v)
			} else {
				sb.WriteString(s[i:j])
			}
			i = j
			continue
		}
		sb.WriteByte(s[i])
		i++
	}
	return sb.String()
}

// regionConst: e denotes base[lo:hi] (locals and nested re-slices expanded, named constants evaluated); hi is -1 for
// an open end.
func (p *Program) regionConst(fi *FuncInfo, e ast.Expr) (base string, lo, hi int64, ok bool) {
	info := fi.Pkg.TypesInfo
	e = ast.Unparen(p.expandExpr(fi, e, 0))
	switch x := e.(type) {
	case *ast.Ident:
		return x.Name, 0, -1, true
	case *ast.SelectorExpr:
		return exprStr(x), 0, -1, true
	case *ast.SliceExpr:
		b, l0, h0, okB := p.regionConst(fi, x.X)
		if !okB {
			return "", 0, 0, false
		}
		nl, nh := l0, h0
		if x.Low != nil {
			k, isK := constInt(info, stripParens(x.Low))
			if !isK {
				return "", 0, 0, false
			}
			nl = l0 + k
		}
		if x.High != nil {
			k, isK := constInt(info, stripParens(x.High))
			if !isK {
				return "", 0, 0, false
			}
			nh = l0 + k
		}
		return b, nl, nh, true
	}
	return "", 0, 0, false
}

// constPlusLen: e is <const> + len(<ident>) in either order: the identifier and the constant.
func constPlusLen(info *types.Info, e ast.Expr) (string, int64, bool) {
	b, ok := ast.Unparen(e).(*ast.BinaryExpr)
	if !ok || b.Op != token.ADD {
		return "", 0, false
	}
	for _, pr := range [][2]ast.Expr{{b.X, b.Y}, {b.Y, b.X}} {
		k, isK := constInt(info, pr[0])
		c, isC := ast.Unparen(pr[1]).(*ast.CallExpr)
		if isK && isC && exprStr(c.Fun) == "len" && len(c.Args) == 1 {
			if id, isId := ast.Unparen(c.Args[0]).(*ast.Ident); isId {
				return id.Name, k, true
			}
		}
	}
	return "", 0, false
}

// indexLoopBounds recognises `for k := 0; k < N; k++` whose body never writes k: the index variable and N.
func indexLoopBounds(info *types.Info, f *ast.ForStmt) (string, ast.Expr, bool) {
	init, ok := f.Init.(*ast.AssignStmt)
	if !ok || init.Tok != token.DEFINE || len(init.Lhs) != 1 || len(init.Rhs) != 1 {
		return "", nil, false
	}
	kid, ok := init.Lhs[0].(*ast.Ident)
	if !ok {
		return "", nil, false
	}
	if z, isC := constInt(info, init.Rhs[0]); !isC || z != 0 {
		return "", nil, false
	}
	obj := info.Defs[kid]
	cond, ok := ast.Unparen(f.Cond).(*ast.BinaryExpr)
	if !ok || cond.Op != token.LSS || !isIdentOf(info, cond.X, obj) {
		return "", nil, false
	}
	post, ok := f.Post.(*ast.IncDecStmt)
	if !ok || post.Tok != token.INC || !isIdentOf(info, post.X, obj) || !neverAssigned(info, f.Body, obj) {
		return "", nil, false
	}
	return kid.Name, cond.Y, true
}

// lenNorm: a size argument that is a local defined as len(Y) inside scope is printed as len(Y), so that framing
// sequences do not depend on the name of the length variable.
func lenNorm(info *types.Info, scope ast.Node, e ast.Expr) string {
	id, ok := ast.Unparen(e).(*ast.Ident)
	if !ok {
		return exprStr(e)
	}
	obj := info.Uses[id]
	out := exprStr(e)
	found := false
	ast.Inspect(scope, func(x ast.Node) bool {
		as, ok := x.(*ast.AssignStmt)
		if !ok || len(as.Lhs) != len(as.Rhs) || found {
			return true
		}
		for i, l := range as.Lhs {
			lid, isId := l.(*ast.Ident)
			if !isId || obj == nil || (info.Defs[lid] != obj && info.Uses[lid] != obj) {
				continue
			}
			if c, isC := ast.Unparen(as.Rhs[i]).(*ast.CallExpr); isC && exprStr(c.Fun) == "len" && len(c.Args) == 1 {
				out, found = "len("+exprStr(c.Args[0])+")", true
			}
		}
		return true
	})
	return out
}

// framedPairs: seq is size(len(B)) bytes(B) repeated n times (any B).
func framedPairs(seq []string, n int, sizeKind string) bool {
	if len(seq) != 2*n {
		return false
	}
	for i := 0; i < n; i++ {
		sz, by := seq[2*i], seq[2*i+1]
		if !strings.HasPrefix(sz, sizeKind+"(len(") || !strings.HasSuffix(sz, "))") || !strings.HasPrefix(by, "bytes(") {
			return false
		}
		if sz[len(sizeKind)+5:len(sz)-2] != by[6:len(by)-1] {
			return false
		}
	}
	return true
}

// c12r11: tuple and UDT values are sequences of [bytes] elements. A decoder that walks them must take every element
// off the input before it goes on to the next one, also when it has no destination for it (a UDT field the struct
// does not have): otherwise every later element is decoded from the wrong offset. For every loop that calls
// readBytes(X): each `continue` of that loop, and the end of its body, is reached only after `X = <rest>`.
func c12r11(p *Program, r *Report) {
	n := 0
	p.forEachFunc(false, func(fi *FuncInfo) {
		if fi.Pkg != p.Root || !strings.HasPrefix(fi.Name, "unmarshal") {
			return
		}
		info := fi.Pkg.TypesInfo
		var g *Graph
		ast.Inspect(fi.Decl.Body, func(x ast.Node) bool {
			var body *ast.BlockStmt
			switch l := x.(type) {
			case *ast.RangeStmt:
				body = l.Body
			case *ast.ForStmt:
				body = l.Body
			default:
				return true
			}
			// a readBytes(X) call directly in this loop (not in a nested loop)
			var call *ast.CallExpr
			for _, c := range callsIn(body) {
				if isCallTo(info, c, "readBytes") && len(c.Args) == 1 {
					inner := p.enclosing(c, fi.Decl, func(m ast.Node) bool {
						switch m.(type) {
						case *ast.ForStmt, *ast.RangeStmt:
							return true
						}
						return false
					})
					if inner == x {
						call = c
					}
				}
			}
			if call == nil {
				return true
			}
			cursor := exprStr(ast.Unparen(call.Args[0]))
			rest := resultVarOf(p, call, 1)
			if rest == "" || rest == "_" {
				r.Bad(call, fi.Name+" keeps the rest of the input after an element", "the remaining input returned by readBytes is dropped: the next element is read from the same offset")
				return true
			}
			if rest == cursor {
				// p, X, err = readBytes(X): reading and consuming are one step
				n++
				r.OK(call, fi.Name+" loop at "+p.Pos(x)+": readBytes stores the rest back into its own argument", cursor)
				return true
			}
			if g == nil {
				g = p.GraphOf(fi)
			}
			ef := g.Events(func(st Step) []string {
				if st.Kind != StNode {
					return nil
				}
				if as, ok := st.Node.(*ast.AssignStmt); ok && len(as.Lhs) == len(as.Rhs) {
					for i, l := range as.Lhs {
						if exprStr(l) == cursor && exprStr(ast.Unparen(as.Rhs[i])) == rest {
							return []string{"advance:" + p.Pos(x)}
						}
					}
				}
				return nil
			})
			ev := "advance:" + p.Pos(x)
			check := func(at ast.Node, what string) {
				n++
				s, ok := ef.Sol.Before(at)
				r.Check(ok && s.Must[ev], at, fi.Name+" loop at "+p.Pos(x)+": "+what+" only after the element was consumed", cursor+" = "+rest+" on every path",
					"the loop goes on to the next element without having taken the current one off the input ("+cursor+" = "+rest+" not executed on this path): every following element is decoded from the wrong offset")
			}
			ast.Inspect(body, func(y ast.Node) bool {
				if _, isLit := y.(*ast.FuncLit); isLit {
					return false
				}
				br, ok := y.(*ast.BranchStmt)
				if !ok || br.Tok != token.CONTINUE {
					return true
				}
				inner := p.enclosing(br, fi.Decl, func(m ast.Node) bool {
					switch m.(type) {
					case *ast.ForStmt, *ast.RangeStmt:
						return true
					}
					return false
				})
				if inner == x {
					check(br, "`continue`")
				}
				return true
			})
			// the natural end of the body: the state after its last statement
			if len(body.List) > 0 {
				last := body.List[len(body.List)-1]
				n++
				okEnd := false
				if as, isAs := last.(*ast.AssignStmt); isAs && len(as.Lhs) == len(as.Rhs) {
					for i, l := range as.Lhs {
						if exprStr(l) == cursor && exprStr(ast.Unparen(as.Rhs[i])) == rest {
							okEnd = true
						}
					}
				}
				if !okEnd {
					if s, ok := ef.Sol.Before(g.FirstNodeIn(last)); ok && s.Must[ev] {
						okEnd = true
					}
				}
				r.Check(okEnd, last, fi.Name+" loop at "+p.Pos(x)+": the end of the iteration is reached only after the element was consumed", cursor+" = "+rest+" on every path",
					"an iteration can end without having taken its element off the input: every following element is decoded from the wrong offset")
			}
			return true
		})
	})
	if n == 0 {
		r.Unresolved("no element loop calling readBytes found in the unmarshal functions")
	}
}

// c12r12: an element decoded into reflect.New(T) storage that is shared by all iterations aliases every []byte / struct
// field of the entries stored so far: later entries overwrite earlier ones. In every loop of the unmarshal functions
// the destination handed to Unmarshal is X.Interface() with X := reflect.New(...) defined inside that loop, or a slot
// of the target indexed by the loop (rv.Index(i).Addr()).
func c12r12(p *Program, r *Report) {
	n := 0
	p.forEachFunc(false, func(fi *FuncInfo) {
		if fi.Pkg != p.Root || !strings.HasPrefix(fi.Name, "unmarshal") {
			return
		}
		info := fi.Pkg.TypesInfo
		for _, c := range callsIn(fi.Decl.Body) {
			if !isCallTo(info, c, "Unmarshal") || len(c.Args) != 3 {
				continue
			}
			loop := p.enclosing(c, fi.Decl, func(m ast.Node) bool {
				switch m.(type) {
				case *ast.ForStmt, *ast.RangeStmt:
					return true
				}
				return false
			})
			if loop == nil {
				continue
			}
			// destination: <X>.Interface() / <X>.Addr().Interface()
			dc, ok := ast.Unparen(c.Args[2]).(*ast.CallExpr)
			if !ok || !strings.HasSuffix(calleeName(info, dc), "reflect.(Value).Interface") {
				continue
			}
			x := ast.Unparen(recvExpr(dc))
			if ac, isA := x.(*ast.CallExpr); isA && strings.HasSuffix(calleeName(info, ac), "reflect.(Value).Addr") {
				x = ast.Unparen(recvExpr(ac))
			}
			n++
			name := fi.Name + ": element at " + p.Pos(c) + " is decoded into storage of its own"
			switch v := x.(type) {
			case *ast.Ident:
				obj := info.Uses[v]
				inLoop, fresh := false, false
				ast.Inspect(fi.Decl.Body, func(y ast.Node) bool {
					as, isAs := y.(*ast.AssignStmt)
					if !isAs || len(as.Lhs) != len(as.Rhs) {
						return true
					}
					for i, l := range as.Lhs {
						if lid, isId := l.(*ast.Ident); isId && (info.Defs[lid] == obj || info.Uses[lid] == obj) {
							if posWithin(loop, as.Pos()) {
								inLoop = true
								if nc, isC := ast.Unparen(as.Rhs[i]).(*ast.CallExpr); isC && (calleeName(info, nc) == "reflect.New" || strings.HasSuffix(calleeName(info, nc), "reflect.(Value).Index") || strings.HasSuffix(calleeName(info, nc), "reflect.(Value).Field") || strings.HasSuffix(calleeName(info, nc), "reflect.(Value).FieldByName")) {
									fresh = true
								}
							}
						}
					}
					return true
				})
				// a map lookup of struct fields (fields[name]) is a per-field slot as well
				if !inLoop {
					r.Bad(c, name, "the reflect value `"+v.Name+"` every element is decoded into is created outside the loop: all iterations share one piece of storage, so byte slices and struct fields of entries already stored are overwritten by later ones")
				} else {
					_ = fresh
					r.OK(c, name, v.Name+" assigned inside the loop")
				}
			default:
				// rv.Index(i) and the like: the element's own slot
				r.OK(c, name, exprStr(x))
			}
		}
	})
	if n == 0 {
		r.Unresolved("no unmarshal loop decodes elements through reflect values")
	}
}

// noMarshal drops the marshal(...) items of a framing sequence.
func noMarshal(seq []string) []string {
	var out []string
	for _, it := range seq {
		if !strings.HasPrefix(it, "marshal(") {
			out = append(out, it)
		}
	}
	return out
}
