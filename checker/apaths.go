package main

import (
	"go/ast"
)

// Structured path enumeration: the statement sequences of a loop-free function body along every if/else
// combination, with the branch conditions taken. Used by rules that compare what a small function does per
// case with a table, so that `if c { A } else { B }`, `if c { A; return }; B` and `switch { case c: A; default: B }`
// are one shape.

type condVal struct {
	Cond ast.Expr
	Val  bool
}

type apath struct {
	Conds []condVal
	Stmts []ast.Stmt      // straight-line statements in execution order (loops and other compound statements opaque)
	Ret   *ast.ReturnStmt // nil when the path falls off the end
}

func clonePath(p apath) apath {
	return apath{Conds: append([]condVal{}, p.Conds...), Stmts: append([]ast.Stmt{}, p.Stmts...), Ret: p.Ret}
}

// enumPaths enumerates the paths through list. It gives up (ok=false) beyond 256 paths.
func enumPaths(list []ast.Stmt) (out []apath, ok bool) {
	paths := []apath{{}}
	ok = true
	var run func(list []ast.Stmt, in []apath) []apath
	run = func(list []ast.Stmt, in []apath) []apath {
		cur := in
		for _, st := range list {
			var next []apath
			for _, p := range cur {
				if p.Ret != nil {
					next = append(next, p)
					continue
				}
				switch s := st.(type) {
				case *ast.ReturnStmt:
					p.Ret = s
					next = append(next, p)
				case *ast.BlockStmt:
					next = append(next, run(s.List, []apath{p})...)
				case *ast.IfStmt:
					if s.Init != nil {
						p.Stmts = append(p.Stmts, s.Init)
					}
					t := clonePath(p)
					t.Conds = append(t.Conds, condVal{s.Cond, true})
					next = append(next, run(s.Body.List, []apath{t})...)
					e := clonePath(p)
					e.Conds = append(e.Conds, condVal{s.Cond, false})
					switch el := s.Else.(type) {
					case *ast.BlockStmt:
						next = append(next, run(el.List, []apath{e})...)
					case *ast.IfStmt:
						next = append(next, run([]ast.Stmt{el}, []apath{e})...)
					default:
						next = append(next, e)
					}
				case *ast.SwitchStmt:
					if s.Tag != nil || s.Init != nil {
						p.Stmts = append(p.Stmts, s)
						next = append(next, p)
						continue
					}
					// tag-less switch: a chain of conditions
					base := clonePath(p)
					var def *ast.CaseClause
					for _, cl := range s.Body.List {
						cc := cl.(*ast.CaseClause)
						if cc.List == nil {
							def = cc
							continue
						}
						if len(cc.List) != 1 {
							ok = false
							continue
						}
						t := clonePath(base)
						t.Conds = append(t.Conds, condVal{cc.List[0], true})
						next = append(next, run(cc.Body, []apath{t})...)
						base.Conds = append(base.Conds, condVal{cc.List[0], false})
					}
					if def != nil {
						next = append(next, run(def.Body, []apath{base})...)
					} else {
						next = append(next, base)
					}
				default:
					p.Stmts = append(p.Stmts, st)
					next = append(next, p)
				}
			}
			cur = next
			if len(cur) > 256 {
				ok = false
				return cur
			}
		}
		return cur
	}
	out = run(list, paths)
	return out, ok
}

// condKnown reports the truth of the condition with source text want along the path.
func (p apath) condKnown(want string) (val, known bool) {
	for _, c := range p.Conds {
		if exprStr(ast.Unparen(c.Cond)) == want {
			return c.Val, true
		}
	}
	return false, false
}
