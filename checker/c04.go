package main

import (
	"fmt"
	"go/ast"
	"go/token"
	"go/types"
	"sort"
	"strings"
)

func init() {
	register(&PropertySpec{
		ID: "C04",
		Explanation: "Structural necessary conditions of 'well-formed responses are decoded to exactly what the server said', decided by the same path-sensitive interpretation as C03 applied to the readers: R1 the opcode, result-kind, event-type and schema-change-target dispatches cover exactly the specification's values and reject the rest; R2 every declared error code has the specification's value and a case; " +
			"R3 for every error code, response kind, metadata flag combination and protocol version the sequence of read primitives equals the body layout of the specification (header prefixes tracing -> warnings -> payload each under its own flag; metadata: flags, count, v4 pk indexes, paging state iff has_more_pages, stop iff no_metadata, global spec iff flag, then columns); R4 [option] ids equal the specification's and each type reads its parameters and returns the matching Go type; R5 reader primitives are big-endian of the right width and agree with the writers; R6 with skip-metadata the rows are decoded with the prepared statement's whole result metadata and the response's paging state." +
			" R7 every value a parser reads from the frame is stored into the result it returns, never into the per-iteration copy of a range statement; R8 row scanning hands scanColumn the destinations from the running position that is advanced by the count it returns (a tuple column fills several destinations)." +
			" R9 = C18.R3 (a received body is decompressed exactly when the header just read says so); R10 scanColumn hands every cell, null ones included, to Unmarshal unless the caller left the destination nil.",
		NotDecided: "cell-level equality through Scan/MapScan/SliceMap for all values; that decoding consumes the body exactly (the code has no trailing-bytes check); decompression.",
		Rules: []*Rule{
			{ID: "C04.R1", Floor: 20, Doc: "dispatch exhaustiveness: response opcodes, result kinds, event types, schema-change targets", Run: c04r1},
			{ID: "C04.R2", Floor: 20, Doc: "ErrCode* constants have the specification's values and a case in parseErrorFrame", Run: c04r2},
			{ID: "C04.R3", Floor: 60, Doc: "read primitive sequences equal the specification's body layouts for every version / code / flag combination", Run: c04r3},
			{ID: "C04.R4", Floor: 25, Doc: "[option] ids and type-parameter reads", Run: c04r4},
			{ID: "C04.R5", Floor: 8, Doc: "reader primitives: big-endian widths, length prefixes", Run: c04r5},
			{ID: "C04.R6", Floor: 2, Doc: "skip-metadata uses the prepared statement's result metadata and the response's paging state", Run: c04r6},
			{ID: "C04.R7", Floor: 10, Doc: "what a parser reads from the frame is stored into the value it returns, never into a per-iteration copy of an element", Run: c04r7},
			{ID: "C04.R8", Floor: 2, Doc: "row scanning: the destinations handed to scanColumn start at the running count of destinations already filled (a tuple column fills several)", Run: c04r8},
			{ID: "C04.R9", Floor: 2, Doc: "a received body is decompressed exactly when the header that was just read says so (=C18.R3)", Run: c18r3},
			{ID: "C04.R13", Floor: 2, Doc: "every loop that takes the cells of a row with readColumn runs once per column of the metadata (range over the columns, or the length of a buffer made with len(columns))", Run: c04CellsPerRow},
			{ID: "C04.R14", Floor: 1, Doc: "a slice that is grown with append is not made with a non-zero length first (module-wide; make([]T, n) then append keeps n zero entries in front)", Run: appendAfterSizedMake},
			{ID: "C04.R15", Floor: 1, Doc: "a decoded list or set owns fresh storage: unmarshal functions size a slice destination only with a new reflect.MakeSlice, never by re-slicing the destination (SetLen / SetCap)", Run: c04FreshList},
			{ID: "C04.R12", Floor: 1, Doc: "after the scanner moved to the next page nothing is read through a copy of the old page's iterator (=C15.R8)", Run: c04r12},
			{ID: "C04.R11", Floor: 1, Doc: "(*RowData).rowMap stores a copy of every slice-valued cell: the scan destinations are reused for the next row", Run: c04r11},
			{ID: "C04.R10", Floor: 3, Doc: "scanColumn hands every cell, null ones included, to Unmarshal unless the caller passed a nil destination", Run: c04r10},
		},
	})
}

var specResponseOps = map[string]int64{"opError": 0x00, "opReady": 0x02, "opAuthenticate": 0x03, "opSupported": 0x06, "opResult": 0x08, "opEvent": 0x0C, "opAuthChallenge": 0x0E, "opAuthSuccess": 0x10}

var specErrCodes = map[string]int64{
	"ErrCodeServer": 0x0000, "ErrCodeProtocol": 0x000A, "ErrCodeCredentials": 0x0100, "ErrCodeUnavailable": 0x1000, "ErrCodeOverloaded": 0x1001,
	"ErrCodeBootstrapping": 0x1002, "ErrCodeTruncate": 0x1003, "ErrCodeWriteTimeout": 0x1100, "ErrCodeReadTimeout": 0x1200, "ErrCodeReadFailure": 0x1300,
	"ErrCodeFunctionFailure": 0x1400, "ErrCodeWriteFailure": 0x1500, "ErrCodeCDCWriteFailure": 0x1600, "ErrCodeCASWriteUnknown": 0x1700,
	"ErrCodeSyntax": 0x2000, "ErrCodeUnauthorized": 0x2100, "ErrCodeInvalid": 0x2200, "ErrCodeConfig": 0x2300, "ErrCodeAlreadyExists": 0x2400, "ErrCodeUnprepared": 0x2500,
}

// body layouts after [int] code [string] message; "FAIL" = ([int] numfailures | v5: [int] n loop{[inetaddr][short]})
var specErrBodies = map[string][]string{
	"ErrCodeUnavailable":     {"[consistency]", "[int]", "[int]"},
	"ErrCodeWriteTimeout":    {"[consistency]", "[int]", "[int]", "[string]"},
	"ErrCodeReadTimeout":     {"[consistency]", "[int]", "[int]", "[byte]"},
	"ErrCodeReadFailure":     {"[consistency]", "[int]", "[int]", "FAIL", "[byte]"},
	"ErrCodeWriteFailure":    {"[consistency]", "[int]", "[int]", "FAIL", "[string]"},
	"ErrCodeFunctionFailure": {"[string]", "[string]", "[string list]"},
	"ErrCodeAlreadyExists":   {"[string]", "[string]"},
	"ErrCodeUnprepared":      {"[short bytes]"},
	"ErrCodeCASWriteUnknown": {"[consistency]", "[int]", "[int]"},
}

var specOptionIDs = map[string]int64{
	"TypeCustom": 0x0000, "TypeAscii": 0x0001, "TypeBigInt": 0x0002, "TypeBlob": 0x0003, "TypeBoolean": 0x0004, "TypeCounter": 0x0005, "TypeDecimal": 0x0006,
	"TypeDouble": 0x0007, "TypeFloat": 0x0008, "TypeInt": 0x0009, "TypeText": 0x000A, "TypeTimestamp": 0x000B, "TypeUUID": 0x000C, "TypeVarchar": 0x000D,
	"TypeVarint": 0x000E, "TypeTimeUUID": 0x000F, "TypeInet": 0x0010, "TypeDate": 0x0011, "TypeTime": 0x0012, "TypeSmallInt": 0x0013, "TypeTinyInt": 0x0014,
	"TypeDuration": 0x0015, "TypeList": 0x0020, "TypeMap": 0x0021, "TypeSet": 0x0022, "TypeUDT": 0x0030, "TypeTuple": 0x0031,
}

func newReadTracer(p *Program, inline ...string) *tracer {
	tr := &tracer{p: p, prims: readPrims, maxPaths: 40000, inline: map[string]bool{}}
	for _, n := range inline {
		tr.inline[n] = true
	}
	return tr
}

// switchCases returns the case labels (constant names) of the first switch in fn whose tag text has the suffix.
func switchCases(p *Program, fi *FuncInfo, tagSuffix string) (labels map[string]ast.Node, def *ast.CaseClause, sw *ast.SwitchStmt) {
	labels = map[string]ast.Node{}
	ast.Inspect(fi.Decl.Body, func(x ast.Node) bool {
		s, ok := x.(*ast.SwitchStmt)
		if !ok || s.Tag == nil || sw != nil || !strings.HasSuffix(exprStr(s.Tag), tagSuffix) {
			return true
		}
		sw = s
		for _, cl := range s.Body.List {
			cc := cl.(*ast.CaseClause)
			if cc.List == nil {
				def = cc
				continue
			}
			for _, e := range cc.List {
				labels[exprStr(e)] = cc
			}
		}
		return false
	})
	return
}

func clauseRejects(p *Program, info *types.Info, cc *ast.CaseClause) bool {
	if cc == nil {
		return false
	}
	rej := false
	for _, st := range cc.Body {
		ast.Inspect(st, func(m ast.Node) bool {
			if c, ok := m.(*ast.CallExpr); ok {
				n := calleeName(info, c)
				if n == "builtin.panic" || n == "NewErrProtocol" || n == "fmt.Errorf" {
					rej = true
				}
			}
			return true
		})
	}
	return rej
}

// dispatchPaths interprets fn and groups its paths by what they allow the dispatch subject (an expression whose
// text ends with subjSuffix) to be. Both a switch on the subject and ==/!= chains are understood; targets are the
// callees whose invocation identifies the branch taken.
type dispatchPath struct {
	labels   []string // constants the subject equals on this path (nil: none of the tested ones)
	calls    []string // target callees invoked
	rejected bool     // the path raises / returns an error
	st       *pathState
}

func dispatchPaths(p *Program, fi *FuncInfo, version int, subjSuffix string, targets []string) ([]dispatchPath, []string) {
	tr := newReadTracer(p)
	tr.prims = map[string]string{}
	isTarget := map[string]bool{}
	for _, t := range targets {
		tr.prims[t] = t
		isTarget[t] = true
	}
	tr.noAuto = func(name string) bool { return isTarget[name] || strings.HasPrefix(name, "(*framer).parse") }
	info := fi.Pkg.TypesInfo
	var out []dispatchPath
	for _, st := range tr.run(fi, version) {
		dp := dispatchPath{st: st}
		if names, ok := st.selected(subjSuffix); ok {
			dp.labels = names
		}
		for _, it := range flat(st.trace) {
			if isTarget[it.Prim] {
				dp.calls = append(dp.calls, it.Prim)
			}
			if it.Prim == "return-error" || it.Prim == "panic" {
				dp.rejected = true
			}
		}
		if st.done == "panic" {
			dp.rejected = true
		}
		if st.retStmt != nil && len(st.retStmt.Results) > 0 {
			last := ast.Unparen(p.expandExpr(fi, st.retStmt.Results[len(st.retStmt.Results)-1], 0))
			for {
				pe, ok := last.(*ast.ParenExpr)
				if !ok {
					break
				}
				last = ast.Unparen(pe.X)
			}
			if c, ok := last.(*ast.CallExpr); ok {
				switch calleeName(info, c) {
				case "fmt.Errorf", "errors.New", "NewErrProtocol":
					dp.rejected = true
				}
			}
			// an error variable that holds a freshly made error on this path (single exit)
			if id, ok := last.(*ast.Ident); ok && isErrorType(info.TypeOf(id)) && st.known[id.Name] && st.store[id.Name] != 0 {
				dp.rejected = true
			}
		}
		out = append(out, dp)
	}
	return out, tr.unsup
}

func c04r1(p *Program, r *Report) {
	constVal := func(name string, want int64) bool {
		if c, ok := p.Root.Types.Scope().Lookup(name).(*types.Const); ok {
			if v, ok := constValInt(c); ok && v == want {
				return true
			}
		}
		return false
	}
	// covered: some path restricts the subject to a set containing label and (when a target is given) calls exactly it
	covered := func(paths []dispatchPath, label, target string) (bool, string) {
		found, rejectedOnly := false, false
		for _, dp := range paths {
			has := false
			for _, l := range dp.labels {
				if l == label {
					has = true
				}
			}
			if !has {
				continue
			}
			if dp.rejected {
				// malformed contents are refused inside the branch; what matters is that a successful path exists
				rejectedOnly = true
				continue
			}
			found = true
			if target != "" && !(len(dp.calls) == 1 && dp.calls[0] == target) {
				return false, fmt.Sprintf("is handed to %v instead of %s", dp.calls, target)
			}
			if target == "" && len(dp.calls) != 0 {
				return false, fmt.Sprintf("is handed to %v", dp.calls)
			}
		}
		if !found {
			return false, ifs(rejectedOnly, "is rejected", "has no branch")
		}
		return true, ""
	}
	restRejected := func(paths []dispatchPath) bool {
		n := 0
		for _, dp := range paths {
			if dp.labels == nil {
				n++
				if !dp.rejected {
					return false
				}
			}
		}
		return n > 0
	}
	if fi := r.NeedFunc("(*framer).parseFrame"); fi != nil {
		parsers := map[string]string{"opError": "(*framer).parseErrorFrame", "opReady": "(*framer).parseReadyFrame", "opAuthenticate": "(*framer).parseAuthenticateFrame", "opSupported": "(*framer).parseSupportedFrame",
			"opResult": "(*framer).parseResultFrame", "opEvent": "(*framer).parseEventFrame", "opAuthChallenge": "(*framer).parseAuthChallengeFrame", "opAuthSuccess": "(*framer).parseAuthSuccessFrame"}
		var targets []string
		for _, t := range parsers {
			targets = append(targets, t)
		}
		sort.Strings(targets)
		paths, unsup := dispatchPaths(p, fi, 4, "header.op", targets)
		// only response frames are dispatched
		var resp []dispatchPath
		for _, dp := range paths {
			if dp.st.assume["f.header.version.request()"] {
				continue
			}
			if v, ok := dp.st.assume["bit:f.header.version:0x80"]; ok && !v {
				continue
			}
			resp = append(resp, dp)
		}
		dispatched := false
		for _, dp := range resp {
			if dp.labels != nil {
				dispatched = true
			}
		}
		if !dispatched {
			r.Unresolved("parseFrame: no dispatch on the header opcode (%s)", strings.Join(unsup, "; "))
		} else {
			for op, want := range specResponseOps {
				ok, why := covered(resp, op, parsers[op])
				r.Check(ok && constVal(op, want), fi.Decl, "(*framer).parseFrame dispatches "+op, fmt.Sprintf("branch present, value 0x%02X, parsed by %s", want, parsers[op]),
					"response opcode "+op+fmt.Sprintf(" (0x%02X) ", want)+ifs(ok, "has a different value than the specification", why+" in parseFrame"))
			}
			for _, dp := range resp {
				for _, l := range dp.labels {
					if _, ok := specResponseOps[l]; !ok && !dp.rejected {
						r.Bad(fi.Decl, "(*framer).parseFrame dispatches only response opcodes", l+" is not a response opcode of the specification")
					}
				}
			}
			r.Check(restRejected(resp), fi.Decl, "(*framer).parseFrame rejects unknown opcodes", "every other opcode ends in an error", "an unknown opcode is not rejected")
		}
	}
	if fi := r.NeedFunc("(*framer).parseResultFrame"); fi != nil {
		want := map[string]int64{"resultKindVoid": 1, "resultKindRows": 2, "resultKindKeyspace": 3, "resultKindPrepared": 4, "resultKindSchemaChanged": 5}
		parsers := map[string]string{"resultKindVoid": "", "resultKindRows": "(*framer).parseResultRows", "resultKindKeyspace": "(*framer).parseResultSetKeyspace", "resultKindPrepared": "(*framer).parseResultPrepared", "resultKindSchemaChanged": "(*framer).parseResultSchemaChange"}
		var targets []string
		for _, t := range parsers {
			if t != "" {
				targets = append(targets, t)
			}
		}
		sort.Strings(targets)
		paths, _ := dispatchPaths(p, fi, 4, "kind", targets)
		for nme, v := range want {
			ok, why := covered(paths, nme, parsers[nme])
			r.Check(ok && constVal(nme, v), fi.Decl, "(*framer).parseResultFrame handles "+nme, fmt.Sprintf("kind %d", v), "RESULT kind "+nme+fmt.Sprintf(" (%d) ", v)+ifs(ok, "has another value than the specification", why))
		}
		r.Check(restRejected(paths), fi.Decl, "(*framer).parseResultFrame rejects unknown kinds", "error returned", "an unknown RESULT kind is not rejected")
	}
	strCases := func(name, subj string, version int, want []string) {
		fi := r.NeedFunc(name)
		if fi == nil {
			return
		}
		paths, _ := dispatchPaths(p, fi, version, subj, nil)
		for _, w := range want {
			ok, _ := covered(paths, `"`+w+`"`, "")
			r.Check(ok, fi.Decl, name+" handles "+w, "branch present", name+" has no branch for "+w+" (or rejects it)")
		}
		r.Check(restRejected(paths), fi.Decl, name+" rejects unknown values", "every other value raises an error", name+" does not reject unknown values")
	}
	strCases("(*framer).parseEventFrame", "eventType", 4, []string{"TOPOLOGY_CHANGE", "STATUS_CHANGE", "SCHEMA_CHANGE"})
	strCases("(*framer).parseResultSchemaChange", "target", 4, []string{"KEYSPACE", "TABLE", "TYPE", "FUNCTION", "AGGREGATE"})
}

func constValInt(c *types.Const) (int64, bool) {
	s := c.Val().ExactString()
	var v int64
	if _, err := fmt.Sscan(s, &v); err == nil {
		return v, true
	}
	return 0, false
}

func c04r2(p *Program, r *Report) {
	fi := r.NeedFunc("(*framer).parseErrorFrame")
	if fi == nil {
		return
	}
	paths, _ := dispatchPaths(p, fi, 4, "code", nil)
	labels := map[string]bool{}
	for _, dp := range paths {
		for _, l := range dp.labels {
			labels[l] = true
		}
	}
	if len(labels) == 0 {
		r.Unresolved("parseErrorFrame: no dispatch on the error code")
		return
	}
	var sw ast.Node = fi.Decl
	scope := p.Root.Types.Scope()
	declared := 0
	for _, nme := range scope.Names() {
		if !strings.HasPrefix(nme, "ErrCode") {
			continue
		}
		c, ok := scope.Lookup(nme).(*types.Const)
		if !ok {
			continue
		}
		declared++
		v, _ := constValInt(c)
		want, known := specErrCodes[nme]
		r.Check(known && v == want && labels[nme], sw, "error code "+nme, fmt.Sprintf("0x%04X, has a case", v),
			fmt.Sprintf("error code %s = 0x%04X: %s", nme, v, ifs(!known, "not an error code of the specification", ifs(v != want, fmt.Sprintf("the specification says 0x%04X", want), "no case in parseErrorFrame: the server's error is reported as 'unknown error code'"))))
	}
	for nme := range specErrCodes {
		if scope.Lookup(nme) == nil {
			r.Bad(sw, "error code "+nme+" declared", "the specification's error code "+nme+" is not declared")
		}
	}
	_ = declared
}

func c04r3(p *Program, r *Report) {
	// (a) header prefixes in parseFrame: [uuid] iff 0x02, [string list] iff 0x08, [bytes map] iff 0x04, in this order
	if fi := r.NeedFunc("(*framer).parseFrame"); fi != nil {
		tr := newReadTracer(p, "(*framer).readTrace")
		// the per-opcode body parsers dispatched at the end of parseFrame are separate layouts
		tr.noAuto = func(name string) bool { return strings.HasPrefix(name, "(*framer).parse") }
		tr.prims = map[string]string{"(*framer).readUUID": "[uuid]", "(*framer).readStringList": "[string list]", "(*framer).readBytesMap": "[bytes map]"}
		n, bad := 0, 0
		for _, st := range tr.run(fi, 4) {
			if st.assume["f.header.version.request()"] {
				continue
			}
			if v, ok := st.assume["bit:f.header.version:0x80"]; ok && !v {
				continue // a frame with the request direction is refused before anything else is read
			}
			got := notations(flat(st.trace))
			var gotP []string
			for _, g := range got {
				if g == "[uuid]" || g == "[string list]" || g == "[bytes map]" {
					gotP = append(gotP, g)
				}
			}
			n++
			var want []string
			mismatch := false
			for _, bits := range bitCompletions(st, []string{"0x2", "0x8", "0x4"}, "header.flags") {
				want = nil
				if bits["0x2"] {
					want = append(want, "[uuid]")
				}
				if bits["0x8"] {
					want = append(want, "[string list]")
				}
				if bits["0x4"] {
					want = append(want, "[bytes map]")
				}
				if strings.Join(gotP, " ") != strings.Join(want, " ") {
					mismatch = true
					break
				}
			}
			if mismatch {
				bad++
				if bad <= 2 {
					r.Bad(fi.Decl, "(*framer).parseFrame header prefixes", fmt.Sprintf("on path [%s] the prefixes read are `%s`, the specification's order for these header flags is `%s` (tracing id, warnings, custom payload)", assumeStr(st), strings.Join(gotP, " "), strings.Join(want, " ")))
				}
			}
		}
		if bad == 0 && n > 0 {
			r.Census[r.cur.ID] += n - 1
			r.OK(fi.Decl, "(*framer).parseFrame header prefixes", fmt.Sprintf("%d flag combinations: tracing id, warnings, custom payload each under its own flag, in the specification's order", n))
		}
		if n == 0 {
			r.Unresolved("parseFrame: no paths")
		}
	}
	// (b) error bodies
	if fi := r.NeedFunc("(*framer).parseErrorFrame"); fi != nil {
		nOK, bad := 0, 0
		seen := map[string]bool{}
		for v := 1; v <= 5; v++ {
			tr := newReadTracer(p, "(*framer).readErrorMap")
			for _, st := range tr.run(fi, v) {
				ft := flat(st.trace)
				// find the chosen case
				code := ""
				var body []TraceItem
				for i, it := range ft {
					if it.Prim == "case" {
						code = it.Arg
						body = ft[i+1:]
						break
					}
				}
				if code == "" || code == "default" || code == "none" {
					continue
				}
				pre := notations(ft[:2])
				if strings.Join(pre, " ") != "[int] [string]" {
					bad++
					r.Bad(fi.Decl, "(*framer).parseErrorFrame prefix", "the ERROR body does not start with [int] code [string] message: "+strings.Join(pre, " "))
					continue
				}
				for _, lbl := range strings.Split(code, ",") {
					name := strings.SplitN(lbl, "=", 2)[0]
					want, special := specErrBodies[name]
					var exp []string
					if special {
						for _, w := range want {
							if w == "FAIL" {
								if v >= 5 {
									exp = append(exp, "[int]", "loop{[inetaddr] [short]}")
								} else {
									exp = append(exp, "[int]")
								}
							} else {
								exp = append(exp, w)
							}
						}
					}
					got := notations(body)
					seen[name] = true
					if strings.Join(got, " ") != strings.Join(exp, " ") {
						bad++
						if bad <= 4 {
							r.Bad(fi.Decl, fmt.Sprintf("(*framer).parseErrorFrame %s v%d body", name, v), fmt.Sprintf("on path [%s] the fields read after code and message are `%s`; the specification's layout for %s in protocol v%d is `%s`", assumeStr(st), strings.Join(got, " "), name, v, strings.Join(exp, " ")))
						}
					} else {
						nOK++
					}
				}
			}
			if len(tr.unsup) > 0 {
				r.Unresolved("parseErrorFrame: %s", strings.Join(tr.unsup, "; "))
			}
		}
		if bad == 0 {
			r.Census[r.cur.ID] += nOK - 1
			r.OK(fi.Decl, "(*framer).parseErrorFrame bodies", fmt.Sprintf("%d (code, version, path) combinations match the specification's layouts", nOK))
		}
		for name := range specErrCodes {
			if !seen[name] {
				r.Bad(fi.Decl, "(*framer).parseErrorFrame traces "+name, "no path of parseErrorFrame selects "+name)
			}
		}
	}
	// (c) simple bodies
	for _, m := range []struct {
		fn   string
		want func(v int) []string
	}{
		{"(*framer).parseSupportedFrame", func(int) []string { return []string{"[string multimap]"} }},
		{"(*framer).parseAuthenticateFrame", func(int) []string { return []string{"[string]"} }},
		{"(*framer).parseAuthChallengeFrame", func(int) []string { return []string{"[bytes]"} }},
		{"(*framer).parseAuthSuccessFrame", func(int) []string { return []string{"[bytes]"} }},
		{"(*framer).parseReadyFrame", func(int) []string { return nil }},
		{"(*framer).parseResultSetKeyspace", func(int) []string { return []string{"[string]"} }},
	} {
		fi := r.NeedFunc(m.fn)
		if fi == nil {
			continue
		}
		tr := newReadTracer(p)
		okAll := true
		for v := 1; v <= 5; v++ {
			for _, st := range tr.run(fi, v) {
				got := notations(flat(st.trace))
				if strings.Join(got, " ") != strings.Join(m.want(v), " ") {
					okAll = false
					r.Bad(fi.Decl, m.fn+" body", fmt.Sprintf("reads `%s`, the specification's body is `%s`", strings.Join(got, " "), strings.Join(m.want(v), " ")))
				}
			}
		}
		if okAll {
			r.OK(fi.Decl, m.fn+" body", strings.Join(m.want(4), " "))
		}
	}
	// (d) metadata
	metaSpec := func(v int, bits map[string]bool, prepared bool) []string {
		bit := func(mask string) bool { return bits[mask] }
		out := []string{"[int]", "[int]"}
		if prepared && v >= 4 {
			out = append(out, "[int]", "loop{[short]}")
		}
		if bit("0x2") {
			out = append(out, "[bytes]")
		}
		if bit("0x4") {
			return out
		}
		col := "[string] [option]"
		if bit("0x1") {
			out = append(out, "[string]", "[string]")
		} else {
			col = "[string] [string] [string] [option]"
		}
		out = append(out, "loop{"+col+"}")
		return out
	}
	for _, m := range []struct {
		fn       string
		prepared bool
	}{{"(*framer).parseResultMetadata", false}, {"(*framer).parsePreparedMetadata", true}} {
		fi := r.NeedFunc(m.fn)
		if fi == nil {
			continue
		}
		n, bad := 0, 0
		for v := 1; v <= 5; v++ {
			tr := newReadTracer(p, "(*framer).readCol")
			for _, st := range tr.run(fi, v) {
				if st.done == "panic" {
					continue
				}
				n++
				got := notations(flat(st.trace))
				// a flag bit the path never tested can have either value: the layout read must be right for both
				for _, bits := range bitCompletions(st, []string{"0x1", "0x2", "0x4"}, "flags") {
					want := metaSpec(v, bits, m.prepared)
					if strings.Join(got, " ") != strings.Join(want, " ") {
						bad++
						if bad <= 3 {
							r.Bad(fi.Decl, fmt.Sprintf("%s v%d layout", m.fn, v), fmt.Sprintf("on path [%s] with flag bits %s reads `%s`; the specification's metadata layout for these flags is `%s`", assumeStr(st), bitsStr(bits), strings.Join(got, " "), strings.Join(want, " ")))
						}
						break
					}
				}
			}
			if len(tr.unsup) > 0 {
				r.Unresolved("%s: %s", m.fn, strings.Join(tr.unsup, "; "))
			}
		}
		if bad == 0 && n > 0 {
			r.Census[r.cur.ID] += n - 1
			r.OK(fi.Decl, m.fn+" layout", fmt.Sprintf("%d (version, flag combination) paths match the specification", n))
		}
	}
	// (e) result rows / prepared / schema change / event
	check := func(fn string, inline []string, want func(v int, st *pathState) ([]string, bool)) {
		fi := r.NeedFunc(fn)
		if fi == nil {
			return
		}
		n, bad := 0, 0
		for v := 1; v <= 5; v++ {
			tr := newReadTracer(p, inline...)
			for _, st := range tr.run(fi, v) {
				if st.done == "panic" {
					continue
				}
				exp, ok := want(v, st)
				if !ok {
					continue
				}
				n++
				var got []string
				for _, g := range notations(flat(st.trace)) {
					got = append(got, g)
				}
				if strings.Join(got, " ") != strings.Join(exp, " ") {
					bad++
					if bad <= 3 {
						r.Bad(fi.Decl, fmt.Sprintf("%s v%d layout", fn, v), fmt.Sprintf("on path [%s] reads `%s`; the specification's layout is `%s`", assumeStr(st), strings.Join(got, " "), strings.Join(exp, " ")))
					}
				}
			}
		}
		if bad == 0 && n > 0 {
			r.Census[r.cur.ID] += n - 1
			r.OK(fi.Decl, fn+" layout", fmt.Sprintf("%d paths match the specification", n))
		}
		if n == 0 {
			r.Unresolved("%s: no comparable paths", fn)
		}
	}
	caseOf := func(st *pathState) string {
		for _, it := range st.trace {
			if it.Prim == "case" {
				return it.Arg
			}
		}
		return ""
	}
	lastCase := func(st *pathState) string {
		c := ""
		for _, it := range flat(st.trace) {
			if it.Prim == "case" {
				c = it.Arg
			}
		}
		return c
	}
	schemaChange := func(v int, target string) ([]string, bool) {
		if v <= 2 {
			return []string{"[string]", "[string]", "[string]"}, true
		}
		switch strings.Trim(target, `"`) {
		case "KEYSPACE":
			return []string{"[string]", "[string]", "[string]"}, true
		case "TABLE", "TYPE":
			return []string{"[string]", "[string]", "[string]", "[string]"}, true
		case "FUNCTION", "AGGREGATE":
			return []string{"[string]", "[string]", "[string]", "[string]", "[string list]"}, true
		}
		return nil, false
	}
	check("(*framer).parseResultSchemaChange", nil, func(v int, st *pathState) ([]string, bool) { return schemaChange(v, lastCase(st)) })
	check("(*framer).parseEventFrame", []string{"(*framer).parseResultSchemaChange"}, func(v int, st *pathState) ([]string, bool) {
		switch strings.Trim(caseOf(st), `"`) {
		case "TOPOLOGY_CHANGE", "STATUS_CHANGE":
			return []string{"[string]", "[string]", "[inet]"}, true
		case "SCHEMA_CHANGE":
			sc, ok := schemaChange(v, lastCase(st))
			return append([]string{"[string]"}, sc...), ok
		}
		return nil, false
	})
	_ = sort.Strings
}

func c04r4(p *Program, r *Report) {
	scope := p.Root.Types.Scope()
	typeT := p.NamedType("Type")
	for nme, want := range specOptionIDs {
		c, ok := scope.Lookup(nme).(*types.Const)
		v := int64(-1)
		if ok {
			v, _ = constValInt(c)
		}
		r.Check(ok && v == want && typeT != nil && types.Identical(c.Type(), typeT), nil, "[option] id "+nme, fmt.Sprintf("0x%04X", want), fmt.Sprintf("%s = 0x%04X, the specification's option id is 0x%04X", nme, v, want))
	}
	for _, nme := range scope.Names() {
		if c, ok := scope.Lookup(nme).(*types.Const); ok && typeT != nil && types.Identical(c.Type(), typeT) && strings.HasPrefix(nme, "Type") {
			if _, known := specOptionIDs[nme]; !known {
				r.Bad(nil, "[option] id "+nme+" is in the specification", nme+" is not an option id of the specification")
			}
		}
	}
	fi := r.NeedFunc("(*framer).readTypeInfo")
	if fi == nil {
		return
	}
	info := fi.Pkg.TypesInfo
	tr := newReadTracer(p)
	want := map[string]struct {
		seq string
		typ string
	}{
		"TypeTuple": {"[short] loop{[option]}", "TupleTypeInfo"},
		"TypeUDT":   {"[string] [string] [short] loop{[string] [option]}", "UDTTypeInfo"},
	}
	seen := map[string]bool{}
	retTypes := map[string]map[string]bool{}
	for _, st := range tr.run(fi, 4) {
		ft := flat(st.trace)
		if len(ft) == 0 || ft[0].Prim != "[short]" {
			r.Bad(fi.Decl, "(*framer).readTypeInfo starts with the [short] option id", "readTypeInfo does not start by reading the [short] id: "+traceStr(ft))
			return
		}
		names, restricted := st.selected("simple.typ")
		if !restricted {
			names = nil
		}
		is := func(n string) bool { return len(names) == 1 && names[0] == n }
		rest := ft[1:]
		custom := is("TypeCustom")
		for k, v := range st.assume {
			if v && strings.HasSuffix(k, "typ == TypeCustom") {
				custom = true // a custom class name that maps to a native type re-binds the id afterwards
			}
		}
		if custom {
			if len(rest) == 0 || rest[0].Prim != "[string]" {
				r.Bad(fi.Decl, "(*framer).readTypeInfo custom type reads its class name", "a custom type does not read the [string] class name")
				continue
			}
			rest = rest[1:]
		}
		got := strings.Join(notations(rest), " ")
		rt := ""
		if st.retStmt != nil && len(st.retStmt.Results) == 1 {
			rt = typeNameOf(info.TypeOf(st.retStmt.Results[0]))
			// a result variable of the interface type: what it was given on this path
			if id, isId := ast.Unparen(st.retStmt.Results[0]).(*ast.Ident); isId {
				if t, has := st.valT[id.Name]; has {
					rt = typeNameOf(t)
				}
			}
		}
		for _, name := range names {
			if retTypes[name] == nil {
				retTypes[name] = map[string]bool{}
			}
			retTypes[name][rt] = true
			switch name {
			case "TypeTuple", "TypeUDT":
				seen[name] = true
				r.Check(got == want[name].seq, fi.Decl, "(*framer).readTypeInfo "+name+" parameters", got, name+" reads `"+got+"`, the specification says `"+want[name].seq+"`")
			case "TypeMap", "TypeList", "TypeSet":
				// a path that still allows several collection kinds must read what all of them need
				exp := "[option]"
				if name == "TypeMap" {
					exp = "[option] [option]"
				}
				seen["coll"] = true
				if got != exp {
					r.Bad(fi.Decl, "(*framer).readTypeInfo collection parameters", fmt.Sprintf("%s reads `%s`, expected `%s`", name, got, exp))
				}
			}
		}
	}
	for _, k := range []string{"TypeTuple", "TypeUDT", "coll"} {
		if !seen[k] {
			r.Bad(fi.Decl, "(*framer).readTypeInfo handles "+k, "no path for "+k)
		}
	}
	r.OK(fi.Decl, "(*framer).readTypeInfo collection parameters", "list/set read one nested option, map reads two")
	// returned dynamic types per option id
	for name, w := range map[string]string{"TypeTuple": "TupleTypeInfo", "TypeUDT": "UDTTypeInfo", "TypeMap": "CollectionType", "TypeList": "CollectionType", "TypeSet": "CollectionType"} {
		ok := len(retTypes[name]) == 1 && retTypes[name][w]
		r.Check(ok, fi.Decl, "(*framer).readTypeInfo "+name+" yields "+w, "the Go type the decoders assert", "option "+name+" does not produce a "+w+": the value decoders' type assertions fail or panic")
	}
	_ = token.NoPos
}

func c04r5(p *Program, r *Report) {
	for _, w := range []struct {
		name  string
		width int
		base  string
	}{{"(*framer).readInt", 4, "f.buf"}, {"(*framer).readShort", 2, "f.buf"}, {"(*framer).readLong", 8, "f.buf"}, {"readInt", 4, "p"}} {
		fi := p.Func(w.name)
		if fi == nil {
			if w.name != "(*framer).readLong" {
				r.Unresolved("reader %s not found", w.name)
			}
			continue
		}
		info := fi.Pkg.TypesInfo
		// the widest decoding in the function: a shift chain or an encoding/binary read
		var bestD fixedDecoding
		ast.Inspect(fi.Decl.Body, func(x ast.Node) bool {
			if e, ok := x.(ast.Expr); ok {
				if d, ok := decodingOf(info, e); ok && d.Width > bestD.Width {
					bestD = d
				}
			}
			return true
		})
		lo, n, be := bestD.Offset, bestD.Width, bestD.BigEndian
		r.Check(be && n == w.width && lo == 0, fi.Decl, w.name+" is big-endian, "+itoa(w.width)+" bytes", fmt.Sprintf("%d bytes from offset %d", n, lo), w.name+" does not combine "+itoa(w.width)+" bytes big-endian from offset 0")
		// advances the buffer by the same width (directly or through a helper that advances by its argument)
		sum := bufAdvance(p, fi, 0)
		adv := sum.exact && len(sum.consts) == 1 && int(sum.consts[0]) == w.width && len(sum.params) == 0
		if strings.HasPrefix(w.name, "(*framer)") {
			r.Check(adv, fi.Decl, w.name+" consumes "+itoa(w.width)+" bytes", "f.buf = f.buf["+itoa(w.width)+":]", w.name+" does not advance the buffer by "+itoa(w.width)+" bytes")
		}
	}
	for _, w := range []struct{ name, prefix, what string }{
		{"(*framer).readString", "(*framer).readShort", "[string]: [short] length"},
		{"(*framer).readLongString", "(*framer).readInt", "[long string]: [int] length"},
		{"(*framer).readShortBytes", "(*framer).readShort", "[short bytes]: [short] length"},
		{"(*framer).readBytesInternal", "(*framer).readInt", "[bytes]: [int] length"},
		{"(*framer).readStringList", "(*framer).readShort", "[string list]: [short] count"},
		{"(*framer).readBytesMap", "(*framer).readShort", "[bytes map]: [short] count"},
		{"(*framer).readStringMultiMap", "(*framer).readShort", "[string multimap]: [short] count"},
		{"(*framer).readConsistency", "(*framer).readShort", "[consistency]: [short]"},
	} {
		fi := r.NeedFunc(w.name)
		if fi == nil {
			continue
		}
		info := fi.Pkg.TypesInfo
		first := ""
		inspectNoLit(fi.Decl.Body, func(x ast.Node) bool {
			if c, ok := x.(*ast.CallExpr); ok && first == "" {
				if n := calleeName(info, c); strings.HasPrefix(n, "(*framer).read") {
					first = n
				}
			}
			return true
		})
		r.Check(first == w.prefix, fi.Decl, w.name+" "+w.what, strings.TrimPrefix(first, "(*framer)."), w.name+" does not start with "+strings.TrimPrefix(w.prefix, "(*framer).")+" as the specification's notation requires")
	}
}

// advSummary: by how much a framer method advances the read buffer (f.buf = f.buf[k:]): constant amounts and
// amounts given by a parameter; exact=false when some store to the buffer is not of that form.
type advSummary struct {
	consts []int64
	params []int
	exact  bool
}

func bufAdvance(p *Program, fi *FuncInfo, depth int) advSummary {
	sum := advSummary{exact: true}
	if fi.Decl.Body == nil || fi.Decl.Recv == nil || len(fi.Decl.Recv.List) != 1 || len(fi.Decl.Recv.List[0].Names) != 1 || depth > 2 {
		sum.exact = false
		return sum
	}
	info := fi.Pkg.TypesInfo
	recv := fi.Decl.Recv.List[0].Names[0].Name
	buf := recv + ".buf"
	paramIdx := func(e ast.Expr) int {
		id, ok := ast.Unparen(stripAllConv(info, e)).(*ast.Ident)
		if !ok {
			return -1
		}
		k := 0
		for _, pf := range fi.Decl.Type.Params.List {
			for _, pn := range pf.Names {
				if info.Defs[pn] == info.Uses[id] {
					return k
				}
				k++
			}
		}
		return -1
	}
	inspectNoLit(fi.Decl.Body, func(x ast.Node) bool {
		switch n := x.(type) {
		case *ast.AssignStmt:
			for i, l := range n.Lhs {
				if exprStr(l) != buf {
					continue
				}
				if len(n.Lhs) != len(n.Rhs) {
					sum.exact = false
					continue
				}
				sl, ok := ast.Unparen(n.Rhs[i]).(*ast.SliceExpr)
				if !ok || exprStr(sl.X) != buf || sl.Low == nil || sl.High != nil {
					sum.exact = false
					continue
				}
				if k, ok := constInt(info, sl.Low); ok {
					sum.consts = append(sum.consts, k)
				} else if pi := paramIdx(sl.Low); pi >= 0 {
					sum.params = append(sum.params, pi)
				} else {
					sum.exact = false
				}
			}
		case *ast.CallExpr:
			fn := calleeOf(info, n)
			if fn == nil {
				return true
			}
			callee := p.FuncOf(fn)
			if callee == nil || callee == fi || callee.Pkg != p.Root || callee.Decl.Recv == nil {
				return true
			}
			if rc := recvExpr(n); rc == nil || exprStr(rc) != recv {
				return true
			}
			cs := bufAdvance(p, callee, depth+1)
			if !cs.exact {
				sum.exact = false
			}
			sum.consts = append(sum.consts, cs.consts...)
			for _, pi := range cs.params {
				if pi < len(n.Args) {
					if k, ok := constInt(info, n.Args[pi]); ok {
						sum.consts = append(sum.consts, k)
						continue
					}
					if mine := paramIdx(n.Args[pi]); mine >= 0 {
						sum.params = append(sum.params, mine)
						continue
					}
				}
				sum.exact = false
			}
		}
		return true
	})
	return sum
}

func c04r6(p *Program, r *Report) {
	fi := r.NeedFunc("(*Conn).executeQuery")
	if fi == nil {
		return
	}
	info := fi.Pkg.TypesInfo
	var branch *ast.IfStmt
	// the branch taken with skip-metadata: `if params.skipMeta` or `if useCached` with the local bound once to the
	// flag; of several such branches (an early guard, then the one that installs the cached metadata) the one that
	// assigns the iterator's metadata
	isSkip := func(e ast.Expr) bool {
		if id, ok := ast.Unparen(e).(*ast.Ident); ok {
			if d := localDef(info, fi, id); d != nil {
				e = d
			}
		}
		return strings.HasSuffix(exprStr(e), ".skipMeta")
	}
	var cands []*ast.IfStmt
	ast.Inspect(fi.Decl.Body, func(x ast.Node) bool {
		if ifs, ok := x.(*ast.IfStmt); ok && isSkip(ifs.Cond) {
			cands = append(cands, ifs)
		}
		return true
	})
	for _, c := range cands {
		assigns := false
		ast.Inspect(c.Body, func(x ast.Node) bool {
			if as, ok := x.(*ast.AssignStmt); ok && len(as.Lhs) == 1 && strings.HasSuffix(exprStr(as.Lhs[0]), ".meta") {
				assigns = true
			}
			return true
		})
		if assigns && branch == nil {
			branch = c
		}
	}
	if branch == nil && len(cands) > 0 {
		branch = cands[0]
	}
	if branch == nil {
		r.Unresolved("executeQuery: no branch on params.skipMeta")
		return
	}
	whole, paging := false, false
	ast.Inspect(branch.Body, func(x ast.Node) bool {
		as, ok := x.(*ast.AssignStmt)
		if !ok || len(as.Lhs) != 1 || len(as.Rhs) != 1 {
			return true
		}
		l, rr := exprStr(as.Lhs[0]), exprStr(as.Rhs[0])
		if strings.HasSuffix(l, ".meta") && strings.HasSuffix(rr, "info.response") {
			whole = true
		}
		if strings.HasSuffix(l, ".meta.pagingState") && strings.Contains(rr, ".meta.pagingState") && !strings.Contains(rr, "info.") {
			paging = true
		}
		return true
	})
	_ = info
	r.Check(whole, branch, "(*Conn).executeQuery skip-metadata uses the prepared statement's whole result metadata", "iter.meta = info.response",
		"with skip-metadata the iterator does not take the prepared statement's complete result metadata (columns AND column counts): a no-metadata ROWS frame has no tuple-expanded column count, Scan rejects the right number of destinations")
	r.Check(paging, branch, "(*Conn).executeQuery skip-metadata keeps the response's paging state", "iter.meta.pagingState = copy of x.meta.pagingState", "with skip-metadata the paging state of the response is not carried into the iterator: paging stops or repeats")
}

// bitCompletions: the values of the given flag masks on a path; a mask whose bit the path never tested is
// enumerated with both values (the path is taken for either).
func bitCompletions(st *pathState, masks []string, subjContains string) []map[string]bool {
	out := []map[string]bool{{}}
	for _, m := range masks {
		val, decided := false, false
		for k, v := range st.assume {
			if strings.HasPrefix(k, "bit:") && strings.HasSuffix(k, ":"+m) && strings.Contains(k, subjContains) {
				val, decided = v, true
			}
		}
		var next []map[string]bool
		for _, o := range out {
			vals := []bool{val}
			if !decided {
				vals = []bool{false, true}
			}
			for _, v := range vals {
				c := map[string]bool{}
				for k, x := range o {
					c[k] = x
				}
				c[m] = v
				next = append(next, c)
			}
		}
		out = next
	}
	return out
}

func bitsStr(b map[string]bool) string {
	var ks []string
	for k, v := range b {
		ks = append(ks, fmt.Sprintf("%s=%v", k, v))
	}
	sort.Strings(ks)
	return strings.Join(ks, " ")
}

// c04r7: a decoded field must land in the result. `for _, el := range xs { el.Name = f.readString() }` consumes the
// bytes but writes into a copy that dies with the iteration: the parser returns zero values. Obligations: every
// assignment in a framer method whose right-hand side reads from the frame and whose left-hand side is a field or
// element path; its root must not be the value variable of an enclosing range statement over non-pointer elements
// (unless that variable is stored back or handed on afterwards).
func c04r7(p *Program, r *Report) {
	n := 0
	p.forEachFunc(false, func(fi *FuncInfo) {
		if fi.Pkg != p.Root || fi.Decl.Recv == nil || fi.Decl.Body == nil {
			return
		}
		info := fi.Pkg.TypesInfo
		if rt := info.TypeOf(fi.Decl.Recv.List[0].Type); rt == nil || typeNameOf(rt) != "framer" {
			return
		}
		readsFrame := func(e ast.Expr) bool {
			for _, c := range callsIn(e) {
				if fn := calleeOf(info, c); fn != nil {
					if sig, ok := fn.Type().(*types.Signature); ok && sig.Recv() != nil && typeNameOf(sig.Recv().Type()) == "framer" && strings.HasPrefix(fn.Name(), "read") {
						return true
					}
				}
			}
			return false
		}
		ast.Inspect(fi.Decl.Body, func(x ast.Node) bool {
			as, ok := x.(*ast.AssignStmt)
			if !ok || len(as.Lhs) != len(as.Rhs) {
				return true
			}
			for i, l := range as.Lhs {
				if !readsFrame(as.Rhs[i]) {
					continue
				}
				l = ast.Unparen(l)
				switch l.(type) {
				case *ast.SelectorExpr, *ast.IndexExpr:
				default:
					continue
				}
				root := rootIdent(l)
				if root == nil {
					continue
				}
				n++
				obj := info.Uses[root]
				// is the root the value variable of an enclosing range over value elements?
				var loop *ast.RangeStmt
				for cur := p.Parent(as); cur != nil && cur != ast.Node(fi.Decl); cur = p.Parent(cur) {
					if rs, isR := cur.(*ast.RangeStmt); isR && rs.Value != nil {
						if vid, isId := rs.Value.(*ast.Ident); isId && info.Defs[vid] == obj && obj != nil {
							loop = rs
						}
					}
				}
				name := fi.Name + " stores " + exprStr(as.Rhs[i]) + " into the result"
				if loop == nil {
					r.OK(as, name, exprStr(l))
					continue
				}
				if _, isPtr := obj.Type().Underlying().(*types.Pointer); isPtr {
					r.OK(as, name, exprStr(l)+" (range over pointers)")
					continue
				}
				// the copy is put back or handed on later in the iteration?
				kept := false
				ast.Inspect(loop.Body, func(y ast.Node) bool {
					id, isId := y.(*ast.Ident)
					if !isId || info.Uses[id] != obj || id.Pos() < as.End() {
						return true
					}
					switch par := p.Parent(id).(type) {
					case *ast.SelectorExpr:
						_ = par // field access of the copy: not a whole-value use
					default:
						kept = true
					}
					return true
				})
				r.Check(kept, as, name, exprStr(l)+" (copy stored back later)", "the value read from the frame is assigned to "+exprStr(l)+", a field of the per-iteration copy `"+root.Name+"` of a range statement: the bytes are consumed but the parsed value is lost (the result keeps zero values)")
			}
			return true
		})
	})
	if n == 0 {
		r.Unresolved("no parser stores a read value into a field or element")
	}
}

// c04r8: scanColumn(bytes, column, dest) fills one destination per column, or one per tuple element, and returns how
// many it filled. Every caller walks the destinations with a running position: it hands dest[pos:] and then advances
// pos by the returned count. Indexing the destinations by the column index instead shifts every column after a
// tuple column into the wrong destination.
func c04r8(p *Program, r *Report) {
	n := 0
	p.forEachFunc(false, func(fi *FuncInfo) {
		if fi.Pkg != p.Root {
			return
		}
		info := fi.Pkg.TypesInfo
		for _, c := range callsIn(fi.Decl.Body) {
			if !isCallTo(info, c, "scanColumn") || len(c.Args) != 3 {
				continue
			}
			n++
			name := fi.Name + ": destinations handed to scanColumn start at the running position"
			sl, ok := ast.Unparen(c.Args[2]).(*ast.SliceExpr)
			if !ok || sl.Low == nil || sl.High != nil {
				r.Unresolved("%s: scanColumn is not handed dest[pos:]", fi.Name)
				continue
			}
			pos, ok := ast.Unparen(sl.Low).(*ast.Ident)
			if !ok {
				r.Bad(c, name, "the destinations start at "+exprStr(sl.Low)+", not at a running position variable")
				continue
			}
			obj := info.Uses[pos]
			// the variable the call's count is bound to
			cnt := resultVarOf(p, c, 0)
			loop := p.enclosing(c, fi.Decl, func(m ast.Node) bool {
				switch m.(type) {
				case *ast.ForStmt, *ast.RangeStmt:
					return true
				}
				return false
			})
			if loop == nil || cnt == "" || cnt == "_" {
				r.Unresolved("%s: scanColumn is not called in a loop that keeps its count", fi.Name)
				continue
			}
			// pos is not the loop's own key/index variable
			isLoopVar := false
			switch l := loop.(type) {
			case *ast.RangeStmt:
				for _, kv := range []ast.Expr{l.Key, l.Value} {
					if id, isId := kv.(*ast.Ident); isId && info.Defs[id] == obj {
						isLoopVar = true
					}
				}
			case *ast.ForStmt:
				if as, isAs := l.Init.(*ast.AssignStmt); isAs {
					for _, lh := range as.Lhs {
						if id, isId := lh.(*ast.Ident); isId && info.Defs[id] == obj {
							isLoopVar = true
						}
					}
				}
			}
			// every write of pos inside the loop is `pos += cnt`; there is at least one, after the call
			adv, other := 0, 0
			ast.Inspect(loop, func(x ast.Node) bool {
				switch s := x.(type) {
				case *ast.AssignStmt:
					for i, l := range s.Lhs {
						if !isIdentOf(info, l, obj) {
							continue
						}
						if s.Tok == token.ADD_ASSIGN && len(s.Rhs) == 1 && exprStr(ast.Unparen(s.Rhs[0])) == cnt && s.Pos() > c.End() {
							adv++
						} else if s.Tok == token.ASSIGN && i < len(s.Rhs) && strings.ReplaceAll(exprStr(s.Rhs[i]), " ", "") == pos.Name+"+"+cnt && s.Pos() > c.End() {
							adv++
						} else {
							other++
						}
					}
				case *ast.IncDecStmt:
					if isIdentOf(info, s.X, obj) {
						other++
					}
				}
				return true
			})
			r.Check(!isLoopVar && adv >= 1 && other == 0, c, name, "dest["+pos.Name+":], "+pos.Name+" += "+cnt,
				"the destinations handed to scanColumn start at "+pos.Name+", which is "+ifs(isLoopVar, "the column index of the loop", "not advanced by the number of destinations scanColumn filled")+": after a tuple column (which fills one destination per element) every later column is scanned into the wrong destination")
		}
	})
	if n < 2 {
		r.Unresolved("expected scanColumn to be called by Iter.Scan and by the scanner, found %d call(s)", n)
	}
}

// c04r10: a null cell must reach Unmarshal: that is what resets a reused destination (zero value, nil pointer) and
// what makes a null tuple column fill all its destinations. The only column scanColumn may skip is one whose
// destination the caller left nil. Every success return without a preceding Unmarshal call is therefore dominated by
// `dest[0] == nil` and by nothing that depends on the cell's bytes.
func c04r10(p *Program, r *Report) {
	fi := r.NeedFunc("scanColumn")
	if fi == nil {
		return
	}
	g := p.GraphOf(fi)
	info := g.Info
	cell := paramObj(info, fi.Decl.Type, 0)
	ef := g.Events(func(st Step) []string {
		if st.Kind != StNode {
			return nil
		}
		for _, c := range callsIn(st.Node) {
			if isCallTo(info, c, "Unmarshal") {
				return []string{"unmarshal"}
			}
		}
		return nil
	})
	facts := g.GuardFacts()
	n := 0
	for _, e := range g.Exits() {
		rs, ok := e.Node.(*ast.ReturnStmt)
		if !ok || len(rs.Results) != 2 || !isNil(info, rs.Results[1]) {
			continue
		}
		n++
		s, _ := ef.ExitState(e)
		if s.Must["unmarshal"] {
			r.OK(rs, "scanColumn success return "+exprStr(rs.Results[0])+" after Unmarshal", "the cell was handed to Unmarshal")
			continue
		}
		f, _ := facts.Before(rs)
		skipNil, dependsOnCell := false, ""
		for atom, v := range f.m {
			a := strings.ReplaceAll(atom, " ", "")
			if v && (strings.HasSuffix(a, "[0]==nil") || strings.HasPrefix(a, "nil==") && strings.HasSuffix(a, "[0]")) && !(cell != nil && mentions(atom, cell.Name())) {
				skipNil = true
			}
			if cell != nil && mentions(atom, cell.Name()) {
				dependsOnCell = atom
			}
		}
		// a disjunction `dest[0] == nil || p == nil` leaves no single atom: then nothing is known and the return is unjustified
		r.Check(skipNil && dependsOnCell == "", rs, "scanColumn skips a column only when the caller left its destination nil", "dest[0] == nil known, nothing about the cell's bytes",
			"scanColumn reports a column as scanned without handing the cell to Unmarshal on a path that is not (only) guarded by a nil destination"+ifs(dependsOnCell != "", " (it depends on "+dependsOnCell+")", "")+": a null cell leaves the previous row's value in a reused destination, and a null tuple column advances the destinations by 1 instead of by the number of its elements")
	}
	if n == 0 {
		r.Unresolved("scanColumn has no success return")
	}
}
