package main

import (
	"go/ast"
	"go/token"
	"go/types"

	"golang.org/x/tools/go/cfg"
)

// Inlined graphs.
//
// A maintainer may split a long function into several unexported ones that pass state explicitly. The path rules
// (must-pass-through, guard facts, locksets) are intraprocedural; to keep their verdict independent of where the
// function boundaries are drawn, GraphOfInl(f) builds the control-flow graph of f with the bodies of the
// unexported same-package functions it calls spliced in at their call sites (three levels, no recursion):
//
//   - the block containing the call is split in front of the node that contains it; the callee's blocks are
//     cloned per call site; parameter (and receiver) bindings `p := arg` are inserted as synthetic assignments;
//   - every return of the callee (and its falling off the end) continues at the node that contains the call, which
//     is kept, so classifiers still see the call itself; results are not bound;
//   - unconditional defer statements of the callee are executed (as synthetic expression statements, in reverse
//     order) at each of its returns instead of being registered for the caller's exit; a callee with conditional
//     defers, recover() or function-literal tricks on its control flow is not inlined;
//   - go / defer call sites and calls inside function literals are not inlined.
//
// Nodes keep their identity, so a rule can ask for the state "before node n" for a node that lives in a helper and
// obtains the state in the context of the anchor function (joined over the call sites when there are several).

type inlineInfo struct {
	calls   map[*ast.CallExpr]bool // call sites that were expanded
	funcs   map[*FuncInfo]bool     // callees that were expanded
	returns []Exit                 // the return statements of expanded callees (they continue in the caller)
	bound   map[ast.Node]bool      // assignment nodes whose values were bound at the callee's returns (no kill)
}

// ExitsInl: the exits of the graph plus, for an inlined graph, the returns of the expanded helpers (the points where
// a helper hands control back; a rule about "every way out after X" looks at both).
func (g *Graph) ExitsInl() []Exit {
	out := g.Exits()
	if g.inl != nil {
		for _, e := range g.inl.returns {
			if g.live[e.Block] {
				out = append(out, e)
			}
		}
	}
	return out
}

// GraphOfInl returns the (cached) inlined graph of fi.
func (p *Program) GraphOfInl(fi *FuncInfo) *Graph {
	if fi.gi != nil {
		return fi.gi
	}
	info := fi.Pkg.TypesInfo
	g := &Graph{P: p, Info: info, Fn: fi.Decl, Body: fi.Decl.Body, Name: fi.Name + "+helpers", nodeAt: map[ast.Node]nodeLoc{}, live: map[*cfg.Block]bool{}, Fi: fi,
		nodeAll: map[ast.Node][]nodeLoc{}, inl: &inlineInfo{calls: map[*ast.CallExpr]bool{}, funcs: map[*FuncInfo]bool{}, bound: map[ast.Node]bool{}}}
	base := cfg.New(fi.Decl.Body, p.mayReturn(info))
	blocks := cloneBlocks(base.Blocks)
	type work struct {
		b     *cfg.Block
		stack []*FuncInfo
		from  int  // first node index to look at (the continuation of an expanded call starts with the node holding it)
		tail  bool // the blocks belong to the anchor or to a helper expanded in tail position (`return helper(...)`)
	}
	var queue []work
	for _, b := range blocks {
		queue = append(queue, work{b, []*FuncInfo{fi}, 0, true})
	}
	budget := 400
	for len(queue) > 0 && budget > 0 {
		w := queue[0]
		queue = queue[1:]
		b := w.b
		for i := w.from; i < len(b.Nodes); i++ {
			n := b.Nodes[i]
			if i > 0 {
				// the statements after a return are the callee's deferred calls: they stay plain calls
				if _, afterRet := b.Nodes[i-1].(*ast.ReturnStmt); afterRet {
					break
				}
			}
			call, callee := p.inlinableCallIn(info, n, w.stack)
			if callee == nil {
				continue
			}
			cb := cfg.New(callee.Decl.Body, p.mayReturn(callee.Pkg.TypesInfo))
			if len(cb.Blocks) > 400 {
				continue
			}
			defers, okDefers := allDefers(callee)
			if !okDefers || len(defers) > 3 {
				continue
			}
			budget--
			g.inl.calls[call] = true
			g.inl.funcs[callee] = true
			// tail position: `return helper(...)` in a unit that is itself in tail position
			isTail := false
			if rs, isR := n.(*ast.ReturnStmt); isR && w.tail {
				for _, res := range rs.Results {
					if ast.Unparen(res) == ast.Expr(call) {
						isTail = true
					}
				}
			}
			// continuation: the node containing the call and everything after it, with b's successors
			k := &cfg.Block{Nodes: append([]ast.Node{}, b.Nodes[i:]...), Succs: b.Succs, Kind: b.Kind, Stmt: b.Stmt}
			// `x, err := helper(...)`: the values returned are bound at each return of the helper; when the
			// continuation branches (typically on err), it is copied per return so that each copy knows its value
			var bindLhs []ast.Expr
			if as, isAs := n.(*ast.AssignStmt); isAs && len(as.Rhs) == 1 && ast.Unparen(as.Rhs[0]) == ast.Expr(call) {
				allIdents := true
				for _, l := range as.Lhs {
					if _, isId := l.(*ast.Ident); !isId {
						allIdents = false
					}
				}
				if allIdents {
					bindLhs = as.Lhs
					g.inl.bound[n] = true
				}
			}
			perReturn := bindLhs != nil && len(k.Succs) == 2
			var kCopies []*cfg.Block
			contFor := func() *cfg.Block {
				if !perReturn {
					return k
				}
				kc := &cfg.Block{Nodes: append([]ast.Node{}, k.Nodes...), Succs: k.Succs, Kind: k.Kind, Stmt: k.Stmt}
				kCopies = append(kCopies, kc)
				return kc
			}
			// `for helper() {..}` / `if !helper() {..}`: a return of the helper with a constant result continues on the
			// branch that value selects (a copy of the condition block with that one successor)
			condNeg, isCond := false, false
			if e, isE := n.(ast.Expr); isE && i == len(b.Nodes)-1 && len(b.Succs) == 2 {
				x := ast.Unparen(e)
				for {
					u, isU := x.(*ast.UnaryExpr)
					if !isU || u.Op != token.NOT {
						break
					}
					condNeg = !condNeg
					x = ast.Unparen(u.X)
				}
				isCond = x == ast.Expr(call)
			}
			var kBranch [2]*cfg.Block
			threaded := func(val bool) *cfg.Block {
				if condNeg {
					val = !val
				}
				idx := 1
				if val {
					idx = 0
				}
				if kBranch[idx] == nil {
					kBranch[idx] = &cfg.Block{Nodes: append([]ast.Node{}, k.Nodes...), Succs: []*cfg.Block{k.Succs[idx]}, Kind: k.Kind, Stmt: k.Stmt}
				}
				return kBranch[idx]
			}
			// the part before: falls into the callee
			b.Nodes = append(append([]ast.Node{}, b.Nodes[:i]...), p.bindings(info, callee, call)...)
			// clone the callee's blocks per set of defer statements already executed (a defer inside a branch runs
			// at the return only on the paths that went through it)
			type key struct {
				b    *cfg.Block
				mask int
			}
			clones := map[key]*cfg.Block{}
			var cl []*cfg.Block
			var build func(ob *cfg.Block, mask int) *cfg.Block
			build = func(ob *cfg.Block, mask int) *cfg.Block {
				if nb, ok := clones[key{ob, mask}]; ok {
					return nb
				}
				nb := &cfg.Block{Kind: ob.Kind, Stmt: ob.Stmt}
				clones[key{ob, mask}] = nb
				cl = append(cl, nb)
				out := mask
				for _, cn := range ob.Nodes {
					if d, isDefer := cn.(*ast.DeferStmt); isDefer {
						for j, dd := range defers {
							if dd == d {
								out |= 1 << uint(j)
							}
						}
						continue
					}
					nb.Nodes = append(nb.Nodes, cn)
				}
				if len(ob.Succs) == 0 {
					if ob.Kind == cfg.KindSelectAfterCase && len(ob.Nodes) == 0 {
						return nb // the tail of a select without default: blocks forever, not a way out
					}
					if !p.endsInNoReturn(callee.Pkg.TypesInfo, ob) {
						if len(ob.Nodes) > 0 {
							if rs, isR := ob.Nodes[len(ob.Nodes)-1].(*ast.ReturnStmt); isR && isTail {
								g.inl.returns = append(g.inl.returns, Exit{nb, ExitReturn, rs})
							}
						}
						for j := len(defers) - 1; j >= 0; j-- {
							if out&(1<<uint(j)) != 0 {
								nb.Nodes = append(nb.Nodes, &ast.ExprStmt{X: defers[j].Call})
							}
						}
						if bindLhs != nil && len(ob.Nodes) > 0 {
							if rs, isR := ob.Nodes[len(ob.Nodes)-1].(*ast.ReturnStmt); isR {
								nb.Nodes = append(nb.Nodes, p.resultBindings(callee, rs, bindLhs, n.(*ast.AssignStmt))...)
							}
						}
						nb.Succs = []*cfg.Block{contFor()}
						if isCond && len(ob.Nodes) > 0 {
							if rs, isR := ob.Nodes[len(ob.Nodes)-1].(*ast.ReturnStmt); isR && len(rs.Results) == 1 {
								if id, isId := ast.Unparen(rs.Results[0]).(*ast.Ident); isId && (id.Name == "true" || id.Name == "false") {
									if _, isConst := callee.Pkg.TypesInfo.Uses[id].(*types.Const); isConst {
										nb.Succs = []*cfg.Block{threaded(id.Name == "true")}
									}
								}
							}
						}
					}
					return nb
				}
				for _, s := range ob.Succs {
					nb.Succs = append(nb.Succs, build(s, out))
				}
				return nb
			}
			entry := build(cb.Blocks[0], 0)
			b.Succs = []*cfg.Block{entry}
			blocks = append(blocks, cl...)
			if perReturn && len(kCopies) > 0 {
				blocks = append(blocks, kCopies...)
			} else {
				blocks = append(blocks, k)
			}
			for _, kb := range kBranch {
				if kb != nil {
					blocks = append(blocks, kb)
					queue = append(queue, work{kb, w.stack, 1, w.tail})
				}
			}
			stack2 := append(append([]*FuncInfo{}, w.stack...), callee)
			for _, c := range cl {
				queue = append(queue, work{c, stack2, 0, isTail})
			}
			if perReturn && len(kCopies) > 0 {
				for _, kc := range kCopies {
					queue = append(queue, work{kc, w.stack, 1, w.tail})
				}
			} else {
				queue = append(queue, work{k, w.stack, 1, w.tail})
			}
			break
		}
	}
	for i, b := range blocks {
		b.Index = int32(i)
	}
	g.CFG = &cfg.CFG{Blocks: blocks}
	for _, b := range blocks {
		for i, n := range b.Nodes {
			g.nodeAll[n] = append(g.nodeAll[n], nodeLoc{b, i})
			if _, dup := g.nodeAt[n]; !dup {
				g.nodeAt[n] = nodeLoc{b, i}
			}
		}
	}
	var walk func(b *cfg.Block)
	walk = func(b *cfg.Block) {
		if g.live[b] {
			return
		}
		g.live[b] = true
		b.Live = true
		for _, s := range b.Succs {
			walk(s)
		}
	}
	if len(blocks) > 0 {
		walk(blocks[0])
	}
	fi.gi = g
	return g
}

func cloneBlocks(in []*cfg.Block) []*cfg.Block {
	m := map[*cfg.Block]*cfg.Block{}
	var out []*cfg.Block
	for _, b := range in {
		nb := &cfg.Block{Nodes: append([]ast.Node{}, b.Nodes...), Kind: b.Kind, Stmt: b.Stmt, Live: b.Live}
		m[b] = nb
		out = append(out, nb)
	}
	for _, b := range in {
		for _, s := range b.Succs {
			m[b].Succs = append(m[b].Succs, m[s])
		}
	}
	return out
}

// endsInNoReturn: the block ends with a call that never returns (panic, os.Exit).
func (p *Program) endsInNoReturn(info *types.Info, b *cfg.Block) bool {
	if len(b.Nodes) == 0 {
		return false
	}
	if es, ok := b.Nodes[len(b.Nodes)-1].(*ast.ExprStmt); ok {
		if call, ok := es.X.(*ast.CallExpr); ok && !p.mayReturn(info)(call) {
			return true
		}
	}
	return false
}

// allDefers: the defer statements of callee (outside function literals); ok=false when it calls recover().
func allDefers(callee *FuncInfo) ([]*ast.DeferStmt, bool) {
	var out []*ast.DeferStmt
	ok := true
	inspectNoLit(callee.Decl.Body, func(x ast.Node) bool {
		switch c := x.(type) {
		case *ast.DeferStmt:
			out = append(out, c)
		case *ast.CallExpr:
			if id, isId := ast.Unparen(c.Fun).(*ast.Ident); isId && id.Name == "recover" {
				ok = false
			}
		}
		return true
	})
	return out, ok
}

// inlinableCallIn finds, in CFG node n, a call of an unexported same-package function with a body that is not on
// the stack; calls inside function literals, go and defer statements are skipped.
func (p *Program) inlinableCallIn(info *types.Info, n ast.Node, stack []*FuncInfo) (*ast.CallExpr, *FuncInfo) {
	if stack == nil || len(stack) > 3 {
		return nil, nil
	}
	switch n.(type) {
	case *ast.GoStmt, *ast.DeferStmt:
		return nil, nil
	}
	var call *ast.CallExpr
	var callee *FuncInfo
	inspectNoLit(n, func(x ast.Node) bool {
		if call != nil {
			return false
		}
		switch x.(type) {
		case *ast.GoStmt, *ast.DeferStmt:
			return false
		}
		c, ok := x.(*ast.CallExpr)
		if !ok {
			return true
		}
		fn := calleeOf(info, c)
		if fn == nil || fn.Exported() {
			return true
		}
		h := p.FuncOf(fn)
		if h == nil || h.Decl.Body == nil || (h.Pkg != p.Root && h.Pkg != stack[0].Pkg) {
			return true
		}
		for _, s := range stack {
			if s == h {
				return true
			}
		}
		call, callee = c, h
		return false
	})
	return call, callee
}

// bindings: synthetic `param := arg` assignments for the parameters and the receiver of callee at call.
func (p *Program) bindings(info *types.Info, callee *FuncInfo, call *ast.CallExpr) []ast.Node {
	var out []ast.Node
	cinfo := callee.Pkg.TypesInfo
	bind := func(name *ast.Ident, arg ast.Expr) {
		if name == nil || name.Name == "_" || arg == nil {
			return
		}
		if id, ok := ast.Unparen(arg).(*ast.Ident); ok && id.Name == name.Name {
			return
		}
		lhs := &ast.Ident{Name: name.Name, NamePos: call.Pos()}
		if obj := cinfo.Defs[name]; obj != nil {
			cinfo.Defs[lhs] = obj
		}
		out = append(out, &ast.AssignStmt{Lhs: []ast.Expr{lhs}, Tok: token.DEFINE, TokPos: call.Pos(), Rhs: []ast.Expr{arg}})
	}
	if callee.Decl.Recv != nil && len(callee.Decl.Recv.List) == 1 && len(callee.Decl.Recv.List[0].Names) == 1 {
		bind(callee.Decl.Recv.List[0].Names[0], recvExpr(call))
	}
	k := 0
	for _, pf := range callee.Decl.Type.Params.List {
		for _, pn := range pf.Names {
			if k < len(call.Args) {
				bind(pn, call.Args[k])
			}
			k++
		}
	}
	return out
}

// Units returns the anchor function of an inlined graph followed by the functions expanded into it (sorted by name).
func (g *Graph) Units() []*FuncInfo {
	out := []*FuncInfo{g.Fi}
	if g.inl == nil {
		return out
	}
	var hs []*FuncInfo
	for h := range g.inl.funcs {
		hs = append(hs, h)
	}
	sortFuncs(hs)
	return append(out, hs...)
}

func sortFuncs(fs []*FuncInfo) {
	for i := 1; i < len(fs); i++ {
		for j := i; j > 0 && fs[j].Name < fs[j-1].Name; j-- {
			fs[j], fs[j-1] = fs[j-1], fs[j]
		}
	}
}

// unitOf returns the function (anchor or expanded helper) whose body contains node n.
func (g *Graph) unitOf(n ast.Node) *FuncInfo {
	for _, u := range g.Units() {
		if u.Decl.Body != nil && posWithin(u.Decl.Body, n.Pos()) && g.P.Fset.File(n.Pos()) == g.P.Fset.File(u.Decl.Pos()) {
			return u
		}
	}
	return g.Fi
}

// resultBindings: synthetic assignments `lhs_i = result_i` for a return statement of callee whose values the call
// site assigns to identifiers (named results for a bare return).
func (p *Program) resultBindings(callee *FuncInfo, rs *ast.ReturnStmt, lhs []ast.Expr, site *ast.AssignStmt) []ast.Node {
	cinfo := callee.Pkg.TypesInfo
	results := rs.Results
	if len(results) == 0 && callee.Decl.Type.Results != nil {
		for _, f := range callee.Decl.Type.Results.List {
			for _, nm := range f.Names {
				results = append(results, nm)
			}
		}
	}
	if len(results) != len(lhs) {
		return nil
	}
	var out []ast.Node
	for i, l := range lhs {
		id := l.(*ast.Ident)
		if id.Name == "_" {
			continue
		}
		obj := cinfo.Defs[id]
		if obj == nil {
			obj = cinfo.Uses[id]
		}
		nl := &ast.Ident{Name: id.Name, NamePos: rs.Pos()}
		if obj != nil {
			cinfo.Uses[nl] = obj
		}
		out = append(out, &ast.AssignStmt{Lhs: []ast.Expr{nl}, Tok: token.ASSIGN, TokPos: rs.Pos(), Rhs: []ast.Expr{results[i]}})
	}
	return out
}
