package main

import "fmt"

func cmdSelftest(args []string) int {
	fmt.Println("selftest: not built yet")
	return 0
}
