package main

import (
	"flag"
	"fmt"
	"os"
	"os/exec"
	"sort"
)

// cmdSelftest tests the checker in both directions:
//   - silent: every registered property's quick check exits 0 on the given tree;
//   - firing: every seeded change under /verif/seeded (a change that breaks a property while compiling and
//     keeping the test suite green, produced independently and verified by seedverify.sh) is reported by the
//     rules of its property when applied to a scratch copy.
//
// Exit 0 only if both hold.
func cmdSelftest(args []string) int {
	fs := flag.NewFlagSet("selftest", flag.ExitOnError)
	prop := fs.String("property", "", "restrict to one property")
	repo := fs.String("repo", "/repo", "repository working tree")
	fs.Parse(args)
	self, err := os.Executable()
	if err != nil {
		fmt.Println(err)
		return 2
	}
	var ids []string
	for id := range registry {
		if *prop == "" || *prop == id {
			ids = append(ids, id)
		}
	}
	sort.Strings(ids)
	bad := 0
	for _, id := range ids {
		cmd := exec.Command(self, "check", "-property", id, "-repo", *repo, "-no-evidence")
		out, _ := cmd.CombinedOutput()
		code := cmd.ProcessState.ExitCode()
		if code != 0 {
			bad++
			fmt.Printf("selftest %s: NOT silent on the unchanged tree (exit %d)\n%s\n", id, code, firstLines(string(out), 12))
			continue
		}
		res := runSeeded(id, *repo, verifDir())
		if res == nil {
			fmt.Printf("selftest %s: silent on the tree; no seeded changes kept\n", id)
			continue
		}
		if res["reported"].(int)+res["documented_misses"].(int) != res["of"].(int) {
			bad++
			fmt.Printf("selftest %s: seeded change(s) missed: %v\n", id, res["details"])
		}
	}
	if bad > 0 {
		fmt.Printf("selftest: %d problem(s)\n", bad)
		return 1
	}
	fmt.Printf("selftest: %d properties silent on the tree and all seeded changes reported\n", len(ids))
	return 0
}
