package main

import (
	"encoding/json"
	"fmt"
	"go/ast"
	"os"
	"path/filepath"
	"sort"
	"strings"
)

type Verdict int

const (
	Discharged Verdict = iota
	Violated
	Undecided
)

func (v Verdict) String() string {
	switch v {
	case Discharged:
		return "discharged"
	case Violated:
		return "VIOLATED"
	}
	return "UNDECIDED"
}

// Obligation is one decided instance of a rule. Construct is the stable key
// (function + construct description, never a line number).
type Obligation struct {
	Rule      string `json:"rule"`
	Construct string `json:"construct"`
	Pos       string `json:"pos"`
	Verdict   string `json:"verdict"`
	Why       string `json:"why,omitempty"`
	// FindKey, when set, identifies the construct for the known-findings file independently of the names of the
	// enclosing function and of locals (type-qualified operands), so that a finding stays the same finding when the
	// code around it is moved or renamed.
	FindKey string `json:"find_key,omitempty"`
	verdict Verdict
}

// Rule is one structural rule of one property.
type Rule struct {
	ID    string // "C01.R4"
	Doc   string
	Floor int  // minimum number of instances confirmed by hand on the pinned tree
	Deep  bool // thorough tier only
	Run   func(p *Program, r *Report)
}

// Report collects obligations of one check run.
type Report struct {
	Property string
	cur      *Rule
	Obls     []Obligation
	Census   map[string]int
	Unres    []string
	prog     *Program
	seen     map[string]int
	findKey  string
}

// WithFindKey sets the known-findings key of the next obligation recorded.
func (r *Report) WithFindKey(k string) *Report { r.findKey = k; return r }

func NewReport(prop string, p *Program) *Report {
	return &Report{Property: prop, Census: map[string]int{}, prog: p, seen: map[string]int{}}
}

func (r *Report) add(v Verdict, n ast.Node, construct, why string) {
	rule := "?"
	if r.cur != nil {
		rule = r.cur.ID
	}
	key := rule + "|" + construct
	r.seen[key]++
	if c := r.seen[key]; c > 1 {
		construct = fmt.Sprintf("%s #%d", construct, c)
	}
	pos := "?"
	if n != nil && r.prog != nil {
		pos = r.prog.Pos(n)
	}
	r.Obls = append(r.Obls, Obligation{Rule: rule, Construct: construct, Pos: pos, Verdict: v.String(), Why: why, verdict: v, FindKey: r.findKey})
	r.findKey = ""
	r.Census[rule]++
}

// OK records a discharged obligation.
func (r *Report) OK(n ast.Node, construct, why string) { r.add(Discharged, n, construct, why) }

// Bad records a violated obligation.
func (r *Report) Bad(n ast.Node, construct, why string) { r.add(Violated, n, construct, why) }

// Check records discharged/violated by cond.
func (r *Report) Check(cond bool, n ast.Node, construct, okWhy, badWhy string) bool {
	if cond {
		r.add(Discharged, n, construct, okWhy)
	} else {
		r.add(Violated, n, construct, badWhy)
	}
	return cond
}

// Unresolved records that an anchor could not be found (fails the check with exit 2).
func (r *Report) Unresolved(format string, a ...interface{}) {
	rule := "?"
	if r.cur != nil {
		rule = r.cur.ID
	}
	r.Unres = append(r.Unres, fmt.Sprintf("rule=%s reason=%s", rule, fmt.Sprintf(format, a...)))
}

// NeedFunc resolves a function anchor or records Unresolved.
func (r *Report) NeedFunc(name string) *FuncInfo {
	fi := r.prog.Func(name)
	if fi == nil || fi.Decl.Body == nil {
		r.Unresolved("anchor function %s not found (renamed or removed?)", name)
		return nil
	}
	return fi
}

// ---------------------------------------------------------------------------
// known findings

type Finding struct {
	Property  string `json:"property"`
	Rule      string `json:"rule"`
	Construct string `json:"construct"`
	WhatFails string `json:"what_fails"`
	Witness   string `json:"witness,omitempty"`
	Status    string `json:"status"` // "known" | "fixed"
	Commit    string `json:"commit,omitempty"`
	ID        string `json:"id,omitempty"`
	Count     int    `json:"count,omitempty"` // number of identical constructs (same function, same expression text) covered; default 1
}

func loadFindings(path string) ([]Finding, error) {
	b, err := os.ReadFile(path)
	if err != nil {
		if os.IsNotExist(err) {
			return nil, nil
		}
		return nil, err
	}
	var doc struct {
		Findings []Finding `json:"findings"`
	}
	if err := json.Unmarshal(b, &doc); err != nil {
		return nil, fmt.Errorf("%s: %v", path, err)
	}
	return doc.Findings, nil
}

// ---------------------------------------------------------------------------
// evidence

type Evidence struct {
	PropertyID  string                 `json:"property_id"`
	Tier        string                 `json:"tier"`
	Seed        int                    `json:"seed"`
	Level       string                 `json:"level"`
	Coverage    map[string]interface{} `json:"coverage"`
	Assumptions []string               `json:"assumptions"`
	WallS       float64                `json:"wall_s"`
	Violations  int                    `json:"violations"`
}

func writeJSON(path string, v interface{}) error {
	if err := os.MkdirAll(filepath.Dir(path), 0o755); err != nil {
		return err
	}
	b, err := json.MarshalIndent(v, "", " ")
	if err != nil {
		return err
	}
	tmp := path + ".tmp"
	if err := os.WriteFile(tmp, append(b, '\n'), 0o644); err != nil {
		return err
	}
	return os.Rename(tmp, path)
}

func sortedKeys(m map[string]int) []string {
	ks := make([]string, 0, len(m))
	for k := range m {
		ks = append(ks, k)
	}
	sort.Strings(ks)
	return ks
}

// pickSamples returns up to n obligations, spread over rules, violations first.
func pickSamples(obls []Obligation, n int) []Obligation {
	var out []Obligation
	for _, o := range obls {
		if o.verdict != Discharged {
			out = append(out, o)
		}
	}
	seenRule := map[string]int{}
	for _, o := range obls {
		if len(out) >= n {
			break
		}
		if o.verdict == Discharged && seenRule[o.Rule] < 2 {
			seenRule[o.Rule]++
			out = append(out, o)
		}
	}
	if len(out) > n+20 {
		out = out[:n+20]
	}
	return out
}

func distinctConstructs(obls []Obligation) int {
	m := map[string]bool{}
	for _, o := range obls {
		c := o.Construct
		if i := strings.Index(c, " #"); i >= 0 {
			c = c[:i]
		}
		m[o.Rule+"|"+c] = true
	}
	return len(m)
}
