package main

import (
	"go/ast"
	"go/types"
	"sort"

	"golang.org/x/tools/go/callgraph"
	"golang.org/x/tools/go/callgraph/cha"
	"golang.org/x/tools/go/callgraph/vta"
	"golang.org/x/tools/go/ssa"
	"golang.org/x/tools/go/ssa/ssautil"
)

// E7: call-graph queries on a VTA call graph (seeded by CHA) of the loaded program.

type CallGraph struct {
	p     *Program
	g     *callgraph.Graph
	byFn  map[*ssa.Function]*FuncInfo
	fnOf  map[*FuncInfo]*ssa.Function
	edges map[*FuncInfo]map[*FuncInfo][]*callgraph.Edge // source functions only; literals folded into their declaring function
}

var cgCache = map[*Program]*CallGraph{}

// declOf folds anonymous functions into the declared function that contains them.
func declOf(fn *ssa.Function) *ssa.Function {
	for fn != nil && fn.Parent() != nil {
		fn = fn.Parent()
	}
	return fn
}

func (p *Program) CallGraph() *CallGraph {
	if cg := cgCache[p]; cg != nil {
		return cg
	}
	prog := p.SSA()
	all := ssautil.AllFunctions(prog)
	g := vta.CallGraph(all, cha.CallGraph(prog))
	cg := &CallGraph{p: p, g: g, byFn: map[*ssa.Function]*FuncInfo{}, fnOf: map[*FuncInfo]*ssa.Function{}, edges: map[*FuncInfo]map[*FuncInfo][]*callgraph.Edge{}}
	for _, fi := range p.Funcs {
		if f := prog.FuncValue(fi.Obj); f != nil {
			cg.byFn[f] = fi
			cg.fnOf[fi] = f
		}
	}
	for fn, node := range g.Nodes {
		if fn == nil {
			continue
		}
		src := cg.byFn[declOf(fn)]
		if src == nil {
			continue
		}
		for _, e := range node.Out {
			if e.Callee == nil || e.Callee.Func == nil {
				continue
			}
			dst := cg.byFn[declOf(e.Callee.Func)]
			if dst == nil {
				continue
			}
			if cg.edges[src] == nil {
				cg.edges[src] = map[*FuncInfo][]*callgraph.Edge{}
			}
			cg.edges[src][dst] = append(cg.edges[src][dst], e)
		}
	}
	cgCache[p] = cg
	return cg
}

// Callees returns the source functions fi may call (including through its function literals).
func (cg *CallGraph) Callees(fi *FuncInfo) []*FuncInfo {
	var out []*FuncInfo
	for d := range cg.edges[fi] {
		out = append(out, d)
	}
	sort.Slice(out, func(i, j int) bool { return out[i].Name < out[j].Name })
	return out
}

// Reach computes the functions reachable from roots, not expanding functions for which cut returns true
// (cut functions themselves are not included) and not following edges for which skipEdge returns true.
// parent records one predecessor for path reconstruction.
func (cg *CallGraph) Reach(roots []*FuncInfo, cut func(*FuncInfo) bool, skipEdge func(from, to *FuncInfo) bool) (set map[*FuncInfo]bool, parent map[*FuncInfo]*FuncInfo) {
	set = map[*FuncInfo]bool{}
	parent = map[*FuncInfo]*FuncInfo{}
	var work []*FuncInfo
	for _, r := range roots {
		if r != nil && !set[r] {
			set[r] = true
			work = append(work, r)
		}
	}
	for len(work) > 0 {
		f := work[0]
		work = work[1:]
		for _, d := range cg.Callees(f) {
			if set[d] || (cut != nil && cut(d)) || (skipEdge != nil && skipEdge(f, d)) {
				continue
			}
			set[d] = true
			parent[d] = f
			work = append(work, d)
		}
	}
	return
}

func pathTo(parent map[*FuncInfo]*FuncInfo, f *FuncInfo) string {
	var names []string
	for cur := f; cur != nil; cur = parent[cur] {
		names = append([]string{cur.Name}, names...)
		if len(names) > 12 {
			break
		}
	}
	s := ""
	for i, n := range names {
		if i > 0 {
			s += " -> "
		}
		s += n
	}
	return s
}

// hasDeferredRecover reports whether the function body defers a function literal that calls recover().
func (p *Program) hasDeferredRecover(info *types.Info, fi *FuncInfo) bool {
	found := false
	ast.Inspect(fi.Decl.Body, func(n ast.Node) bool {
		d, ok := n.(*ast.DeferStmt)
		if !ok {
			return true
		}
		ast.Inspect(d.Call, func(m ast.Node) bool {
			if c, ok := m.(*ast.CallExpr); ok && calleeName(info, c) == "builtin.recover" {
				found = true
			}
			return true
		})
		// defer handler(&err): a named function that calls recover() itself (recover only works when called
		// directly by the deferred function)
		if h := p.deferredHandler(info, d); h != nil && callsRecoverDirectly(h) {
			found = true
		}
		return true
	})
	return found
}

// deferredHandler: the package function a defer statement calls directly (not through a literal).
func (p *Program) deferredHandler(info *types.Info, d *ast.DeferStmt) *FuncInfo {
	if _, isLit := ast.Unparen(d.Call.Fun).(*ast.FuncLit); isLit {
		return nil
	}
	fn := calleeOf(info, d.Call)
	if fn == nil {
		return nil
	}
	h := p.FuncOf(fn)
	if h == nil || h.Decl.Body == nil {
		return nil
	}
	return h
}

// callsRecoverDirectly: recover() appears in h's own body, outside function literals.
func callsRecoverDirectly(h *FuncInfo) bool {
	found := false
	inspectNoLit(h.Decl.Body, func(n ast.Node) bool {
		if c, ok := n.(*ast.CallExpr); ok && calleeName(h.Pkg.TypesInfo, c) == "builtin.recover" {
			found = true
		}
		return true
	})
	return found
}
