package main

import (
	"fmt"
	"go/ast"
	"go/token"
	"go/types"
	"strings"
)

func init() {
	register(&PropertySpec{
		ID: "C01",
		Explanation: "Structural necessary conditions of 'every response reaches the request that caused it': R1 the id returned by the allocator is the one registered, passed to the frame builder and serialised by every builder; R2 nothing is built or written before registration; " +
			"R3 the receiver routes by the stream field of the header it just read (a header object private to that invocation), looks up and deletes under one critical section, and hands over the framer that read that header; R4 abandonment paths (timeout, cancel, connection context) never release the id, only the response path, the receiver on behalf of a departed caller and the nothing-written paths do, and only releaseStream may clear an id; " +
			"R5 duplicate registration is refused; R7 the calls map is touched only under c.mu; R8 header writer and reader agree on offsets and widths per version class." +
			" R10 the allocator's bitmap words change only by compare-and-swap, so an id in flight cannot be handed out again (=C08.R2)." +
			" R11 Conn.Read resumes a partially filled buffer (p[n:], n advanced by each attempt) when it retries a temporary read error.",
		NotDecided: "that arbitrary server answer orders are tolerated for every interleaving of sender, receiver and closer; that the allocator never hands one id to two callers (C08).",
		Rules: []*Rule{
			{ID: "C01.R1", Floor: 12, Doc: "id provenance: GetStream result -> callReq.streamID, addCall, buildFrame argument; every builder passes its streamID parameter unchanged to writeHeader", Run: c01r1},
			{ID: "C01.R2", Floor: 3, Doc: "exec order: GetStream -> addCall (ok) -> buildFrame (ok) -> writeContext", Run: c01r2},
			{ID: "C01.R3", Floor: 7, Doc: "recv routes by the header it read: same key for lookup and delete in one critical section, local header object, framer that read it is delivered to the looked-up call", Run: c01r3},
			{ID: "C01.R4", Floor: 10, Doc: "no release on abandonment; who-may-call for Clear/releaseStream/GetStream; release sites classified", Run: c01r4},
			{ID: "C01.R5", Floor: 1, Doc: "addCall refuses a stream id that is already registered, under c.mu", Run: c01r5},
			{ID: "C01.R6", Floor: 2, Doc: "contextWriter contract: the caller's context is never consulted after the frame was handed over, so exec's 'not started' release (n==0 && ctx error) cannot free the id of a frame that reaches the wire", Run: c07r4},
			{ID: "C01.R7", Floor: 6, Doc: "Conn.calls accessed only under c.mu (constructor literal excepted)", Run: c01r7},
			{ID: "C01.R8", Floor: 8, Doc: "writeHeader/readHeader/setLength/newFramer agree on header layout per version class", Run: c01r8},
			{ID: "C01.R9", Floor: 1, Doc: "the framer handed to a caller owns its body: recv installs no connection-lifetime storage into it", Run: c01r9},
			{ID: "C01.R10", Floor: 6, Doc: "an id in flight is not handed out again: the allocator claims and clears bits by compare-and-swap only (=C08.R2)", Run: c08r2},
			{ID: "C01.R11", Floor: 1, Doc: "Conn.Read resumes a partially filled buffer where the failed attempt stopped, so frame boundaries are kept across a retried read", Run: c01r11},
			{ID: "C01.R12", Floor: 2, Doc: "every send on callReq.resp has the alternative of the caller having left (receive on the call's timeout channel, or default)", Run: c01r12},
		},
	})
}

func c01r1(p *Program, r *Report) {
	fi := r.NeedFunc("(*Conn).exec")
	if fi == nil {
		return
	}
	info := fi.Pkg.TypesInfo
	var streamObj types.Object
	var callObj types.Object
	ast.Inspect(fi.Decl.Body, func(n ast.Node) bool {
		as, ok := n.(*ast.AssignStmt)
		if !ok || len(as.Rhs) != 1 {
			return true
		}
		if c, ok := ast.Unparen(as.Rhs[0]).(*ast.CallExpr); ok && isCallTo(info, c, "streams.(*IDGenerator).GetStream") {
			if id, ok := as.Lhs[0].(*ast.Ident); ok {
				streamObj = info.Defs[id]
			}
		}
		return true
	})
	if streamObj == nil {
		r.Unresolved("exec: no `x, ok := c.streams.GetStream()` definition")
		return
	}
	r.Check(singleAssigned(info, fi.Decl.Body, streamObj), fi.Decl, "(*Conn).exec stream id variable single-assigned",
		"the GetStream result is never re-assigned or address-taken", "the variable holding the allocated stream id is modified after allocation")
	// callReq literal
	foundLit := false
	ast.Inspect(fi.Decl.Body, func(n ast.Node) bool {
		cl, ok := n.(*ast.CompositeLit)
		if !ok || typeNameOf(info.TypeOf(cl)) != "callReq" {
			return true
		}
		foundLit = true
		okID := false
		for _, el := range cl.Elts {
			if kv, ok := el.(*ast.KeyValueExpr); ok && exprStr(kv.Key) == "streamID" {
				okID = isIdentOf(info, kv.Value, streamObj)
			}
		}
		r.Check(okID, cl, "(*Conn).exec callReq.streamID", "callReq.streamID is the allocated id", "callReq.streamID is not the id returned by GetStream")
		// the variable assigned from this literal
		if as, ok := p.Parent(p.Parent(cl)).(*ast.AssignStmt); ok {
			if id, ok := as.Lhs[0].(*ast.Ident); ok {
				callObj = info.Defs[id]
			}
		} else if as, ok := p.Parent(cl).(*ast.AssignStmt); ok {
			if id, ok := as.Lhs[0].(*ast.Ident); ok {
				callObj = info.Defs[id]
			}
		}
		return true
	})
	if !foundLit || callObj == nil {
		r.Unresolved("exec: callReq literal / variable not found")
		return
	}
	r.Check(singleAssigned(info, fi.Decl.Body, callObj), fi.Decl, "(*Conn).exec call variable single-assigned", "one callReq per invocation", "the call variable is re-assigned")
	// no later write to call.streamID
	ast.Inspect(fi.Decl.Body, func(n ast.Node) bool {
		for _, l := range assignedLHS(n) {
			if p.isField(info, l, "callReq", "streamID") {
				r.Bad(n, "(*Conn).exec write to callReq.streamID", "the registered stream id is modified after construction")
			}
		}
		return true
	})
	nAdd, nBuild := 0, 0
	ast.Inspect(fi.Decl.Body, func(n ast.Node) bool {
		c, ok := n.(*ast.CallExpr)
		if !ok {
			return true
		}
		switch calleeName(info, c) {
		case "(*Conn).addCall":
			nAdd++
			r.Check(len(c.Args) == 1 && isIdentOf(info, c.Args[0], callObj), c, "(*Conn).exec addCall argument", "registers this invocation's call", "addCall is given a different call")
		case "frameBuilder.buildFrame":
			nBuild++
			r.Check(len(c.Args) == 2 && isIdentOf(info, c.Args[1], streamObj), c, "(*Conn).exec buildFrame stream argument", "frame is built with the allocated id", "the frame is built with a value other than the id that was registered")
		}
		return true
	})
	if nAdd == 0 || nBuild == 0 {
		r.Unresolved("exec: addCall/buildFrame call not found")
	}
	// every builder passes streamID through to writeHeader
	wh := r.NeedFunc("(*framer).writeHeader")
	if wh == nil {
		return
	}
	whIdx := paramIndexByName(wh.Decl.Type, "stream")
	if whIdx < 0 {
		whIdx = 2
	}
	var passes func(fn *FuncInfo, idx int, depth int) (bool, string)
	passes = func(fn *FuncInfo, idx int, depth int) (bool, string) {
		if depth > 3 {
			return false, "too deep"
		}
		finfo := fn.Pkg.TypesInfo
		po := paramObj(finfo, fn.Decl.Type, idx)
		if po == nil {
			return false, "parameter dropped (unnamed)"
		}
		if !singleAssigned(finfo, fn.Decl.Body, po) {
			return false, "parameter re-assigned in " + fn.Name
		}
		reached := false
		why := ""
		okAll := true
		ast.Inspect(fn.Decl.Body, func(n ast.Node) bool {
			c, ok := n.(*ast.CallExpr)
			if !ok {
				return true
			}
			callee := calleeOf(finfo, c)
			if callee == nil {
				return true
			}
			tfi := p.FuncOf(callee)
			if tfi == wh {
				if whIdx < len(c.Args) && isIdentOf(finfo, c.Args[whIdx], po) {
					reached = true
				} else {
					okAll = false
					why = fmt.Sprintf("%s calls writeHeader with stream=%s, not its stream-id parameter", fn.Name, exprStr(c.Args[whIdx]))
				}
				return true
			}
			for ai, a := range c.Args {
				if isIdentOf(finfo, a, po) && tfi != nil {
					if sub, w := passes(tfi, ai, depth+1); sub {
						reached = true
					} else {
						okAll = false
						why = w
					}
				}
			}
			return true
		})
		if !okAll {
			return false, why
		}
		if !reached {
			return false, fn.Name + " never passes its stream id to writeHeader"
		}
		return true, ""
	}
	nb := 0
	for _, b := range p.SortedFuncs() {
		if b.Obj.Name() != "buildFrame" || b.Decl.Body == nil || b.Pkg != p.Root {
			continue
		}
		if strings.Contains(b.Name, "frameWriterFunc") {
			continue // adapter: calls a user function value, not a builder of this package
		}
		nb++
		ok, why := passes(b, 1, 0)
		r.Check(ok, b.Decl, b.Name+" stream id passthrough", "streamID parameter reaches writeHeader unchanged", why)
	}
	if nb < 8 {
		r.Unresolved("only %d buildFrame implementations found (8 expected)", nb)
	}
}

func c01r2(p *Program, r *Report) {
	fi := r.NeedFunc("(*Conn).exec")
	if fi == nil {
		return
	}
	g := p.GraphOf(fi)
	info := g.Info
	ef := g.Events(connEvents(p, g))
	ast.Inspect(fi.Decl.Body, func(n ast.Node) bool {
		c, ok := n.(*ast.CallExpr)
		if !ok {
			return true
		}
		s, reach := ef.Sol.Before(c)
		if !reach {
			return true
		}
		switch calleeName(info, c) {
		case "(*Conn).addCall":
			r.Check(s.Must["getStream"], c, "(*Conn).exec addCall after GetStream", "id allocated before registration", "call registered before a stream id was allocated")
		case "frameBuilder.buildFrame":
			r.Check(s.Must["registered"], c, "(*Conn).exec buildFrame after registration", "registered before the frame is built", "the frame is built before the call is registered (or on a path where addCall failed)")
		case "contextWriter.writeContext":
			r.Check(s.Must["registered"] && s.Must["built"], c, "(*Conn).exec write after registration and successful build", "nothing is written before registration", "bytes can reach the socket before the call is registered under its id, or after buildFrame failed")
		}
		return true
	})
}

func c01r3(p *Program, r *Report) {
	fi := r.NeedFunc("(*Conn).recv")
	if fi == nil {
		return
	}
	g := p.GraphOf(fi)
	info := g.Info
	// head := readHeader(...)
	var headObj, callObj types.Object
	var lookupKey ast.Expr
	var lookupFn *FuncInfo
	ast.Inspect(fi.Decl.Body, func(n ast.Node) bool {
		as, ok := n.(*ast.AssignStmt)
		if !ok || len(as.Rhs) != 1 {
			return true
		}
		switch rhs := ast.Unparen(as.Rhs[0]).(type) {
		case *ast.CallExpr:
			if isCallTo(info, rhs, "readHeader") {
				if id, ok := as.Lhs[0].(*ast.Ident); ok {
					headObj = info.Defs[id]
					if headObj == nil {
						headObj = info.Uses[id]
					}
				} else {
					r.Bad(as, "(*Conn).recv header object", "the parsed header is stored in "+exprStr(as.Lhs[0])+", which is shared between invocations: framers handed to callers alias a header that the next read overwrites")
				}
			}
		case *ast.IndexExpr:
			if p.isField(info, rhs.X, "Conn", "calls") {
				lookupKey = rhs.Index
				lookupFn = fi
				if id, ok := as.Lhs[0].(*ast.Ident); ok {
					callObj = info.Defs[id]
				}
			}
		}
		return true
	})
	// the lookup may live in a private helper of recv (`call, ok := c.takeCall(head.stream)`): the key is then the
	// helper's parameter (resolved to the argument) and the call object the variable that receives the result
	if lookupKey == nil {
		for _, h := range p.privateCallees(fi) {
			hinfo := h.Pkg.TypesInfo
			var hvar types.Object
			ast.Inspect(h.Decl.Body, func(n ast.Node) bool {
				as, ok := n.(*ast.AssignStmt)
				if !ok || len(as.Rhs) != 1 {
					return true
				}
				if ix, ok := ast.Unparen(as.Rhs[0]).(*ast.IndexExpr); ok && p.isField(hinfo, ix.X, "Conn", "calls") {
					lookupKey, lookupFn = ix.Index, h
					if id, ok := as.Lhs[0].(*ast.Ident); ok {
						hvar = hinfo.Defs[id]
						if hvar == nil {
							hvar = hinfo.Uses[id]
						}
					}
				}
				return true
			})
			if lookupFn != h || hvar == nil {
				continue
			}
			// which result of the helper carries the looked-up call?
			resIdx := -1
			for _, e := range p.GraphOf(h).Exits() {
				if rs, ok := e.Node.(*ast.ReturnStmt); ok {
					for i, res := range rs.Results {
						if isIdentOf(hinfo, res, hvar) {
							resIdx = i
						}
					}
					if len(rs.Results) == 0 && h.Decl.Type.Results != nil {
						// named results
						k := 0
						for _, f := range h.Decl.Type.Results.List {
							for _, nm := range f.Names {
								if hinfo.Defs[nm] == hvar {
									resIdx = k
								}
								k++
							}
						}
					}
				}
			}
			ast.Inspect(fi.Decl.Body, func(n ast.Node) bool {
				as, ok := n.(*ast.AssignStmt)
				if !ok || len(as.Rhs) != 1 || resIdx < 0 || resIdx >= len(as.Lhs) {
					return true
				}
				if c, ok := ast.Unparen(as.Rhs[0]).(*ast.CallExpr); ok {
					if fn := calleeOf(info, c); fn != nil && p.FuncOf(fn) == h {
						if id, ok := as.Lhs[resIdx].(*ast.Ident); ok {
							callObj = info.Defs[id]
							if callObj == nil {
								callObj = info.Uses[id]
							}
						}
					}
				}
				return true
			})
		}
	}
	if headObj == nil {
		r.Unresolved("recv: no local variable defined from readHeader(...)")
		return
	}
	hv, _ := headObj.(*types.Var)
	isLocal := hv != nil && !hv.IsField() && hv.Parent() != nil && hv.Parent() != fi.Pkg.Types.Scope()
	_, isPtr := headObj.Type().(*types.Pointer)
	r.Check(isLocal && !isPtr && singleAssigned(info, fi.Decl.Body, headObj) || isLocal && !isPtr, fi.Decl, "(*Conn).recv header object is a local value",
		"the header is a value local to this invocation", "the header read by recv is not a local value: every framer delivered to a caller would alias the same header")
	if lookupKey == nil || callObj == nil {
		r.Unresolved("recv: no `call, ok := c.calls[...]` lookup")
		return
	}
	// a key is the header's stream id when, followed through local copies and helper parameters, it is head.stream
	recvFn, recvInfo := fi, info
	isHeadStreamIn := func(fn *FuncInfo, e ast.Expr) bool {
		rf, re := p.resolveValue(fn, e, 0)
		if rf != recvFn {
			return false
		}
		sel, ok := ast.Unparen(re).(*ast.SelectorExpr)
		return ok && p.isField(recvInfo, sel, "frameHeader", "stream") && isIdentOf(recvInfo, sel.X, headObj)
	}
	isHeadStream := func(e ast.Expr) bool { return isHeadStreamIn(lookupFn, e) }
	g = p.GraphOf(lookupFn)
	fiOuter := fi
	fi = lookupFn
	info = g.Info
	r.Check(isHeadStream(lookupKey), lookupKey, "(*Conn).recv lookup key", "call looked up by the stream field of the header just read", "the call is looked up under "+exprStr(lookupKey)+", not under the stream id of the header just read")
	// same critical section for lookup and delete
	locks := g.Lockset()
	lk := Solve(g, Lattice[strset]{
		Init: strset{}, Join: func(a, b strset) strset { return a.intersect(b) }, Eq: func(a, b strset) bool { return a.eq(b) },
		Step: func(s strset, st Step) strset {
			if st.Kind != StNode {
				return s
			}
			ast.Inspect(st.Node, func(n ast.Node) bool {
				if ix, ok := n.(*ast.IndexExpr); ok && p.isField(info, ix.X, "Conn", "calls") {
					s = s.with("lookup")
				}
				return true
			})
			for _, c := range callsIn(st.Node) {
				if k, ok := isMutexMethod(calleeName(info, c)); ok && k == "Unlock" {
					s = s.without("lookup")
				}
			}
			return s
		},
	})
	ndel := 0
	ast.Inspect(fi.Decl.Body, func(n ast.Node) bool {
		c, ok := n.(*ast.CallExpr)
		if !ok {
			return true
		}
		if calleeName(info, c) == "builtin.delete" && len(c.Args) == 2 && p.isField(info, c.Args[0], "Conn", "calls") {
			ndel++
			r.Check(isHeadStream(c.Args[1]), c, "(*Conn).recv delete key", "the looked-up id is the one removed", "recv deletes key "+exprStr(c.Args[1])+", not the stream id it looked up")
			s, _ := lk.Before(c)
			ls, _ := locks.Before(c)
			r.Check(s["lookup"] && len(ls) > 0, c, "(*Conn).recv lookup+delete atomic", "lookup and delete in one critical section", "the call is removed from c.calls in a different critical section than the lookup: two frames with one id can both find it")
		}
		return true
	})
	if ndel == 0 {
		r.Bad(fi.Decl, "(*Conn).recv delete from calls", "recv never removes the delivered call from c.calls: a late duplicate frame is delivered to it again")
	}
	fi = fiOuter
	g = p.GraphOf(fi)
	info = g.Info
	// readFrame calls take &head
	nrf := 0
	ast.Inspect(fi.Decl.Body, func(n ast.Node) bool {
		c, ok := n.(*ast.CallExpr)
		if !ok {
			return true
		}
		hdr, _, isRead := p.frameReadCall(info, c)
		if !isRead {
			return true
		}
		nrf++
		u, isAddr := ast.Unparen(hdr).(*ast.UnaryExpr)
		r.Check(isAddr && u.Op == token.AND && isIdentOf(info, u.X, headObj), c, "(*Conn).recv readFrame header argument",
			"the frame body is read for the header of this invocation", "readFrame is given "+exprStr(hdr)+" instead of the address of this invocation's header")
		return true
	})
	if nrf == 0 {
		r.Unresolved("recv: no readFrame call")
	}
	// delivery: the framer sent on call.resp is the one whose readFrame got &head; receiver call is the looked-up one
	ast.Inspect(fi.Decl.Body, func(n ast.Node) bool {
		s, ok := n.(*ast.SendStmt)
		if !ok || !p.isField(info, s.Chan, "callReq", "resp") {
			return true
		}
		sel := ast.Unparen(s.Chan).(*ast.SelectorExpr)
		r.Check(isIdentOf(info, sel.X, callObj), s, "(*Conn).recv delivery target", "response sent to the call found under the header's id", "the response is sent to a call other than the one looked up by the header's stream id")
		cl, ok := ast.Unparen(s.Value).(*ast.CompositeLit)
		okFramer := false
		if ok {
			for _, el := range cl.Elts {
				kv, ok := el.(*ast.KeyValueExpr)
				if !ok || exprStr(kv.Key) != "framer" {
					continue
				}
				fid, ok := ast.Unparen(kv.Value).(*ast.Ident)
				if !ok {
					continue
				}
				fobj := info.Uses[fid]
				// a readFrame(c, &head) call on this framer object must exist
				ast.Inspect(fi.Decl.Body, func(m ast.Node) bool {
					c, ok := m.(*ast.CallExpr)
					if ok && isCallTo(info, c, "(*framer).readFrame") {
						if rx := recvExpr(c); rx != nil && isIdentOf(info, rx, fobj) && c.Pos() < s.Pos() {
							okFramer = true
						}
					}
					// the framer is the first result of a helper that made it and read this header's body into it
					if as, isA := m.(*ast.AssignStmt); isA && len(as.Rhs) == 1 && len(as.Lhs) >= 1 && as.Pos() < s.Pos() {
						if hc, isC := ast.Unparen(as.Rhs[0]).(*ast.CallExpr); isC && isIdentOf(info, as.Lhs[0], fobj) {
							if hdr, via, isRead := p.frameReadCall(info, hc); isRead && via {
								if u, isAddr := ast.Unparen(hdr).(*ast.UnaryExpr); isAddr && u.Op == token.AND && isIdentOf(info, u.X, headObj) {
									okFramer = true
								}
							}
						}
					}
					return true
				})
			}
		}
		r.Check(okFramer, s, "(*Conn).recv delivered framer", "the framer that read this frame's body is delivered", "the delivered framer is not the one that read the body for this header")
		return true
	})
}

func c01r4(p *Program, r *Report) {
	// who-may-call
	allowed := map[string][]string{
		"streams.(*IDGenerator).Clear":     {"(*Conn).releaseStream"},
		"(*Conn).releaseStream":            {"(*Conn).exec", "(*Conn).recv"},
		"streams.(*IDGenerator).GetStream": {"(*Conn).exec"},
	}
	counts := map[string]int{}
	p.forEachFunc(false, func(fi *FuncInfo) {
		info := fi.Pkg.TypesInfo
		ast.Inspect(fi.Decl.Body, func(n ast.Node) bool {
			c, ok := n.(*ast.CallExpr)
			if !ok {
				return true
			}
			name := calleeName(info, c)
			al, tracked := allowed[name]
			if !tracked {
				return true
			}
			counts[name]++
			ok = p.callerWithin(fi, al, 0)
			r.Check(ok, c, fi.Name+" calls "+name, "allowed caller (or a private helper only they call)", name+" may only be called from "+strings.Join(al, ", ")+": a new caller can free or take a stream id outside the request life cycle")
			return true
		})
	})
	for name := range allowed {
		if counts[name] == 0 {
			r.Unresolved("no call site of %s found", name)
		}
	}
	// method values: releaseStream/Clear must not be taken as a value
	p.forEachFunc(false, func(fi *FuncInfo) {
		info := fi.Pkg.TypesInfo
		ast.Inspect(fi.Decl.Body, func(n ast.Node) bool {
			sel, ok := n.(*ast.SelectorExpr)
			if !ok {
				return true
			}
			fn, ok := info.Uses[sel.Sel].(*types.Func)
			if !ok {
				return true
			}
			name := funcQualNameAny(fn)
			if _, tracked := allowed[name]; !tracked {
				return true
			}
			if call, ok := p.Parent(sel).(*ast.CallExpr); ok && call.Fun == ast.Expr(sel) {
				return true
			}
			r.Bad(sel, fi.Name+" takes "+name+" as a value", "method value escapes the who-may-call rule")
			return true
		})
	})

	// exec: abandonment cases
	fi := r.NeedFunc("(*Conn).exec")
	if fi == nil {
		return
	}
	g := p.GraphOfInl(fi)
	info := g.Info
	ef := g.Events(connEvents(p, g))
	facts := g.GuardFacts()
	var callObj types.Object
	ast.Inspect(fi.Decl.Body, func(n ast.Node) bool {
		if c, ok := n.(*ast.CallExpr); ok && isCallTo(info, c, "(*Conn).addCall") && len(c.Args) == 1 {
			if id, ok := ast.Unparen(c.Args[0]).(*ast.Ident); ok {
				callObj = info.Uses[id]
			}
		}
		return true
	})
	// isTheCall: e (in unit u of exec) denotes exec's call object: the variable itself, or the parameter of a helper
	// it was handed to
	var isTheCall func(u *FuncInfo, e ast.Expr) bool
	isTheCall = func(u *FuncInfo, e ast.Expr) bool {
		if isIdentOf(info, e, callObj) {
			return true
		}
		id, isId := ast.Unparen(e).(*ast.Ident)
		if !isId || u == fi || u.Obj == nil {
			return false
		}
		// a parameter of a helper: every call site inside exec's units passes the call
		sig := u.Obj.Type().(*types.Signature)
		for i := 0; i < sig.Params().Len(); i++ {
			if sig.Params().At(i) != info.Uses[id] || !neverAssigned(info, u.Decl.Body, info.Uses[id]) {
				continue
			}
			nsite, all := 0, true
			for _, caller := range g.Units() {
				for _, c := range callsIn(caller.Decl.Body) {
					if fn := calleeOf(info, c); fn != nil && p.FuncOf(fn) == u && i < len(c.Args) {
						nsite++
						if !isTheCall(caller, c.Args[i]) {
							all = false
						}
					}
				}
			}
			return nsite > 0 && all
		}
		return false
	}
	nAb := 0
	for _, u := range g.Units() {
		u := u
		ast.Inspect(u.Decl.Body, func(n ast.Node) bool {
			sel, ok := n.(*ast.SelectStmt)
			if !ok {
				return true
			}
			hasResp := false
			for _, cc := range commClauses(sel) {
				if ch := recvChan(cc.Comm); ch != nil && p.isField(info, ch, "callReq", "resp") {
					hasResp = true
				}
			}
			if !hasResp {
				return true
			}
			for _, cc := range commClauses(sel) {
				ch := recvChan(cc.Comm)
				if ch == nil || p.isField(info, ch, "callReq", "resp") {
					continue
				}
				nAb++
				name := "(*Conn).exec abandonment case <-" + exprStr(ch)
				bad := ""
				for _, st := range cc.Body {
					ast.Inspect(st, func(m ast.Node) bool {
						c, ok := m.(*ast.CallExpr)
						if !ok {
							return true
						}
						cn := calleeName(info, c)
						if cn == "(*Conn).releaseStream" || cn == "streams.(*IDGenerator).Clear" {
							bad = "releases the stream id although the response may still arrive: the id can be handed to a later request which then receives this request's late response"
						}
						if cn == "builtin.delete" && len(c.Args) == 2 && p.isField(info, c.Args[0], "Conn", "calls") {
							bad = "removes the call from c.calls: the late response finds no handler while the id stays reserved forever, or a re-registration gets it"
						}
						for _, a := range c.Args {
							if callObj != nil && isTheCall(u, a) && cn != "builtin.close" {
								bad = "passes the abandoned call to " + cn + " (only close(call.timeout) is allowed on abandonment)"
							}
						}
						return true
					})
				}
				r.Check(bad == "", cc, name, "only closes call.timeout; id stays reserved until the response or connection end", "this case "+bad)
			}
			return false
		})
	}
	if nAb < 3 {
		r.Unresolved("exec: fewer than 3 abandonment cases in the wait select (%d)", nAb)
	}
	// release sites in exec (and the helpers it was split into): classified in the context of exec
	for _, u := range g.Units() {
		u := u
		if u.Name == "(*Conn).releaseStream" {
			continue
		}
		ast.Inspect(u.Decl.Body, func(n ast.Node) bool {
			c, ok := n.(*ast.CallExpr)
			if !ok || !isCallTo(info, c, "(*Conn).releaseStream") {
				return true
			}
			at := ast.Node(c)
			if d, ok := p.Parent(c).(*ast.DeferStmt); ok {
				at = d
			}
			// one verdict per context in which the site is reached (a helper called from several places)
			ss := ef.Sol.BeforeEach(at)
			fs := facts.BeforeEach(at)
			if len(ss) == 0 || len(fs) != len(ss) {
				return true
			}
			class := ""
			for ci, s := range ss {
				f := fs[ci]
				cls := ""
				switch {
				case s.Must["recvResp"]:
					cls = "response received"
				case s.Must["buildErr"]:
					cls = "frame could not be built (nothing written)"
				case s.Must["writeErr"]:
					// must be the not-started case: n == 0 known
					nz := false
					for k, v := range f.m {
						if v && (strings.HasSuffix(k, " == 0") || strings.HasPrefix(k, "0 == ")) {
							nz = true
						}
					}
					if nz {
						cls = "write not started (n == 0)"
					}
				}
				if cls == "" {
					class = ""
					break
				}
				if class == "" {
					class = cls
				} else if !strings.Contains(class, cls) {
					class += " / " + cls
				}
			}
			r.Check(class != "" && len(c.Args) == 1 && isTheCall(u, c.Args[0]), c, "(*Conn).exec releaseStream site",
				"release justified: "+class, "the stream id is released on a path where the request may be on the wire and unanswered (not after a response, a build error, or a write that did not start)")
			return true
		})
	}
	// recv: release only in the case <-call.timeout, after the body was read
	if rf := r.NeedFunc("(*Conn).recv"); rf != nil {
		rinfo := rf.Pkg.TypesInfo
		ast.Inspect(rf.Decl.Body, func(n ast.Node) bool {
			c, ok := n.(*ast.CallExpr)
			if !ok || !isCallTo(rinfo, c, "(*Conn).releaseStream") {
				return true
			}
			cc, _ := p.enclosing(c, rf.Decl, func(x ast.Node) bool { _, ok := x.(*ast.CommClause); return ok }).(*ast.CommClause)
			okCase := false
			if cc != nil {
				if ch := recvChan(cc.Comm); ch != nil && p.isField(rinfo, ch, "callReq", "timeout") {
					okCase = true
				}
			}
			readBefore := false
			ast.Inspect(rf.Decl.Body, func(m ast.Node) bool {
				if rc, ok := m.(*ast.CallExpr); ok && rc.Pos() < c.Pos() {
					if _, _, isRead := p.frameReadCall(rinfo, rc); isRead {
						readBefore = true
					}
				}
				return true
			})
			r.Check(okCase && readBefore, c, "(*Conn).recv releaseStream site", "receiver releases only for a departed caller, after the body was consumed",
				"recv releases a stream outside the `<-call.timeout` case or before reading the frame body")
			return true
		})
	}
}

func c01r5(p *Program, r *Report) {
	fi := r.NeedFunc("(*Conn).addCall")
	if fi == nil {
		return
	}
	g := p.GraphOf(fi)
	info := g.Info
	facts := g.GuardFacts()
	locks := g.Lockset()
	n := 0
	ast.Inspect(fi.Decl.Body, func(x ast.Node) bool {
		as, ok := x.(*ast.AssignStmt)
		if !ok || len(as.Lhs) != 1 {
			return true
		}
		ix, ok := ast.Unparen(as.Lhs[0]).(*ast.IndexExpr)
		if !ok || !p.isField(info, ix.X, "Conn", "calls") {
			return true
		}
		n++
		key := exprStr(ix.Index)
		// find `v := c.calls[key]`
		var existing string
		ast.Inspect(fi.Decl.Body, func(m ast.Node) bool {
			if a2, ok := m.(*ast.AssignStmt); ok && len(a2.Rhs) == 1 && a2 != as {
				if ix2, ok := ast.Unparen(a2.Rhs[0]).(*ast.IndexExpr); ok && p.isField(info, ix2.X, "Conn", "calls") && exprStr(ix2.Index) == key {
					existing = exprStr(a2.Lhs[0])
				}
			}
			return true
		})
		f, _ := facts.Before(as)
		ls, _ := locks.Before(as)
		root := exprStr(ast.Unparen(ix.X).(*ast.SelectorExpr).X)
		isNilKnown, known := f.KnownStr(existing + " == nil")
		closedV, closedKnown := f.KnownStr(root + ".closed")
		r.Check(existing != "" && known && isNilKnown && ls[root+".mu"], as, "(*Conn).addCall store guarded by existing==nil",
			"the slot was looked up under the same key and found empty, under "+root+".mu", "the call is stored without checking (under the mutex) that no call is registered under that id: a duplicate id silently replaces the other request's call")
		r.Check(closedKnown && !closedV, as, "(*Conn).addCall store guarded by !closed", "registration refused once the connection started closing", "a call can be registered after closeWithError took the calls map: it would never be completed")
		return true
	})
	if n == 0 {
		r.Unresolved("addCall: no store into c.calls")
	}
}

func c01r7(p *Program, r *Report) {
	n := 0
	p.forEachFunc(false, func(fi *FuncInfo) {
		info := fi.Pkg.TypesInfo
		var uses []ast.Node
		ast.Inspect(fi.Decl.Body, func(x ast.Node) bool {
			if sel, ok := x.(*ast.SelectorExpr); ok && p.isField(info, sel, "Conn", "calls") {
				uses = append(uses, sel)
			}
			return true
		})
		if len(uses) == 0 {
			return
		}
		g := p.GraphOf(fi)
		locks := g.Lockset()
		for _, u := range uses {
			n++
			if _, inLit := p.Parent(u).(*ast.KeyValueExpr); inLit {
				continue
			}
			root := exprStr(u.(*ast.SelectorExpr).X)
			at := u
			// inside a function literal: use the literal's own graph
			if lit, ok := p.enclosingFuncNode(u).(*ast.FuncLit); ok {
				lg := p.GraphOfLit(fi, lit)
				ls, ok2 := lg.Lockset().Before(at)
				r.Check(ok2 && ls[root+".mu"], u, fi.Name+" access to calls (in literal)", "under "+root+".mu", "c.calls accessed without c.mu")
				continue
			}
			ls, ok := locks.Before(at)
			if !ok {
				continue
			}
			r.Check(ls[root+".mu"], u, fi.Name+" access to Conn.calls", "under "+root+".mu", "Conn.calls is accessed without holding "+root+".mu (data race with recv/closeWithError; a response can be routed through a torn map)")
		}
	})
	if n == 0 {
		r.Unresolved("no access to Conn.calls found")
	}
}

func c01r8(p *Program, r *Report) {
	wh := r.NeedFunc("(*framer).writeHeader")
	rh := r.NeedFunc("readHeader")
	nf := r.NeedFunc("newFramer")
	// the function that stores the length into the header (setLength, or finish when the stores are written there)
	lp := p.lengthPatch()
	if lp == nil {
		r.Unresolved("no function stores the four bytes of a length into framer.buf")
		return
	}
	sl := lp.Fn
	if wh == nil || rh == nil || nf == nil {
		return
	}
	winfo := wh.Pkg.TypesInfo
	flagsName, opName, streamName := "flags", "op", "stream"
	if po := paramObj(winfo, wh.Decl.Type, 0); po != nil {
		flagsName = po.Name()
	}
	if po := paramObj(winfo, wh.Decl.Type, 1); po != nil {
		opName = po.Name()
	}
	if po := paramObj(winfo, wh.Decl.Type, 2); po != nil {
		streamName = po.Name()
	}
	lenName := lp.V.Name()
	// The writer is interpreted for a concrete protocol version (helpers followed): the bytes appended to f.buf
	// after the last reset are the header layout of that version.
	writerLayout := func(v int) ([]ByteItem, bool) {
		tr := &tracer{p: p, prims: map[string]string{}, maxPaths: 64, inline: map[string]bool{}, trackBuf: "f.buf"}
		paths := tr.run(wh, v)
		if len(paths) != 1 || len(tr.unsup) > 0 {
			r.Unresolved("writeHeader v%d: %d paths, %v", v, len(paths), tr.unsup)
			return nil, false
		}
		var items []ByteItem
		for _, it := range flat(paths[0].trace) {
			switch it.Prim {
			case "reset":
				items = nil
			case "bytes":
				items = append(items, it.Bytes...)
			}
		}
		return items, true
	}
	setLengthStores := func(v int) (map[int]ByteItem, bool) {
		tr := &tracer{p: p, prims: map[string]string{}, maxPaths: 64, inline: map[string]bool{}, trackBuf: "f.buf"}
		paths := tr.run(sl, v)
		if len(paths) == 0 || len(tr.unsup) > 0 {
			r.Unresolved("%s v%d: %d paths, %v", sl.Name, v, len(paths), tr.unsup)
			return nil, false
		}
		// every path that stores anything stores the same bytes (paths that leave early with an error store none)
		var out map[int]ByteItem
		for _, ps := range paths {
			cur := map[int]ByteItem{}
			for _, it := range flat(ps.trace) {
				if it.Prim == "store" && len(it.Bytes) == 1 {
					cur[it.Off] = it.Bytes[0]
				}
				if it.Prim == "store-le" {
					cur[-1] = ByteItem{}
				}
			}
			if len(cur) == 0 {
				continue
			}
			if out != nil && fmt.Sprint(out) != fmt.Sprint(cur) {
				cur[-2] = ByteItem{}
			}
			out = cur
		}
		if out == nil {
			out = map[int]ByteItem{}
		}
		return out, true
	}
	// The reader, likewise, for the version class its local `version` variable takes.
	type fieldRead struct {
		dec fixedDecoding
		ok  bool
		e   ast.Expr
	}
	readerFields := func(v int) (map[string]fieldRead, bool) {
		tr := &tracer{p: p, prims: map[string]string{}, maxPaths: 256, inline: map[string]bool{}, trackVar: "head"}
		if rh.Decl.Type.Results != nil && len(rh.Decl.Type.Results.List) > 0 && len(rh.Decl.Type.Results.List[0].Names) > 0 {
			tr.trackVar = rh.Decl.Type.Results.List[0].Names[0].Name
		}
		out := map[string]fieldRead{}
		n := 0
		for _, st := range tr.run(rh, v) {
			ft := flat(st.trace)
			if traceHasError(ft) || st.done == "panic" {
				continue
			}
			has := false
			for _, it := range ft {
				if it.Prim == "field" {
					has = true
				}
			}
			if !has {
				continue
			}
			n++
			for _, it := range ft {
				if it.Prim != "field" {
					continue
				}
				rinfo := rh.Pkg.TypesInfo
				e := it.Expr
				// readInt(p[k:]) is the 4-byte big-endian reader (checked by C04.R5)
				if c, ok := ast.Unparen(stripAllConv(rinfo, e)).(*ast.CallExpr); ok && isCallTo(rinfo, c, "readInt") && len(c.Args) == 1 {
					base, off := sliceBase(rinfo, c.Args[0])
					out[it.Arg] = fieldRead{fixedDecoding{Width: 4, Base: base, Offset: off, BigEndian: true, Conv: "int32", How: "readInt"}, true, e}
					continue
				}
				if d, ok := decodingOf(rinfo, e); ok {
					out[it.Arg] = fieldRead{d, true, e}
					continue
				}
				// a single byte: T(p[k])
				if ix, ok := ast.Unparen(stripAllConv(rinfo, e)).(*ast.IndexExpr); ok {
					if k, ok := constInt(rinfo, ix.Index); ok {
						conv := ""
						if c, ok := ast.Unparen(e).(*ast.CallExpr); ok && len(c.Args) == 1 {
							// innermost conversion decides the sign
							cur := ast.Expr(c)
							for {
								cc, ok := ast.Unparen(cur).(*ast.CallExpr)
								if !ok || len(cc.Args) != 1 {
									break
								}
								if tv, ok := rinfo.Types[cc.Fun]; ok && tv.IsType() {
									conv = tv.Type.String()
								}
								cur = cc.Args[0]
							}
						}
						out[it.Arg] = fieldRead{fixedDecoding{Width: 1, Base: exprStr(ix.X), Offset: int(k), BigEndian: true, Conv: conv, How: "byte"}, true, e}
						continue
					}
				}
				out[it.Arg] = fieldRead{e: e}
			}
		}
		if n == 0 || len(tr.unsup) > 0 {
			r.Unresolved("readHeader v%d: %d successful paths, %v", v, n, tr.unsup)
			return nil, false
		}
		return out, true
	}
	for _, v := range []int{2, 3} {
		class := "v1-2"
		wantLen, streamW := 8, 1
		if v >= 3 {
			class, wantLen, streamW = "v3+", 9, 2
		}
		lay, ok := writerLayout(v)
		if !ok {
			continue
		}
		if !r.Check(len(lay) == wantLen, wh.Decl, "writeHeader["+class+"] header size", fmt.Sprintf("%d bytes", wantLen), fmt.Sprintf("writeHeader appends %d bytes for %s; the protocol header is %d bytes", len(lay), class, wantLen)) {
			continue
		}
		chk := func(idx int, base string, shift int, what string) {
			it := lay[idx]
			r.Check(!it.IsConst && it.Base == base && it.Shift == shift, wh.Decl, fmt.Sprintf("writeHeader[%s] byte %d = %s", class, idx, what), it.String(), fmt.Sprintf("header byte %d is %s, expected %s", idx, it.String(), what))
		}
		chk(0, "f.proto", 0, "protocol version")
		chk(1, flagsName, 0, "flags")
		for i := 0; i < streamW; i++ {
			chk(2+i, streamName, 8*(streamW-1-i), fmt.Sprintf("stream>>%d", 8*(streamW-1-i)))
		}
		chk(2+streamW, opName, 0, "opcode")
		zeros := true
		for _, it := range lay[wantLen-4:] {
			if !it.IsConst || it.Val != 0 {
				zeros = false
			}
		}
		r.Check(zeros, wh.Decl, "writeHeader["+class+"] length placeholder", "last four bytes reserved for the length", "the last four header bytes are not the length placeholder")
		// setLength patches exactly that placeholder, big-endian
		if st, ok := setLengthStores(v); ok {
			okSt := len(st) == 4
			for i := 0; i < 4; i++ {
				it, has := st[wantLen-4+i]
				if !has || it.Base != lenName || it.Shift != 8*(3-i) {
					okSt = false
				}
			}
			r.Check(okSt, sl.Decl, "setLength["+class+"] patches the 4 placeholder bytes big-endian", fmt.Sprintf("stores at offsets %d..%d", wantLen-4, wantLen-1), fmt.Sprintf("setLength does not store the length big-endian into header bytes %d..%d (stores: %v)", wantLen-4, wantLen-1, st))
		}
		// the reader takes every field from where the writer put it
		if rf, ok := readerFields(v); ok {
			s := rf["stream"]
			signed := strings.HasPrefix(s.dec.Conv, "int")
			r.Check(s.ok && s.dec.BigEndian && s.dec.Offset == 2 && s.dec.Width == streamW && signed, rh.Decl, "readHeader["+class+"] stream", fmt.Sprintf("big-endian signed %d-byte field at offset 2, matching the writer", streamW),
				fmt.Sprintf("reader takes the stream id from %s (offset %d width %d big-endian=%v conversion %s) but the writer puts it at offset 2 width %d, and the id is a signed quantity", exprStr(s.e), s.dec.Offset, s.dec.Width, s.dec.BigEndian, s.dec.Conv, streamW))
			o := rf["op"]
			r.Check(o.ok && o.dec.Width == 1 && o.dec.Offset == 2+streamW, rh.Decl, "readHeader["+class+"] op", fmt.Sprintf("opcode at offset %d in both", 2+streamW), "opcode offset differs between reader ("+exprStr(o.e)+") and writer")
			l := rf["length"]
			r.Check(l.ok && l.dec.Width == 4 && l.dec.BigEndian && l.dec.Offset == wantLen-4, rh.Decl, "readHeader["+class+"] length", fmt.Sprintf("length at offset %d in both", wantLen-4), fmt.Sprintf("length read from %s (offset %d), writer reserves offset %d", exprStr(l.e), l.dec.Offset, wantLen-4))
			fl := rf["flags"]
			r.Check(fl.ok && fl.dec.Width == 1 && fl.dec.Offset == 1, rh.Decl, "readHeader["+class+"] flags", "flags at offset 1 in both", "flags offset differs between reader ("+exprStr(fl.e)+") and writer")
		}
	}
	// newFramer headSize 8/9
	ninfo := nf.Pkg.TypesInfo
	var hs []int64
	ast.Inspect(nf.Decl.Body, func(n ast.Node) bool {
		if as, ok := n.(*ast.AssignStmt); ok && len(as.Lhs) == 1 && exprStr(as.Lhs[0]) == "headSize" {
			if k, ok := constInt(ninfo, as.Rhs[0]); ok {
				hs = append(hs, k)
			}
		}
		return true
	})
	r.Check(len(hs) == 2 && hs[0]+hs[1] == 17, nf.Decl, "newFramer headSize 8/9", "framer.headSize equals the bytes writeHeader appends", fmt.Sprintf("newFramer head sizes %v differ from writeHeader's 8/9", hs))
}

// c01r9: a response is decoded by the caller after recv has gone on to read the next frame. The framer that
// carries the body must therefore own its bytes: in recv no slice-typed field of the framer is assigned from
// (or saved into) storage that lives as long as the connection.
func c01r9(p *Program, r *Report) {
	fi := r.NeedFunc("(*Conn).recv")
	if fi == nil {
		return
	}
	info := fi.Pkg.TypesInfo
	recvName := ""
	if fi.Decl.Recv != nil && len(fi.Decl.Recv.List) == 1 && len(fi.Decl.Recv.List[0].Names) == 1 {
		recvName = fi.Decl.Recv.List[0].Names[0].Name
	}
	n := 0
	bad := false
	ast.Inspect(fi.Decl.Body, func(x ast.Node) bool {
		as, ok := x.(*ast.AssignStmt)
		if !ok || len(as.Lhs) != len(as.Rhs) {
			return true
		}
		for i, l := range as.Lhs {
			ls, lok := ast.Unparen(l).(*ast.SelectorExpr)
			if !lok {
				continue
			}
			lt := info.TypeOf(ls)
			if lt == nil {
				continue
			}
			if _, isSlice := lt.Underlying().(*types.Slice); !isSlice {
				continue
			}
			lroot, rroot := rootIdent(ls), rootIdent(as.Rhs[i])
			lIsFramer := typeNameOf(info.TypeOf(ls.X)) == "framer"
			rIsFramer := false
			if rs, ok := ast.Unparen(as.Rhs[i]).(*ast.SelectorExpr); ok {
				rIsFramer = typeNameOf(info.TypeOf(rs.X)) == "framer"
			}
			switch {
			case lIsFramer && rroot != nil && rroot.Name == recvName:
				n++
				bad = true
				r.Bad(as, "(*Conn).recv: "+exprStr(l)+" = "+exprStr(as.Rhs[i]), "the framer that is handed to the waiting request reads its body into storage owned by the connection: the next frame read by recv overwrites the bytes while the first caller is still decoding them, so a request sees another request's response")
			case rIsFramer && lroot != nil && lroot.Name == recvName:
				n++
				bad = true
				r.Bad(as, "(*Conn).recv: "+exprStr(l)+" = "+exprStr(as.Rhs[i]), "the body buffer of a framer that is handed to a caller is kept by the connection for reuse: a later response is read into bytes an earlier caller is still decoding")
			}
		}
		return true
	})
	// the framer is created per response
	fresh := false
	for _, c := range callsIn(fi.Decl.Body) {
		if isCallTo(info, c, "newFramer") {
			fresh = true
		}
		if _, via, isRead := p.frameReadCall(info, c); isRead && via {
			fresh = true
		}
	}
	if !bad {
		r.Check(fresh, fi.Decl, "(*Conn).recv builds a fresh framer per response and installs no connection-owned storage into it", "newFramer per frame; no framer slice field assigned from/to the Conn", "recv does not create a framer per response")
	}
	_ = n
}

// c01r11: Conn.Read retries temporary errors. io.ReadFull may have delivered part of the requested bytes before the
// error, so the retry must fill the rest of the buffer (p[n:], with n advanced by every attempt's count). Reading
// len(p) bytes again swallows the beginning of the next frame into this one: the following response is never looked
// up under its stream id and this caller gets another request's bytes.
func c01r11(p *Program, r *Report) {
	fi := r.NeedFunc("(*Conn).Read")
	if fi == nil {
		return
	}
	info := fi.Pkg.TypesInfo
	buf := paramObj(info, fi.Decl.Type, 0)
	n := 0
	for _, c := range callsIn(fi.Decl.Body) {
		nm := calleeName(info, c)
		if nm != "io.ReadFull" && nm != "io.ReadAtLeast" || len(c.Args) < 2 {
			continue
		}
		loop := p.enclosing(c, fi.Decl, func(m ast.Node) bool {
			switch m.(type) {
			case *ast.ForStmt, *ast.RangeStmt:
				return true
			}
			return false
		})
		if loop == nil {
			continue // a single attempt
		}
		n++
		name := "(*Conn).Read retries fill the rest of the buffer"
		sl, ok := ast.Unparen(c.Args[1]).(*ast.SliceExpr)
		if !ok || !isIdentOf(info, sl.X, buf) || sl.Low == nil || sl.High != nil {
			r.Bad(c, name, "the retried read is given "+exprStr(c.Args[1])+" instead of the unfilled rest of the buffer (p[n:]): bytes already delivered by the failed attempt are read again from the stream, so this frame swallows the start of the next one and that response is lost")
			continue
		}
		pos, isId := ast.Unparen(sl.Low).(*ast.Ident)
		cnt := resultVarOf(p, c, 0)
		adv := false
		if isId && cnt != "" && cnt != "_" {
			obj := info.Uses[pos]
			ast.Inspect(loop, func(x ast.Node) bool {
				if as, ok := x.(*ast.AssignStmt); ok && len(as.Lhs) == 1 && len(as.Rhs) == 1 && isIdentOf(info, as.Lhs[0], obj) {
					if as.Tok == token.ADD_ASSIGN && exprStr(ast.Unparen(as.Rhs[0])) == cnt {
						adv = true
					}
				}
				return true
			})
		}
		r.Check(adv, c, name, "p["+exprStr(sl.Low)+":], advanced by the count of each attempt", "the offset "+exprStr(sl.Low)+" into the buffer is not advanced by the number of bytes each attempt delivered: a retry overwrites or re-reads part of the frame")
	}
	if n == 0 {
		r.OK(fi.Decl, "(*Conn).Read does not retry partial reads", "no ReadFull inside a loop")
	}
}

// frameReadCall: c reads a frame body for a header: a direct (*framer).readFrame(r, hdr), or a private helper of the
// package that passes its header parameter on to readFrame on a framer it makes itself (newFramer) and returns that
// framer. Returns the header argument at c and whether the framer is the helper's first result (fresh per call).
func (p *Program) frameReadCall(info *types.Info, c *ast.CallExpr) (hdr ast.Expr, viaHelper bool, ok bool) {
	if isCallTo(info, c, "(*framer).readFrame") && len(c.Args) == 2 {
		return c.Args[1], false, true
	}
	fn := calleeOf(info, c)
	if fn == nil || fn.Exported() {
		return nil, false, false
	}
	h := p.FuncOf(fn)
	if h == nil || h.Decl.Body == nil || h.Pkg != p.Root {
		return nil, false, false
	}
	hinfo := h.Pkg.TypesInfo
	makes := false
	var inner *ast.CallExpr
	for _, hc := range callsIn(h.Decl.Body) {
		if isCallTo(hinfo, hc, "newFramer") {
			makes = true
		}
		if isCallTo(hinfo, hc, "(*framer).readFrame") && len(hc.Args) == 2 {
			inner = hc
		}
	}
	if !makes || inner == nil {
		return nil, false, false
	}
	sig, _ := fn.Type().(*types.Signature)
	if sig == nil || sig.Results().Len() == 0 || typeNameOf(sig.Results().At(0).Type()) != "framer" {
		return nil, false, false
	}
	for i, a := range c.Args {
		if po := paramObj(hinfo, h.Decl.Type, i); po != nil && isIdentOf(hinfo, inner.Args[1], po) {
			return a, true, true
		}
	}
	return nil, false, false
}
