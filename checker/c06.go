package main

import (
	"fmt"
	"go/ast"
	"go/token"
	"go/types"
	"os"
	"strings"
)

// ---------------------------------------------------------------------------
// shared classifier for (*Conn).exec / recv / closeWithError events

// connEvents returns a classifier naming the events of the request life cycle.
func connEvents(p *Program, g *Graph) Classifier {
	info := g.Info
	return func(st Step) []string {
		var evs []string
		switch st.Kind {
		case StComm:
			cc := st.Clause.(*ast.CommClause)
			if ch := recvChan(cc.Comm); ch != nil {
				if p.isField(info, ch, "callReq", "resp") {
					evs = append(evs, "recvResp", "done")
				}
				if p.isField(info, ch, "callReq", "timeout") {
					evs = append(evs, "recvTimeout")
				}
			}
			if s, ok := cc.Comm.(*ast.SendStmt); ok && p.isField(info, s.Chan, "callReq", "resp") {
				evs = append(evs, "sendResp")
			}
		case StCond:
			cond := st.Node.(ast.Expr)
			if call, trueErr := p.errCheckOf(info, cond); call != nil {
				isErr := st.Val == trueErr
				switch calleeName(info, call) {
				case "(*Conn).addCall":
					if !isErr {
						evs = append(evs, "registered")
					}
				case "contextWriter.writeContext":
					if isErr {
						evs = append(evs, "writeErr")
					} else {
						evs = append(evs, "written")
					}
				case "frameBuilder.buildFrame":
					if isErr {
						evs = append(evs, "buildErr")
					} else {
						evs = append(evs, "built")
					}
				}
			}
			// c.closed (field) known true
			{
				x, want := ast.Unparen(cond), true
				for {
					if u, ok := x.(*ast.UnaryExpr); ok && u.Op == token.NOT {
						x, want = ast.Unparen(u.X), !want
						continue
					}
					break
				}
				if p.isField(info, x, "Conn", "closed") && st.Val == want {
					evs = append(evs, "closedFlagTrue", "deletedOrClosed")
				}
			}
			// c.Closed() known true
			x := ast.Unparen(cond)
			want := true
			for {
				if u, ok := x.(*ast.UnaryExpr); ok && u.Op == token.NOT {
					x, want = ast.Unparen(u.X), !want
					continue
				}
				break
			}
			if c, ok := x.(*ast.CallExpr); ok && isCallTo(info, c, "(*Conn).Closed") && st.Val == want {
				evs = append(evs, "connClosed", "releasedOrClosed")
			}
		case StNode:
			node := st.Node
			if d, ok := node.(*ast.DeferStmt); ok {
				// defer f(...) or defer func(){...}()
				node = d.Call
				if lit, ok := d.Call.Fun.(*ast.FuncLit); ok {
					node = lit.Body
				}
			}
			if _, isGo := node.(*ast.GoStmt); isGo {
				return nil
			}
			if cc, ok := p.Parent(st.Node).(*ast.CommClause); ok && cc.Comm == st.Node {
				return nil
			}
			for _, ch := range recvsIn(node) {
				if p.isField(info, ch, "callReq", "resp") {
					evs = append(evs, "recvResp", "done")
				}
			}
			for _, c := range callsIn(node) {
				switch calleeName(info, c) {
				case "builtin.close":
					if len(c.Args) == 1 && p.isField(info, c.Args[0], "callReq", "timeout") {
						evs = append(evs, "closeTimeout", "done")
					}
				case "(*Conn).releaseStream":
					evs = append(evs, "release", "releasedOrClosed")
				case "(*Conn).closeWithError":
					evs = append(evs, "closeWithError", "releasedOrClosed")
				case "(*Conn).addCall":
					evs = append(evs, "addCall")
				case "(*Conn).close":
					evs = append(evs, "sockClose")
				case "(*Conn).discardFrame":
					evs = append(evs, "discard")
				case "(*Conn).handleTimeout":
					evs = append(evs, "handleTimeout")
				case "streams.(*IDGenerator).GetStream":
					evs = append(evs, "getStream")
				case "streams.(*IDGenerator).Clear":
					evs = append(evs, "clear")
				case "builtin.delete":
					if len(c.Args) == 2 && p.isField(info, c.Args[0], "Conn", "calls") {
						evs = append(evs, "deleteCall", "deletedOrClosed")
					}
				case "contextWriter.writeContext":
					evs = append(evs, "write")
				case "frameBuilder.buildFrame":
					evs = append(evs, "build")
				case "ConnErrorHandler.HandleError":
					evs = append(evs, "handleError")
				case "":
					if sel, ok := ast.Unparen(c.Fun).(*ast.SelectorExpr); ok && p.isField(info, sel, "Conn", "cancel") {
						evs = append(evs, "cancel")
					}
				}
			}
			for _, l := range assignedLHS(st.Node) {
				if p.isField(info, l, "Conn", "closed") {
					evs = append(evs, "setClosed")
				}
			}
		}
		return evs
	}
}

func exitDesc(p *Program, e Exit) string {
	switch e.Kind {
	case ExitReturn:
		return "return@" + exprListStr(e.Node.(*ast.ReturnStmt).Results)
	case ExitPanic:
		return "panic"
	}
	return "end-of-function"
}

func exprListStr(l []ast.Expr) string {
	s := ""
	for i, e := range l {
		if i > 0 {
			s += ","
		}
		s += exprStr(e)
	}
	return "(" + s + ")"
}

func init() {
	register(&PropertySpec{
		ID: "C06",
		Explanation: "Structural necessary conditions of 'every request ends exactly once; closing never hangs; streams never leak', decided on every path of the CFG of (*Conn).exec/recv/closeWithError/serve, of every send on a call's response channel, of every goroutine loop and of every stop-handshake in the package: " +
			"R1 after registration every exit of exec receives the response or closes call.timeout (at most once); R2 every send on callReq.resp is a select case with a sibling receive on the same call's timeout and is made without c.mu; R3 the caller's wait has timer, caller-context and connection-context siblings; " +
			"R4 close protocol (test-and-set of closed in one critical section, calls swapped to nil in it, cancel then socket close on every later path, serve always closes, failed writes close or release); R5 the response path releases the stream unless the connection is closed, and abandonment paths do not; R6 stream-observer callbacks only inside the Once; R7 unknown stream id consumes the body; R8 a goroutine that is stopped by a bare blocking send on a quit channel never returns from its loop without receiving from that channel; R9 every goroutine loop has a quit/ctx case that returns." +
			" R11 = C07.R2 (semaphore released exactly once on every exit), R12 = C08.R2 (ids claimed and released by compare-and-swap on a freshly loaded word), R13 a receiver field that is captured into a local and cleared is cleared in the critical section that captured it.",
		NotDecided: "that completion happens within a bounded time; absence of lost wake-ups for every three-goroutine interleaving; exact stream counts under races (schedule-quantified clauses).",
		Rules: []*Rule{
			{ID: "C06.R1", Floor: 6, Doc: "exec: every exit after a successful addCall has received from call.resp or executed close(call.timeout); close(call.timeout) at most once per path", Run: c06r1},
			{ID: "C06.R2", Floor: 2, Doc: "every send on callReq.resp is a select case with a sibling receive on the same call's timeout; no c.mu held", Run: c06r2},
			{ID: "C06.R3", Floor: 4, Doc: "exec: the select receiving call.resp has sibling cases on the timer, the caller's ctx and c.ctx", Run: c06r3},
			{ID: "C06.R4", Floor: 7, Doc: "close protocol in closeWithError/serve/exec", Run: c06r4},
			{ID: "C06.R5", Floor: 2, Doc: "exec: response path releases the stream on every exit unless the connection is closed; build/not-started-write error paths delete the call under c.mu before releasing", Run: c06r5},
			{ID: "C06.R6", Floor: 2, Doc: "StreamFinished/StreamAbandoned only inside streamObserverEndOnce.Do", Run: c06r6},
			{ID: "C06.R7", Floor: 1, Doc: "recv: the no-handler path discards the frame body before returning", Run: c06r7},
			{ID: "C06.R8", Floor: 3, Doc: "goroutine stopped by a bare blocking send on a quit channel: every return inside its loop is preceded by a receive from that channel", Run: c06r8},
			{ID: "C06.R10", Floor: 2, Doc: "contextWriter contract: no context consultation after hand-over (a released stream whose frame is still queued breaks release-once)", Run: c07r4},
			{ID: "C06.R9", Floor: 5, Doc: "every unconditional goroutine loop has a select case on a quit/ctx channel that leaves the loop", Run: c06r9},
			{ID: "C06.R11", Floor: 4, Doc: "the direct writer releases its semaphore exactly once on every exit after acquiring it: a leaked token blocks every later request of the connection (=C07.R2)", Run: c07r2},
			{ID: "C06.R12", Floor: 6, Doc: "stream ids are claimed and released by compare-and-swap against a freshly loaded word, so none is lost or handed out twice (=C08.R2)", Run: c08r2},
			{ID: "C06.R13", Floor: 2, Doc: "a field that is taken over into a local and cleared is cleared in the critical section that captured it (what is registered in between would be dropped and never answered)", Run: ruleCaptureClear},
			{ID: "C06.R17", Floor: 8, Doc: "no goroutine waits on a channel while it certainly holds a mutex (=C17.R20): the closing path and the receiver need the same mutexes", Run: c17BlockingUnderLock},
			{ID: "C06.R18", Floor: 2, Doc: "stop and wake-up signals cannot be lost: a non-blocking send goes into a buffered channel (=C17.R9); a refresh request dropped this way leaves its caller waiting for ever", Run: c17r9},
			{ID: "C06.R16", Floor: 100, Doc: "every mutex a function locks is unlocked again on every path to every exit (=C17.R15): a lock kept across a return makes closing hang", Run: func(p *Program, r *Report) {
				if lockBalance(p, r, func(fi *FuncInfo) bool { return true }) == 0 {
					r.Unresolved("no function locks a mutex")
				}
			}},
			{ID: "C06.R15", Floor: 1, Doc: "the control connection's quit token is sent only after winning the state transition out of the state its receiver establishes", Run: c06r15},
			{ID: "C06.R14", Floor: 1, Doc: "an entry leaves Conn.calls only together with its stream id (release on every path after the delete)", Run: c06r14},
		},
	})
}

func c06r1(p *Program, r *Report) {
	fi := r.NeedFunc("(*Conn).exec")
	if fi == nil {
		return
	}
	g := p.GraphOfInl(fi)
	ef := g.Events(connEvents(p, g))
	nreg := 0
	for _, e := range g.ExitsInl() {
		if e.Kind == ExitPanic {
			continue
		}
		s, ok := ef.ExitState(e)
		if !ok || !s.Must["registered"] {
			continue
		}
		if rs, isR := e.Node.(*ast.ReturnStmt); isR && len(rs.Results) == 1 {
			if c, isC := ast.Unparen(rs.Results[0]).(*ast.CallExpr); isC && g.inl.calls[c] {
				continue // `return helper(...)`: the helper's own returns are looked at
			}
		}
		nreg++
		name := "(*Conn).exec exit " + exitDesc(p, e)
		r.Check(s.Must["done"], e.Node, name, "receives call.resp or closes call.timeout on every path to this exit",
			"a path reaches this exit after addCall succeeded without receiving from call.resp and without close(call.timeout): closeWithError can block forever delivering to this call")
		if s.Max["closeTimeout"] > 1 {
			r.Bad(e.Node, name+" double-close", "close(call.timeout) can execute twice on a path to this exit (second close panics)")
		}
	}
	if nreg == 0 {
		r.Unresolved("no exit of exec is dominated by a successful addCall error check")
	}
	// a call that can close the connection from inside exec (handleTimeout -> closeWithError) delivers an error to
	// every registered call and waits on each call's timeout channel: exec's own call must already be marked
	// finished (response received or close(call.timeout)), or closeWithError blocks on the very request that runs it
	info := g.Info
	for _, u := range g.Units() {
		for _, c := range callsIn(u.Decl.Body) {
			name := calleeName(info, c)
			if name != "(*Conn).handleTimeout" && name != "(*Conn).closeWithError" {
				continue
			}
			if _, inLit := p.enclosing(c, u.Decl, func(n ast.Node) bool { _, is := n.(*ast.FuncLit); return is }).(*ast.FuncLit); inLit {
				continue
			}
			st, ok := ef.Sol.Before(p.stmtOf(c, u))
			if !ok || !st.Must["registered"] {
				continue
			}
			r.Check(st.Must["done"], c, "(*Conn).exec calls "+name+" only after its own call stopped listening", "close(call.timeout) or a received response precedes it on every path",
				name+" can close the connection while exec's own call is still registered with its timeout channel open and nobody reading call.resp: closeWithError blocks forever delivering the error to this call, the request never returns and the connection is never torn down")
		}
	}
}

func c06r2(p *Program, r *Report) {
	p.forEachFunc(false, func(fi *FuncInfo) {
		info := fi.Pkg.TypesInfo
		var sends []*ast.SendStmt
		ast.Inspect(fi.Decl.Body, func(n ast.Node) bool {
			if s, ok := n.(*ast.SendStmt); ok && p.isField(info, s.Chan, "callReq", "resp") {
				sends = append(sends, s)
			}
			return true
		})
		if len(sends) == 0 {
			return
		}
		g := p.GraphOf(fi)
		locks := g.Lockset()
		for _, s := range sends {
			name := fi.Name + " send on " + exprStr(s.Chan)
			sel, _ := p.enclosingSelectComm(s)
			if sel == nil {
				r.Bad(s, name, "bare blocking send on a call's response channel: blocks forever if the caller has gone")
				continue
			}
			root := ""
			if se, ok := ast.Unparen(s.Chan).(*ast.SelectorExpr); ok {
				root = exprStr(se.X)
			}
			sibling := false
			for _, cc := range commClauses(sel) {
				if ch := recvChan(cc.Comm); ch != nil && p.isField(info, ch, "callReq", "timeout") {
					if se, ok := ast.Unparen(ch).(*ast.SelectorExpr); ok && exprStr(se.X) == root {
						sibling = true
					}
				}
			}
			r.Check(sibling && !hasDefault(sel), s, name, "select with sibling receive on "+root+".timeout",
				"the select around this send has no sibling receive on the same call's timeout channel (or has a default that drops the response)")
			if ls, ok := locks.Before(sel); ok {
				held := ""
				for k := range ls {
					held += k + " "
				}
				r.Check(len(ls) == 0, s, name+" lock-free", "no mutex held while delivering", "delivering a response while holding "+held+": a slow caller blocks every user of that mutex")
			}
		}
	})
}

// chanSource classifies the channel expression of a receive in exec's wait select.
func chanSource(p *Program, info *types.Info, fn ast.Node, ch ast.Expr) string {
	if p.isField(info, ch, "callReq", "resp") {
		return "resp"
	}
	t := info.TypeOf(ch)
	if c, ok := t.Underlying().(*types.Chan); ok {
		if nt := namedOf(c.Elem()); nt != nil && nt.Obj().Pkg() != nil && nt.Obj().Pkg().Path() == "time" && nt.Obj().Name() == "Time" {
			return "timer"
		}
	}
	doneRoot := func(e ast.Expr) string {
		c, ok := ast.Unparen(e).(*ast.CallExpr)
		if !ok {
			return ""
		}
		sel, ok := ast.Unparen(c.Fun).(*ast.SelectorExpr)
		if !ok || sel.Sel.Name != "Done" {
			return ""
		}
		if p.isField(info, sel.X, "Conn", "ctx") {
			return "connctx"
		}
		if id, ok := ast.Unparen(sel.X).(*ast.Ident); ok {
			if v, ok := info.Uses[id].(*types.Var); ok && typeNameOf(v.Type()) == "Context" {
				return "ctx:" + id.Name
			}
		}
		return ""
	}
	if s := doneRoot(ch); s != "" {
		return s
	}
	if id, ok := ast.Unparen(ch).(*ast.Ident); ok {
		obj := info.Uses[id]
		src := ""
		ast.Inspect(fn, func(n ast.Node) bool {
			if as, ok := n.(*ast.AssignStmt); ok && len(as.Lhs) == len(as.Rhs) {
				for i, l := range as.Lhs {
					if isIdentOf(info, l, obj) {
						if s := doneRoot(as.Rhs[i]); s != "" {
							src = s
						}
					}
				}
			}
			return true
		})
		return src
	}
	return ""
}

func c06r3(p *Program, r *Report) {
	fi := r.NeedFunc("(*Conn).exec")
	if fi == nil {
		return
	}
	info := fi.Pkg.TypesInfo
	found := false
	// exec and the unexported functions it was split into
	for _, u := range p.GraphOfInl(fi).Units() {
		u := u
		ast.Inspect(u.Decl.Body, func(n ast.Node) bool {
			sel, ok := n.(*ast.SelectStmt)
			if !ok {
				return true
			}
			srcs := map[string]bool{}
			for _, cc := range commClauses(sel) {
				if ch := recvChan(cc.Comm); ch != nil {
					s := chanSource(p, info, u.Decl, ch)
					if len(s) > 4 && s[:4] == "ctx:" {
						s = "callerctx"
					}
					srcs[s] = true
				}
			}
			if !srcs["resp"] {
				return true
			}
			found = true
			for _, need := range []struct{ k, what string }{
				{"resp", "the response"}, {"timer", "the request timer (chan time.Time)"}, {"callerctx", "the caller's context"}, {"connctx", "the connection context c.ctx"}} {
				r.Check(srcs[need.k], sel, "(*Conn).exec wait-select case "+need.k, "waits on "+need.what,
					"the select that waits for the response has no case on "+need.what+": the caller can wait forever")
			}
			r.Check(!hasDefault(sel), sel, "(*Conn).exec wait-select blocking", "no default clause", "wait select has a default clause")
			return true
		})
	}
	if !found {
		r.Unresolved("no select receiving from callReq.resp in exec")
	}
}

func c06r4(p *Program, r *Report) {
	// closeWithError
	if fi := r.NeedFunc("(*Conn).closeWithError"); fi != nil {
		// helpers that hold part of the close sequence (the critical section, the delivery) are expanded in place
		g := p.GraphOfInl(fi)
		info := g.Info
		facts := g.GuardFacts()
		locks := g.Lockset()
		ef := g.Events(connEvents(p, g))
		nset := 0
		inspectUnits := func(f func(n ast.Node) bool) {
			for _, u := range g.Units() {
				ast.Inspect(u.Decl.Body, f)
			}
		}
		inspectUnits(func(n ast.Node) bool {
			as, ok := n.(*ast.AssignStmt)
			if !ok {
				return true
			}
			for _, l := range as.Lhs {
				if p.isField(info, l, "Conn", "closed") {
					nset++
					f, ok1 := facts.Before(as)
					ls, ok2 := locks.Before(as)
					root := exprStr(ast.Unparen(l).(*ast.SelectorExpr).X)
					v, known := f.KnownStr(root + ".closed")
					r.Check(ok1 && ok2 && ls[root+".mu"] && known && !v, as, "closeWithError test-and-set of closed",
						"closed is tested false and set true in one critical section of "+root+".mu",
						"the assignment closed=true is not in the same critical section as a test that closed was false (two closers can both proceed)")
				}
				if p.isField(info, l, "Conn", "calls") {
					ls, ok2 := locks.Before(as)
					root := exprStr(ast.Unparen(l).(*ast.SelectorExpr).X)
					es, _ := ef.Sol.Before(as)
					r.Check(ok2 && ls[root+".mu"] && es.Must["setClosed"], as, "closeWithError swap of calls",
						"calls is detached under the mutex after closed was set", "calls is reassigned outside the critical section that sets closed")
				}
			}
			return true
		})
		if nset == 0 {
			r.Unresolved("closeWithError never assigns Conn.closed")
		}
		for _, e := range g.ExitsInl() {
			s, ok := ef.ExitState(e)
			if !ok || !s.Must["setClosed"] || e.Kind == ExitPanic {
				continue
			}
			r.Check(s.Must["cancel"] && s.Must["sockClose"], e.Node, "closeWithError exit "+exitDesc(p, e)+" cancels and closes socket",
				"every path that set closed calls c.cancel() and c.close()", "a path that set closed=true returns without c.cancel() and c.close(): goroutines waiting on c.ctx / the socket never wake")
		}
		// ordering: cancel before socket close; error handler after socket close
		inspectUnits(func(n ast.Node) bool {
			c, ok := n.(*ast.CallExpr)
			if !ok {
				return true
			}
			if isCallTo(info, c, "(*Conn).close") {
				s, ok := ef.Sol.Before(c)
				r.Check(ok && s.Must["cancel"], c, "closeWithError cancel-before-close", "c.cancel() precedes c.close()", "socket closed before the connection context is cancelled")
			}
			if ifaceMethodName(info, c) == "ConnErrorHandler.HandleError" {
				s, ok := ef.Sol.Before(c)
				r.Check(ok && s.Must["sockClose"] && s.Must["cancel"], c, "closeWithError handler-after-close", "error handler runs after cancel and close", "error handler invoked before the connection is cancelled and closed")
				ls, _ := locks.Before(c)
				r.Check(len(ls) == 0, c, "closeWithError handler lock-free", "no mutex held when calling the error handler", "error handler called with a mutex held")
			}
			return true
		})
	}
	// serve closes on every exit
	if fi := r.NeedFunc("(*Conn).serve"); fi != nil {
		g := p.GraphOf(fi)
		ef := g.Events(connEvents(p, g))
		for _, e := range g.Exits() {
			s, ok := ef.ExitState(e)
			if !ok || e.Kind == ExitPanic {
				continue
			}
			r.Check(s.Must["closeWithError"], e.Node, "(*Conn).serve exit "+exitDesc(p, e), "serve calls closeWithError before returning",
				"the receive loop can end without closing the connection: outstanding callers are never told")
		}
	}
	// exec: a failed write either was not started (release) or closes the connection
	if fi := r.NeedFunc("(*Conn).exec"); fi != nil {
		g := p.GraphOf(fi)
		ef := g.Events(connEvents(p, g))
		n := 0
		for _, e := range g.Exits() {
			s, ok := ef.ExitState(e)
			if !ok || !s.Must["writeErr"] || e.Kind == ExitPanic {
				continue
			}
			n++
			r.Check(s.Must["releasedOrClosed"], e.Node, "(*Conn).exec write-error exit "+exitDesc(p, e),
				"failed write either releases the stream (not started) or closes the connection",
				"a path returns a write error without releasing the stream and without closing the connection: the stream leaks and a half-written frame may be followed by more frames")
		}
		if n == 0 {
			r.Unresolved("no exit of exec dominated by a writeContext error check")
		}
	}
}

func c06r5(p *Program, r *Report) {
	fi := r.NeedFunc("(*Conn).exec")
	if fi == nil {
		return
	}
	g := p.GraphOfInl(fi)
	info := g.Info
	ef := g.Events(connEvents(p, g))
	locks := g.Lockset()
	nresp := 0
	for _, e := range g.ExitsInl() {
		s, ok := ef.ExitState(e)
		if !ok || e.Kind == ExitPanic {
			continue
		}
		if rs, isR := e.Node.(*ast.ReturnStmt); isR && len(rs.Results) == 1 {
			if c, isC := ast.Unparen(rs.Results[0]).(*ast.CallExpr); isC && g.inl.calls[c] {
				continue // `return helper(...)`: the helper's own returns are looked at
			}
		}
		if os.Getenv("DBGC06") != "" {
			fmt.Println("DBG exit", p.Pos(e.Node), len(e.Block.Nodes), s.Must.sorted())
			for _, nn := range e.Block.Nodes {
				fmt.Printf("   node %T %s\n", nn, p.Pos(nn))
			}
		}
		if s.Must["recvResp"] {
			nresp++
			r.Check(s.Must["releasedOrClosed"], e.Node, "(*Conn).exec response exit "+exitDesc(p, e),
				"stream released (direct or deferred) or connection known closed", "after the response was received a path returns without releaseStream while the connection is open: the stream id leaks")
			if s.Max["release"] > 1 {
				r.Bad(e.Node, "(*Conn).exec response exit "+exitDesc(p, e)+" double-release", "releaseStream can run twice on a path")
			}
		}
	}
	if nresp == 0 {
		r.Unresolved("no exit of exec after receiving call.resp")
	}
	// every releaseStream in exec (or in a private helper only exec's life cycle calls) that is not on the response
	// path: the call was removed from c.calls and its timeout closed before the stream is released
	mk := func(g2 *Graph) Classifier { return connEvents(p, g2) }
	scope := append([]*FuncInfo{fi}, p.privateCallees(fi)...)
	for _, fn := range scope {
		finfo := fn.Pkg.TypesInfo
		ast.Inspect(fn.Decl.Body, func(n ast.Node) bool {
			c, ok := n.(*ast.CallExpr)
			if !ok || !isCallTo(finfo, c, "(*Conn).releaseStream") {
				return true
			}
			var at ast.Node = c
			if d, isDefer := p.Parent(c).(*ast.DeferStmt); isDefer {
				at = d
			}
			must := p.MustBefore(mk, fn, at, 0)
			if must["recvResp"] {
				return true
			}
			r.Check(must["deletedOrClosed"] && must["closeTimeout"], c, fn.Name+" early release (no response)",
				"call removed from c.calls and timeout closed before the stream is released", "stream released while the call is still registered: the next request on this id is refused or gets this call's slot")
			return true
		})
	}
	// each delete(c.calls, ...) in exec and its helpers is under c.mu
	for _, fn := range scope {
		finfo := fn.Pkg.TypesInfo
		flocks := locks
		if fn != fi {
			flocks = p.GraphOf(fn).Lockset()
		}
		ast.Inspect(fn.Decl.Body, func(n ast.Node) bool {
			c, ok := n.(*ast.CallExpr)
			if !ok || calleeName(finfo, c) != "builtin.delete" || len(c.Args) != 2 || !p.isField(finfo, c.Args[0], "Conn", "calls") {
				return true
			}
			ls, ok := flocks.Before(c)
			root := exprStr(ast.Unparen(c.Args[0]).(*ast.SelectorExpr).X)
			r.Check(ok && ls[root+".mu"], c, fn.Name+" delete(c.calls) under c.mu", "under "+root+".mu", "c.calls modified without c.mu")
			return true
		})
	}
	_ = info
}

func c06r6(p *Program, r *Report) {
	p.forEachFunc(false, func(fi *FuncInfo) {
		info := fi.Pkg.TypesInfo
		ast.Inspect(fi.Decl.Body, func(n ast.Node) bool {
			c, ok := n.(*ast.CallExpr)
			if !ok {
				return true
			}
			m := ifaceMethodName(info, c)
			if m != "StreamObserverContext.StreamFinished" && m != "StreamObserverContext.StreamAbandoned" {
				return true
			}
			lit, _ := p.enclosingFuncNode(c).(*ast.FuncLit)
			okOnce := false
			if lit != nil {
				if call, ok := p.Parent(lit).(*ast.CallExpr); ok && isCallTo(info, call, "sync.(*Once).Do") {
					if rx := recvExpr(call); rx != nil && p.isField(info, rx, "callReq", "streamObserverEndOnce") {
						okOnce = true
					}
				}
			}
			if !okOnce && lit == nil {
				// the notification lives in a method that is only ever used as the argument of that Once.Do
				okOnce = p.onlyRunThroughOnce(fi, "callReq", "streamObserverEndOnce")
			}
			r.Check(okOnce, c, fi.Name+" "+m, "inside streamObserverEndOnce.Do", "stream observer end notification outside the call's sync.Once: Finished and Abandoned can both fire")
			return true
		})
	})
}

func c06r7(p *Program, r *Report) {
	fi := r.NeedFunc("(*Conn).recv")
	if fi == nil {
		return
	}
	g := p.GraphOfInl(fi)
	info := g.Info
	// the statement that takes the call out of c.calls (in recv or in a helper), and recv's variable that holds it
	lookups := map[ast.Node]bool{}
	var callObj types.Object
	for _, u := range g.Units() {
		ast.Inspect(u.Decl.Body, func(n ast.Node) bool {
			if as, ok := n.(*ast.AssignStmt); ok && len(as.Rhs) == 1 {
				if ix, ok := ast.Unparen(as.Rhs[0]).(*ast.IndexExpr); ok && p.isField(info, ix.X, "Conn", "calls") {
					lookups[as] = true
					if id, ok := as.Lhs[0].(*ast.Ident); ok && u == fi {
						callObj = info.Defs[id]
						if callObj == nil {
							callObj = info.Uses[id]
						}
					}
				}
			}
			return true
		})
	}
	if callObj == nil {
		// the lookup lives in a helper: recv's variable is the *callReq it receives from a call
		ast.Inspect(fi.Decl.Body, func(n ast.Node) bool {
			as, ok := n.(*ast.AssignStmt)
			if !ok || len(as.Rhs) != 1 || callObj != nil {
				return true
			}
			if _, isCall := ast.Unparen(as.Rhs[0]).(*ast.CallExpr); isCall {
				for _, l := range as.Lhs {
					if id, ok := l.(*ast.Ident); ok && typeNameOf(info.TypeOf(id)) == "callReq" {
						callObj = info.Defs[id]
						if callObj == nil {
							callObj = info.Uses[id]
						}
					}
				}
			}
			return true
		})
	}
	if callObj == nil || len(lookups) == 0 {
		r.Unresolved("recv does not look a call up in c.calls")
		return
	}
	base := connEvents(p, g)
	// "lookup": the statement that takes the call out of c.calls has been executed
	ef := g.Events(func(st Step) []string {
		evs := base(st)
		if st.Kind == StNode && lookups[st.Node] {
			evs = append(evs, "lookup")
		}
		return evs
	})
	facts := g.GuardFacts()
	n := 0
	for _, e := range g.Exits() {
		s, ok := ef.ExitState(e)
		if !ok || !s.Must["lookup"] || e.Kind == ExitPanic || e.Node == nil {
			continue
		}
		// an exit where the call is not known to be non-nil is an exit for a frame nobody waits for
		f, _ := facts.Before(e.Node)
		if v, known := f.m[callObj.Name()+" == nil"]; known && !v {
			continue
		}
		n++
		r.Check(s.Must["discard"], e.Node, "(*Conn).recv no-handler exit "+exitDesc(p, e), "frame body consumed by discardFrame",
			"a response for an unknown stream returns without consuming its body: the next header is read from the middle of this frame")
	}
	if n == 0 {
		r.Unresolved("no exit of recv dominated by call == nil")
	}
}

// bareSendFields: struct fields of channel type on which some function performs a bare blocking send
// (a SendStmt that is not a select communication).
func bareSendFields(p *Program) map[*types.Var][]ast.Node {
	out := map[*types.Var][]ast.Node{}
	p.forEachFunc(false, func(fi *FuncInfo) {
		info := fi.Pkg.TypesInfo
		ast.Inspect(fi.Decl.Body, func(n ast.Node) bool {
			s, ok := n.(*ast.SendStmt)
			if !ok {
				return true
			}
			if sel, _ := p.enclosingSelectComm(s); sel != nil {
				return true
			}
			fv := fieldOf(info, s.Chan)
			if fv == nil {
				return true
			}
			// unbuffered handshake channels only: element type struct{}
			if ch, ok := fv.Type().Underlying().(*types.Chan); ok {
				if st, ok := ch.Elem().Underlying().(*types.Struct); ok && st.NumFields() == 0 {
					out[fv] = append(out[fv], s)
				}
			}
			return true
		})
	})
	return out
}

func c06r8(p *Program, r *Report) {
	fields := bareSendFields(p)
	if len(fields) == 0 {
		r.Unresolved("no bare blocking send on a struct{} channel field found")
		return
	}
	for fv, sends := range fields {
		// receivers: functions with a loop containing a receive from this field
		nrecv := 0
		p.forEachFunc(false, func(fi *FuncInfo) {
			info := fi.Pkg.TypesInfo
			var loops []ast.Stmt
			viaHelper := false
			ast.Inspect(fi.Decl.Body, func(n ast.Node) bool {
				if fs, ok := n.(*ast.ForStmt); ok {
					has := false
					scan := func(x ast.Node) bool {
						if u, ok := x.(*ast.UnaryExpr); ok && u.Op == token.ARROW && fieldOf(info, u.X) == fv {
							has = true
						}
						// the loop body (or its condition) may be a helper that holds the select
						if c, ok := x.(*ast.CallExpr); ok {
							if fn := calleeOf(info, c); fn != nil {
								if h := p.FuncOf(fn); h != nil && h.Pkg == p.Root && h != fi && receivesFrom(p, h, fv, 0) {
									has, viaHelper = true, true
								}
							}
						}
						return true
					}
					inspectNoLit(fs.Body, scan)
					if fs.Cond != nil {
						inspectNoLit(fs.Cond, scan)
					}
					if has {
						loops = append(loops, fs)
					}
				}
				return true
			})
			if len(loops) == 0 {
				return
			}
			nrecv++
			g := p.GraphOf(fi)
			if viaHelper {
				g = p.GraphOfInl(fi)
			}
			ef := g.Events(func(st Step) []string {
				switch st.Kind {
				case StComm:
					if ch := recvChan(st.Clause.(*ast.CommClause).Comm); ch != nil && fieldOf(info, ch) == fv {
						return []string{"recvQuit"}
					}
				case StNode:
					if cc, ok := p.Parent(st.Node).(*ast.CommClause); ok && cc.Comm == st.Node {
						return nil
					}
					if _, ok := st.Node.(*ast.DeferStmt); ok {
						return nil
					}
					for _, ch := range recvsIn(st.Node) {
						if fieldOf(info, ch) == fv {
							return []string{"recvQuit"}
						}
					}
				}
				return nil
			})
			exits := g.Exits()
			if viaHelper {
				exits = g.ExitsInl()
			}
			for _, e := range exits {
				if e.Kind == ExitPanic {
					continue
				}
				if viaHelper && e.Node != nil && g.unitOf(e.Node) != fi {
					continue // a return of the expanded helper goes back into the loop, not out of the goroutine
				}
				// exits in or after the receiving loop (a labelled break leaves the loop and the goroutine ends after it)
				inLoop := e.Node == nil
				if e.Node != nil {
					for _, l := range loops {
						if e.Node.Pos() >= l.Pos() {
							inLoop = true
						}
					}
				}
				if !inLoop {
					continue
				}
				s, ok := ef.ExitState(e)
				if !ok {
					continue
				}
				r.Check(s.Must["recvQuit"], e.Node, fi.Name+" loop exit vs bare send on "+fv.Name(),
					"every path to this return receives from "+fv.Name(),
					"the goroutine can return from its loop without receiving from "+fv.Name()+", while "+p.enclosingDecl(sends[0]).Name+" performs a bare blocking send on it ("+p.Pos(sends[0])+"): the stopper blocks forever")
			}
		})
		if nrecv == 0 {
			r.Bad(sends[0], "bare send on "+fv.Name()+" has no receiving loop", "no goroutine loop receives from this channel")
		}
	}
}

// receivesFrom: fi (or a function of the module it calls, three levels) contains a receive from the channel field fv.
func receivesFrom(p *Program, fi *FuncInfo, fv *types.Var, depth int) bool {
	if fi.Decl.Body == nil || depth > 3 {
		return false
	}
	info := fi.Pkg.TypesInfo
	found := false
	inspectNoLit(fi.Decl.Body, func(x ast.Node) bool {
		if u, ok := x.(*ast.UnaryExpr); ok && u.Op == token.ARROW && fieldOf(info, u.X) == fv {
			found = true
		}
		if c, ok := x.(*ast.CallExpr); ok && !found {
			if fn := calleeOf(info, c); fn != nil {
				if h := p.FuncOf(fn); h != nil && h.Pkg == p.Root && h != fi && receivesFrom(p, h, fv, depth+1) {
					found = true
				}
			}
		}
		return true
	})
	return found
}

// goTargets resolves the functions started by go statements in the root package.
func goTargets(p *Program) map[*FuncInfo][]ast.Node {
	out := map[*FuncInfo][]ast.Node{}
	p.forEachFunc(false, func(fi *FuncInfo) {
		info := fi.Pkg.TypesInfo
		ast.Inspect(fi.Decl.Body, func(n ast.Node) bool {
			gs, ok := n.(*ast.GoStmt)
			if !ok {
				return true
			}
			if fn := calleeOf(info, gs.Call); fn != nil {
				if t := p.FuncOf(fn); t != nil {
					out[t] = append(out[t], gs)
				}
			}
			return true
		})
	})
	return out
}

func c06r9(p *Program, r *Report) {
	targets := goTargets(p)
	// follow one level: writeFlusher -> writeFlusherImpl
	seen := map[*FuncInfo]bool{}
	var list []*FuncInfo
	var add func(fi *FuncInfo, depth int)
	add = func(fi *FuncInfo, depth int) {
		if seen[fi] || depth > 2 {
			return
		}
		seen[fi] = true
		list = append(list, fi)
		info := fi.Pkg.TypesInfo
		inspectNoLit(fi.Decl.Body, func(n ast.Node) bool {
			if c, ok := n.(*ast.CallExpr); ok {
				if fn := calleeOf(info, c); fn != nil {
					if t := p.FuncOf(fn); t != nil && t.Pkg == p.Root && sameRecv(fi, t) {
						add(t, depth+1)
					}
				}
			}
			return true
		})
	}
	for _, fi := range p.SortedFuncs() {
		if _, ok := targets[fi]; ok {
			add(fi, 0)
		}
	}
	for _, fi := range list {
		info := fi.Pkg.TypesInfo
		inspectNoLit(fi.Decl.Body, func(n ast.Node) bool {
			fs, ok := n.(*ast.ForStmt)
			if !ok || fs.Cond != nil {
				return true
			}
			// only loops that wait: a loop without a select or a channel receive is bounded by its own data
			waits := false
			inspectNoLit(fs.Body, func(x ast.Node) bool {
				switch u := x.(type) {
				case *ast.SelectStmt:
					waits = true
				case *ast.UnaryExpr:
					if u.Op == token.ARROW {
						waits = true
					}
				case *ast.RangeStmt:
					if t := info.TypeOf(u.X); t != nil {
						if _, isCh := t.Underlying().(*types.Chan); isCh {
							waits = true
						}
					}
				}
				return true
			})
			if !waits {
				return true
			}
			// unconditional loop: must have a comm clause receiving from a channel whose body leaves the loop
			var quitCh []string
			inspectNoLit(fs.Body, func(x ast.Node) bool {
				cc, ok := x.(*ast.CommClause)
				if !ok || cc.Comm == nil {
					return true
				}
				ch := recvChan(cc.Comm)
				if ch == nil {
					return true
				}
				if p.terminates(info, cc.Body) {
					if last, ok := cc.Body[len(cc.Body)-1].(*ast.ReturnStmt); ok && last != nil {
						quitCh = append(quitCh, exprStr(ch))
					}
				}
				// or leaves the loop by its label (the code after the loop ends the goroutine)
				if len(cc.Body) > 0 {
					if br, ok := cc.Body[len(cc.Body)-1].(*ast.BranchStmt); ok && br.Tok == token.BREAK && br.Label != nil {
						if ls, ok := p.Parent(fs).(*ast.LabeledStmt); ok && ls.Label.Name == br.Label.Name {
							quitCh = append(quitCh, exprStr(ch))
						}
					}
				}
				return true
			})
			// or: loop exits via a return guarded by a stop flag after a wake-up select (refreshDebouncer)
			hasReturn := false
			inspectNoLit(fs.Body, func(x ast.Node) bool {
				if _, ok := x.(*ast.ReturnStmt); ok {
					hasReturn = true
				}
				return true
			})
			okQuit := len(quitCh) > 0
			why := "quit case on " + firstOr(quitCh, "")
			if !okQuit && hasReturn {
				// accept: a select in the loop receives from a struct{}-channel field and some return exists
				inspectNoLit(fs.Body, func(x ast.Node) bool {
					if cc, ok := x.(*ast.CommClause); ok && cc.Comm != nil {
						if ch := recvChan(cc.Comm); ch != nil {
							if fv := fieldOf(info, ch); fv != nil && fv.Name() == "quit" {
								okQuit = true
								why = "wakes on quit and returns on its stop flag"
							}
						}
					}
					return true
				})
			}
			r.Check(okQuit, fs, fi.Name+" goroutine loop", why, "unconditional loop of a goroutine has no select case on a quit/ctx channel that returns: the goroutine outlives Close")
			return true
		})
	}
}

func sameRecv(a, b *FuncInfo) bool {
	ra := a.Obj.Type().(*types.Signature).Recv()
	rb := b.Obj.Type().(*types.Signature).Recv()
	if ra == nil || rb == nil {
		return false
	}
	return namedOf(ra.Type()) == namedOf(rb.Type())
}

func firstOr(l []string, d string) string {
	if len(l) > 0 {
		return l[0]
	}
	return d
}

// onlyRunThroughOnce: every reference to function/method fi in the package is as the argument of
// <T.field>.Do(...) for the given sync.Once field (a method value or function value), never a direct call.
func (p *Program) onlyRunThroughOnce(fi *FuncInfo, typ, field string) bool {
	if fi.Obj == nil {
		return false
	}
	nref, ok := 0, true
	for _, other := range p.SortedFuncs() {
		if other.Decl.Body == nil {
			continue
		}
		oinfo := other.Pkg.TypesInfo
		ast.Inspect(other.Decl.Body, func(n ast.Node) bool {
			var id *ast.Ident
			var ref ast.Expr
			switch x := n.(type) {
			case *ast.SelectorExpr:
				if oinfo.Uses[x.Sel] == types.Object(fi.Obj) {
					id, ref = x.Sel, x
				}
			case *ast.Ident:
				if oinfo.Uses[x] == types.Object(fi.Obj) {
					if sel, isSel := p.Parent(x).(*ast.SelectorExpr); isSel && sel.Sel == x {
						return true // counted at the selector
					}
					id, ref = x, x
				}
			}
			if id == nil {
				return true
			}
			nref++
			call, isCall := p.Parent(ref).(*ast.CallExpr)
			if !isCall || ast.Unparen(call.Fun) == ref {
				ok = false // called directly (or used some other way)
				return true
			}
			if !isCallTo(oinfo, call, "sync.(*Once).Do") || len(call.Args) != 1 || ast.Unparen(call.Args[0]) != ref {
				ok = false
				return true
			}
			if rx := recvExpr(call); rx == nil || !p.isField(oinfo, rx, typ, field) {
				ok = false
			}
			return true
		})
	}
	return nref > 0 && ok
}

// ruleCaptureClear: the hand-over idiom `cur := x.f; x.f = nil` (take what was registered, leave an empty slot) is
// atomic only inside one critical section. If the mutex is released between the capture and the clearing, whatever
// another goroutine registers in x.f in the meantime is overwritten by the nil and is never served: a waiter hangs.
// Instances: every function that assigns a pointer/slice/map/chan field of its receiver to a local and later assigns
// nil (or an empty literal) to that same field; both under the same mutex of the receiver.
func ruleCaptureClear(p *Program, r *Report) {
	n := 0
	p.forEachFunc(false, func(fi *FuncInfo) {
		if fi.Pkg != p.Root || fi.Decl.Body == nil {
			return
		}
		info := fi.Pkg.TypesInfo
		type cap struct {
			as    *ast.AssignStmt
			field *types.Var
			text  string
		}
		var caps []cap
		var clears []cap
		inspectNoLit(fi.Decl.Body, func(x ast.Node) bool {
			as, ok := x.(*ast.AssignStmt)
			if !ok || len(as.Lhs) != len(as.Rhs) {
				return true
			}
			for i, l := range as.Lhs {
				// capture: local := x.f
				if _, isId := l.(*ast.Ident); isId {
					if fv := fieldOf(info, as.Rhs[i]); fv != nil && isFieldPath(as.Rhs[i]) {
						switch fv.Type().Underlying().(type) {
						case *types.Pointer, *types.Slice, *types.Map, *types.Chan:
							caps = append(caps, cap{as, fv, exprStr(ast.Unparen(as.Rhs[i]))})
						}
					}
				}
				// clear: x.f = nil / x.f = x.f[:0] is not a clear; only nil or an empty composite
				if fv := fieldOf(info, l); fv != nil && as.Tok == token.ASSIGN {
					if isNil(info, as.Rhs[i]) {
						clears = append(clears, cap{as, fv, exprStr(ast.Unparen(l))})
					}
				}
			}
			return true
		})
		if len(caps) == 0 || len(clears) == 0 {
			return
		}
		var locks *Solution[strset]
		for _, c := range caps {
			for _, cl := range clears {
				if cl.field != c.field || cl.text != c.text || cl.as.Pos() < c.as.Pos() {
					continue
				}
				g := p.GraphOf(fi)
				if locks == nil {
					locks = g.Lockset()
				}
				ls, _ := locks.Before(c.as)
				// only captures made under a lock of the same object
				root := ""
				if sel, isSel := ast.Unparen(c.as.Rhs[0]).(*ast.SelectorExpr); isSel {
					root = exprStr(sel.X)
				}
				var mu string
				for l := range ls {
					m := strings.TrimPrefix(l, "R:")
					if root != "" && strings.HasPrefix(m, root+".") {
						mu = m
					}
				}
				if mu == "" {
					continue
				}
				n++
				if cl.as == c.as {
					// `taken, x.f = x.f, nil`: one statement, nothing can come between
					r.OK(cl.as, fi.Name+" clears "+c.text+" in the critical section that captured it", "captured and cleared by one assignment under "+mu)
					continue
				}
				// no release of mu between the capture and the clearing, on any path
				sol := Solve(g, Lattice[int]{
					Join: func(a, b int) int {
						if a > b {
							return a
						}
						return b
					},
					Eq: func(a, b int) bool { return a == b },
					Step: func(s int, st Step) int {
						if st.Kind != StNode {
							return s
						}
						if st.Node == ast.Node(c.as) {
							return 1
						}
						// another clearing of the same field ends the hand-over that this capture started
						if as2, isAs := st.Node.(*ast.AssignStmt); isAs && st.Node != ast.Node(cl.as) && s != 0 {
							for i2, l2 := range as2.Lhs {
								if fieldOf(info, l2) == c.field && i2 < len(as2.Rhs) && isNil(info, as2.Rhs[i2]) {
									return 0
								}
							}
						}
						if s == 1 {
							for _, call := range callsIn(st.Node) {
								if kind, isMu := isMutexMethod(calleeName(info, call)); isMu && (kind == "Unlock" || kind == "RUnlock") {
									if _, isDefer := st.Node.(*ast.DeferStmt); isDefer {
										continue
									}
									if rx := recvExpr(call); rx != nil && exprStr(ast.Unparen(rx)) == mu {
										return 2
									}
								}
							}
						}
						return s
					},
				})
				st, ok := sol.Before(cl.as)
				if ok && st == 0 {
					n--
					continue // this clearing does not belong to that capture
				}
				r.Check(ok && st != 2, cl.as, fi.Name+" clears "+c.text+" in the critical section that captured it", "no unlock of "+mu+" between `"+exprStr(c.as.Lhs[0])+" := "+c.text+"` and `"+c.text+" = nil`",
					c.text+" is captured at "+p.Pos(c.as)+" and set to nil only after "+mu+" was released in between: what another goroutine stores there meanwhile is wiped out and never served (its waiter blocks forever)")
			}
		}
	})
	if n == 0 {
		r.Unresolved("no capture-and-clear of a receiver field under a mutex found")
	}
}
