package main

import (
	"fmt"
	"go/ast"
	"go/parser"
	"go/token"
	"go/types"
	"strings"
)

func init() {
	register(&PropertySpec{
		ID: "C08",
		Explanation: "Structural necessary conditions of 'stream ids are unique while in use, never 0 or out of range, and all get used': R1 the allocator's shared words, counter and offset are accessed only through sync/atomic outside the constructor; R2 an id is claimed only by a successful compare-and-swap whose new value is derived from the current old value, on a bit tested clear in that old value, inside a retry loop that re-tests the same bit after reloading, and the returned id is built from the same word and bit; " +
			"R3 the in-use count changes by +1 only after a successful claiming CAS and by -1 only after a successful clearing CAS, and Clear returns false without decrementing when the bit is already clear; R4 range by construction: capacities 128/32768 by protocol version, word count = capacity/64, exactly the bit of id 0 pre-set, word indexes reduced modulo the word count, id = word*64 + bit with bit < 64; R5 only exec allocates and only releaseStream clears (=C01.R4)." +
			" R2 also: no plain atomic store / add / swap on a bitmap word outside the constructor; R6 GetStream answers 'no stream' only through the normal end of the loop over the words, never from the lagging in-use counter." +
			" R6 also: the scan makes one step per word for every value of the rotating start (0..N, a range over the words, or S..S+N with S known below N).",
		NotDecided: "uniqueness and progress over all interleavings of the atomic steps (linearizability of the lock-free algorithm); exact availability counts under races.",
		Rules: []*Rule{
			{ID: "C08.R1", Floor: 8, Doc: "streams/inuseStreams/offset only through sync/atomic outside New", Run: c08r1},
			{ID: "C08.R2", Floor: 6, Doc: "claim/clear by CAS: fresh new value, bit tested in the old value, retry loop re-tests the same bit, id from the same word and bit", Run: c08r2},
			{ID: "C08.R3", Floor: 4, Doc: "count paired with successful CAS; Clear returns false without decrement when already clear", Run: c08r3},
			{ID: "C08.R4", Floor: 6, Doc: "capacity, reserved id 0 and index ranges by construction", Run: c08r4},
			{ID: "C08.R5", Floor: 2, Doc: "who-may-call: GetStream only from exec, Clear only from releaseStream", Run: c08r5},
			{ID: "C08.R7", Floor: 10, Doc: "the allocator's words and counters (and every other field used with sync/atomic) are accessed through sync/atomic everywhere (=C17.R16)", Run: func(p *Program, r *Report) {
				if atomicDiscipline(p, r) == 0 {
					r.Unresolved("no field is accessed through sync/atomic")
				}
			}},
			{ID: "C08.R6", Floor: 1, Doc: "GetStream reports exhaustion only after its scan visited every word (never from the lagging in-use counter)", Run: c08r6},
		},
	})
}

func streamsPkgFuncs(p *Program) []*FuncInfo {
	var out []*FuncInfo
	for _, fi := range p.SortedFuncs() {
		if fi.Pkg.PkgPath == streamsPath && fi.Decl.Body != nil {
			out = append(out, fi)
		}
	}
	return out
}

// ---- shared helpers: the word pointers of the allocator ----

// wordKey resolves a pointer expression used as the first argument of an atomic call to the stream word it
// designates: "&s.streams[IDX]" directly, or a local pointer defined once from such an expression. It returns
// the index expression.
func wordKey(p *Program, info *types.Info, fi *FuncInfo, e ast.Expr) (idx ast.Expr, ok bool) {
	e = ast.Unparen(e)
	if u, isU := e.(*ast.UnaryExpr); isU && u.Op == token.AND {
		if ix, isIx := ast.Unparen(u.X).(*ast.IndexExpr); isIx {
			if sel, isSel := ast.Unparen(ix.X).(*ast.SelectorExpr); isSel {
				if fv := fieldOf(info, sel); fv != nil && fv.Name() == "streams" && typeNameOf(info.TypeOf(sel.X)) == "IDGenerator" {
					return ix.Index, true
				}
			}
			// a []uint64 local or parameter: in this package only the allocator's words have that type (a
			// sub-slice of s.streams handed to a helper)
			if t := info.TypeOf(ix.X); t != nil {
				if sl, isSl := t.Underlying().(*types.Slice); isSl {
					if b, isB := sl.Elem().Underlying().(*types.Basic); isB && b.Kind() == types.Uint64 {
						if _, isId := ast.Unparen(ix.X).(*ast.Ident); isId {
							return ix.Index, true
						}
					}
				}
			}
		}
		return nil, false
	}
	if id, isId := e.(*ast.Ident); isId && info.Uses[id] != nil && singleAssigned(info, fi.Decl.Body, info.Uses[id]) {
		if d := localDef(info, fi, id); d != nil {
			return wordKey(p, info, fi, d)
		}
	}
	// a *uint64 parameter that every caller binds to the address of a stream word: the parameter stands for that word
	if id, isId := e.(*ast.Ident); isId {
		if _, sites := wordParamSites(p, fi, id); len(sites) > 0 {
			return id, true
		}
	}
	return nil, false
}

// wordParamSites: id is a never-reassigned pointer parameter of fi and every static call of fi passes the address
// of a stream word for it. Returns the parameter index and the call sites.
func wordParamSites(p *Program, fi *FuncInfo, id *ast.Ident) (int, []argSite) {
	info := fi.Pkg.TypesInfo
	v, isVar := info.Uses[id].(*types.Var)
	if !isVar || fi.Obj == nil || !neverAssigned(info, fi.Decl.Body, v) {
		return -1, nil
	}
	sig := fi.Obj.Type().(*types.Signature)
	idx := -1
	for i := 0; i < sig.Params().Len(); i++ {
		if sig.Params().At(i) == v {
			idx = i
		}
	}
	if idx < 0 {
		return -1, nil
	}
	var sites []argSite
	for _, caller := range streamsPkgFuncs(p) {
		for _, cc := range callsIn(caller.Decl.Body) {
			if fn := calleeOf(caller.Pkg.TypesInfo, cc); fn != nil && p.FuncOf(fn) == fi && idx < len(cc.Args) {
				if caller == fi {
					return -1, nil
				}
				if _, ok := wordKey(p, caller.Pkg.TypesInfo, caller, cc.Args[idx]); !ok {
					return -1, nil
				}
				sites = append(sites, argSite{caller, cc, cc.Args[idx]})
			}
		}
	}
	if p.usedAsValue(fi) {
		return -1, nil
	}
	return idx, sites
}

func c08r1(p *Program, r *Report) {
	n := 0
	for _, fi := range streamsPkgFuncs(p) {
		if fi.Name == "streams.New" {
			continue
		}
		info := fi.Pkg.TypesInfo
		// local pointers to shared words: w := &s.streams[i] / &s.offset ...
		ptrVars := map[types.Object]bool{}
		ast.Inspect(fi.Decl.Body, func(x ast.Node) bool {
			sel, ok := x.(*ast.SelectorExpr)
			if !ok {
				return true
			}
			fv := fieldOf(info, sel)
			if fv == nil || typeNameOf(info.TypeOf(sel.X)) != "IDGenerator" {
				return true
			}
			switch fv.Name() {
			case "streams", "inuseStreams", "offset":
			default:
				return true
			}
			n++
			var cur ast.Node = sel
			okAtomic, why := false, ""
			for i := 0; i < 4; i++ {
				par := p.Parent(cur)
				switch y := par.(type) {
				case *ast.IndexExpr:
					if y.X == cur {
						cur = par
						continue
					}
				case *ast.UnaryExpr:
					if y.Op == token.AND {
						cur = par
						continue
					}
				case *ast.CallExpr:
					name := calleeName(info, y)
					if strings.HasPrefix(name, "atomic.") {
						if _, isAddr := cur.(*ast.UnaryExpr); isAddr {
							okAtomic, why = true, "argument of "+name
						}
					}
					if name == "builtin.len" {
						okAtomic, why = true, "len of the slice header, immutable after New"
					}
					// the address handed to a helper of this package that passes it to sync/atomic only
					if _, isAddr := cur.(*ast.UnaryExpr); isAddr && !okAtomic {
						if fn := calleeOf(info, y); fn != nil {
							if h := p.FuncOf(fn); h != nil && h.Pkg.PkgPath == streamsPath && h.Decl.Body != nil && h.Obj != nil && !p.usedAsValue(h) {
								hinfo := h.Pkg.TypesInfo
								sig := h.Obj.Type().(*types.Signature)
								for ai, a := range y.Args {
									if a != ast.Expr(cur.(ast.Expr)) || ai >= sig.Params().Len() {
										continue
									}
									pv := sig.Params().At(ai)
									allAtomic, uses := true, 0
									ast.Inspect(h.Decl.Body, func(z ast.Node) bool {
										uid, isU := z.(*ast.Ident)
										if !isU || hinfo.Uses[uid] != types.Object(pv) {
											return true
										}
										uses++
										c, isCall := p.Parent(uid).(*ast.CallExpr)
										if !isCall || !strings.HasPrefix(calleeName(hinfo, c), "atomic.") || len(c.Args) == 0 || c.Args[0] != ast.Expr(uid) {
											allAtomic = false
										}
										return true
									})
									if allAtomic && uses > 0 {
										okAtomic, why = true, "address passed to "+h.Name+", which only hands it to sync/atomic"
									}
								}
							}
						}
					}
				case *ast.SliceExpr:
					// s.streams[a:b] handed to a helper of this package: the helper's element accesses are checked below
					if y.X == cur {
						if c2, ok := p.Parent(par).(*ast.CallExpr); ok {
							if fn := calleeOf(info, c2); fn != nil && p.FuncOf(fn) != nil && p.FuncOf(fn).Pkg.PkgPath == streamsPath {
								okAtomic, why = true, "sub-slice passed to "+p.FuncOf(fn).Name+" (its element accesses are checked separately)"
							}
						}
					}
				case *ast.AssignStmt:
					// w := &s.streams[i]: every use of w must be an argument of an atomic call
					if _, isAddr := cur.(*ast.UnaryExpr); isAddr && len(y.Lhs) == 1 {
						if id, isId := y.Lhs[0].(*ast.Ident); isId {
							obj := info.Defs[id]
							if obj == nil {
								obj = info.Uses[id]
							}
							allAtomic := obj != nil
							ast.Inspect(fi.Decl.Body, func(z ast.Node) bool {
								uid, isU := z.(*ast.Ident)
								if !isU || info.Uses[uid] != obj {
									return true
								}
								c, isCall := p.Parent(uid).(*ast.CallExpr)
								if !isCall || !strings.HasPrefix(calleeName(info, c), "atomic.") || len(c.Args) == 0 || c.Args[0] != ast.Expr(uid) {
									allAtomic = false
								}
								return true
							})
							if allAtomic {
								ptrVars[obj] = true
								okAtomic, why = true, "address kept in "+id.Name+", which is only ever passed to sync/atomic"
							}
						}
					}
				}
				break
			}
			r.Check(okAtomic, sel, fi.Name+" accesses IDGenerator."+fv.Name(), why, "the allocator's shared state is read or written without sync/atomic: a torn or stale word hands one id to two requests")
			return true
		})
	}
	// words reached through a []uint64 local or parameter (a sub-slice of s.streams): element accesses only as
	// the address argument of a sync/atomic call
	for _, fi := range streamsPkgFuncs(p) {
		if fi.Name == "streams.New" {
			continue
		}
		info := fi.Pkg.TypesInfo
		ast.Inspect(fi.Decl.Body, func(x ast.Node) bool {
			ix, ok := x.(*ast.IndexExpr)
			if !ok {
				return true
			}
			id, ok := ast.Unparen(ix.X).(*ast.Ident)
			if !ok {
				return true
			}
			t := info.TypeOf(id)
			if t == nil {
				return true
			}
			sl, isSl := t.Underlying().(*types.Slice)
			if !isSl {
				return true
			}
			if b, isB := sl.Elem().Underlying().(*types.Basic); !isB || b.Kind() != types.Uint64 {
				return true
			}
			n++
			okA := false
			if u, ok := p.Parent(ix).(*ast.UnaryExpr); ok && u.Op == token.AND {
				if c, ok := p.Parent(u).(*ast.CallExpr); ok && strings.HasPrefix(calleeName(info, c), "atomic.") {
					okA = true
				}
			}
			r.Check(okA, ix, fi.Name+" accesses word "+exprStr(ix), "address argument of sync/atomic", "a stream word is read or written through "+exprStr(ix)+" without sync/atomic")
			return true
		})
	}
	if n == 0 {
		r.Unresolved("no access to the allocator's shared fields found")
	}
}

// casSite describes one compare-and-swap on a stream word.
type casSite struct {
	fi    *FuncInfo
	call  *ast.CallExpr
	idx   ast.Expr   // index of the word
	old   *ast.Ident // variable holding the loaded word
	mask  ast.Expr   // the bit
	claim bool       // new = old | mask (claim) or old &^ mask (clear)
	shape string
}

func casSites(p *Program) (sites []casSite, problems []string) {
	for _, fi := range streamsPkgFuncs(p) {
		info := fi.Pkg.TypesInfo
		ast.Inspect(fi.Decl.Body, func(x ast.Node) bool {
			c, ok := x.(*ast.CallExpr)
			if !ok || calleeName(info, c) != "atomic.CompareAndSwapUint64" || len(c.Args) != 3 {
				return true
			}
			idx, isWord := wordKey(p, info, fi, c.Args[0])
			if !isWord {
				return true
			}
			st := casSite{fi: fi, call: c, idx: idx}
			old, ok := ast.Unparen(c.Args[1]).(*ast.Ident)
			if !ok {
				problems = append(problems, p.Pos(c)+": the expected value of the CAS is not a variable holding the loaded word")
				return true
			}
			st.old = old
			nb, ok := ast.Unparen(c.Args[2]).(*ast.BinaryExpr)
			if !ok || exprStr(ast.Unparen(nb.X)) != old.Name {
				problems = append(problems, p.Pos(c)+": the new value of the CAS ("+exprStr(c.Args[2])+") is not derived from the old value "+old.Name)
				return true
			}
			switch nb.Op {
			case token.OR:
				st.claim, st.mask = true, nb.Y
			case token.AND_NOT:
				st.mask = nb.Y
			case token.AND:
				if u, isU := ast.Unparen(nb.Y).(*ast.UnaryExpr); isU && u.Op == token.XOR {
					st.mask = u.X
				}
			}
			if st.mask == nil {
				problems = append(problems, p.Pos(c)+": the new value of the CAS ("+exprStr(c.Args[2])+") neither sets nor clears one mask in the old value")
				return true
			}
			sites = append(sites, st)
			return true
		})
	}
	return
}

// casOutcome: cond is (possibly negated) exactly the CAS call c; returns whether the edge with value val
// means the CAS succeeded.
func casOutcome(cond ast.Expr, c *ast.CallExpr, val bool) (succeeded, isThis bool) {
	e := ast.Unparen(cond)
	neg := false
	for {
		u, ok := e.(*ast.UnaryExpr)
		if !ok || u.Op != token.NOT {
			break
		}
		neg = !neg
		e = ast.Unparen(u.X)
	}
	if e != ast.Expr(c) {
		return false, false
	}
	return val != neg, true
}

func c08r2(p *Program, r *Report) {
	sites, problems := casSites(p)
	for _, pr := range problems {
		r.Bad(nil, "stream word CAS at "+pr, pr)
	}
	// the words of the bitmap change only by compare-and-swap (outside the constructor): a plain atomic store, add
	// or swap of a word writes a stale snapshot of the other 63 bits back
	for _, fi := range streamsPkgFuncs(p) {
		if fi.Name == "streams.New" {
			continue
		}
		info := fi.Pkg.TypesInfo
		for _, c := range callsIn(fi.Decl.Body) {
			nm := calleeName(info, c)
			if (nm == "atomic.StoreUint64" || nm == "atomic.AddUint64" || nm == "atomic.SwapUint64" || nm == "atomic.OrUint64" || nm == "atomic.AndUint64") && len(c.Args) >= 1 {
				if _, isWord := wordKey(p, info, fi, c.Args[0]); isWord {
					r.Bad(c, fi.Name+" changes a bitmap word only by compare-and-swap", "a word of the stream bitmap is written with "+nm+" instead of a compare-and-swap against the value it was computed from: a concurrent claim or release of another id in the same word is undone, so an id in flight is handed out again (or a free one is lost)")
				}
			}
		}
	}
	nclaim, nclear := 0, 0
	for _, st := range sites {
		fi, c := st.fi, st.call
		g := p.GraphOf(fi)
		info := g.Info
		kind := "clear"
		if st.claim {
			kind = "claim"
			nclaim++
		} else {
			nclear++
		}
		name := fi.Name + " " + kind + " CAS"
		oldObj := info.Uses[st.old]
		// (a) every definition of the old value is a load of the same word
		fresh, nd := true, 0
		why := ""
		ast.Inspect(fi.Decl.Body, func(x ast.Node) bool {
			as, ok := x.(*ast.AssignStmt)
			if !ok || len(as.Lhs) != len(as.Rhs) {
				return true
			}
			for i, l := range as.Lhs {
				id, ok := l.(*ast.Ident)
				if !ok || (info.Defs[id] != oldObj && info.Uses[id] != oldObj) {
					continue
				}
				nd++
				lc, isCall := ast.Unparen(as.Rhs[i]).(*ast.CallExpr)
				okLoad := false
				if isCall && calleeName(info, lc) == "atomic.LoadUint64" && len(lc.Args) == 1 {
					if ix, isW := wordKey(p, info, fi, lc.Args[0]); isW && exprStr(ix) == exprStr(st.idx) {
						okLoad = true
					}
				}
				if !okLoad {
					fresh = false
					why = st.old.Name + " = " + exprStr(as.Rhs[i])
				}
			}
			return true
		})
		// the old value may come in as a parameter next to the word: then every caller passes a variable that holds
		// nothing but loads of the word it passes
		if ov, isVar := oldObj.(*types.Var); isVar && fi.Obj != nil {
			sig := fi.Obj.Type().(*types.Signature)
			for pi := 0; pi < sig.Params().Len(); pi++ {
				if sig.Params().At(pi) != ov {
					continue
				}
				// the word the callee works on, as the caller names it: a pointer parameter bound to a stream word,
				// or a word the callee addresses itself through an index parameter
				var sitesW []argSite
				widx := -1
				byIndexParam := false
				if wid, isWid := ast.Unparen(c.Args[0]).(*ast.Ident); isWid {
					widx, sitesW = wordParamSites(p, fi, wid)
				}
				if len(sitesW) == 0 {
					if ix, isW := wordKey(p, info, fi, c.Args[0]); isW {
						if iid, isId := ast.Unparen(stripAllConv(info, ix)).(*ast.Ident); isId {
							if k, stable := p.stableParams(fi)[info.Uses[iid]]; stable && k >= 0 && !p.usedAsValue(fi) {
								widx, byIndexParam = k, true
								for _, caller := range streamsPkgFuncs(p) {
									for _, cc := range callsIn(caller.Decl.Body) {
										if fn := calleeOf(caller.Pkg.TypesInfo, cc); fn != nil && p.FuncOf(fn) == fi && k < len(cc.Args) && caller != fi {
											sitesW = append(sitesW, argSite{caller, cc, cc.Args[k]})
										}
									}
								}
							}
						}
					}
				}
				if len(sitesW) == 0 {
					fresh, why = false, "the value to compare with is a parameter but the word is not one bound to a stream word by every caller"
					break
				}
				for _, site := range sitesW {
					cinfo := site.Fn.Pkg.TypesInfo
					nd++
					var wix ast.Expr
					if byIndexParam {
						wix = site.Call.Args[widx]
					} else {
						wix, _ = wordKey(p, cinfo, site.Fn, site.Call.Args[widx])
					}
					aid, isId := ast.Unparen(site.Call.Args[pi]).(*ast.Ident)
					if !isId {
						fresh, why = false, "caller passes "+exprStr(site.Call.Args[pi])
						continue
					}
					aobj := cinfo.Uses[aid]
					ndefs := 0
					ast.Inspect(site.Fn.Decl.Body, func(x ast.Node) bool {
						as, ok := x.(*ast.AssignStmt)
						if !ok || len(as.Lhs) != len(as.Rhs) {
							return true
						}
						for i, l := range as.Lhs {
							lid, ok := l.(*ast.Ident)
							if !ok || (cinfo.Defs[lid] != aobj && cinfo.Uses[lid] != aobj) {
								continue
							}
							ndefs++
							lc, isCall := ast.Unparen(as.Rhs[i]).(*ast.CallExpr)
							okLoad := false
							if isCall && calleeName(cinfo, lc) == "atomic.LoadUint64" && len(lc.Args) == 1 {
								if ix, isW := wordKey(p, cinfo, site.Fn, lc.Args[0]); isW && wix != nil && exprStr(ix) == exprStr(wix) {
									okLoad = true
								}
							}
							if !okLoad {
								fresh = false
								why = "caller " + site.Fn.Name + ": " + aid.Name + " = " + exprStr(as.Rhs[i])
							}
						}
						return true
					})
					if ndefs == 0 {
						fresh, why = false, "caller "+site.Fn.Name+" passes "+aid.Name+", which it never loads"
					}
				}
			}
		}
		if nd == 0 {
			r.Unresolved("%s: the old value %s is not loaded in this function (passed in?)", name, st.old.Name)
			continue
		}
		r.Check(fresh, c, name+" compares against the word as loaded from the same slot", "every definition of "+st.old.Name+" is atomic.LoadUint64 of that word",
			"the value the CAS compares with is not (only) the atomically loaded content of the same word ("+why+"): a stale image of the word is written back and overwrites bits changed concurrently (an id handed out twice, or leaked)")
		// (b) the bit was tested in the current old value: facts at the CAS
		f, _ := g.GuardFacts().Before(p.stmtOf(c, fi))
		// the CAS may itself be the branch condition: facts before that node are the facts on entry to the condition
		if cn, ok := g.cfgNodeOf(c); ok {
			if f2, ok2 := g.GuardFacts().Before(cn); ok2 {
				f = f2
			}
		}
		m := exprStr(st.mask)
		o := st.old.Name
		known := func(src string) (bool, bool) {
			e, err := parser.ParseExpr(src)
			if err != nil {
				return false, false
			}
			return f.Known(e)
		}
		tested := false
		var forms [][2]string
		if st.claim {
			forms = [][2]string{{o + "&" + m + " == 0", "t"}, {o + "&" + m + " != 0", "f"}, {o + "&" + m + " == " + m, "f"}, {o + "&" + m + " != " + m, "t"}}
		} else {
			forms = [][2]string{{o + "&" + m + " == 0", "f"}, {o + "&" + m + " != 0", "t"}, {o + "&" + m + " == " + m, "t"}, {o + "&" + m + " != " + m, "f"}}
		}
		for _, fm := range forms {
			if v, ok := known(fm[0]); ok && v == (fm[1] == "t") {
				tested = true
			}
		}
		r.Check(tested, c, name+" attempted only with the bit tested in the current old value", ifs(st.claim, "bit known clear in "+o, "bit known set in "+o),
			"the CAS is attempted without the bit having been tested in the value it compares with (after a reload the test must be repeated): "+ifs(st.claim, "an id that another request holds is claimed again", "a clear bit is 'released' and the in-use count is decremented twice"))
		// (c) after a failed CAS the word is reloaded before the next attempt
		type st2 struct{ stale bool }
		unknownUse := false
		sol := Solve(g, Lattice[st2]{
			Join: func(a, b st2) st2 { return st2{a.stale || b.stale} },
			Eq:   func(a, b st2) bool { return a == b },
			Step: func(s st2, step Step) st2 {
				switch step.Kind {
				case StCond:
					if succ, isThis := casOutcome(step.Node.(ast.Expr), c, step.Val); isThis {
						if !succ {
							return st2{true}
						}
						return s
					}
				case StNode:
					if as, ok := step.Node.(*ast.AssignStmt); ok {
						for _, l := range as.Lhs {
							if id, ok := l.(*ast.Ident); ok && (info.Uses[id] == oldObj || info.Defs[id] == oldObj) {
								return st2{false}
							}
						}
					}
				}
				return s
			},
		})
		// the CAS must be a branch condition by itself
		if par, ok := p.Parent(c).(*ast.UnaryExpr); ok {
			_ = par
		}
		isCond := false
		for n := ast.Node(c); n != nil; n = p.Parent(n) {
			switch y := p.Parent(n).(type) {
			case *ast.IfStmt:
				isCond = y.Cond == n
			case *ast.ForStmt:
				isCond = y.Cond == n
			case *ast.UnaryExpr, *ast.ParenExpr:
				continue
			}
			break
		}
		if !isCond {
			unknownUse = true
		}
		if unknownUse {
			r.Unresolved("%s: the result of the CAS is not used directly as a branch condition", name)
			continue
		}
		var cn ast.Node = c
		if x, ok := g.cfgNodeOf(c); ok {
			cn = x
		}
		s0, _ := sol.Before(cn)
		if st.claim {
			// a failed CAS says that some bit of the word changed, not that this bit was taken: the same bit must be
			// tested again in the reloaded word before the scan moves on to another bit
			maskObj := types.Object(nil)
			if mid, ok := ast.Unparen(st.mask).(*ast.Ident); ok {
				maskObj = info.Uses[mid]
			}
			type st3 struct{ pending, skipped bool }
			sol3 := Solve(g, Lattice[st3]{
				Join: func(a, b st3) st3 { return st3{a.pending || b.pending, a.skipped || b.skipped} },
				Eq:   func(a, b st3) bool { return a == b },
				Step: func(s st3, step Step) st3 {
					switch step.Kind {
					case StCond:
						if succ, isThis := casOutcome(step.Node.(ast.Expr), c, step.Val); isThis {
							if !succ {
								s.pending = true
							}
							return s
						}
						if maskObj != nil && testsBitOf(info, step.Node, oldObj) {
							s.pending = false
						}
					case StNode:
						if as, ok := step.Node.(*ast.AssignStmt); ok && maskObj != nil {
							for _, l := range as.Lhs {
								if id, ok := l.(*ast.Ident); ok && (info.Defs[id] == maskObj || info.Uses[id] == maskObj) && s.pending {
									s.skipped = true
									s.pending = false
								}
							}
						}
					}
					return s
				},
			})
			skipped := false
			for _, e := range g.Exits() {
				if x, ok := sol3.AtExit(e); ok && x.skipped {
					skipped = true
				}
			}
			if maskObj == nil {
				r.Unresolved("%s: the claimed bit is not held in a variable", name)
			} else {
				r.Check(!skipped, c, name+" re-tests the same bit after a failed attempt", "failed CAS -> reload -> same bit tested again",
					"after a failed compare-and-swap the scan moves on to the next bit without testing the same bit in the reloaded word: a CAS fails whenever any bit of the word changed, so a still-free id is skipped (ids never used, exhaustion reported although ids are free)")
			}
		}
		r.Check(!s0.stale, c, name+" retried only after reloading the word", "failed CAS -> "+o+" reloaded before the next attempt",
			"after a failed compare-and-swap the next attempt can run without "+o+" having been reloaded: the retry spins forever on a stale value or, if the new value is computed once, writes a stale image of the word")
	}
	if nclaim == 0 || nclear == 0 {
		r.Unresolved("expected a claiming and a clearing compare-and-swap on the stream words, found %d / %d", nclaim, nclear)
	}
}

// successKind: fi is a helper that reports (last bool result true / first bool result) only after a successful
// CAS of the given kind and does not itself update the in-use count. Returns "claim", "clear" or "".
func successKind(p *Program, fi *FuncInfo, sites []casSite) string {
	kind := ""
	for _, st := range sites {
		if st.fi == fi {
			k := "clear"
			if st.claim {
				k = "claim"
			}
			if kind != "" && kind != k {
				return ""
			}
			kind = k
		}
	}
	return kind
}

func c08r3(p *Program, r *Report) {
	sites, _ := casSites(p)
	kindOf := map[*FuncInfo]string{}
	for _, fi := range streamsPkgFuncs(p) {
		kindOf[fi] = successKind(p, fi, sites)
	}
	// witness: call expression c in function fi evidences a successful CAS of kind k when it is true
	witness := func(fi *FuncInfo, c *ast.CallExpr) string {
		info := fi.Pkg.TypesInfo
		for _, st := range sites {
			if st.call == c {
				if st.claim {
					return "claim"
				}
				return "clear"
			}
		}
		if fn := calleeOf(info, c); fn != nil {
			if callee := p.FuncOf(fn); callee != nil && callee != fi && !hasCountUpdate(callee.Pkg.TypesInfo, callee) {
				return kindOf[callee]
			}
		}
		return ""
	}
	nadd := 0
	for _, fi := range streamsPkgFuncs(p) {
		g := p.GraphOf(fi)
		info := g.Info
		// events: success of a witness on a condition edge, count updates
		cl := func(st Step) []string {
			switch st.Kind {
			case StCond:
				e := ast.Unparen(st.Node.(ast.Expr))
				neg := false
				for {
					u, ok := e.(*ast.UnaryExpr)
					if !ok || u.Op != token.NOT {
						break
					}
					neg = !neg
					e = ast.Unparen(u.X)
				}
				// `v, ok := helper(); ok` forms: the condition is an identifier bound to a helper's bool result
				if id, ok := e.(*ast.Ident); ok {
					if src := boolResultSource(info, fi, id); src != nil {
						e = src
					}
				}
				if c, ok := e.(*ast.CallExpr); ok {
					if k := witness(fi, c); k != "" && st.Val != neg {
						return []string{"succ:" + k}
					}
				}
			case StNode:
				var evs []string
				for _, c := range callsIn(st.Node) {
					if calleeName(info, c) == "atomic.AddInt32" && len(c.Args) == 2 && strings.HasSuffix(exprStr(c.Args[0]), ".inuseStreams") {
						if k, ok := constInt(info, c.Args[1]); ok && k == 1 {
							evs = append(evs, "inc")
						} else if ok && k == -1 {
							evs = append(evs, "dec")
						} else {
							evs = append(evs, "odd")
						}
					}
				}
				return evs
			}
			return nil
		}
		ef := g.Events(cl)
		// every count update is preceded by the matching success on every path
		for _, c := range callsIn(fi.Decl.Body) {
			if calleeName(info, c) != "atomic.AddInt32" || len(c.Args) != 2 || !strings.HasSuffix(exprStr(c.Args[0]), ".inuseStreams") {
				continue
			}
			nadd++
			k, isK := constInt(info, c.Args[1])
			if !isK || (k != 1 && k != -1) {
				r.Bad(c, fi.Name+" changes the in-use count by "+exprStr(c.Args[1]), "the in-use count is changed by something other than +1 / -1")
				continue
			}
			need := "succ:claim"
			if k == -1 {
				need = "succ:clear"
			}
			s, _ := ef.Sol.Before(p.stmtOf(c, fi))
			r.Check(s.Must[need], c, fi.Name+" count update "+exprStr(c.Args[1])+" only after the matching successful CAS", need+" on every path to the update",
				"the in-use count is updated on a path where the matching compare-and-swap did not succeed: the count drifts from the number of set bits (Available() wrong, 'negative streams inuse' panic)")
		}
		// every exit reached after a success has updated the count exactly once, unless this function is a helper
		// that hands the success to its caller
		isHelper := kindOf[fi] != "" && !hasCountUpdate(info, fi)
		for _, e := range g.Exits() {
			if e.Kind == ExitPanic {
				continue
			}
			s, ok := ef.ExitState(e)
			if !ok {
				continue
			}
			for _, k := range []string{"claim", "clear"} {
				if !s.Must["succ:"+k] {
					continue
				}
				ev := "inc"
				if k == "clear" {
					ev = "dec"
				}
				if isHelper {
					continue
				}
				r.Check(s.Must[ev] && s.Max[ev] == 1, e.Node, fi.Name+" exit "+exitDesc(p, e)+" after a successful "+k+" updated the count exactly once", ev+" exactly once",
					"a path returns after a successful "+k+" compare-and-swap with the in-use count updated "+itoa(s.Max[ev])+" time(s) (must be exactly once)")
			}
		}
	}
	if nadd < 2 {
		r.Unresolved("expected an increment and a decrement of the in-use count, found %d update(s)", nadd)
	}
	// Clear: false only without a decrement, true only with one
	if fi := r.NeedFunc("streams.(*IDGenerator).Clear"); fi != nil {
		g := p.GraphOf(fi)
		info := g.Info
		ef := g.Events(func(st Step) []string {
			if st.Kind == StNode {
				for _, c := range callsIn(st.Node) {
					if calleeName(info, c) == "atomic.AddInt32" {
						return []string{"dec"}
					}
				}
			}
			return nil
		})
		for _, e := range g.Exits() {
			rs, ok := e.Node.(*ast.ReturnStmt)
			if !ok || len(rs.Results) != 1 {
				continue
			}
			s, _ := ef.ExitState(e)
			switch exprStr(rs.Results[0]) {
			case "false":
				r.Check(s.Max["dec"] == 0, rs, "(*IDGenerator).Clear reports 'not in use' without decrementing", "no decrement on this path", "Clear reports 'not in use' after decrementing: a double release corrupts the count")
			case "true":
				r.Check(s.Must["dec"], rs, "(*IDGenerator).Clear decrements before reporting a release", "count decremented", "Clear returns true without decrementing the in-use count")
			}
		}
	}
}

func hasCountUpdate(info *types.Info, fi *FuncInfo) bool {
	for _, c := range callsIn(fi.Decl.Body) {
		if calleeName(info, c) == "atomic.AddInt32" {
			return true
		}
	}
	return false
}

// boolResultSource: id is the boolean of `v, id := call(...)` (or `id := call()`), defined once: returns the call.
func boolResultSource(info *types.Info, fi *FuncInfo, id *ast.Ident) ast.Expr {
	obj := info.Uses[id]
	if obj == nil {
		return nil
	}
	var src ast.Expr
	n := 0
	ast.Inspect(fi.Decl.Body, func(x ast.Node) bool {
		as, ok := x.(*ast.AssignStmt)
		if !ok || len(as.Rhs) != 1 {
			return true
		}
		for _, l := range as.Lhs {
			if lid, ok := l.(*ast.Ident); ok && (info.Defs[lid] == obj || info.Uses[lid] == obj) && lid != id {
				n++
				if c, ok := ast.Unparen(as.Rhs[0]).(*ast.CallExpr); ok {
					src = c
				}
			}
		}
		return true
	})
	if n != 1 {
		return nil
	}
	return src
}

func c08r4(p *Program, r *Report) {
	fi := r.NeedFunc("streams.New")
	if fi == nil {
		return
	}
	info := fi.Pkg.TypesInfo
	// the word slice: make([]uint64, N); N resolves to <capacity> / 64; the capacity variable takes 128 and, under
	// the protocol test, 32768 (identified by role, not by name)
	var mk *ast.CallExpr
	var sliceObj types.Object
	ast.Inspect(fi.Decl.Body, func(x ast.Node) bool {
		if c, ok := x.(*ast.CallExpr); ok && calleeName(info, c) == "builtin.make" && len(c.Args) >= 2 && mk == nil {
			if sl, isSl := info.TypeOf(c).Underlying().(*types.Slice); isSl {
				if bt, isB := sl.Elem().Underlying().(*types.Basic); isB && bt.Kind() == types.Uint64 {
					mk = c
					if as, isAs := p.Parent(c).(*ast.AssignStmt); isAs && len(as.Lhs) == 1 {
						if id, isId := as.Lhs[0].(*ast.Ident); isId {
							sliceObj = info.Defs[id]
							if sliceObj == nil {
								sliceObj = info.Uses[id]
							}
						}
					}
				}
			}
		}
		return true
	})
	okBuckets := false
	var capObj types.Object
	if mk != nil {
		_, n := p.resolveValue(fi, mk.Args[1], 0)
		n = stripAllConv(info, n)
		if b, ok := ast.Unparen(n).(*ast.BinaryExpr); ok && b.Op == token.QUO {
			if v, ok := constInt(info, b.Y); ok && v == 64 {
				if id, isId := ast.Unparen(stripAllConv(info, b.X)).(*ast.Ident); isId {
					capObj = info.Uses[id]
					okBuckets = true
				}
			}
		}
	}
	// the capacity the constructor ends up with for each protocol version: the assignments of constants to the
	// capacity variable are replayed in source order, each under the conditions (on the protocol parameter) of the
	// if statements around it
	protoName := ""
	if po := paramObj(info, fi.Decl.Type, 0); po != nil {
		protoName = po.Name()
	}
	type capAssign struct {
		val   int64
		guard []struct {
			cond ast.Expr
			want bool
		}
		ok bool
	}
	var capAssigns []capAssign
	ast.Inspect(fi.Decl.Body, func(x ast.Node) bool {
		s, isAs := x.(*ast.AssignStmt)
		if !isAs || len(s.Lhs) != 1 || len(s.Rhs) != 1 || capObj == nil {
			return true
		}
		id, isId := s.Lhs[0].(*ast.Ident)
		if !isId || (info.Defs[id] != capObj && info.Uses[id] != capObj) {
			return true
		}
		ca := capAssign{ok: true}
		if v, ok := constInt(info, s.Rhs[0]); ok {
			ca.val = v
		} else {
			ca.ok = false
		}
		var child ast.Node = s
		for cur := p.Parent(s); cur != nil && cur != ast.Node(fi.Decl); cur = p.Parent(cur) {
			switch y := cur.(type) {
			case *ast.IfStmt:
				switch {
				case child == ast.Node(y.Body):
					ca.guard = append(ca.guard, struct {
						cond ast.Expr
						want bool
					}{y.Cond, true})
				case child == y.Else:
					ca.guard = append(ca.guard, struct {
						cond ast.Expr
						want bool
					}{y.Cond, false})
				}
				if y.Init != nil {
					ca.ok = false
				}
			case *ast.BlockStmt:
			default:
				ca.ok = false // inside a loop, switch, closure ..: not replayed
			}
			child = cur
		}
		capAssigns = append(capAssigns, ca)
		return true
	})
	capFor := func(v int64) (int64, bool) {
		cur, have := int64(0), false
		for _, ca := range capAssigns {
			if !ca.ok {
				return 0, false
			}
			applies := true
			for _, gd := range ca.guard {
				b, isB := ast.Unparen(gd.cond).(*ast.BinaryExpr)
				if !isB {
					return 0, false
				}
				ev := &evalEnv{info: info, fi: fi, vars: map[string]int64{protoName: v}, seen: map[types.Object]bool{}}
				a, ok1 := ev.eval(b.X)
				c, ok2 := ev.eval(b.Y)
				if !ok1 || !ok2 {
					return 0, false
				}
				switch b.Op {
				case token.LSS, token.LEQ, token.GTR, token.GEQ, token.EQL, token.NEQ:
				default:
					return 0, false
				}
				if cmpInt(a, b.Op, c) != gd.want {
					applies = false
				}
			}
			if applies {
				cur, have = ca.val, true
			}
		}
		return cur, have
	}
	okCaps := protoName != "" && len(capAssigns) > 0
	capDesc := ""
	for v := int64(1); v <= 5 && okCaps; v++ {
		got, ok := capFor(v)
		want := int64(32768)
		if v <= 2 {
			want = 128
		}
		capDesc += fmt.Sprintf(" v%d:%d", v, got)
		if !ok || got != want {
			okCaps = false
		}
	}
	okReserve, other := false, false
	ast.Inspect(fi.Decl.Body, func(x ast.Node) bool {
		as, ok := x.(*ast.AssignStmt)
		if !ok || len(as.Lhs) != 1 || len(as.Rhs) != 1 {
			return true
		}
		isWords := func(e ast.Expr) bool {
			if sliceObj != nil && isIdentOf(info, e, sliceObj) {
				return true
			}
			// the field of the generator under construction
			if fv := fieldOf(info, e); fv != nil && fv.Name() == "streams" {
				if sel, isSel := ast.Unparen(e).(*ast.SelectorExpr); isSel && typeNameOf(info.TypeOf(sel.X)) == "IDGenerator" {
					return true
				}
			}
			return false
		}
		if ix, ok := ast.Unparen(as.Lhs[0]).(*ast.IndexExpr); ok && isWords(ix.X) {
			k, okK := constInt(info, ix.Index)
			v, okV := constUint(info, as.Rhs[0])
			if !okK {
				// index / bit computed by the package's own helpers from constants
				if kk, ok := p.evalConstExpr(fi, ix.Index); ok {
					k, okK = int64(kk), true
				}
			}
			if !okV {
				if vv, ok := p.evalConstExpr(fi, as.Rhs[0]); ok {
					v, okV = vv, true
				}
			}
			if okK && okV && k == 0 && v == 1<<63 {
				okReserve = true
			} else {
				other = true
			}
		}
		return true
	})
	r.Check(okCaps, fi.Decl, "streams.New capacities 128 (v1-2) / 32768 (v3+)", "capacity by protocol version:"+capDesc, "stream capacities are not 128 for protocol <= 2 and 32768 for protocol >= 3: ids exceed the 7/15-bit stream field")
	r.Check(okBuckets, fi.Decl, "streams.New word count = capacity / 64", "buckets = maxStreams / 64", "the number of 64-bit words is not capacity/64")
	r.Check(okReserve && !other, fi.Decl, "streams.New reserves exactly id 0", "streams[0] = 1<<63 (the bit of id 0) and nothing else", "the constructor does not pre-set exactly the bit of stream id 0: id 0 can be handed out, or another id is lost forever")
	// streamOffset / streamFromBucket / bucketOffset shapes
	if so := r.NeedFunc("streams.streamOffset"); so != nil {
		s := exprStr(so.Decl.Body.List[0].(*ast.ReturnStmt).Results[0])
		r.Check(s == "bucketBits - uint64(stream % bucketBits) - 1", so.Decl, "streams.streamOffset maps id to bit 63-(id%64)", s, "streamOffset no longer maps id i to bit 63-(i mod 64): the reserved bit and the ids disagree")
	}
	if sf := r.NeedFunc("streams.streamFromBucket"); sf != nil {
		s := exprStr(sf.Decl.Body.List[0].(*ast.ReturnStmt).Results[0])
		r.Check(s == "(bucket * bucketBits) + streamInBucket", sf.Decl, "streams.streamFromBucket = word*64 + bit index", s, "ids are no longer word*64+bit")
	}
	// claiming CAS sites: the word index is reduced modulo the word count, the bit comes from a loop over exactly
	// the 64 bit positions, and the id handed out is streamFromBucket(that word, that bit)
	sites, _ := casSites(p)
	nclaim := 0
	for _, st := range sites {
		if !st.claim {
			continue
		}
		nclaim++
		fi2 := st.fi
		info2 := fi2.Pkg.TypesInfo
		name := fi2.Name
		// resolve through a local copy: n := s.numBuckets
		isWordCountIn := func(inf *types.Info, f *FuncInfo, e ast.Expr) bool {
			e = stripAllConv(inf, e)
			s := strings.ReplaceAll(exprStr(e), " ", "")
			if strings.HasSuffix(s, ".numBuckets") || strings.HasPrefix(s, "len(") && strings.HasSuffix(s, ".streams)") {
				return true
			}
			if id, ok := e.(*ast.Ident); ok && inf.Uses[id] != nil && singleAssigned(inf, f.Decl.Body, inf.Uses[id]) {
				if d := localDef(inf, f, id); d != nil {
					ds := strings.ReplaceAll(exprStr(stripAllConv(inf, d)), " ", "")
					return strings.HasSuffix(ds, ".numBuckets") || strings.HasPrefix(ds, "len(") && strings.HasSuffix(ds, ".streams)")
				}
			}
			return false
		}
		modOKIn := func(inf *types.Info, f *FuncInfo, e ast.Expr) bool {
			e = stripAllConv(inf, e)
			b, ok := ast.Unparen(e).(*ast.BinaryExpr)
			return ok && b.Op == token.REM && isWordCountIn(inf, f, b.Y)
		}
		modOK := func(e ast.Expr) bool { return modOKIn(info2, fi2, e) }
		idxOK, idxWhy := false, exprStr(st.idx)
		idxExpr := stripAllConv(info2, st.idx)
		if modOK(idxExpr) {
			idxOK = true
		} else if id, ok := idxExpr.(*ast.Ident); ok {
			if d := localDef(info2, fi2, id); d != nil && modOK(d) {
				idxOK, idxWhy = true, id.Name+" := "+exprStr(d)
			} else if po := info2.Uses[id]; po != nil {
				// a parameter of a helper: every call site passes a reduced index
				k := paramIndexByName(fi2.Decl.Type, id.Name)
				if k >= 0 {
					nsite, okAll := 0, true
					for _, caller := range streamsPkgFuncs(p) {
						ci := caller.Pkg.TypesInfo
						for _, c := range callsIn(caller.Decl.Body) {
							if fn := calleeOf(ci, c); fn != nil && p.FuncOf(fn) == fi2 && k < len(c.Args) {
								nsite++
								a := stripAllConv(ci, c.Args[k])
								okA := false
								// the address of a word: its index is what has to be reduced
								if wix, isW := wordKey(p, ci, caller, a); isW {
									a = stripAllConv(ci, wix)
								}
								if modOKIn(ci, caller, a) {
									okA = true
								}
								if aid, ok := a.(*ast.Ident); ok {
									if d := localDef(ci, caller, aid); d != nil {
										if modOKIn(ci, caller, d) {
											okA = true
										}
										dd := stripAllConv(ci, d)
										if b, ok := ast.Unparen(dd).(*ast.BinaryExpr); ok && b.Op == token.REM {
											ys := strings.ReplaceAll(exprStr(stripAllConv(ci, b.Y)), " ", "")
											if strings.HasSuffix(ys, ".numBuckets") || strings.HasSuffix(ys, ".streams)") || strings.Contains(ys, "numBuckets") {
												okA = true
											}
										}
									}
								}
								if !okA {
									okAll = false
								}
							}
						}
					}
					if nsite > 0 && okAll {
						idxOK, idxWhy = true, "parameter "+id.Name+", reduced modulo the word count at every call site"
					}
				}
			}
		}
		// a helper working on a sub-slice: the index ranges over that slice; the relation to the id is checked below
		var baseSlice *ast.Ident
		if u, ok := ast.Unparen(st.call.Args[0]).(*ast.UnaryExpr); ok {
			if ix, ok := ast.Unparen(u.X).(*ast.IndexExpr); ok {
				if bid, ok := ast.Unparen(ix.X).(*ast.Ident); ok {
					baseSlice = bid
				}
			}
		}
		if baseSlice != nil && !idxOK {
			if id, ok := idxExpr.(*ast.Ident); ok {
				if loop := p.enclosing(st.call, fi2.Decl, func(n ast.Node) bool {
					switch l := n.(type) {
					case *ast.RangeStmt:
						return l.Key != nil && exprStr(l.Key) == id.Name && exprStr(l.X) == baseSlice.Name
					case *ast.ForStmt:
						if c, ok := l.Cond.(*ast.BinaryExpr); ok && c.Op == token.LSS && exprStr(c.X) == id.Name && exprStr(c.Y) == "len("+baseSlice.Name+")" {
							return true
						}
					}
					return false
				}); loop != nil {
					idxOK, idxWhy = true, id.Name+" ranges over the sub-slice "+baseSlice.Name
				}
			}
		}
		r.Check(idxOK, st.call, name+": word index of the claiming CAS is reduced modulo the word count", idxWhy, "the word index ("+exprStr(st.idx)+") is not reduced modulo the number of words: index out of range or ids beyond the protocol's range")
		// the bit: mask = 1 << streamOffset(J), J a loop variable over 0 .. bucketBits-1
		var bitVar *ast.Ident
		maskDef := st.mask
		if mid, ok := ast.Unparen(st.mask).(*ast.Ident); ok {
			if d := localDef(info2, fi2, mid); d != nil {
				maskDef = d
			}
		}
		ast.Inspect(maskDef, func(x ast.Node) bool {
			if c, ok := x.(*ast.CallExpr); ok && isCallTo(info2, c, "streams.streamOffset") && len(c.Args) == 1 {
				if id, ok := ast.Unparen(c.Args[0]).(*ast.Ident); ok {
					bitVar = id
				}
			}
			return true
		})
		if bitVar == nil {
			// a mask carried through the scan: 1<<63 before the loop over j = 0..63, shifted right by one as the last
			// step of every iteration: in iteration j it is 1 << (63 - j) = 1 << streamOffset(j)
			if mid, ok := ast.Unparen(st.mask).(*ast.Ident); ok && info2.Uses[mid] != nil {
				mobj := info2.Uses[mid]
				if loop, ok := p.enclosing(st.call, fi2.Decl, func(n ast.Node) bool {
					f, is := n.(*ast.ForStmt)
					return is && f.Init != nil && f.Cond != nil && f.Post != nil
				}).(*ast.ForStmt); ok {
					nInit, nShift, nOther := 0, 0, 0
					ast.Inspect(fi2.Decl.Body, func(x ast.Node) bool {
						switch y := x.(type) {
						case *ast.AssignStmt:
							for i, l := range y.Lhs {
								lid, isId := l.(*ast.Ident)
								if !isId || (info2.Defs[lid] != mobj && info2.Uses[lid] != mobj) {
									continue
								}
								switch {
								case (y.Tok == token.DEFINE || y.Tok == token.ASSIGN) && len(y.Rhs) == len(y.Lhs) && y.End() <= loop.Pos() && !p.inLoop(y, fi2.Decl):
									if v, ok := p.evalConstExpr(fi2, y.Rhs[i]); ok && v == 1<<63 {
										nInit++
									} else {
										nOther++
									}
								case y.Tok == token.SHR_ASSIGN && len(loop.Body.List) > 0 && loop.Body.List[len(loop.Body.List)-1] == ast.Stmt(y):
									if k, ok := constInt(info2, y.Rhs[0]); ok && k == 1 {
										nShift++
									} else {
										nOther++
									}
								default:
									nOther++
								}
							}
						case *ast.UnaryExpr:
							if y.Op == token.AND && isIdentOf(info2, y.X, mobj) {
								nOther++
							}
						case *ast.BranchStmt:
							if y.Tok == token.CONTINUE && posWithin(loop.Body, y.Pos()) {
								inner := p.enclosing(y, fi2.Decl, func(n ast.Node) bool {
									switch n.(type) {
									case *ast.ForStmt, *ast.RangeStmt:
										return true
									}
									return false
								})
								if y.Label != nil || inner == ast.Node(loop) {
									nOther++ // would skip the shift
								}
							}
						}
						return true
					})
					if as, ok := loop.Init.(*ast.AssignStmt); ok && len(as.Lhs) == 1 && nInit == 1 && nShift == 1 && nOther == 0 {
						if jid, ok := as.Lhs[0].(*ast.Ident); ok && neverAssigned(info2, loop.Body, info2.Defs[jid]) {
							bitVar = jid
						}
					}
				}
			}
		}
		bitsOK := false
		if bitVar != nil {
			if loop, ok := p.enclosing(st.call, fi2.Decl, func(n ast.Node) bool {
				f, is := n.(*ast.ForStmt)
				if !is || f.Init == nil || f.Cond == nil || f.Post == nil {
					return false
				}
				as, ok := f.Init.(*ast.AssignStmt)
				return ok && len(as.Lhs) == 1 && exprStr(as.Lhs[0]) == bitVar.Name
			}).(*ast.ForStmt); ok {
				init := loop.Init.(*ast.AssignStmt)
				k0, ok0 := constInt(info2, init.Rhs[0])
				cond, okC := loop.Cond.(*ast.BinaryExpr)
				inc, okP := loop.Post.(*ast.IncDecStmt)
				if ok0 && k0 == 0 && okC && cond.Op == token.LSS && exprStr(cond.X) == bitVar.Name && okP && inc.Tok == token.INC && exprStr(inc.X) == bitVar.Name {
					if lim, ok := constInt(info2, cond.Y); ok && lim == 64 {
						bitsOK = true
					}
				}
			}
		}
		r.Check(bitsOK, st.call, name+": the claimed bit ranges over exactly the 64 positions of a word", "mask = 1 << streamOffset(j), j = 0 .. 63", "the bit scan does not cover exactly the 64 bits of a word (mask "+exprStr(maskDef)+"): ids are never used or exceed the word")
		// the id handed out
		idOK, idWhy := false, ""
		if bitVar != nil {
			// same function
			for _, c := range callsIn(fi2.Decl.Body) {
				if isCallTo(info2, c, "streams.streamFromBucket") && len(c.Args) == 2 {
					a0 := exprStr(stripAllConv(info2, c.Args[0]))
					if a0 == exprStr(idxExpr) && exprStr(c.Args[1]) == bitVar.Name {
						idOK, idWhy = true, exprStr(c)
					} else {
						idWhy = exprStr(c)
					}
				}
			}
			if !idOK && baseSlice != nil {
				// id = streamFromBucket(B + idx, j) with B a parameter: at every call site the slice passed for the
				// words must start at index B of s.streams
				for _, c := range callsIn(fi2.Decl.Body) {
					if !isCallTo(info2, c, "streams.streamFromBucket") || len(c.Args) != 2 || exprStr(c.Args[1]) != bitVar.Name {
						continue
					}
					sum, ok := ast.Unparen(stripAllConv(info2, c.Args[0])).(*ast.BinaryExpr)
					if !ok || sum.Op != token.ADD {
						continue
					}
					var baseParam string
					switch {
					case exprStr(ast.Unparen(sum.Y)) == exprStr(idxExpr):
						baseParam = exprStr(ast.Unparen(sum.X))
					case exprStr(ast.Unparen(sum.X)) == exprStr(idxExpr):
						baseParam = exprStr(ast.Unparen(sum.Y))
					}
					kB := paramIndexByName(fi2.Decl.Type, baseParam)
					kS := paramIndexByName(fi2.Decl.Type, baseSlice.Name)
					if kB < 0 || kS < 0 {
						continue
					}
					idOK, idWhy = true, exprStr(c)+" with "+baseParam+" = start of the sub-slice at every call site"
					for _, caller := range streamsPkgFuncs(p) {
						ci := caller.Pkg.TypesInfo
						for _, cc := range callsIn(caller.Decl.Body) {
							if fn := calleeOf(ci, cc); fn == nil || p.FuncOf(fn) != fi2 || kB >= len(cc.Args) || kS >= len(cc.Args) {
								continue
							}
							low := "0"
							if se, ok := ast.Unparen(cc.Args[kS]).(*ast.SliceExpr); ok {
								if se.Low != nil {
									low = exprStr(se.Low)
								}
							} else {
								low = "?"
							}
							got := exprStr(cc.Args[kB])
							if k, isK := constInt(ci, cc.Args[kB]); isK && k == 0 {
								got = "0"
							}
							if got != low {
								idOK = false
								idWhy = fmt.Sprintf("%s: %s is called with the words starting at index %s of the stream words but with base %s: the id handed out is %s+i, not the word that was claimed", p.Pos(cc), fi2.Name, low, got, got)
							}
						}
					}
				}
			}
			if !idOK && idWhy == "" {
				// helper returns the bit; the caller combines it with the index it passed
				retBit := false
				for _, e := range p.GraphOf(fi2).Exits() {
					if rs, ok := e.Node.(*ast.ReturnStmt); ok && len(rs.Results) == 2 && exprStr(rs.Results[1]) == "true" {
						retBit = exprStr(rs.Results[0]) == bitVar.Name
					}
				}
				if id, ok := idxExpr.(*ast.Ident); ok && retBit {
					k := paramIndexByName(fi2.Decl.Type, id.Name)
					for _, caller := range streamsPkgFuncs(p) {
						ci := caller.Pkg.TypesInfo
						ast.Inspect(caller.Decl.Body, func(x ast.Node) bool {
							as, ok := x.(*ast.AssignStmt)
							if !ok || len(as.Rhs) != 1 || len(as.Lhs) != 2 {
								return true
							}
							hc, ok := ast.Unparen(as.Rhs[0]).(*ast.CallExpr)
							if !ok || k < 0 || k >= len(hc.Args) {
								return true
							}
							if fn := calleeOf(ci, hc); fn == nil || p.FuncOf(fn) != fi2 {
								return true
							}
							passed := exprStr(stripAllConv(ci, hc.Args[k]))
							if wix, isW := wordKey(p, ci, caller, hc.Args[k]); isW {
								passed = exprStr(stripAllConv(ci, wix))
							}
							got := exprStr(as.Lhs[0])
							for _, c := range callsIn(caller.Decl.Body) {
								if isCallTo(ci, c, "streams.streamFromBucket") && len(c.Args) == 2 {
									if exprStr(stripAllConv(ci, c.Args[0])) == passed && exprStr(c.Args[1]) == got {
										idOK, idWhy = true, caller.Name+": "+exprStr(c)+" with "+got+" from "+fi2.Name
									} else {
										idWhy = exprStr(c)
									}
								}
							}
							return true
						})
					}
				}
			}
		}
		if idWhy == "" {
			r.Unresolved("%s: could not relate the id handed out to the claimed word and bit", name)
		} else {
			r.Check(idOK, st.call, name+": the id handed out is built from the claimed word and bit", idWhy, "the returned id ("+idWhy+") is not computed from the word index and bit position that the compare-and-swap claimed: the caller receives an id whose bit it does not own (duplicate or out of range), and the claimed id is leaked")
		}
	}
	if nclaim == 0 {
		r.Unresolved("no claiming compare-and-swap found")
	}
	_ = types.Typ
}

func c08r5(p *Program, r *Report) {
	allowed := map[string]string{"streams.(*IDGenerator).Clear": "(*Conn).releaseStream", "streams.(*IDGenerator).GetStream": "(*Conn).exec"}
	n := 0
	p.forEachFunc(true, func(fi *FuncInfo) {
		info := fi.Pkg.TypesInfo
		ast.Inspect(fi.Decl.Body, func(x ast.Node) bool {
			c, ok := x.(*ast.CallExpr)
			if !ok {
				return true
			}
			name := calleeName(info, c)
			want, tracked := allowed[name]
			if !tracked {
				return true
			}
			n++
			r.Check(p.callerWithin(fi, []string{want}, 0), c, fi.Name+" calls "+name, "the only allowed caller (or a private helper only it calls)", name+" may only be called from "+want)
			return true
		})
	})
	if n < 2 {
		r.Unresolved("allocator call sites not found")
	}
}

// testsBitOf: n contains a test of a bit of the variable obj (obj & mask compared with something).
func testsBitOf(info *types.Info, n ast.Node, obj types.Object) bool {
	found := false
	ast.Inspect(n, func(x ast.Node) bool {
		b, ok := x.(*ast.BinaryExpr)
		if !ok || b.Op != token.AND {
			return true
		}
		for _, side := range []ast.Expr{b.X, b.Y} {
			if id, ok := ast.Unparen(side).(*ast.Ident); ok && info.Uses[id] == obj {
				found = true
			}
		}
		return true
	})
	return found
}

// c08r6: the in-use counter is updated after the bit (Clear decrements after its compare-and-swap, GetStream
// increments after its own), so it may lag the bitmap in either direction. "No stream available" may therefore be
// concluded only from the bitmap: every `return _, false` of GetStream is reached only through the normal end of the
// loop that visits the words (the loop whose body, directly or through a helper, holds the claiming CAS).
func c08r6(p *Program, r *Report) {
	fi := r.NeedFunc("streams.(*IDGenerator).GetStream")
	if fi == nil {
		return
	}
	sites, _ := casSites(p)
	g := p.GraphOf(fi)
	info := g.Info
	// functions that (transitively, two levels) contain a claiming CAS
	claims := map[*FuncInfo]bool{}
	for _, st := range sites {
		if st.claim {
			claims[st.fi] = true
		}
	}
	holdsClaim := func(n ast.Node) bool {
		found := false
		ast.Inspect(n, func(x ast.Node) bool {
			c, ok := x.(*ast.CallExpr)
			if !ok {
				return true
			}
			for _, st := range sites {
				if st.claim && st.call == c {
					found = true
				}
			}
			if fn := calleeOf(info, c); fn != nil && claims[p.FuncOf(fn)] {
				found = true
			}
			return true
		})
		return found
	}
	// the outermost loop that holds the claim
	var scan ast.Stmt
	ast.Inspect(fi.Decl.Body, func(x ast.Node) bool {
		switch l := x.(type) {
		case *ast.ForStmt:
			if scan == nil && holdsClaim(l.Body) {
				scan = l
				return false
			}
		case *ast.RangeStmt:
			if scan == nil && holdsClaim(l.Body) {
				scan = l
				return false
			}
		}
		return true
	})
	if scan == nil {
		r.Unresolved("GetStream: the loop over the words that claims a bit was not found")
		return
	}
	// the scan makes exactly one step per word whatever the rotating start is: `for i := 0; i < N; i++`, a range over
	// the words, or `for i := S; i < S+N; i++` with S already reduced below N (an unreduced, free-running S makes the
	// unsigned bound S+N wrap, and then no word is visited at all)
	if f, isFor := scan.(*ast.ForStmt); isFor {
		isWordCount := func(e ast.Expr) bool {
			e = stripAllConv(info, ast.Unparen(e))
			if id, isId := ast.Unparen(e).(*ast.Ident); isId && info.Uses[id] != nil && singleAssigned(info, fi.Decl.Body, info.Uses[id]) {
				if d := localDef(info, fi, id); d != nil {
					e = stripAllConv(info, ast.Unparen(d))
				}
			}
			t := strings.ReplaceAll(exprStr(e), " ", "")
			return strings.HasSuffix(t, ".numBuckets") || strings.HasPrefix(t, "len(") && strings.HasSuffix(t, ".streams)")
		}
		okTrip, why := false, "loop header not understood"
		init, isInit := f.Init.(*ast.AssignStmt)
		cond, isCond := ast.Unparen(f.Cond).(*ast.BinaryExpr)
		if isInit && isCond && len(init.Lhs) == 1 && len(init.Rhs) == 1 && cond.Op == token.LSS && exprStr(cond.X) == exprStr(init.Lhs[0]) {
			start := ast.Unparen(init.Rhs[0])
			if k, isK := constInt(info, stripAllConv(info, start)); isK && k == 0 && isWordCount(cond.Y) {
				okTrip, why = true, "0 .. number of words"
			} else if sum, isSum := ast.Unparen(cond.Y).(*ast.BinaryExpr); isSum && sum.Op == token.ADD {
				var other ast.Expr
				if isWordCount(sum.X) {
					other = sum.Y
				} else if isWordCount(sum.Y) {
					other = sum.X
				}
				if other != nil && exprStr(ast.Unparen(other)) == exprStr(start) {
					// start < N known where the loop is entered?
					fct, okF := g.GuardFacts().Before(g.FirstNodeIn(f.Init))
					reduced := false
					if okF {
						d := newDBM(g, fct, nil)
						wc := sum.X
						if !isWordCount(wc) {
							wc = sum.Y
						}
						reduced = d.leExpr(start, 1, wc, 0)
					}
					if reduced {
						okTrip, why = true, "start .. start + number of words, start below the number of words"
					} else {
						why = "the loop runs from " + exprStr(start) + " while below " + exprStr(cond.Y) + ", and " + exprStr(start) + " is not known to be below the number of words: for a start near the top of its unsigned range the bound wraps around and no word is visited"
					}
				}
			}
		}
		if !okTrip && why == "loop header not understood" {
			r.Unresolved("GetStream: the scan loop header (%s; %s) is neither 0..N nor S..S+N", exprStr(f.Cond), p.Pos(f))
		} else {
			r.Check(okTrip, f, "(*IDGenerator).GetStream scan makes one step per word for every start", why, "GetStream's scan does not visit every word for every value of the rotating start: "+why+" - 'no stream available' is answered although ids are free")
		}
	}
	ef := g.Events(func(st Step) []string {
		switch st.Kind {
		case StCond:
			if f, ok := scan.(*ast.ForStmt); ok && !st.Val && f.Cond != nil && st.Node == ast.Node(f.Cond) {
				return []string{"scanDone"}
			}
		case StRange:
			if !st.Val && st.Node == ast.Node(scan) {
				return []string{"scanDone"}
			}
		}
		return nil
	})
	n := 0
	for _, e := range g.Exits() {
		rs, ok := e.Node.(*ast.ReturnStmt)
		if !ok || len(rs.Results) != 2 {
			continue
		}
		if v, isK := info.Types[rs.Results[1]]; !isK || v.Value == nil || v.Value.String() != "false" {
			continue
		}
		n++
		s, _ := ef.ExitState(e)
		r.Check(s.Must["scanDone"], rs, "(*IDGenerator).GetStream reports 'no stream available' only after scanning every word", "reached through the normal end of the scan loop",
			"GetStream can answer 'no stream available' without having looked at every word of the bitmap (for instance from the in-use counter, which lags the bitmap while a Clear is between its compare-and-swap and its decrement): a request fails although an id is free")
	}
	if n == 0 {
		r.Unresolved("GetStream never reports exhaustion")
	}
}
