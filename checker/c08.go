package main

import (
	"go/ast"
	"go/token"
	"go/types"
	"strings"
)

func init() {
	register(&PropertySpec{
		ID: "C08",
		Explanation: "Structural necessary conditions of 'stream ids are unique while in use, never 0 or out of range, and all get used': R1 the allocator's shared words, counter and offset are accessed only through sync/atomic outside the constructor; R2 an id is claimed only by a successful compare-and-swap whose new value is derived from the current old value, on a bit tested clear in that old value, inside a retry loop that re-tests the same bit after reloading, and the returned id is built from the same word and bit; " +
			"R3 the in-use count changes by +1 only after a successful claiming CAS and by -1 only after a successful clearing CAS, and Clear returns false without decrementing when the bit is already clear; R4 range by construction: capacities 128/32768 by protocol version, word count = capacity/64, exactly the bit of id 0 pre-set, word indexes reduced modulo the word count, id = word*64 + bit with bit < 64; R5 only exec allocates and only releaseStream clears (=C01.R4).",
		NotDecided: "uniqueness and progress over all interleavings of the atomic steps (linearizability of the lock-free algorithm); exact availability counts under races.",
		Rules: []*Rule{
			{ID: "C08.R1", Floor: 10, Doc: "streams/inuseStreams/offset only through sync/atomic outside New", Run: c08r1},
			{ID: "C08.R2", Floor: 6, Doc: "claim/clear by CAS: fresh new value, bit tested in the old value, retry loop re-tests the same bit, id from the same word and bit", Run: c08r2},
			{ID: "C08.R3", Floor: 4, Doc: "count paired with successful CAS; Clear returns false without decrement when already clear", Run: c08r3},
			{ID: "C08.R4", Floor: 6, Doc: "capacity, reserved id 0 and index ranges by construction", Run: c08r4},
			{ID: "C08.R5", Floor: 2, Doc: "who-may-call: GetStream only from exec, Clear only from releaseStream", Run: c08r5},
		},
	})
}

func streamsPkgFuncs(p *Program) []*FuncInfo {
	var out []*FuncInfo
	for _, fi := range p.SortedFuncs() {
		if fi.Pkg.PkgPath == streamsPath && fi.Decl.Body != nil {
			out = append(out, fi)
		}
	}
	return out
}

func c08r1(p *Program, r *Report) {
	n := 0
	for _, fi := range streamsPkgFuncs(p) {
		info := fi.Pkg.TypesInfo
		ast.Inspect(fi.Decl.Body, func(x ast.Node) bool {
			sel, ok := x.(*ast.SelectorExpr)
			if !ok {
				return true
			}
			fv := fieldOf(info, sel)
			if fv == nil || typeNameOf(info.TypeOf(sel.X)) != "IDGenerator" {
				return true
			}
			switch fv.Name() {
			case "streams", "inuseStreams", "offset":
			default:
				return true
			}
			if _, inLit := p.Parent(sel).(*ast.KeyValueExpr); inLit {
				return true
			}
			n++
			// must be (part of) &x passed to an atomic function, or len(s.streams)
			var cur ast.Node = sel
			okAtomic := false
			for i := 0; i < 4; i++ {
				par := p.Parent(cur)
				switch y := par.(type) {
				case *ast.IndexExpr:
					if y.X == cur {
						cur = par
						continue
					}
				case *ast.UnaryExpr:
					if y.Op == token.AND {
						cur = par
						continue
					}
				case *ast.CallExpr:
					name := calleeName(info, y)
					if strings.HasPrefix(name, "atomic.") {
						if _, isAddr := cur.(*ast.UnaryExpr); isAddr {
							okAtomic = true
						}
					}
					if name == "builtin.len" {
						okAtomic = true // the slice header is immutable after New
					}
				}
				break
			}
			r.Check(okAtomic, sel, fi.Name+" accesses IDGenerator."+fv.Name(), "through sync/atomic", "the allocator's shared state is read or written without sync/atomic: a torn or stale word hands one id to two requests")
			return true
		})
	}
	if n == 0 {
		r.Unresolved("no access to the allocator's shared fields found")
	}
}

// casCalls returns the CompareAndSwapUint64 calls on s.streams[...] in fi.
func casCalls(p *Program, fi *FuncInfo) []*ast.CallExpr {
	info := fi.Pkg.TypesInfo
	var out []*ast.CallExpr
	ast.Inspect(fi.Decl.Body, func(x ast.Node) bool {
		c, ok := x.(*ast.CallExpr)
		if ok && calleeName(info, c) == "atomic.CompareAndSwapUint64" && len(c.Args) == 3 && strings.Contains(exprStr(c.Args[0]), ".streams[") {
			out = append(out, c)
		}
		return true
	})
	return out
}

func c08r2(p *Program, r *Report) {
	for _, name := range []string{"streams.(*IDGenerator).GetStream", "streams.(*IDGenerator).Clear"} {
		fi := r.NeedFunc(name)
		if fi == nil {
			continue
		}
		g := p.GraphOf(fi)
		info := g.Info
		cas := casCalls(p, fi)
		if len(cas) == 0 {
			r.Bad(fi.Decl, name+" claims/clears by compare-and-swap", "no CompareAndSwapUint64 on the stream words: the bit is changed non-atomically")
			continue
		}
		facts := g.GuardFacts()
		for _, c := range cas {
			oldArg, newArg := c.Args[1], c.Args[2]
			oldID, isID := ast.Unparen(oldArg).(*ast.Ident)
			if !isID {
				r.Bad(c, name+" CAS old value is a variable", "the expected value of the CAS is not a variable holding the loaded word")
				continue
			}
			oldObj := info.Uses[oldID]
			// derived-from-current-old dataflow
			derived := Solve(g, Lattice[strset]{
				Init: strset{}, Join: func(a, b strset) strset { return a.intersect(b) }, Eq: func(a, b strset) bool { return a.eq(b) },
				Step: func(s strset, st Step) strset {
					if st.Kind != StNode {
						return s
					}
					as, ok := st.Node.(*ast.AssignStmt)
					if !ok || len(as.Lhs) != len(as.Rhs) {
						return s
					}
					for i, l := range as.Lhs {
						id, ok := l.(*ast.Ident)
						if !ok {
							continue
						}
						obj := info.Defs[id]
						if obj == nil {
							obj = info.Uses[id]
						}
						if obj == oldObj {
							return strset{} // old reloaded: everything derived from the previous value is stale
						}
						mentionsOld := false
						ast.Inspect(as.Rhs[i], func(m ast.Node) bool {
							if rid, ok := m.(*ast.Ident); ok && info.Uses[rid] == oldObj {
								mentionsOld = true
							}
							return true
						})
						if mentionsOld {
							s = s.with(id.Name)
						} else {
							s = s.without(id.Name)
						}
					}
					return s
				},
			})
			fresh := false
			d, _ := derived.Before(c)
			ast.Inspect(newArg, func(m ast.Node) bool {
				if id, ok := m.(*ast.Ident); ok && (info.Uses[id] == oldObj || d[id.Name]) {
					fresh = true
				}
				return true
			})
			r.Check(fresh, c, name+" CAS new value derives from the current old value", "new = f(old) with old as loaded for this attempt",
				"the new value of the compare-and-swap is not derived from the word as (re)loaded for this attempt: after a failed CAS the retry writes a stale image of the word and overwrites bits changed concurrently (an id handed out twice, or leaked)")
			// the CAS sits in a retry loop whose condition tests the bit in old
			fs, _ := p.enclosing(c, fi.Decl, func(m ast.Node) bool { _, ok := m.(*ast.ForStmt); return ok }).(*ast.ForStmt)
			inCond := fs != nil && fs.Cond != nil && posWithin(fs.Cond, c.Pos())
			retry := false
			if fs != nil && fs.Cond != nil {
				if inCond {
					// for !CAS(...) { reload; re-test }
					reload, retest := false, false
					ast.Inspect(fs.Body, func(m ast.Node) bool {
						if as, ok := m.(*ast.AssignStmt); ok && len(as.Lhs) == 1 && isIdentOf(info, as.Lhs[0], oldObj) {
							reload = true
						}
						if b, ok := m.(*ast.BinaryExpr); ok && (b.Op == token.NEQ || b.Op == token.EQL) && testsBitOf(info, b, oldObj) {
							retest = true
						}
						return true
					})
					retry = reload && retest
				} else {
					// for old&mask == 0 { if CAS {return}; reload }
					testsBit := testsBitOf(info, fs.Cond, oldObj)
					reload := false
					ast.Inspect(fs.Body, func(m ast.Node) bool {
						if as, ok := m.(*ast.AssignStmt); ok && len(as.Lhs) == 1 && isIdentOf(info, as.Lhs[0], oldObj) && as.Pos() > c.Pos() {
							reload = true
						}
						return true
					})
					retry = testsBit && reload
				}
			}
			r.Check(retry, c, name+" CAS retry loop reloads and re-tests the same bit", "failed CAS -> reload the word -> test the bit again",
				"a failed compare-and-swap is not followed by reloading the word and re-testing the same bit: a CAS fails whenever any bit of the word changed, so the still-free bit is skipped (exhaustion reported although an id is free) or a stale decision is applied")
			// bit tested in old before the CAS (claim: clear; release: set)
			f, _ := facts.Before(c)
			tested := inCond
			for atom := range f.m {
				if strings.Contains(atom, oldID.Name+" & ") || strings.Contains(atom, oldID.Name+"&") {
					tested = true
				}
			}
			if fs != nil && fs.Cond != nil && !inCond && testsBitOf(info, fs.Cond, oldObj) {
				tested = true
			}
			if inCond {
				// pre-check before the loop
				pre := false
				ast.Inspect(fi.Decl.Body, func(m ast.Node) bool {
					if ifs, ok := m.(*ast.IfStmt); ok && ifs.Pos() < fs.Pos() && testsBitOf(info, ifs.Cond, oldObj) {
						pre = true
					}
					return true
				})
				tested = pre
			}
			r.Check(tested, c, name+" CAS attempted only after testing the bit in the old value", "bit state known from the loaded word", "the CAS is attempted without testing the id's bit in the loaded word")
		}
		if name == "streams.(*IDGenerator).GetStream" {
			// success return: streamFromBucket(pos, j) with the word index of the CAS and the bit of the mask
			for _, e := range g.Exits() {
				rs, ok := e.Node.(*ast.ReturnStmt)
				if !ok || len(rs.Results) != 2 {
					continue
				}
				if v, ok := info.Types[rs.Results[1]]; !ok || v.Value == nil || v.Value.String() != "true" {
					continue
				}
				f, _ := facts.Before(rs)
				casTrue := false
				for atom, v := range f.m {
					if v && strings.HasPrefix(atom, "atomic.CompareAndSwapUint64(") {
						casTrue = true
					}
				}
				r.Check(casTrue, rs, name+" success return dominated by a successful CAS", "claimed by CAS", "an id is returned without a successful compare-and-swap having claimed its bit")
				// same word and bit
				okSame := false
				if c, ok := ast.Unparen(rs.Results[0]).(*ast.CallExpr); ok && isCallTo(info, c, "streams.streamFromBucket") && len(c.Args) == 2 && len(cas) > 0 {
					word := ""
					if ix := findIndexIn(cas[0].Args[0]); ix != nil {
						word = exprStr(ix.Index)
					}
					bitVar := ""
					// mask := uint64(1 << streamOffset(j))
					ast.Inspect(fi.Decl.Body, func(m ast.Node) bool {
						if as, ok := m.(*ast.AssignStmt); ok && len(as.Lhs) == 1 && exprStr(as.Lhs[0]) == "mask" {
							ast.Inspect(as.Rhs[0], func(k ast.Node) bool {
								if sc, ok := k.(*ast.CallExpr); ok && isCallTo(info, sc, "streams.streamOffset") && len(sc.Args) == 1 {
									bitVar = exprStr(sc.Args[0])
								}
								return true
							})
						}
						return true
					})
					a0 := exprStr(stripWidening(info, c.Args[0]))
					okSame = word != "" && bitVar != "" && (a0 == word || exprStr(c.Args[0]) == "int("+word+")") && exprStr(c.Args[1]) == bitVar
				}
				r.Check(okSame, rs, name+" returned id is built from the claimed word and bit", "streamFromBucket(pos, j) with the CAS's word and the mask's bit", "the returned id is not computed from the word index and bit that were claimed: a different (possibly in-use) id is handed out")
			}
		}
	}
}

// testsBitOf reports whether n contains `old & <mask>` for the variable obj.
func testsBitOf(info *types.Info, n ast.Node, obj types.Object) bool {
	found := false
	ast.Inspect(n, func(m ast.Node) bool {
		if b, ok := m.(*ast.BinaryExpr); ok && b.Op == token.AND {
			if isIdentOf(info, b.X, obj) || isIdentOf(info, b.Y, obj) {
				found = true
			}
		}
		return true
	})
	return found
}

func findIndexIn(e ast.Expr) *ast.IndexExpr {
	var out *ast.IndexExpr
	ast.Inspect(e, func(n ast.Node) bool {
		if ix, ok := n.(*ast.IndexExpr); ok && out == nil {
			out = ix
		}
		return true
	})
	return out
}

func c08r3(p *Program, r *Report) {
	for _, name := range []string{"streams.(*IDGenerator).GetStream", "streams.(*IDGenerator).Clear"} {
		fi := r.NeedFunc(name)
		if fi == nil {
			continue
		}
		g := p.GraphOf(fi)
		info := g.Info
		facts := g.GuardFacts()
		want := int64(1)
		if strings.HasSuffix(name, "Clear") {
			want = -1
		}
		n := 0
		ast.Inspect(fi.Decl.Body, func(x ast.Node) bool {
			c, ok := x.(*ast.CallExpr)
			if !ok || calleeName(info, c) != "atomic.AddInt32" || len(c.Args) != 2 || !strings.Contains(exprStr(c.Args[0]), "inuseStreams") {
				return true
			}
			n++
			v, isC := constInt(info, c.Args[1])
			r.Check(isC && v == want, c, name+" changes the in-use count by "+itoa(int(want)), "delta "+itoa(int(want)), "the in-use count is changed by "+exprStr(c.Args[1])+" in "+name)
			f, _ := facts.Before(c)
			casTrue := false
			for atom, val := range f.m {
				if val && strings.HasPrefix(atom, "atomic.CompareAndSwapUint64(") {
					casTrue = true
				}
			}
			r.Check(casTrue, c, name+" count update dominated by a successful CAS", "CAS known true", "the in-use count is updated on a path where the compare-and-swap did not succeed: the count drifts from the number of set bits (available() wrong, 'negative streams inuse' panic)")
			return true
		})
		if n != 1 {
			r.Check(false, fi.Decl, name+" updates the in-use count exactly once", "", "expected exactly one in-use count update, found "+itoa(n))
		}
	}
	// Clear: every `return false` happens without a decrement and under the already-clear test
	if fi := r.NeedFunc("streams.(*IDGenerator).Clear"); fi != nil {
		g := p.GraphOf(fi)
		info := g.Info
		facts := g.GuardFacts()
		ef := g.Events(func(st Step) []string {
			if st.Kind == StNode {
				for _, c := range callsIn(st.Node) {
					if calleeName(info, c) == "atomic.AddInt32" {
						return []string{"dec"}
					}
				}
			}
			return nil
		})
		nf := 0
		for _, e := range g.Exits() {
			rs, ok := e.Node.(*ast.ReturnStmt)
			if !ok || len(rs.Results) != 1 {
				continue
			}
			v, ok := info.Types[rs.Results[0]]
			if !ok || v.Value == nil {
				continue
			}
			s, _ := ef.ExitState(e)
			if v.Value.String() == "false" {
				nf++
				f, _ := facts.Before(rs)
				clear := false
				for atom := range f.m {
					if strings.Contains(atom, "& mask") || strings.Contains(atom, "&mask") {
						clear = true
					}
				}
				r.Check(s.Max["dec"] == 0 && clear, rs, "(*IDGenerator).Clear returns false only for an already clear id, without decrementing", "no decrement on this path; bit tested", "Clear reports 'not in use' after decrementing, or without having tested the bit: double release corrupts the count")
			} else {
				r.Check(s.Must["dec"], rs, "(*IDGenerator).Clear decrements before reporting a release", "count decremented", "Clear returns true without decrementing the in-use count")
			}
		}
		if nf < 2 {
			r.Unresolved("Clear: expected the already-clear early return in the pre-check and in the retry loop, found %d", nf)
		}
	}
}

func c08r4(p *Program, r *Report) {
	fi := r.NeedFunc("streams.New")
	if fi == nil {
		return
	}
	info := fi.Pkg.TypesInfo
	// capacities
	var caps []int64
	capCond := ""
	ast.Inspect(fi.Decl.Body, func(x ast.Node) bool {
		switch s := x.(type) {
		case *ast.AssignStmt:
			if len(s.Lhs) == 1 && exprStr(s.Lhs[0]) == "maxStreams" {
				if v, ok := constInt(info, s.Rhs[0]); ok {
					caps = append(caps, v)
				}
			}
		case *ast.IfStmt:
			if strings.Contains(exprStr(s.Cond), "protocol") {
				capCond = exprStr(s.Cond)
			}
		}
		return true
	})
	okCaps := len(caps) == 2 && (caps[0] == 128 && caps[1] == 32768)
	r.Check(okCaps && (capCond == "protocol > 2" || capCond == "protocol >= 3"), fi.Decl, "streams.New capacities 128 (v1-2) / 32768 (v3+)", "128 then 32768 under "+capCond, "stream capacities are not 128 for protocol <= 2 and 32768 for protocol >= 3: ids exceed the 7/15-bit stream field")
	// buckets = maxStreams / 64 ; streams[0] = 1 << 63 ; no other pre-set bit
	okBuckets, okReserve, other := false, false, false
	ast.Inspect(fi.Decl.Body, func(x ast.Node) bool {
		as, ok := x.(*ast.AssignStmt)
		if !ok || len(as.Lhs) != 1 || len(as.Rhs) != 1 {
			return true
		}
		if exprStr(as.Lhs[0]) == "buckets" {
			if b, ok := ast.Unparen(as.Rhs[0]).(*ast.BinaryExpr); ok && b.Op == token.QUO && exprStr(b.X) == "maxStreams" {
				if v, ok := constInt(info, b.Y); ok && v == 64 {
					okBuckets = true
				}
			}
		}
		if ix, ok := ast.Unparen(as.Lhs[0]).(*ast.IndexExpr); ok && exprStr(ix.X) == "streams" {
			k, okK := constInt(info, ix.Index)
			v, okV := constUint(info, as.Rhs[0])
			if okK && okV && k == 0 && v == 1<<63 {
				okReserve = true
			} else {
				other = true
			}
		}
		return true
	})
	r.Check(okBuckets, fi.Decl, "streams.New word count = capacity / 64", "buckets = maxStreams / 64", "the number of 64-bit words is not capacity/64")
	r.Check(okReserve && !other, fi.Decl, "streams.New reserves exactly id 0", "streams[0] = 1<<63 (the bit of id 0) and nothing else", "the constructor does not pre-set exactly the bit of stream id 0: id 0 can be handed out, or another id is lost forever")
	// streamOffset / streamFromBucket / bucketOffset shapes
	if so := r.NeedFunc("streams.streamOffset"); so != nil {
		s := exprStr(so.Decl.Body.List[0].(*ast.ReturnStmt).Results[0])
		r.Check(s == "bucketBits - uint64(stream % bucketBits) - 1", so.Decl, "streams.streamOffset maps id to bit 63-(id%64)", s, "streamOffset no longer maps id i to bit 63-(i mod 64): the reserved bit and the ids disagree")
	}
	if sf := r.NeedFunc("streams.streamFromBucket"); sf != nil {
		s := exprStr(sf.Decl.Body.List[0].(*ast.ReturnStmt).Results[0])
		r.Check(s == "(bucket * bucketBits) + streamInBucket", sf.Decl, "streams.streamFromBucket = word*64 + bit index", s, "ids are no longer word*64+bit")
	}
	// GetStream: word index reduced modulo numBuckets; bit loop j < bucketBits
	if gs := r.NeedFunc("streams.(*IDGenerator).GetStream"); gs != nil {
		ginfo := gs.Pkg.TypesInfo
		okMod, okBits := false, false
		ast.Inspect(gs.Decl.Body, func(x ast.Node) bool {
			switch s := x.(type) {
			case *ast.AssignStmt:
				if len(s.Lhs) == 1 && exprStr(s.Lhs[0]) == "pos" && strings.Contains(exprStr(s.Rhs[0]), "% s.numBuckets") {
					okMod = true
				}
			case *ast.ForStmt:
				if s.Cond != nil && exprStr(s.Cond) == "j < bucketBits" {
					okBits = true
				}
			}
			return true
		})
		_ = ginfo
		r.Check(okMod, gs.Decl, "(*IDGenerator).GetStream word index reduced modulo the word count", "pos = (...) % s.numBuckets", "the word index is not reduced modulo the number of words: index out of range or ids beyond the protocol's range")
		r.Check(okBits, gs.Decl, "(*IDGenerator).GetStream scans the 64 bits of a word", "j < bucketBits", "the bit scan does not cover exactly the 64 bits of a word: ids are never used or exceed the word")
	}
	_ = types.Typ
}

func c08r5(p *Program, r *Report) {
	allowed := map[string]string{"streams.(*IDGenerator).Clear": "(*Conn).releaseStream", "streams.(*IDGenerator).GetStream": "(*Conn).exec"}
	n := 0
	p.forEachFunc(true, func(fi *FuncInfo) {
		info := fi.Pkg.TypesInfo
		ast.Inspect(fi.Decl.Body, func(x ast.Node) bool {
			c, ok := x.(*ast.CallExpr)
			if !ok {
				return true
			}
			name := calleeName(info, c)
			want, tracked := allowed[name]
			if !tracked {
				return true
			}
			n++
			r.Check(fi.Name == want, c, fi.Name+" calls "+name, "the only allowed caller", name+" may only be called from "+want)
			return true
		})
	})
	if n < 2 {
		r.Unresolved("allocator call sites not found")
	}
}
