package main

// Rules added after the seventh round of seeded changes (changes that need a particular interleaving, fault or
// sequence of operations to manifest).

import (
	"fmt"
	"go/ast"
	"go/token"
	"go/types"
	"sort"
	"strings"
)

// blockingUnderLock: a goroutine does not wait on a channel (a bare receive, or a range over a channel) while it
// certainly holds a mutex: whoever is to make the channel ready may need that mutex first (the failure path of a
// PREPARE removes its cache entry under the cache mutex before it closes `done`), and every other user of the mutex
// waits with it. A receive in a select that has a default clause does not wait and is accepted. Function literals are
// judged as functions of their own. Returns the number of receive sites inspected.
func blockingUnderLock(p *Program, r *Report, scope func(*FuncInfo) bool) int {
	n := 0
	check := func(g *Graph, name string, body *ast.BlockStmt, info *types.Info) {
		var locks *Solution[strset]
		isChan := func(e ast.Expr) bool {
			t := info.TypeOf(e)
			if t == nil {
				return false
			}
			_, ok := t.Underlying().(*types.Chan)
			return ok
		}
		// receives that are the comm of a select clause: waiting only when the select has no default
		inSelect := map[ast.Node]bool{}
		inspectNoLit(body, func(x ast.Node) bool {
			if sel, ok := x.(*ast.SelectStmt); ok {
				for _, cl := range sel.Body.List {
					if cc, ok := cl.(*ast.CommClause); ok && cc.Comm != nil {
						ast.Inspect(cc.Comm, func(y ast.Node) bool {
							if u, ok := y.(*ast.UnaryExpr); ok && u.Op == token.ARROW {
								inSelect[u] = true
							}
							return true
						})
					}
				}
			}
			return true
		})
		// a channel the function made itself and only hands to goroutines it starts, none of which takes a mutex: the
		// wait ends without anybody needing the lock (policyConnPool.SetHosts collects the pools it builds in parallel)
		privateTo := func(at ast.Node) bool {
			var ce ast.Expr
			switch v := at.(type) {
			case *ast.UnaryExpr:
				ce = v.X
			case ast.Expr:
				ce = v
			}
			id, ok := ast.Unparen(ce).(*ast.Ident)
			if !ok {
				return false
			}
			obj := info.Uses[id]
			if obj == nil {
				return false
			}
			made, clean := false, true
			ast.Inspect(body, func(x ast.Node) bool {
				switch v := x.(type) {
				case *ast.AssignStmt:
					for i, l := range v.Lhs {
						if lid, ok := l.(*ast.Ident); ok && (info.Defs[lid] == obj || info.Uses[lid] == obj) && i < len(v.Rhs) {
							if c, ok := ast.Unparen(v.Rhs[i]).(*ast.CallExpr); ok && exprStr(c.Fun) == "make" {
								made = true
							} else {
								clean = false
							}
						}
					}
				case *ast.CallExpr:
					// the channel handed to a function of the module (go p.buildPool(host, built)): that function
					// takes no mutex itself
					for _, a := range v.Args {
						if aid, ok := ast.Unparen(a).(*ast.Ident); ok && info.Uses[aid] == obj {
							if h := p.FuncOf(calleeOf(info, v)); h != nil && h.Decl.Body != nil {
								for _, c := range callsIn(h.Decl.Body) {
									if _, isMu := isMutexMethod(calleeName(h.Pkg.TypesInfo, c)); isMu {
										clean = false
									}
								}
							}
						}
					}
				case *ast.FuncLit:
					uses := false
					ast.Inspect(v.Body, func(y ast.Node) bool {
						if yid, ok := y.(*ast.Ident); ok && info.Uses[yid] == obj {
							uses = true
						}
						return true
					})
					if uses {
						for _, c := range callsIn(v.Body) {
							if _, isMu := isMutexMethod(calleeName(info, c)); isMu {
								clean = false
							}
						}
					}
				}
				return true
			})
			return made && clean
		}
		site := func(at ast.Node, what string) {
			n++
			if locks == nil {
				locks = g.Lockset()
			}
			node, found := g.cfgNodeOf(at)
			if !found {
				return
			}
			held, has := locks.Before(node)
			if has && len(held) > 0 && privateTo != nil && privateTo(at) {
				r.OK(at, name+" waits on "+what+" without holding a mutex", "the channel is a rendezvous the function made itself; the goroutines it starts to feed it take no mutex the function holds")
				return
			}
			if !has || len(held) == 0 {
				r.OK(at, name+" waits on "+what+" without holding a mutex", "lockset empty")
				return
			}
			r.Bad(at, name+" waits on "+what+" without holding a mutex", "the goroutine blocks on "+what+" while it holds "+strings.Join(held.sorted(), ", ")+
				": if the party that makes the channel ready needs that mutex first (or never does), every user of the mutex is stuck with it")
		}
		inspectNoLit(body, func(x ast.Node) bool {
			switch v := x.(type) {
			case *ast.UnaryExpr:
				if v.Op == token.ARROW && !inSelect[v] && isChan(v.X) {
					site(v, "<-"+exprStr(v.X))
				}
			case *ast.RangeStmt:
				if isChan(v.X) {
					site(v.X, "range "+exprStr(v.X))
				}
			}
			return true
		})
	}
	for _, fi := range p.SortedFuncs() {
		if fi.Decl.Body == nil || !scope(fi) {
			continue
		}
		check(p.GraphOf(fi), fi.Name, fi.Decl.Body, fi.Pkg.TypesInfo)
		k := 0
		ast.Inspect(fi.Decl.Body, func(x ast.Node) bool {
			if lit, ok := x.(*ast.FuncLit); ok {
				k++
				check(p.GraphOfLit(fi, lit), fmt.Sprintf("%s$%d", fi.Name, k), lit.Body, fi.Pkg.TypesInfo)
			}
			return true
		})
	}
	return n
}

func c17BlockingUnderLock(p *Program, r *Report) {
	if blockingUnderLock(p, r, func(*FuncInfo) bool { return true }) == 0 {
		r.Unresolved("no channel receive found in the module")
	}
}

var _ = sort.Strings

// c16HostState: a host's up/down state changes only through the setter, with the state the caller names (the status
// event handlers); it is never taken over from another HostInfo. A HostInfo freshly parsed from a system.peers row
// carries the zero state (up), so copying it in the ring refresh would mark a down node up again without a connection.
func c16HostState(p *Program, r *Report) {
	sf := p.Field("HostInfo", "state")
	if sf == nil {
		r.Unresolved("HostInfo.state not found")
		return
	}
	n := 0
	var setters []*FuncInfo
	for _, fi := range p.SortedFuncs() {
		if fi.Decl.Body == nil || fi.Pkg != p.Root {
			continue
		}
		info := fi.Pkg.TypesInfo
		ast.Inspect(fi.Decl.Body, func(x ast.Node) bool {
			as, ok := x.(*ast.AssignStmt)
			if !ok {
				return true
			}
			for i, l := range as.Lhs {
				if fieldOf(info, l) != sf {
					continue
				}
				n++
				var rhs ast.Expr
				if len(as.Rhs) == len(as.Lhs) {
					rhs = as.Rhs[i]
				}
				// the stored value is a parameter of the function (a setter) or a constant
				okSrc := false
				if rhs != nil {
					if id, isId := ast.Unparen(rhs).(*ast.Ident); isId {
						if obj := info.Uses[id]; obj != nil {
							if _, isConst := obj.(*types.Const); isConst {
								okSrc = true
							}
							for k := 0; ; k++ {
								po := paramObj(info, fi.Decl.Type, k)
								if po == nil {
									break
								}
								if po == obj {
									okSrc = true
									setters = append(setters, fi)
								}
							}
						}
					}
				}
				r.Check(okSrc, as, fi.Name+" stores into HostInfo.state the state its caller names", "parameter or constant",
					"the host's state is overwritten with "+exprStr(rhs)+": a state copied from another HostInfo (a freshly read row is 'up' by default) marks a down node up without a connection, so the policies offer it and the reconnector skips it")
			}
			return true
		})
	}
	// callers of the setter name the state: no caller hands over another host's state
	isSetter := map[*types.Func]bool{}
	for _, st := range setters {
		isSetter[st.Obj] = true
	}
	for _, fi := range p.SortedFuncs() {
		if fi.Decl.Body == nil || len(isSetter) == 0 {
			continue
		}
		info := fi.Pkg.TypesInfo
		for _, c := range callsIn(fi.Decl.Body) {
			if fn := calleeOf(info, c); fn == nil || !isSetter[fn] {
				continue
			}
			for _, a := range c.Args {
				bad := false
				ast.Inspect(a, func(x ast.Node) bool {
					if e, ok := x.(ast.Expr); ok && fieldOf(info, e) == sf {
						bad = true
					}
					if cc, ok := x.(*ast.CallExpr); ok && strings.HasSuffix(calleeName(info, cc), "HostInfo).State") {
						bad = true
					}
					return true
				})
				n++
				r.Check(!bad, c, fi.Name+" names the state it sets", exprStr(a), "the state handed to the setter is read from a HostInfo ("+exprStr(a)+")")
			}
		}
	}
	if n == 0 {
		r.Unresolved("no store into HostInfo.state found")
	}
}

// c04CellsPerRow: a row of a RESULT body has one [bytes] cell per column of the metadata. Every loop that takes the
// cells of a row with readColumn runs once per column: it ranges over the metadata's column list, or counts to the
// length of a buffer that was made with one element per column. (The number of scan destinations, actualColCount,
// differs as soon as a tuple column is present.)
func c04CellsPerRow(p *Program, r *Report) {
	colsF := p.Field("resultMetadata", "columns")
	rc := p.Func("(*Iter).readColumn")
	if colsF == nil || rc == nil {
		r.Unresolved("resultMetadata.columns / (*Iter).readColumn not found")
		return
	}
	n := 0
	// isColumns: e is <meta>.columns, or a local bound once to it
	isColumns := func(info *types.Info, fn *FuncInfo, e ast.Expr) bool {
		if fieldOf(info, e) == colsF {
			return true
		}
		if id, ok := ast.Unparen(e).(*ast.Ident); ok && fn != nil {
			if d := localDef(info, fn, id); d != nil && fieldOf(info, d) == colsF {
				return true
			}
		}
		return false
	}
	// perColumn: e is len(<meta>.columns), or a local bound once to it
	perColumn := func(info *types.Info, fn *FuncInfo, e ast.Expr) bool {
		if id, ok := ast.Unparen(e).(*ast.Ident); ok && fn != nil {
			if d := localDef(info, fn, id); d != nil {
				e = d
			}
		}
		if c, ok := ast.Unparen(e).(*ast.CallExpr); ok && exprStr(c.Fun) == "len" && len(c.Args) == 1 {
			return isColumns(info, fn, c.Args[0])
		}
		return false
	}
	// bufPerColumn: the buffer e (in function fn) has one element per column: a field every make of which has
	// len(columns) elements, or a parameter every caller fills with such a buffer
	var bufPerColumn func(info *types.Info, fn *FuncInfo, e ast.Expr, depth int) (bool, string)
	bufPerColumn = func(info *types.Info, fn *FuncInfo, e ast.Expr, depth int) (bool, string) {
		how := ""
		if bf := fieldOf(info, e); bf != nil {
			makes, good := 0, 0
			for _, u := range p.SortedFuncs() {
				if u.Decl.Body == nil || u.Pkg != p.Root {
					continue
				}
				ui := u.Pkg.TypesInfo
				chk := func(v ast.Expr) {
					if mk, ok := ast.Unparen(v).(*ast.CallExpr); ok && exprStr(mk.Fun) == "make" && len(mk.Args) >= 2 {
						makes++
						if perColumn(ui, u, mk.Args[1]) {
							good++
						} else {
							how = "made with " + exprStr(mk.Args[1]) + " elements in " + u.Name
						}
					}
				}
				ast.Inspect(u.Decl.Body, func(x ast.Node) bool {
					switch v := x.(type) {
					case *ast.KeyValueExpr:
						if id, ok := v.Key.(*ast.Ident); ok && ui.Uses[id] == bf {
							chk(v.Value)
						}
					case *ast.AssignStmt:
						for i, lh := range v.Lhs {
							if fieldOf(ui, lh) == bf && i < len(v.Rhs) {
								chk(v.Rhs[i])
							}
						}
					}
					return true
				})
			}
			if makes > 0 && good == makes {
				return true, "counts to the length of " + exprStr(e) + ", made with len(columns) elements"
			}
			return false, how
		}
		if id, ok := ast.Unparen(e).(*ast.Ident); ok && depth < 2 {
			for k := 0; ; k++ {
				po := paramObj(info, fn.Decl.Type, k)
				if po == nil {
					break
				}
				if po != info.Uses[id] {
					continue
				}
				sites, good := 0, 0
				for _, u := range p.SortedFuncs() {
					if u.Decl.Body == nil {
						continue
					}
					for _, cc := range callsIn(u.Decl.Body) {
						if calleeOf(u.Pkg.TypesInfo, cc) != fn.Obj || k >= len(cc.Args) {
							continue
						}
						sites++
						if ok, h := bufPerColumn(u.Pkg.TypesInfo, u, cc.Args[k], depth+1); ok {
							good++
							how = h
						} else {
							how = "caller " + u.Name + " passes " + exprStr(cc.Args[k]) + " (" + h + ")"
						}
					}
				}
				return sites > 0 && good == sites, how
			}
		}
		return false, how
	}
	for _, fi := range p.SortedFuncs() {
		if fi.Decl.Body == nil || fi.Pkg != p.Root {
			continue
		}
		info := fi.Pkg.TypesInfo
		for _, c := range callsIn(fi.Decl.Body) {
			if calleeOf(info, c) != rc.Obj {
				continue
			}
			// the innermost enclosing loop
			var loop ast.Node
			for x := p.Parent(c); x != nil; x = p.Parent(x) {
				if _, ok := x.(*ast.FuncLit); ok {
					break
				}
				if _, ok := x.(*ast.ForStmt); ok {
					loop = x
					break
				}
				if _, ok := x.(*ast.RangeStmt); ok {
					loop = x
					break
				}
			}
			if loop == nil {
				continue
			}
			n++
			okBound, how := false, ""
			var bufE ast.Expr
			switch l := loop.(type) {
			case *ast.RangeStmt:
				if isColumns(info, fi, l.X) {
					okBound, how = true, "range over the metadata's columns"
				} else {
					bufE = l.X
				}
			case *ast.ForStmt:
				if be, ok := l.Cond.(*ast.BinaryExpr); ok && (be.Op == token.LSS || be.Op == token.NEQ) {
					if perColumn(info, fi, be.Y) {
						okBound, how = true, "counts to len(columns)"
					} else if cl, ok := ast.Unparen(be.Y).(*ast.CallExpr); ok && exprStr(cl.Fun) == "len" && len(cl.Args) == 1 {
						bufE = cl.Args[0]
					}
				}
			}
			if !okBound && bufE != nil {
				okBound, how = bufPerColumn(info, fi, bufE, 0)
			}
			r.Check(okBound, loop, fi.Name+" reads one cell per column of the row", how,
				"the loop that takes the cells of a row is not bounded by the number of columns ("+how+"): with a tuple column the number of scan destinations differs from the number of cells, the row is read too far and every later row is shifted")
		}
	}
	if n == 0 {
		r.Unresolved("no loop reads the cells of a row with readColumn")
	}
}

// appendAfterSizedMake: a slice made with a non-zero length and then grown with append keeps its zero elements in
// front of the appended ones (make([]T, n) where make([]T, 0, n) was meant): a decoded list comes out n entries too
// long. A slice that is made with a length is filled by index, by copy or by a reader; one that is appended to is
// made with length 0. Decided per function for local slices: made with a length that is not the constant 0, never
// written by index / copy / passed on before, and later the operand and target of x = append(x, ...).
func appendAfterSizedMake(p *Program, r *Report) {
	n := 0
	for _, fi := range p.SortedFuncs() {
		if fi.Decl.Body == nil {
			continue
		}
		info := fi.Pkg.TypesInfo
		type mk struct {
			at  *ast.AssignStmt
			obj types.Object
			ln  ast.Expr
		}
		var makes []mk
		ast.Inspect(fi.Decl.Body, func(x ast.Node) bool {
			as, ok := x.(*ast.AssignStmt)
			if !ok || len(as.Lhs) != len(as.Rhs) {
				return true
			}
			for i, l := range as.Lhs {
				id, isId := l.(*ast.Ident)
				c, isCall := ast.Unparen(as.Rhs[i]).(*ast.CallExpr)
				if !isId || !isCall || exprStr(c.Fun) != "make" || len(c.Args) != 2 {
					continue
				}
				if _, isSl := info.TypeOf(c.Args[0]).Underlying().(*types.Slice); !isSl {
					continue
				}
				if k, isK := constInt(info, c.Args[1]); isK && k == 0 {
					continue
				}
				obj := info.Defs[id]
				if obj == nil {
					obj = info.Uses[id]
				}
				if obj != nil {
					makes = append(makes, mk{as, obj, c.Args[1]})
				}
			}
			return true
		})
		for _, m := range makes {
			// every use of the slice after the make
			// flow: the uses in the block the make stands in decide when the append is there too (the other arm of a
			// branch may fill the same variable in place after a make of its own)
			var scope ast.Node = fi.Decl.Body
			for x := p.Parent(m.at); x != nil; x = p.Parent(x) {
				if b, ok := x.(*ast.BlockStmt); ok {
					hasAppend := false
					ast.Inspect(b, func(y ast.Node) bool {
						if c, ok := y.(*ast.CallExpr); ok && exprStr(c.Fun) == "append" && len(c.Args) > 0 && isIdentOf(info, c.Args[0], m.obj) && c.Pos() > m.at.Pos() {
							hasAppend = true
						}
						return true
					})
					if hasAppend {
						scope = b
					}
					break
				}
			}
			appended, filled := ast.Node(nil), false
			ast.Inspect(scope, func(x ast.Node) bool {
				switch v := x.(type) {
				case *ast.AssignStmt:
					for i, l := range v.Lhs {
						if ix, ok := ast.Unparen(l).(*ast.IndexExpr); ok && isIdentOf(info, ix.X, m.obj) {
							filled = true
						}
						if isIdentOf(info, l, m.obj) && i < len(v.Rhs) && v != m.at {
							if c, ok := ast.Unparen(v.Rhs[i]).(*ast.CallExpr); ok && exprStr(c.Fun) == "append" && len(c.Args) > 0 && isIdentOf(info, c.Args[0], m.obj) {
								if appended == nil {
									appended = v
								}
							} else {
								filled = true // re-bound to something else
							}
						}
					}
				case *ast.CallExpr:
					if exprStr(v.Fun) == "append" || exprStr(v.Fun) == "len" || exprStr(v.Fun) == "cap" {
						return true
					}
					for _, a := range v.Args {
						used := false
						ast.Inspect(a, func(y ast.Node) bool {
							if e, ok := y.(ast.Expr); ok && isIdentOf(info, e, m.obj) {
								used = true
							}
							return true
						})
						if used {
							filled = true // copy(x, ..), io.ReadFull(r, x), a helper that fills it
						}
					}
				case *ast.UnaryExpr:
					if v.Op == token.AND {
						if ix, ok := ast.Unparen(v.X).(*ast.IndexExpr); ok && isIdentOf(info, ix.X, m.obj) {
							filled = true
						}
					}
				case *ast.RangeStmt:
					if isIdentOf(info, v.X, m.obj) {
						filled = true
					}
				}
				return true
			})
			if appended == nil {
				continue
			}
			n++
			r.Check(filled, appended, fi.Name+": "+m.obj.Name()+" is made with a length and filled in place, or made empty and appended to", "no append after make([]T, n)",
				m.obj.Name()+" is made with "+exprStr(m.ln)+" zero elements ("+p.Pos(m.at)+") and then only appended to: the zero elements stay in front of the decoded ones")
		}
	}
	// the rule's expected count on a correct tree is zero: one obligation records that the module was scanned
	r.OK(p.Root.Syntax[0], "module scanned for append after make([]T, n)", fmtInt(n)+" sized-and-appended slices, each filled in place first")
}

// c02FreshMap: decoding a map replaces the destination: on every path to a SetMapIndex on the destination the
// destination has been set to a fresh map (reflect.MakeMap / MakeMapWithSize) in this call. A map that is only made
// when the destination is nil keeps the entries of the previous row when a variable (or a struct field of a reused
// row object) is scanned into a second time: the value read back has keys that were never written.
func c02FreshMap(p *Program, r *Report) {
	n := 0
	for _, fi := range p.SortedFuncs() {
		if fi.Decl.Body == nil || fi.Pkg != p.Root {
			continue
		}
		info := fi.Pkg.TypesInfo
		var sites []*ast.CallExpr
		for _, c := range callsIn(fi.Decl.Body) {
			if calleeName(info, c) == "reflect.(Value).SetMapIndex" || strings.HasSuffix(calleeName(info, c), "Value).SetMapIndex") {
				sites = append(sites, c)
			}
		}
		if len(sites) == 0 {
			continue
		}
		g := p.GraphOf(fi)
		freshFor := func(nd ast.Node, dst string) bool {
			hit := false
			for _, c := range callsIn(nd) {
				if !strings.HasSuffix(calleeName(info, c), "Value).Set") || len(c.Args) != 1 {
					continue
				}
				rx := recvExpr(c)
				if rx == nil || exprStr(rx) != dst {
					continue
				}
				if mc, ok := ast.Unparen(c.Args[0]).(*ast.CallExpr); ok && strings.HasPrefix(calleeName(info, mc), "reflect.MakeMap") {
					hit = true
				}
			}
			return hit
		}
		for _, s := range sites {
			rx := recvExpr(s)
			if rx == nil {
				continue
			}
			dst := exprStr(rx)
			sol := Solve(g, Lattice[bool]{
				Init: true,
				Join: func(a, b bool) bool { return a || b },
				Eq:   func(a, b bool) bool { return a == b },
				Step: func(stale bool, st Step) bool {
					if st.Kind == StNode && freshFor(st.Node, dst) {
						return false
					}
					return stale
				},
			})
			node, found := g.cfgNodeOf(s)
			if !found {
				r.Unresolved("%s: SetMapIndex at %s is not a node of the flow graph", fi.Name, p.Pos(s))
				continue
			}
			stale, reach := sol.Before(node)
			if !reach {
				continue
			}
			n++
			r.Check(!stale, s, fi.Name+" fills a map it made in this call", dst+".Set(reflect.MakeMap...) on every path",
				"a path reaches "+dst+".SetMapIndex without "+dst+" having been set to a fresh map in this call: entries of an earlier decode into the same destination survive, and the value read back differs from the one written")
		}
	}
	if n == 0 {
		r.Unresolved("no SetMapIndex on a decode destination found")
	}
}

// c02NoUnixNano: time.Time.UnixNano is undefined (wraps) for instants outside 1678..2262, while CQL timestamps,
// dates and version-1 UUID times cover far more: a conversion through UnixNano writes another instant for such a
// value without an error. Everywhere in the module a Time is turned into a number with Unix() / Nanosecond() (or
// UnixMilli / UnixMicro, exact over every CQL range); UnixNano is accepted on the current time only (time.Now()).
func c02NoUnixNano(p *Program, r *Report) {
	n := 0
	for _, fi := range p.SortedFuncs() {
		if fi.Decl.Body == nil {
			continue
		}
		info := fi.Pkg.TypesInfo
		for _, c := range callsIn(fi.Decl.Body) {
			name := calleeName(info, c)
			if !strings.HasPrefix(name, "time.(Time).Unix") && !strings.HasPrefix(name, "(time.Time).Unix") {
				continue
			}
			n++
			if !strings.HasSuffix(name, "UnixNano") {
				r.OK(c, fi.Name+" converts a time with a range-complete accessor", name)
				continue
			}
			rx := recvExpr(c)
			now := false
			if rc, ok := ast.Unparen(rx).(*ast.CallExpr); ok && calleeName(info, rc) == "time.Now" {
				now = true
			}
			if id, ok := ast.Unparen(rx).(*ast.Ident); ok {
				if def := localDef(info, fi, id); def != nil {
					if rc, ok := ast.Unparen(def).(*ast.CallExpr); ok && calleeName(info, rc) == "time.Now" {
						now = true
					}
				}
			}
			r.Check(now, c, fi.Name+" converts a time with a range-complete accessor", "UnixNano of the current time",
				exprStr(rx)+".UnixNano() overflows for instants outside 1678..2262: a date or timestamp outside that window is written as another instant, without an error")
		}
	}
	if n == 0 {
		r.Unresolved("no conversion of a time.Time to a Unix count found")
	}
}

// c14WinnerStarts: the caller that inserted the in-flight entry (the lookup said "not found before") starts the
// preparing goroutine on every path: between the insertion and the `go` statement there is no return. An entry whose
// goroutine never runs is never completed and never removed: the statement is not prepared and every later
// execution of it on that host waits until its own context ends.
func c14WinnerStarts(p *Program, r *Report) {
	fi, _, cb, _ := prepareParts(p, r)
	if fi == nil {
		return
	}
	info := fi.Pkg.TypesInfo
	g := p.GraphOf(fi)
	lookupNode, found := g.cfgNodeOf(cb.call)
	if !found {
		r.Unresolved("prepareStatement: the cache lookup is not a node of the flow graph")
		return
	}
	// the "found before" result of the lookup
	var okObj types.Object
	if as, isA := p.stmtOf(cb.call, fi).(*ast.AssignStmt); isA && len(as.Lhs) == 2 {
		if id, isId := as.Lhs[1].(*ast.Ident); isId {
			okObj = info.Defs[id]
			if okObj == nil {
				okObj = info.Uses[id]
			}
		}
	}
	if okObj == nil {
		r.Unresolved("prepareStatement: the lookup's found-before result is not bound to a variable")
		return
	}
	var goNode ast.Node
	inspectNoLit(fi.Decl.Body, func(x ast.Node) bool {
		if gs, ok := x.(*ast.GoStmt); ok {
			goNode = gs
		}
		return true
	})
	if goNode == nil {
		r.Unresolved("prepareStatement starts no goroutine")
		return
	}
	sol := Solve(g, Lattice[bool]{
		Join: func(a, b bool) bool { return a || b },
		Eq:   func(a, b bool) bool { return a == b },
		Step: func(owed bool, st Step) bool {
			switch st.Kind {
			case StNode:
				if st.Node == lookupNode {
					return true
				}
				if st.Node == goNode {
					return false
				}
			case StCond:
				// the edge on which the entry was found (somebody else prepares it)
				e := ast.Unparen(st.Node.(ast.Expr))
				val := st.Val
				if u, ok := e.(*ast.UnaryExpr); ok && u.Op == token.NOT {
					e, val = ast.Unparen(u.X), !val
				}
				if isIdentOf(info, e, okObj) && val {
					return false
				}
			}
			return owed
		},
	})
	n := 0
	for _, e := range g.Exits() {
		if e.Kind == ExitPanic {
			continue
		}
		var owed, ok bool
		var at ast.Node = fi.Decl
		if e.Node != nil {
			owed, ok = sol.Before(e.Node)
			at = e.Node
		} else {
			owed, ok = sol.AtExit(e)
		}
		if !ok {
			continue
		}
		n++
		r.Check(!owed, at, "(*Conn).prepareStatement: the caller that inserted the in-flight entry has started the preparing goroutine before this exit", "go statement on every path from the insertion",
			"a path returns here after the in-flight entry was inserted and before the preparing goroutine is started: done is never closed and the entry never removed, so the statement is never prepared and every later execution waits on it until its context ends")
	}
	if n == 0 {
		r.Unresolved("prepareStatement has no exits")
	}
}

// c11NestedCursor: a generator that walks a list of lists with a pair of persistent cursors (tier J, position K;
// loop condition `K < len(X[J])`) moves to the next list as soon as K runs off the current one: on every path from
// the advance of K to the next iteration or to a return, K is compared with len(X[J]) (the step that advances J and
// resets K). A `continue` taken before that step leaves K == len(X[J]) with J unchanged: the loop condition fails and
// every farther list is skipped - replicas of farther tiers are offered only after the non-replica hosts.
func c11NestedCursor(p *Program, r *Report) {
	n := 0
	for lit, fi := range nextHostLits(p) {
		info := fi.Pkg.TypesInfo
		var loops []*ast.ForStmt
		inspectNoLit(lit.Body, func(x ast.Node) bool {
			if fs, ok := x.(*ast.ForStmt); ok && fs.Cond != nil {
				loops = append(loops, fs)
			}
			return true
		})
		for _, fs := range loops {
			// a conjunct K < len(X[J])
			var kObj, jObj types.Object
			var lenStr string
			for _, cj := range conjuncts(fs.Cond) {
				be, ok := ast.Unparen(cj).(*ast.BinaryExpr)
				if !ok || be.Op != token.LSS {
					continue
				}
				kid, isId := ast.Unparen(be.X).(*ast.Ident)
				lc, isLen := ast.Unparen(be.Y).(*ast.CallExpr)
				if !isId || !isLen || exprStr(lc.Fun) != "len" || len(lc.Args) != 1 {
					continue
				}
				ix, isIx := ast.Unparen(lc.Args[0]).(*ast.IndexExpr)
				if !isIx {
					continue
				}
				jid, isJ := ast.Unparen(ix.Index).(*ast.Ident)
				if !isJ {
					continue
				}
				kObj, jObj, lenStr = info.Uses[kid], info.Uses[jid], exprStr(be.Y)
			}
			if kObj == nil || jObj == nil {
				continue
			}
			// persistent cursors: declared outside the generator
			if kObj.Pos() >= lit.Pos() && kObj.Pos() < lit.End() {
				continue
			}
			g := p.GraphOfLit(fi, lit)
			advances := func(nd ast.Node) bool {
				hit := false
				inspectNoLit(nd, func(x ast.Node) bool {
					switch v := x.(type) {
					case *ast.IncDecStmt:
						if v.Tok == token.INC && isIdentOf(info, v.X, kObj) {
							hit = true
						}
					case *ast.AssignStmt:
						if v.Tok == token.ADD_ASSIGN && len(v.Lhs) == 1 && isIdentOf(info, v.Lhs[0], kObj) {
							hit = true
						}
					}
					return true
				})
				return hit
			}
			compares := func(e ast.Expr) bool {
				hit := false
				ast.Inspect(e, func(x ast.Node) bool {
					if be, ok := x.(*ast.BinaryExpr); ok {
						switch be.Op {
						case token.GEQ, token.EQL, token.LSS, token.NEQ:
							if isIdentOf(info, be.X, kObj) && exprStr(be.Y) == lenStr {
								hit = true
							}
						}
					}
					return true
				})
				return hit
			}
			sol := Solve(g, Lattice[bool]{
				Join: func(a, b bool) bool { return a || b },
				Eq:   func(a, b bool) bool { return a == b },
				Step: func(owed bool, st Step) bool {
					switch st.Kind {
					case StNode:
						if _, isExpr := st.Node.(ast.Expr); !isExpr && advances(st.Node) {
							return true
						}
					case StCond:
						if e, ok := st.Node.(ast.Expr); ok && e != fs.Cond && compares(e) {
							return false
						}
					}
					return owed
				},
			})
			check := func(at ast.Node, owed bool, what string) {
				n++
				r.Check(!owed, at, fi.Name+" generator: after advancing "+kObj.Name()+" the walk over "+lenStr+" moves to the next list before "+what, kObj.Name()+" compared with "+lenStr+" on every path",
					"a path advances "+kObj.Name()+" and reaches "+what+" without comparing it with "+lenStr+": when the last entry of a list is passed over this way the loop condition fails with "+jObj.Name()+" unchanged and every farther list is skipped")
			}
			for _, be := range BackEdges(p, sol, fs, fs.Body.Pos()) {
				check(be.Node, be.State, "the next iteration")
			}
			inspectNoLit(fs.Body, func(x ast.Node) bool {
				if rs, ok := x.(*ast.ReturnStmt); ok {
					if owed, reach := sol.Before(rs); reach {
						check(rs, owed, "a return")
					}
				}
				return true
			})
		}
	}
	if n == 0 {
		// the rule is about one construct; a generator that keeps no (list, position) cursor pair cannot strand on the
		// end of a list this way
		r.OK(p.Root.Syntax[0], "no host generator walks a list of lists with a persistent (list, position) cursor pair", "nothing to decide")
	}
}

// conjuncts splits a condition at its top-level && operators.
func conjuncts(e ast.Expr) []ast.Expr {
	e = ast.Unparen(e)
	if be, ok := e.(*ast.BinaryExpr); ok && be.Op == token.LAND {
		return append(conjuncts(be.X), conjuncts(be.Y)...)
	}
	return []ast.Expr{e}
}

// c19ZeroDest: the parser builds the UUID by OR-ing nibbles into its bytes, so the bytes it ORs into are zero when
// the parse starts: the destination is a variable declared without a value in the function that holds the loop, or
// it is cleared (*u = UUID{}) on every path before the loop. A parser that ORs straight into the receiver of an
// unmarshaler merges the new value with whatever the destination held (a second decode into the same UUID, or the
// digits of a failed decode): print-then-parse no longer gives the UUID back.
func c19ZeroDest(p *Program, r *Report) {
	fi := r.NeedFunc("ParseUUID")
	if fi == nil {
		return
	}
	n := 0
	for _, u := range p.unitsOf(fi) {
		info := u.Pkg.TypesInfo
		g := p.GraphOf(u)
		ast.Inspect(u.Decl.Body, func(x ast.Node) bool {
			as, ok := x.(*ast.AssignStmt)
			if !ok || as.Tok != token.OR_ASSIGN || len(as.Lhs) != 1 {
				return true
			}
			ix, ok := ast.Unparen(as.Lhs[0]).(*ast.IndexExpr)
			if !ok || typeNameOf(info.TypeOf(ix.X)) != "UUID" {
				return true
			}
			root := ast.Unparen(ix.X)
			if st, isStar := root.(*ast.StarExpr); isStar {
				root = ast.Unparen(st.X)
			}
			id, isId := root.(*ast.Ident)
			if !isId {
				return true
			}
			obj := info.Uses[id]
			n++
			// declared without a value in this function (not a parameter, receiver or named result)
			fresh := false
			ast.Inspect(u.Decl.Body, func(y ast.Node) bool {
				if vs, ok := y.(*ast.ValueSpec); ok && len(vs.Values) == 0 {
					for _, nm := range vs.Names {
						if info.Defs[nm] == obj {
							fresh = true
						}
					}
				}
				return true
			})
			if !fresh {
				// a destination handed in by the callers: every call site passes the address of a variable it declared
				// without a value (decodeUUIDHex(&parsed, text) with `var parsed UUID`)
				for k := 0; ; k++ {
					po := paramObj(info, u.Decl.Type, k)
					if po == nil {
						break
					}
					if po != obj {
						continue
					}
					sites, good := 0, 0
					for _, cf := range p.SortedFuncs() {
						if cf.Decl.Body == nil {
							continue
						}
						ci := cf.Pkg.TypesInfo
						for _, cc := range callsIn(cf.Decl.Body) {
							if calleeOf(ci, cc) != u.Obj || k >= len(cc.Args) {
								continue
							}
							sites++
							if ue, ok := ast.Unparen(cc.Args[k]).(*ast.UnaryExpr); ok && ue.Op == token.AND {
								if aid, ok := ast.Unparen(ue.X).(*ast.Ident); ok {
									aobj := ci.Uses[aid]
									declared, written := false, false
									ast.Inspect(cf.Decl.Body, func(y ast.Node) bool {
										switch v := y.(type) {
										case *ast.ValueSpec:
											if len(v.Values) == 0 {
												for _, nm := range v.Names {
													if ci.Defs[nm] == aobj {
														declared = true
													}
												}
											}
										case *ast.AssignStmt:
											if v.Pos() < cc.Pos() {
												for _, l := range v.Lhs {
													root := ast.Unparen(l)
													if ix, ok := root.(*ast.IndexExpr); ok {
														root = ast.Unparen(ix.X)
													}
													if isIdentOf(ci, root, aobj) {
														written = true
													}
												}
											}
										}
										return true
									})
									if declared && !written {
										good++
									}
								}
							}
						}
					}
					if sites > 0 && good == sites {
						fresh = true
					}
				}
			}
			if !fresh {
				// cleared on every path before the store
				sol := Solve(g, Lattice[bool]{
					Init: true,
					Join: func(a, b bool) bool { return a || b },
					Eq:   func(a, b bool) bool { return a == b },
					Step: func(dirty bool, st Step) bool {
						if st.Kind != StNode {
							return dirty
						}
						if a2, ok := st.Node.(*ast.AssignStmt); ok && a2.Tok == token.ASSIGN && len(a2.Lhs) == 1 && len(a2.Rhs) == 1 {
							l := ast.Unparen(a2.Lhs[0])
							if se, isStar := l.(*ast.StarExpr); isStar {
								l = ast.Unparen(se.X)
							}
							if isIdentOf(info, l, obj) {
								if cl, isCl := ast.Unparen(a2.Rhs[0]).(*ast.CompositeLit); isCl && len(cl.Elts) == 0 {
									return false
								}
							}
						}
						return dirty
					},
				})
				if node, found := g.cfgNodeOf(as); found {
					if dirty, reach := sol.Before(node); reach && !dirty {
						fresh = true
					}
				}
			}
			r.Check(fresh, as, u.Name+" ORs the digits into a zeroed UUID", "destination declared without a value here, or cleared before the loop",
				"the nibbles are OR-ed into "+exprStr(ix.X)+", which is not a fresh zero value of this function: decoding into a UUID that already holds a value (or the digits of a failed parse) merges the two")
			return true
		})
	}
	if n == 0 {
		// a parser that assigns whole bytes has no such obligation
		r.OK(fi.Decl, "ParseUUID does not build the UUID by OR-ing into its bytes", "nothing to decide")
	}
}

// c04FreshList: a decoded list or set owns fresh storage: the unmarshal functions give a slice destination its
// length only by setting it to a new reflect.MakeSlice, never by re-slicing what the destination already holds
// (reflect.Value.SetLen / Slice / Slice3 on it). Rows decoded one after the other into the same variable (Scan in a
// loop, or the nested lists behind SliceMap's shallow row copies) would otherwise share a backing array, and a later
// row would rewrite the cells of the earlier ones.
func c04FreshList(p *Program, r *Report) {
	n := 0
	for _, fi := range p.SortedFuncs() {
		if fi.Decl.Body == nil || fi.Pkg != p.Root {
			continue
		}
		info := fi.Pkg.TypesInfo
		makes := false
		for _, c := range callsIn(fi.Decl.Body) {
			if calleeName(info, c) == "reflect.MakeSlice" {
				makes = true
			}
		}
		if !makes {
			continue
		}
		n++
		bad := false
		for _, c := range callsIn(fi.Decl.Body) {
			nm := calleeName(info, c)
			if strings.HasSuffix(nm, "Value).SetLen") || strings.HasSuffix(nm, "Value).SetCap") {
				bad = true
				r.Bad(c, fi.Name+" gives a decoded slice fresh storage", "the destination is re-sliced with "+exprStr(c)+" instead of being set to a new reflect.MakeSlice: values decoded earlier into the same destination (the previous row) share the backing array and are overwritten by this one")
			}
		}
		if !bad {
			r.OK(fi.Decl, fi.Name+" gives a decoded slice fresh storage", "reflect.MakeSlice only, no SetLen / SetCap")
		}
	}
	if n == 0 {
		r.Unresolved("no function builds a slice with reflect.MakeSlice")
	}
}

// c10PeersHaveTokens: a row of system.peers without tokens (a joining or coordinator-only node) is not a valid peer:
// the filter that decides which peers become hosts tests len(<host>.tokens). The placement strategies count the
// racks and datacenters of every host they are given; a token-less host makes them expect a rack that owns nothing,
// and every range gets fewer replicas than Cassandra places.
func c10PeersHaveTokens(p *Program, r *Report) {
	fi := r.NeedFunc("isValidPeer")
	tf := p.Field("HostInfo", "tokens")
	if fi == nil || tf == nil {
		if tf == nil {
			r.Unresolved("HostInfo.tokens not found")
		}
		return
	}
	tested := false
	for _, u := range p.unitsOf(fi) {
		info := u.Pkg.TypesInfo
		ast.Inspect(u.Decl.Body, func(x ast.Node) bool {
			be, ok := x.(*ast.BinaryExpr)
			if !ok {
				return true
			}
			for _, side := range []ast.Expr{be.X, be.Y} {
				if c, isC := ast.Unparen(side).(*ast.CallExpr); isC && exprStr(c.Fun) == "len" && len(c.Args) == 1 {
					arg := ast.Unparen(c.Args[0])
					if fieldOf(info, arg) == tf {
						tested = true
					}
					if cc, isCall := arg.(*ast.CallExpr); isCall && strings.HasSuffix(calleeName(info, cc), "HostInfo).Tokens") {
						tested = true
					}
				}
			}
			return true
		})
	}
	r.Check(tested, fi.Decl, "isValidPeer rejects a peer without tokens", "len(host.tokens) compared", "a peers row without tokens passes the filter and becomes a host of the policies: the placement strategies count its rack / datacenter although it owns no range, and replica lists come out short")
}

// c20DialerKeepsTLS: every defaultHostDialer the connection configuration builds carries the TLS configuration
// derived from SslOpts (the tlsConfig field is set from the value setupTLSConfig returned, on every construction).
// A dialer built without it for one configuration branch (a custom Dialer) connects in plaintext although the user
// asked for verified TLS.
func c20DialerKeepsTLS(p *Program, r *Report) {
	tf := p.Field("defaultHostDialer", "tlsConfig")
	if tf == nil {
		r.Unresolved("defaultHostDialer.tlsConfig not found")
		return
	}
	n := 0
	for _, fi := range p.SortedFuncs() {
		if fi.Decl.Body == nil || fi.Pkg != p.Root {
			continue
		}
		info := fi.Pkg.TypesInfo
		ast.Inspect(fi.Decl.Body, func(x ast.Node) bool {
			cl, ok := x.(*ast.CompositeLit)
			if !ok || typeNameOf(info.TypeOf(cl)) != "defaultHostDialer" {
				return true
			}
			n++
			set := false
			for _, el := range cl.Elts {
				if kv, isKV := el.(*ast.KeyValueExpr); isKV {
					if k, isId := kv.Key.(*ast.Ident); isId && info.Uses[k] == tf && !isNil(info, kv.Value) {
						set = true
					}
				}
			}
			if !set {
				// the field assigned right after on the same variable
				if as, isAs := p.Parent(p.Parent(cl)).(*ast.AssignStmt); isAs || true {
					_ = as
					ast.Inspect(fi.Decl.Body, func(y ast.Node) bool {
						if a2, ok := y.(*ast.AssignStmt); ok {
							for _, l := range a2.Lhs {
								if fieldOf(info, l) == tf {
									set = true
								}
							}
						}
						return true
					})
				}
			}
			r.Check(set, cl, fi.Name+" builds the host dialer with the TLS configuration", "tlsConfig set", "a defaultHostDialer is built without tlsConfig: on this configuration branch connections are made in plaintext although SslOpts asks for (verified) TLS")
			return true
		})
	}
	if n == 0 {
		r.Unresolved("no defaultHostDialer is built")
	}
}

// ctxOutlivesCancel: a context that a function derives with context.WithCancel / WithTimeout / WithDeadline and
// cancels by a deferred call dies when the function returns; it is therefore not attached to an object that lives
// on (a query via withContext / WithContext, or a struct field). The executor's per-execution context attached to
// the query is inherited by the next-page copy of that query, and every page after the first fails with "context
// canceled".
func ctxOutlivesCancel(p *Program, r *Report) {
	n := 0
	for _, fi := range p.SortedFuncs() {
		if fi.Decl.Body == nil || fi.Pkg != p.Root {
			continue
		}
		info := fi.Pkg.TypesInfo
		inspectNoLit(fi.Decl.Body, func(x ast.Node) bool {
			as, ok := x.(*ast.AssignStmt)
			if !ok || len(as.Lhs) != 2 || len(as.Rhs) != 1 {
				return true
			}
			c, isCall := ast.Unparen(as.Rhs[0]).(*ast.CallExpr)
			if !isCall || !strings.HasPrefix(calleeName(info, c), "context.With") {
				return true
			}
			ctxId, ok1 := as.Lhs[0].(*ast.Ident)
			canId, ok2 := as.Lhs[1].(*ast.Ident)
			if !ok1 || !ok2 {
				return true
			}
			ctxObj, canObj := info.ObjectOf(ctxId), info.ObjectOf(canId)
			deferred := false
			inspectNoLit(fi.Decl.Body, func(y ast.Node) bool {
				if d, ok := y.(*ast.DeferStmt); ok && isIdentOf(info, d.Call.Fun, canObj) {
					deferred = true
				}
				return true
			})
			if !deferred || ctxObj == nil {
				return true
			}
			n++
			bad := ""
			ast.Inspect(fi.Decl.Body, func(y ast.Node) bool {
				switch v := y.(type) {
				case *ast.CallExpr:
					nm := calleeName(info, v)
					if strings.HasSuffix(nm, "ithContext") && !strings.HasPrefix(nm, "context.") {
						for _, a := range v.Args {
							if isIdentOf(info, a, ctxObj) {
								bad = exprStr(v)
							}
						}
					}
				case *ast.AssignStmt:
					for i, l := range v.Lhs {
						if _, isSel := ast.Unparen(l).(*ast.SelectorExpr); isSel && i < len(v.Rhs) && isIdentOf(info, v.Rhs[i], ctxObj) && fieldOf(info, l) != nil {
							bad = exprStr(l) + " = " + exprStr(v.Rhs[i])
						}
					}
				}
				return true
			})
			r.Check(bad == "", as, fi.Name+": the context cancelled on return is not attached to anything that lives on", "used for the calls of this function only",
				"the context "+ctxObj.Name()+" is cancelled by a deferred call when "+fi.Name+" returns, but it is attached to a longer-lived object ("+bad+"): a query carrying it hands it to its next-page copy, and every page after the first ends with context canceled")
			return true
		})
	}
	if n == 0 {
		r.OK(p.Root.Syntax[0], "no function cancels a derived context by a deferred call", "nothing to decide")
	}
}

// c07ResultChanNotClosed: a waiting writer takes its result with a bare receive, and the zero writeResult means
// "0 bytes, no error". The channels that carry write results are therefore never closed: every waiter is answered
// by a send (on shutdown with io.EOF). A closed result channel reports a frame that never reached the wire as
// written.
func c07ResultChanNotClosed(p *Program, r *Report) {
	n := 0
	for _, fi := range p.SortedFuncs() {
		if fi.Decl.Body == nil || fi.Pkg != p.Root {
			continue
		}
		info := fi.Pkg.TypesInfo
		carries := func(e ast.Expr) bool {
			t := info.TypeOf(e)
			if t == nil {
				return false
			}
			ch, ok := t.Underlying().(*types.Chan)
			return ok && typeNameOf(ch.Elem()) == "writeResult"
		}
		ast.Inspect(fi.Decl.Body, func(x ast.Node) bool {
			switch v := x.(type) {
			case *ast.SendStmt:
				if carries(v.Chan) {
					n++
					r.OK(v, fi.Name+" answers a waiting writer with a send", exprStr(v.Value))
				}
			case *ast.CallExpr:
				if exprStr(v.Fun) == "close" && len(v.Args) == 1 && carries(v.Args[0]) {
					n++
					r.Bad(v, fi.Name+" answers a waiting writer with a send", "the result channel "+exprStr(v.Args[0])+" is closed: the waiting writer receives the zero writeResult (0 bytes, nil error) and reports a frame that was never written as sent")
				}
			}
			return true
		})
	}
	if n == 0 {
		r.Unresolved("no channel of writeResult is sent on")
	}
}

// c13ErrorFormAgrees: an error frame reaches the retry policies in the form their type switches test for. For every
// error type that the module's type switches and assertions name (pointer or value), parseErrorFrame returns that
// form: a *RequestErrWriteTimeout case is not matched by a RequestErrWriteTimeout value, and the decision for a write
// timeout silently becomes the default one.
func c13ErrorFormAgrees(p *Program, r *Report) {
	fi := r.NeedFunc("(*framer).parseErrorFrame")
	if fi == nil {
		return
	}
	// forms the consumers test for
	wantPtr, wantVal := map[string]string{}, map[string]string{}
	note := func(u *FuncInfo, te ast.Expr) {
		t := u.Pkg.TypesInfo.TypeOf(te)
		if t == nil {
			return
		}
		if pt, ok := t.(*types.Pointer); ok {
			if nm := typeNameOf(pt.Elem()); strings.HasPrefix(nm, "RequestErr") {
				wantPtr[nm] = u.Name
			}
		} else if nm := typeNameOf(t); strings.HasPrefix(nm, "RequestErr") {
			if _, isIface := t.Underlying().(*types.Interface); !isIface {
				wantVal[nm] = u.Name
			}
		}
	}
	for _, u := range p.SortedFuncs() {
		if u.Decl.Body == nil || u.Pkg != p.Root {
			continue
		}
		ast.Inspect(u.Decl.Body, func(x ast.Node) bool {
			switch v := x.(type) {
			case *ast.TypeSwitchStmt:
				for _, cl := range v.Body.List {
					for _, te := range cl.(*ast.CaseClause).List {
						note(u, te)
					}
				}
			case *ast.TypeAssertExpr:
				if v.Type != nil {
					note(u, v.Type)
				}
			}
			return true
		})
	}
	n := 0
	for _, u := range p.unitsOf(fi) {
		info := u.Pkg.TypesInfo
		inspectNoLit(u.Decl.Body, func(x ast.Node) bool {
			rs, ok := x.(*ast.ReturnStmt)
			if !ok || len(rs.Results) != 1 {
				return true
			}
			t := info.TypeOf(rs.Results[0])
			if t == nil {
				return true
			}
			isPtr := false
			if pt, ok := t.(*types.Pointer); ok {
				isPtr, t = true, pt.Elem()
			}
			nm := typeNameOf(t)
			if !strings.HasPrefix(nm, "RequestErr") {
				return true
			}
			if _, isIface := t.Underlying().(*types.Interface); isIface {
				return true
			}
			n++
			okForm, why := true, "consumers name this form (or none)"
			if isPtr && wantVal[nm] != "" && wantPtr[nm] == "" {
				okForm, why = false, "a pointer, but "+wantVal[nm]+" tests for the value "+nm
			}
			if !isPtr && wantPtr[nm] != "" && wantVal[nm] == "" {
				okForm, why = false, "a value, but "+wantPtr[nm]+" tests for *"+nm
			}
			r.Check(okForm, rs, u.Name+" returns "+nm+" in the form its consumers test for", why,
				"the "+nm+" error frame is returned as "+why+": the type switch never matches it, and the retry decision (or error classification) for this error silently becomes the default one")
			return true
		})
	}
	if n == 0 {
		r.Unresolved("parseErrorFrame returns no RequestErr* frame")
	}
}

// c16HostEqualByAddress: the copy-on-write host list refuses a duplicate through HostInfo.Equal and removes an entry
// by its connect address, leaving exactly one hole. The two agree only while Equal means "same connect address": every
// non-trivial result of Equal is the comparison of the two connect addresses. (An Equal by host id lets a replacement
// node enter under the address of the node it replaces; the removal then drops both and leaves a nil entry behind.)
func c16HostEqualByAddress(p *Program, r *Report) {
	fi := r.NeedFunc("(*HostInfo).Equal")
	if fi == nil {
		return
	}
	_ = fi.Pkg.TypesInfo
	n := 0
	// byAddr: e is decided by the connect addresses alone: a disjunction of pointer identity of the two hosts and
	// ConnectAddress().Equal(ConnectAddress()), the latter possibly in a private helper all of whose results are such
	var byAddr func(fn *FuncInfo, e ast.Expr, depth int) bool
	byAddr = func(fn *FuncInfo, e ast.Expr, depth int) bool {
		in := fn.Pkg.TypesInfo
		res := func(x ast.Expr) ast.Expr {
			if id, ok := ast.Unparen(x).(*ast.Ident); ok {
				if d := localDef(in, fn, id); d != nil {
					return d
				}
			}
			return x
		}
		e = ast.Unparen(e)
		if tv, isC := in.Types[e]; isC && tv.Value != nil {
			return true
		}
		if be, ok := e.(*ast.BinaryExpr); ok {
			switch be.Op {
			case token.LOR:
				return byAddr(fn, be.X, depth) && byAddr(fn, be.Y, depth)
			case token.EQL:
				tx, ty := in.TypeOf(be.X), in.TypeOf(be.Y)
				return tx != nil && ty != nil && typeNameOf(tx) == "HostInfo" && typeNameOf(ty) == "HostInfo"
			}
			return false
		}
		c, isCall := e.(*ast.CallExpr)
		if !isCall {
			return false
		}
		if rx := recvExpr(c); rx != nil && len(c.Args) == 1 {
			l, lok := ast.Unparen(res(rx)).(*ast.CallExpr)
			a, aok := ast.Unparen(res(c.Args[0])).(*ast.CallExpr)
			if lok && aok && strings.HasSuffix(calleeName(in, l), "HostInfo).ConnectAddress") && strings.HasSuffix(calleeName(in, a), "HostInfo).ConnectAddress") {
				return true
			}
		}
		if h := p.FuncOf(calleeOf(in, c)); h != nil && h.Decl.Body != nil && h.Obj != nil && !h.Obj.Exported() && depth < 2 {
			all, any := true, false
			inspectNoLit(h.Decl.Body, func(y ast.Node) bool {
				if rs, ok := y.(*ast.ReturnStmt); ok && len(rs.Results) == 1 {
					any = true
					if !byAddr(h, rs.Results[0], depth+1) {
						all = false
					}
				}
				return true
			})
			return any && all
		}
		return false
	}
	inspectNoLit(fi.Decl.Body, func(x ast.Node) bool {
		rs, ok := x.(*ast.ReturnStmt)
		if !ok || len(rs.Results) != 1 {
			return true
		}
		n++
		e := ast.Unparen(rs.Results[0])
		r.Check(byAddr(fi, e, 0), rs, "(*HostInfo).Equal decides by connect address", "pointer identity or ConnectAddress().Equal(ConnectAddress())",
			"Equal returns "+exprStr(e)+": the host list's duplicate test (Equal) and its removal (by connect address) no longer agree, two entries can share an address and the removal of one leaves a nil entry in the list the policies iterate")
		return true
	})
	if n == 0 {
		r.Unresolved("(*HostInfo).Equal has no return")
	}
}

// c18FramerNegotiated: every framer of a connection is built with the compressor that was negotiated for that
// connection (the Conn's compressor field, which STARTUP clears when the server did not advertise the algorithm),
// never with the configured one: no call of newFramer takes its compressor from a configuration struct.
func c18FramerNegotiated(p *Program, r *Report) {
	nf := p.Func("newFramer")
	if nf == nil {
		r.Unresolved("newFramer not found")
		return
	}
	cfgFields := map[types.Object]bool{}
	for _, tn := range []string{"ConnConfig", "ClusterConfig"} {
		if f := p.Field(tn, "Compressor"); f != nil {
			cfgFields[f] = true
		}
	}
	n := 0
	for _, fi := range p.SortedFuncs() {
		if fi.Decl.Body == nil || fi.Pkg != p.Root {
			continue
		}
		info := fi.Pkg.TypesInfo
		for _, c := range callsIn(fi.Decl.Body) {
			if calleeOf(info, c) != nf.Obj || len(c.Args) == 0 {
				continue
			}
			n++
			fromCfg := false
			ast.Inspect(c.Args[0], func(x ast.Node) bool {
				if e, ok := x.(ast.Expr); ok {
					if f := fieldOf(info, e); f != nil && cfgFields[f] {
						fromCfg = true
					}
				}
				return true
			})
			r.Check(!fromCfg, c, fi.Name+" builds its framer with the negotiated compressor", exprStr(c.Args[0]),
				"the framer is built with the configured compressor "+exprStr(c.Args[0])+", not the connection's negotiated one: when the server did not advertise the algorithm every request after STARTUP is still sent compressed and flagged, and a compressed response is decoded although no compression was agreed")
		}
	}
	if n == 0 {
		r.Unresolved("no call of newFramer found")
	}
}

// c14ErrorFrameIsFrame: a server ERROR answer reaches the executor as a frame (parseFrame's frame result), where the
// UNPREPARED case evicts the cached id and prepares again. parseFrame never returns what parseErrorFrame produced in
// its error position: that would make `case *RequestErrUnprepared` unreachable, and a statement the server forgot
// would fail for ever with the stale id still cached.
func c14ErrorFrameIsFrame(p *Program, r *Report) {
	fi := r.NeedFunc("(*framer).parseFrame")
	pe := p.Func("(*framer).parseErrorFrame")
	if fi == nil || pe == nil {
		if pe == nil {
			r.Unresolved("(*framer).parseErrorFrame not found")
		}
		return
	}
	info := fi.Pkg.TypesInfo
	derived := map[types.Object]bool{}
	mentions := func(e ast.Node) bool {
		hit := false
		ast.Inspect(e, func(x ast.Node) bool {
			switch v := x.(type) {
			case *ast.CallExpr:
				if calleeOf(info, v) == pe.Obj {
					hit = true
				}
			case *ast.Ident:
				if o := info.Uses[v]; o != nil && derived[o] {
					hit = true
				}
			}
			return !hit
		})
		return hit
	}
	for changed := true; changed; {
		changed = false
		ast.Inspect(fi.Decl.Body, func(x ast.Node) bool {
			as, ok := x.(*ast.AssignStmt)
			if !ok {
				return true
			}
			src := false
			for _, rh := range as.Rhs {
				if mentions(rh) {
					src = true
				}
			}
			if !src {
				return true
			}
			for _, l := range as.Lhs {
				if id, isId := l.(*ast.Ident); isId && id.Name != "_" {
					if o := info.ObjectOf(id); o != nil && !derived[o] {
						derived[o] = true
						changed = true
					}
				}
			}
			return true
		})
	}
	n := 0
	inspectNoLit(fi.Decl.Body, func(x ast.Node) bool {
		rs, ok := x.(*ast.ReturnStmt)
		if !ok || len(rs.Results) < 2 {
			return true
		}
		n++
		last := rs.Results[len(rs.Results)-1]
		r.Check(!mentions(last), rs, "(*framer).parseFrame hands a server error back as a frame", "error result independent of parseErrorFrame",
			"parseFrame returns the parsed ERROR frame as its error result ("+exprStr(last)+"): the executors never see it in their type switch, so the UNPREPARED case (evict the cached id, prepare again) is unreachable and the statement fails with the stale id still cached")
		return true
	})
	if n == 0 {
		// named results with bare returns: the error result variable must not be assigned from the error frame
		if fi.Decl.Type.Results != nil {
			for _, f := range fi.Decl.Type.Results.List {
				for _, nm := range f.Names {
					if o := info.Defs[nm]; o != nil && isErrorType(o.Type()) {
						n++
						r.Check(!derived[o], fi.Decl, "(*framer).parseFrame hands a server error back as a frame", "error result independent of parseErrorFrame", "the error result "+nm.Name+" is assigned from the parsed ERROR frame")
					}
				}
			}
		}
	}
	if n == 0 {
		r.Unresolved("parseFrame: no return with an error result found")
	}
}

// c05DebouncersExist: an EVENT frame can arrive on any connection as soon as it is open, and handleEvent hands it to
// the session's event debouncers without a nil test. The debouncers therefore exist before the first connection is
// made: every Session field of type *eventDebouncer that is used without a nil test is assigned by an unconditional,
// top-level statement of NewSession (the constructor), not later in init or under a configuration branch. Otherwise an
// event pushed by the server (or by a peer that is not a Cassandra node) is a nil dereference on a goroutine without a
// recover.
func c05DebouncersExist(p *Program, r *Report) {
	ns := r.NeedFunc("NewSession")
	if ns == nil {
		return
	}
	st := p.NamedType("Session")
	if st == nil {
		r.Unresolved("type Session not found")
		return
	}
	stt, _ := st.Underlying().(*types.Struct)
	n := 0
	for i := 0; stt != nil && i < stt.NumFields(); i++ {
		f := stt.Field(i)
		pt, isPtr := f.Type().(*types.Pointer)
		if !isPtr || typeNameOf(pt.Elem()) != "eventDebouncer" {
			continue
		}
		// used without a nil test somewhere?
		bare := false
		for _, u := range p.SortedFuncs() {
			if u.Decl.Body == nil || u.Pkg != p.Root {
				continue
			}
			info := u.Pkg.TypesInfo
			g := (*Graph)(nil)
			ast.Inspect(u.Decl.Body, func(x ast.Node) bool {
				c, ok := x.(*ast.CallExpr)
				if !ok {
					return true
				}
				rx := recvExpr(c)
				if rx == nil || fieldOf(info, rx) != f {
					return true
				}
				if g == nil {
					g = p.GraphOf(u)
				}
				known := false
				if node, found := g.cfgNodeOf(c); found {
					if fs, ok := g.GuardFacts().Before(node); ok {
						if v, k := fs.Known(&ast.BinaryExpr{X: rx, Op: token.NEQ, Y: ast.NewIdent("nil")}); k && v {
							known = true
						}
					}
				}
				if !known {
					bare = true
				}
				return true
			})
		}
		if !bare {
			continue
		}
		n++
		// assigned at the top level of NewSession
		top := false
		info := ns.Pkg.TypesInfo
		for _, s := range ns.Decl.Body.List {
			if as, ok := s.(*ast.AssignStmt); ok {
				for _, l := range as.Lhs {
					if fieldOf(info, l) == f {
						top = true
					}
				}
			}
		}
		elsewhere := ""
		for _, u := range p.SortedFuncs() {
			if u.Decl.Body == nil || u.Pkg != p.Root || u == ns {
				continue
			}
			ast.Inspect(u.Decl.Body, func(x ast.Node) bool {
				if as, ok := x.(*ast.AssignStmt); ok {
					for _, l := range as.Lhs {
						if fieldOf(u.Pkg.TypesInfo, l) == f {
							elsewhere = u.Name
						}
					}
				}
				return true
			})
		}
		why := "not assigned by a top-level statement of NewSession"
		if elsewhere != "" {
			why += " (assigned in " + elsewhere + ")"
		}
		r.Check(top, ns.Decl, "Session."+f.Name()+" exists before the first connection is made", "assigned unconditionally in NewSession",
			"Session."+f.Name()+" is used without a nil test by the event path but is "+why+": an EVENT frame that arrives before (or without) that assignment is a nil dereference on the event goroutine, which has no recover")
	}
	if n == 0 {
		r.OK(ns.Decl, "no event debouncer of the session is used without a nil test", "nothing to decide")
	}
}
