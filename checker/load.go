package main

import (
	"fmt"
	"go/ast"
	"go/token"
	"go/types"
	"os"
	"sort"
	"strings"

	"golang.org/x/tools/go/packages"
	"golang.org/x/tools/go/ssa"
	"golang.org/x/tools/go/ssa/ssautil"
)

const (
	rootPath    = "github.com/gocql/gocql"
	streamsPath = rootPath + "/internal/streams"
	murmurPath  = rootPath + "/internal/murmur"
	lruPath     = rootPath + "/internal/lru"
	lz4Path     = rootPath + "/lz4"
)

// Variant describes one build configuration of /repo that is analysed.
type Variant struct {
	Name   string
	GOARCH string
	Tags   string
}

var defaultVariant = Variant{Name: "linux/amd64", GOARCH: "amd64"}

// FuncInfo is one source function (declaration) of the analysed packages.
type FuncInfo struct {
	Name string // qualified: "(*Conn).exec", "readHeader", "streams.(*IDGenerator).GetStream"
	Decl *ast.FuncDecl
	Obj  *types.Func
	Pkg  *packages.Package
	g    *Graph
	gi   *Graph // graph with unexported callees inlined (inline.go)
}

// Program is the resolved program: syntax, types, (lazily) SSA.
type Program struct {
	RepoDir string
	Variant Variant
	Fset    *token.FileSet
	Pkgs    []*packages.Package // gocql, lru, murmur, streams, (+lz4)
	Root    *packages.Package
	ByPath  map[string]*packages.Package
	Funcs   map[string]*FuncInfo
	byObj   map[*types.Func]*FuncInfo
	parents map[ast.Node]ast.Node

	postconds        map[*types.Func][]lenPostcond
	postCache        map[postKey]*postInfo
	postBusy         map[*FuncInfo]bool
	resLenCache      map[*FuncInfo][]resLen
	resConstsCache   map[*FuncInfo][]int64
	fieldWritesCache map[*FuncInfo]map[string]bool
	nodeWritesCache  map[ast.Node][]nodeWrite
	resRangeCache    map[*FuncInfo]*resRange
	resBelowCache    map[*FuncInfo]*resBelow
	replayCache      map[*FuncInfo]map[*ast.IndexExpr]*replayVisit
	nonNilVars       map[*types.Var]bool
	postcondBusy     bool

	ssaProg *ssa.Program
	ssaPkgs map[string]*ssa.Package

	NFiles int
}

func goEnv(v Variant) []string {
	env := os.Environ()
	out := env[:0:0]
	for _, e := range env {
		if strings.HasPrefix(e, "GOWORK=") || strings.HasPrefix(e, "GOFLAGS=") || strings.HasPrefix(e, "GOARCH=") ||
			strings.HasPrefix(e, "GOPROXY=") || strings.HasPrefix(e, "GOSUMDB=") || strings.HasPrefix(e, "GOTOOLCHAIN=") ||
			strings.HasPrefix(e, "GOOS=") || strings.HasPrefix(e, "CGO_ENABLED=") {
			continue
		}
		out = append(out, e)
	}
	arch := v.GOARCH
	if arch == "" {
		arch = "amd64"
	}
	out = append(out, "GOWORK=off", "GOFLAGS=-mod=mod", "GOPROXY=off", "GOSUMDB=off", "GOTOOLCHAIN=local",
		"GOOS=linux", "GOARCH="+arch, "CGO_ENABLED=0")
	return out
}

func loadPkgs(dir string, v Variant, patterns ...string) ([]*packages.Package, *token.FileSet, error) {
	fset := token.NewFileSet()
	cfg := &packages.Config{
		Mode:  packages.LoadAllSyntax,
		Dir:   dir,
		Fset:  fset,
		Env:   goEnv(v),
		Tests: false,
	}
	if v.Tags != "" {
		cfg.BuildFlags = []string{"-tags=" + v.Tags}
	}
	pkgs, err := packages.Load(cfg, patterns...)
	if err != nil {
		return nil, nil, err
	}
	var errs []string
	packages.Visit(pkgs, nil, func(p *packages.Package) {
		for _, e := range p.Errors {
			errs = append(errs, e.Error())
		}
	})
	if len(errs) > 0 {
		if len(errs) > 8 {
			errs = errs[:8]
		}
		return nil, nil, fmt.Errorf("load/type errors: %s", strings.Join(errs, "; "))
	}
	return pkgs, fset, nil
}

// Load loads /repo's working tree (root module packages; the lz4 module separately, sharing nothing).
func Load(repo string, v Variant) (*Program, error) {
	pkgs, fset, err := loadPkgs(repo, v, ".", "./internal/...")
	if err != nil {
		return nil, err
	}
	p := &Program{RepoDir: repo, Variant: v, Fset: fset, ByPath: map[string]*packages.Package{},
		Funcs: map[string]*FuncInfo{}, byObj: map[*types.Func]*FuncInfo{}, parents: map[ast.Node]ast.Node{}}
	for _, pk := range pkgs {
		p.ByPath[pk.PkgPath] = pk
		p.Pkgs = append(p.Pkgs, pk)
	}
	p.Root = p.ByPath[rootPath]
	if p.Root == nil {
		return nil, fmt.Errorf("package %s not found under %s", rootPath, repo)
	}
	for _, need := range []string{streamsPath, murmurPath, lruPath} {
		if p.ByPath[need] == nil {
			return nil, fmt.Errorf("package %s not loaded", need)
		}
	}
	sort.Slice(p.Pkgs, func(i, j int) bool { return p.Pkgs[i].PkgPath < p.Pkgs[j].PkgPath })
	p.index()
	p.indexForwarders()
	return p, nil
}

// forwardOf: unexported functions of the root package whose whole body is `return x.m(params...)` with m a method
// of one of the package's interfaces and the parameters passed on unchanged and in order. A call of such a function
// is named (calleeName) like the interface method it stands for, so that the rules written about that method also
// see it behind a one-line wrapper.
var forwardOf = map[*types.Func]*types.Func{}

func (p *Program) indexForwarders() {
	forwardOf = map[*types.Func]*types.Func{}
	for _, fi := range p.Funcs {
		if fi.Pkg != p.Root || fi.Decl.Body == nil || fi.Obj.Exported() || len(fi.Decl.Body.List) != 1 {
			continue
		}
		rs, ok := fi.Decl.Body.List[0].(*ast.ReturnStmt)
		if !ok || len(rs.Results) != 1 {
			continue
		}
		c, ok := ast.Unparen(rs.Results[0]).(*ast.CallExpr)
		if !ok {
			continue
		}
		info := fi.Pkg.TypesInfo
		target := calleeOf(info, c)
		if target == nil || target.Pkg() != fi.Pkg.Types {
			continue
		}
		sig, _ := target.Type().(*types.Signature)
		if sig == nil || sig.Recv() == nil || !types.IsInterface(sig.Recv().Type()) {
			continue
		}
		same := true
		for i, a := range c.Args {
			po := paramObj(info, fi.Decl.Type, i)
			if po == nil || !isIdentOf(info, a, po) {
				same = false
			}
		}
		if same && len(c.Args) > 0 && paramObj(info, fi.Decl.Type, len(c.Args)) == nil {
			forwardOf[fi.Obj] = target
		}
	}
}

// LoadLZ4 loads the separate lz4 module into its own Program.
func LoadLZ4(repo string, v Variant) (*Program, error) {
	pkgs, fset, err := loadPkgs(repo+"/lz4", v, ".")
	if err != nil {
		return nil, err
	}
	p := &Program{RepoDir: repo, Variant: v, Fset: fset, ByPath: map[string]*packages.Package{},
		Funcs: map[string]*FuncInfo{}, byObj: map[*types.Func]*FuncInfo{}, parents: map[ast.Node]ast.Node{}}
	for _, pk := range pkgs {
		p.ByPath[pk.PkgPath] = pk
		p.Pkgs = append(p.Pkgs, pk)
	}
	p.Root = p.ByPath[lz4Path]
	if p.Root == nil {
		return nil, fmt.Errorf("package %s not found", lz4Path)
	}
	p.index()
	return p, nil
}

func pkgShort(path string) string {
	switch path {
	case rootPath, lz4Path:
		return ""
	}
	if i := strings.LastIndex(path, "/"); i >= 0 {
		return path[i+1:] + "."
	}
	return path + "."
}

func funcQualName(fn *types.Func) string {
	sig := fn.Type().(*types.Signature)
	prefix := ""
	if fn.Pkg() != nil {
		prefix = pkgShort(fn.Pkg().Path())
	}
	if recv := sig.Recv(); recv != nil {
		t := recv.Type()
		ptr := false
		if pt, ok := t.(*types.Pointer); ok {
			t = pt.Elem()
			ptr = true
		}
		name := "?"
		if nt, ok := t.(*types.Named); ok {
			name = nt.Obj().Name()
		}
		if ptr {
			return fmt.Sprintf("%s(*%s).%s", prefix, name, fn.Name())
		}
		return fmt.Sprintf("%s(%s).%s", prefix, name, fn.Name())
	}
	return prefix + fn.Name()
}

func (p *Program) index() {
	for _, pk := range p.Pkgs {
		for _, f := range pk.Syntax {
			p.NFiles++
			var stack []ast.Node
			ast.Inspect(f, func(n ast.Node) bool {
				if n == nil {
					stack = stack[:len(stack)-1]
					return true
				}
				if len(stack) > 0 {
					p.parents[n] = stack[len(stack)-1]
				}
				stack = append(stack, n)
				return true
			})
			for _, d := range f.Decls {
				fd, ok := d.(*ast.FuncDecl)
				if !ok {
					continue
				}
				obj, _ := pk.TypesInfo.Defs[fd.Name].(*types.Func)
				if obj == nil {
					continue
				}
				fi := &FuncInfo{Name: funcQualName(obj), Decl: fd, Obj: obj, Pkg: pk}
				if (fd.Name.Name == "init" && fd.Recv == nil) || fd.Name.Name == "_" {
					continue
				}
				p.Funcs[fi.Name] = fi
				p.byObj[obj] = fi
			}
		}
	}
}

// Parent returns the syntactic parent of n.
func (p *Program) Parent(n ast.Node) ast.Node { return p.parents[n] }

// Func resolves a qualified function name; nil if missing.
func (p *Program) Func(name string) *FuncInfo { return p.Funcs[name] }

// FuncOf returns the FuncInfo declaring obj, if it is a source function of the analysed packages.
func (p *Program) FuncOf(obj *types.Func) *FuncInfo {
	if obj == nil {
		return nil
	}
	if fi := p.byObj[obj]; fi != nil {
		return fi
	}
	if o := obj.Origin(); o != nil {
		return p.byObj[o]
	}
	return nil
}

// Info returns the types.Info of the package containing node position pos.
func (p *Program) InfoFor(fi *FuncInfo) *types.Info { return fi.Pkg.TypesInfo }

func (p *Program) Pos(n ast.Node) string {
	if n == nil {
		return "?"
	}
	return p.PosOf(n.Pos())
}

func (p *Program) PosOf(pos token.Pos) string {
	if !pos.IsValid() {
		return "?"
	}
	ps := p.Fset.Position(pos)
	f := ps.Filename
	if strings.HasPrefix(f, p.RepoDir+"/") {
		f = f[len(p.RepoDir)+1:]
	}
	return fmt.Sprintf("%s:%d", f, ps.Line)
}

// SortedFuncs returns all functions in deterministic order.
func (p *Program) SortedFuncs() []*FuncInfo {
	out := make([]*FuncInfo, 0, len(p.Funcs))
	for _, f := range p.Funcs {
		out = append(out, f)
	}
	sort.Slice(out, func(i, j int) bool { return out[i].Name < out[j].Name })
	return out
}

// SSA builds (once) the SSA form of the loaded packages.
func (p *Program) SSA() *ssa.Program {
	if p.ssaProg != nil {
		return p.ssaProg
	}
	prog, pkgs := ssautil.AllPackages(p.Pkgs, ssa.InstantiateGenerics)
	prog.Build()
	p.ssaProg = prog
	p.ssaPkgs = map[string]*ssa.Package{}
	for _, sp := range pkgs {
		if sp != nil {
			p.ssaPkgs[sp.Pkg.Path()] = sp
		}
	}
	return prog
}

// SSAFunc returns the SSA function for a source function.
func (p *Program) SSAFunc(fi *FuncInfo) *ssa.Function {
	return p.SSA().FuncValue(fi.Obj)
}

// NamedType looks a named type up in the root package (or "pkg.Name" for internals).
func (p *Program) NamedType(name string) *types.Named {
	pk := p.Root
	if i := strings.Index(name, "."); i >= 0 {
		for _, c := range p.Pkgs {
			if c.Name == name[:i] {
				pk = c
			}
		}
		name = name[i+1:]
	}
	obj := pk.Types.Scope().Lookup(name)
	if obj == nil {
		return nil
	}
	nt, _ := obj.Type().(*types.Named)
	return nt
}

// Field resolves "Type.field" to its *types.Var.
func (p *Program) Field(typeName, field string) *types.Var {
	nt := p.NamedType(typeName)
	if nt == nil {
		return nil
	}
	st, ok := nt.Underlying().(*types.Struct)
	if !ok {
		return nil
	}
	for i := 0; i < st.NumFields(); i++ {
		if st.Field(i).Name() == field {
			return st.Field(i)
		}
	}
	// a field promoted from an embedded struct (fields grouped into an unexported struct keep their selectors)
	var pkg *types.Package
	if n, isN := interface{}(nt).(*types.Named); isN && n.Obj() != nil {
		pkg = n.Obj().Pkg()
	}
	if obj, _, _ := types.LookupFieldOrMethod(nt, true, pkg, field); obj != nil {
		if v, isVar := obj.(*types.Var); isVar && v.IsField() {
			return v
		}
	}
	return nil
}
