package main

import (
	"go/ast"
	"go/constant"
	"go/token"
	"go/types"
	"sort"
	"strconv"
	"strings"
)

// Guard facts: a forward must-analysis of boolean atoms known true/false at a
// program point. Atoms are canonicalised expression strings:
//   a != b  -> !(a == b);  a > b -> b < a;  a >= b -> !(a < b);  a <= b -> !(b < a)
// Facts are killed when an lvalue they mention is assigned, and facts about
// fields reached through X are killed when X.<mutex>.Unlock()/RUnlock() is called.

type Facts struct {
	m    map[string]bool    // atom -> truth
	rel  map[string]relAtom // relational atoms ("a < b", "a == b") with their operand syntax
	info *types.Info
	dead bool // the program point is unreachable (a constant branch condition contradicts the edge)
	// pend: facts that become known when a boolean variable is tested: `a, b, ok := helper(x)` records what the
	// helper guarantees when it returns ok == true / false; key "<ok> ⇒T: <atom>" / "<ok> ⇒F: <atom>"
	pend map[string]pendAtom
	// bexp: the expression of a non-relational boolean atom (c.closed, f(x)), for instantiating it elsewhere
	bexp map[string]ast.Expr
	// strict: a branch condition that contradicts a known fact makes the state dead (inlined graphs, where the facts
	// about a helper's result make some branches after the call infeasible)
	strict bool
	// nand: pairs of simple conditions known not to hold together (`if a && b { return }` fell through): as soon as
	// one becomes known true the other is known false
	nand map[string][2]ast.Expr
	// vals: integer variables known to hold one of a few constants (the result of a helper that returns constants)
	vals map[string][]int64
	// stale: boolean locals that were computed from fields of an object whose mutex was released afterwards: they no
	// longer stand for the condition they were computed from
	stale map[string]bool
}

type pendAtom struct {
	v    string // the boolean variable
	when bool
	ra   relAtom
	val  bool
}

// relAtom keeps the operands of a canonical relational atom.
type relAtom struct {
	Op   token.Token // token.LSS or token.EQL
	X, Y ast.Expr
}

func (f Facts) clone() Facts {
	n := Facts{m: make(map[string]bool, len(f.m)+2), rel: make(map[string]relAtom, len(f.rel)+2), info: f.info, dead: f.dead, strict: f.strict}
	for k, v := range f.m {
		n.m[k] = v
	}
	for k, v := range f.rel {
		n.rel[k] = v
	}
	if len(f.pend) > 0 {
		n.pend = make(map[string]pendAtom, len(f.pend))
		for k, v := range f.pend {
			n.pend[k] = v
		}
	}
	if len(f.stale) > 0 {
		n.stale = make(map[string]bool, len(f.stale))
		for k := range f.stale {
			n.stale[k] = true
		}
	}
	if len(f.vals) > 0 {
		n.vals = make(map[string][]int64, len(f.vals))
		for k, v := range f.vals {
			n.vals[k] = v
		}
	}
	if len(f.nand) > 0 {
		n.nand = make(map[string][2]ast.Expr, len(f.nand))
		for k, v := range f.nand {
			n.nand[k] = v
		}
	}
	if len(f.bexp) > 0 {
		n.bexp = make(map[string]ast.Expr, len(f.bexp))
		for k, v := range f.bexp {
			n.bexp[k] = v
		}
	}
	return n
}

// canonAtom returns the canonical atom for comparison e and whether truth must be flipped.
func canonAtom(info *types.Info, e ast.Expr) (atom string, flip bool) {
	e = ast.Unparen(e)
	if b, ok := e.(*ast.BinaryExpr); ok {
		x, y := normStr(info, b.X), normStr(info, b.Y)
		switch b.Op {
		case token.EQL:
			if y < x && y != "nil" || x == "nil" {
				x, y = y, x
			}
			return x + " == " + y, false
		case token.NEQ:
			if y < x && y != "nil" || x == "nil" {
				x, y = y, x
			}
			return x + " == " + y, true
		case token.LSS:
			return x + " < " + y, false
		case token.GEQ:
			return x + " < " + y, true
		case token.GTR:
			return y + " < " + x, false
		case token.LEQ:
			return y + " < " + x, true
		}
	}
	return normStr(info, e), false
}

// normStr renders e with value-preserving integer conversions removed (int(x) where x is a
// narrower or equally wide integer of compatible signedness), so that `len(b) < int(size)` and
// `b[:size]` talk about the same quantity.
func normStr(info *types.Info, e ast.Expr) string {
	if info == nil {
		return exprStr(e)
	}
	return exprStr(stripWidening(info, e))
}

func intInfo(t types.Type) (bits int, unsigned, ok bool) {
	b, isB := t.Underlying().(*types.Basic)
	if !isB || b.Info()&types.IsInteger == 0 {
		return 0, false, false
	}
	switch b.Kind() {
	case types.Int8:
		return 8, false, true
	case types.Int16:
		return 16, false, true
	case types.Int32:
		return 32, false, true
	case types.Int64:
		return 64, false, true
	case types.Int:
		return 63, false, true // at least 32; treated as wider than int32, not wider than int64
	case types.Uint8:
		return 8, true, true
	case types.Uint16:
		return 16, true, true
	case types.Uint32:
		return 32, true, true
	case types.Uint64, types.Uintptr:
		return 64, true, true
	case types.Uint:
		return 63, true, true
	case types.UntypedInt:
		return 64, false, true
	}
	return 0, false, false
}

// stripWidening returns e without outer value-preserving conversions, recursively in binary expressions.
func stripWidening(info *types.Info, e ast.Expr) ast.Expr {
	e = ast.Unparen(e)
	switch x := e.(type) {
	case *ast.CallExpr:
		if len(x.Args) == 1 {
			if tv, ok := info.Types[x.Fun]; ok && tv.IsType() {
				tb, tu, ok1 := intInfo(tv.Type)
				st := info.TypeOf(x.Args[0])
				if st != nil && ok1 {
					sb, su, ok2 := intInfo(st)
					if ok2 {
						// value preserving: same signedness and target at least as wide; or unsigned -> strictly wider signed
						wideInt := func(b int) int {
							if b == 63 {
								return 32 // int/uint may be 32-bit
							}
							return b
						}
						if su == tu && wideInt(tb) >= sb && !(sb == 63 && tb != 63 && tb < 64) || su && !tu && wideInt(tb) > sb {
							return stripWidening(info, x.Args[0])
						}
					}
				}
			}
		}
	case *ast.BinaryExpr:
		return &ast.BinaryExpr{X: stripWidening(info, x.X), Op: x.Op, Y: stripWidening(info, x.Y), OpPos: x.OpPos}
	}
	return e
}

// assume adds the knowledge "e evaluates to val".
func (f *Facts) assume(e ast.Expr, val bool) {
	e = ast.Unparen(e)
	switch x := e.(type) {
	case *ast.UnaryExpr:
		if x.Op == token.NOT {
			f.assume(x.X, !val)
			return
		}
	case *ast.BinaryExpr:
		switch x.Op {
		case token.LAND:
			if val {
				f.assume(x.X, true)
				f.assume(x.Y, true)
			} else if k, ok := f.Known(x.X); ok && k {
				f.assume(x.Y, false)
			} else if k, ok := f.Known(x.Y); ok && k {
				f.assume(x.X, false)
			} else if isSimpleCond(x.X) && isSimpleCond(x.Y) {
				if f.nand == nil {
					f.nand = map[string][2]ast.Expr{}
				}
				f.nand[exprStr(x.X)+" ∧ "+exprStr(x.Y)] = [2]ast.Expr{x.X, x.Y}
			}
			return
		case token.LOR:
			if !val {
				f.assume(x.X, false)
				f.assume(x.Y, false)
			} else if k, ok := f.Known(x.X); ok && !k {
				f.assume(x.Y, true)
			} else if k, ok := f.Known(x.Y); ok && !k {
				f.assume(x.X, true)
			}
			return
		}
	}
	if tv, ok := f.info.Types[e]; ok && tv.Value != nil && tv.Value.Kind() == constant.Bool {
		if constant.BoolVal(tv.Value) != val {
			f.dead = true
		}
		return
	}
	atom, flip := canonAtom(f.info, e)
	if old, known := f.m[atom]; known && old != (val != flip) && f.strict {
		f.dead = true // the condition contradicts what is known: this edge is infeasible
		return
	}
	f.m[atom] = val != flip
	if ra, ok := canonRel(f.info, e); ok {
		f.rel[atom] = ra
		if f.strict && ra.Op == token.EQL && val != flip {
			// x == c1 and x == c2 with different constants cannot both hold
			for _, pr := range [][2]ast.Expr{{ra.X, ra.Y}, {ra.Y, ra.X}} {
				c1, isC := constInt(f.info, pr[1])
				if !isC {
					continue
				}
				xs := normStr(f.info, pr[0])
				for a2, r2 := range f.rel {
					if a2 == atom || r2.Op != token.EQL || !f.m[a2] {
						continue
					}
					for _, q := range [][2]ast.Expr{{r2.X, r2.Y}, {r2.Y, r2.X}} {
						if c2, isC2 := constInt(f.info, q[1]); isC2 && c2 != c1 && normStr(f.info, q[0]) == xs {
							f.dead = true
						}
					}
				}
			}
		}
		if ra.Op == token.EQL && len(f.vals) > 0 {
			f.refineVals(ra, val != flip)
		}
	} else if !flip {
		if f.bexp == nil {
			f.bexp = map[string]ast.Expr{}
		}
		f.bexp[atom] = e
	}
	for k, pr := range f.nand {
		for i := 0; i < 2; i++ {
			if kv, ok := f.Known(pr[i]); ok && kv {
				delete(f.nand, k)
				f.assume(pr[1-i], false)
				break
			}
		}
	}
	// x == nil decided and x ≡ y: y == nil is decided too
	if strings.HasSuffix(atom, " == nil") {
		x := strings.TrimSuffix(atom, " == nil")
		for k, v := range f.m {
			if v && strings.HasPrefix(k, x+" ≡ ") {
				f.m[strings.TrimPrefix(k, x+" ≡ ")+" == nil"] = val != flip
			}
		}
	}
}

// setRel records a synthetic relational fact x op y = val.
func (f *Facts) setRel(op token.Token, x, y ast.Expr, val bool) {
	atom := normStr(f.info, x) + " " + op.String() + " " + normStr(f.info, y)
	f.m[atom] = val
	f.rel[atom] = relAtom{Op: op, X: x, Y: y}
}

// canonRel mirrors canonAtom for the operand syntax.
func canonRel(info *types.Info, e ast.Expr) (relAtom, bool) {
	b, ok := ast.Unparen(e).(*ast.BinaryExpr)
	if !ok {
		return relAtom{}, false
	}
	x, y := normStr(info, b.X), normStr(info, b.Y)
	switch b.Op {
	case token.EQL, token.NEQ:
		if y < x && y != "nil" || x == "nil" {
			return relAtom{token.EQL, b.Y, b.X}, true
		}
		return relAtom{token.EQL, b.X, b.Y}, true
	case token.LSS, token.GEQ:
		return relAtom{token.LSS, b.X, b.Y}, true
	case token.GTR, token.LEQ:
		return relAtom{token.LSS, b.Y, b.X}, true
	}
	return relAtom{}, false
}

// Known reports the truth of expression string (Go syntax, e.g. "c.closed", "n < 0") if known.
func (f Facts) Known(e ast.Expr) (bool, bool) {
	e = ast.Unparen(e)
	if u, ok := e.(*ast.UnaryExpr); ok && u.Op == token.NOT {
		v, ok := f.Known(u.X)
		return !v, ok
	}
	if b, ok := e.(*ast.BinaryExpr); ok {
		switch b.Op {
		case token.LAND:
			l, lok := f.Known(b.X)
			r, rok := f.Known(b.Y)
			if lok && rok {
				return l && r, true
			}
			if lok && !l || rok && !r {
				return false, true
			}
			return false, false
		case token.LOR:
			l, lok := f.Known(b.X)
			r, rok := f.Known(b.Y)
			if lok && rok {
				return l || r, true
			}
			if lok && l || rok && r {
				return true, true
			}
			return false, false
		}
	}
	if f.info != nil {
		if tv, ok := f.info.Types[e]; ok && tv.Value != nil && tv.Value.Kind() == constant.Bool {
			return constant.BoolVal(tv.Value), true
		}
	}
	atom, flip := canonAtom(f.info, e)
	v, ok := f.m[atom]
	return v != flip, ok
}

// KnownStr is Known for an atom given as canonical source text, e.g. "c.closed" or "x == nil".
func (f Facts) KnownStr(atom string) (bool, bool) {
	v, ok := f.m[atom]
	return v, ok
}

func mentions(atom, lv string) bool {
	// token-wise containment of lv (as identifier/selector chain) in atom
	idx := 0
	for {
		i := strings.Index(atom[idx:], lv)
		if i < 0 {
			return false
		}
		i += idx
		before := i == 0 || !isIdentChar(atom[i-1]) && atom[i-1] != '.'
		j := i + len(lv)
		after := j == len(atom) || !isIdentChar(atom[j])
		if before && after {
			return true
		}
		idx = i + 1
	}
}

func isIdentChar(c byte) bool {
	return c == '_' || c >= '0' && c <= '9' || c >= 'a' && c <= 'z' || c >= 'A' && c <= 'Z'
}

func (f *Facts) kill(lv string) {
	for k := range f.m {
		if mentions(k, lv) {
			delete(f.m, k)
			delete(f.rel, k)
			delete(f.bexp, k)
		}
	}
	for k := range f.pend {
		if mentions(k, lv) {
			delete(f.pend, k)
		}
	}
	for k := range f.nand {
		if mentions(k, lv) {
			delete(f.nand, k)
		}
	}
	for k := range f.vals {
		if mentions(k, lv) {
			delete(f.vals, k)
		}
	}
	delete(f.stale, lv)
}

// refineVals: x == c decided for a variable with a known finite value set.
func (f *Facts) refineVals(ra relAtom, val bool) {
	for _, pr := range [][2]ast.Expr{{ra.X, ra.Y}, {ra.Y, ra.X}} {
		name := normStr(f.info, pr[0])
		set, ok := f.vals[name]
		if !ok {
			continue
		}
		c, isC := constInt(f.info, pr[1])
		if !isC {
			if lit, isL := pr[1].(*ast.BasicLit); isL {
				if v, err := strconv.ParseInt(lit.Value, 0, 64); err == nil {
					c, isC = v, true
				}
			}
		}
		if !isC {
			continue
		}
		var nset []int64
		for _, v := range set {
			if (v == c) == val {
				nset = append(nset, v)
			}
		}
		if len(nset) == 0 {
			if f.strict {
				f.dead = true
			}
			return
		}
		f.vals[name] = nset
		if len(nset) == 1 && !val {
			f.setRel(token.EQL, pr[0], &ast.BasicLit{Kind: token.INT, Value: fmtInt(int(nset[0]))}, true)
		}
		if len(nset) > 1 {
			// tighter bounds
			f.setRel(token.LSS, pr[0], &ast.BasicLit{Kind: token.INT, Value: fmtInt(int(nset[0]))}, false)
			f.setRel(token.LSS, &ast.BasicLit{Kind: token.INT, Value: fmtInt(int(nset[len(nset)-1]))}, pr[0], false)
		}
		return
	}
}

func (f *Facts) killPrefix(prefix string) {
	for k := range f.m {
		if mentions(k, prefix) {
			delete(f.m, k)
		}
	}
}

func isMutexMethod(name string) (lockKind string, ok bool) {
	switch name {
	case "sync.(*Mutex).Lock", "sync.(*RWMutex).Lock":
		return "Lock", true
	case "sync.(*Mutex).Unlock", "sync.(*RWMutex).Unlock":
		return "Unlock", true
	case "sync.(*RWMutex).RLock":
		return "RLock", true
	case "sync.(*RWMutex).RUnlock":
		return "RUnlock", true
	}
	return "", false
}

// GuardFacts solves the guard-fact analysis for g.
func (g *Graph) GuardFacts() *Solution[Facts] {
	if g.factsCache != nil && !g.P.postcondBusy {
		return g.factsCache
	}
	sol := g.guardFacts()
	if !g.P.postcondBusy {
		g.factsCache = sol
	}
	return sol
}

func (g *Graph) guardFacts() *Solution[Facts] {
	return Solve(g, g.factsLattice())
}

// FactsPS is a bounded disjunction of fact states (path-sensitive facts): a property holds at a point when it
// holds in every disjunct. Used where the plain intersection at joins loses a correlation between two tests.
type FactsPS []Facts

const maxDisjuncts = 8

func factsKey(f Facts) string {
	ks := make([]string, 0, len(f.m))
	for k, v := range f.m {
		if v {
			ks = append(ks, "+"+k)
		} else {
			ks = append(ks, "-"+k)
		}
	}
	sort.Strings(ks)
	return strings.Join(ks, ";")
}

// GuardFactsPS solves the guard-fact analysis path-sensitively (up to maxDisjuncts states per point).
func (g *Graph) GuardFactsPS() *Solution[FactsPS] {
	if g.factsPSCache != nil {
		return g.factsPSCache
	}
	g.factsPSCache = g.guardFactsPS(nil)
	return g.factsPSCache
}

// GuardFactsPSAbout is GuardFactsPS restricted to the atoms keep accepts (what the other atoms say is forgotten after
// every step): the disjuncts then differ only in what the rule asks about, so the bound on their number is not used up
// by unrelated case distinctions. Not cached.
func (g *Graph) GuardFactsPSAbout(keep func(atom string) bool) *Solution[FactsPS] {
	return g.guardFactsPS(keep)
}

func (g *Graph) guardFactsPS(keep func(atom string) bool) *Solution[FactsPS] {
	base := g.factsLattice()
	if keep != nil {
		inner := base.Step
		base.Step = func(f Facts, st Step) Facts {
			n := inner(f, st)
			drop := false
			for k := range n.m {
				if !keep(k) {
					drop = true
					break
				}
			}
			if !drop {
				return n
			}
			n = n.clone()
			for k := range n.m {
				if !keep(k) {
					delete(n.m, k)
					delete(n.rel, k)
					delete(n.bexp, k)
				}
			}
			return n
		}
	}
	norm := func(in FactsPS) FactsPS {
		seen := map[string]bool{}
		var out FactsPS
		for _, f := range in {
			if f.dead {
				continue
			}
			k := factsKey(f)
			if seen[k] {
				continue
			}
			seen[k] = true
			out = append(out, f)
		}
		sort.Slice(out, func(i, j int) bool { return factsKey(out[i]) < factsKey(out[j]) })
		for len(out) > maxDisjuncts {
			// fold the two states that agree on the most atoms (what distinguishes the others is kept)
			bi, bj, best := 0, 1, -1
			for i := 0; i < len(out); i++ {
				for j := i + 1; j < len(out); j++ {
					common, diff := 0, 0
					for k, v := range out[i].m {
						if w, ok := out[j].m[k]; ok && w == v {
							common++
						} else {
							diff++
						}
					}
					for k := range out[j].m {
						if _, ok := out[i].m[k]; !ok {
							diff++
						}
					}
					if score := common*4 - diff; score > best {
						bi, bj, best = i, j, score
					}
				}
			}
			out[bi] = base.Join(out[bi], out[bj])
			out = append(out[:bj], out[bj+1:]...)
		}
		return out
	}
	l := Lattice[FactsPS]{
		Init: FactsPS{func() Facts { i := base.Init.clone(); i.strict = true; return i }()},
		Join: func(a, b FactsPS) FactsPS { return norm(append(append(FactsPS{}, a...), b...)) },
		Widen: func(a, b FactsPS) FactsPS {
			// fold everything into one state and widen it: guarantees termination on loops
			all := append(append(FactsPS{}, a...), b...)
			if len(all) == 0 {
				return all
			}
			acc := all[0]
			for _, f := range all[1:] {
				acc = base.Widen(acc, f)
			}
			return FactsPS{acc}
		},
		Eq: func(a, b FactsPS) bool {
			if len(a) != len(b) {
				return false
			}
			for i := range a {
				if !base.Eq(a[i], b[i]) {
					return false
				}
			}
			return true
		},
		Step: func(s FactsPS, st Step) FactsPS {
			out := make(FactsPS, 0, len(s))
			for _, f := range s {
				if st.Kind == StCond {
					out = append(out, splitCond(g, base, f, st, st.Node.(ast.Expr), st.Val, 0)...)
					continue
				}
				out = append(out, base.Step(f, st))
			}
			return norm(out)
		},
	}
	return Solve(g, l)
}

// KnownAll reports the truth of e when it is the same in every disjunct.
func (ps FactsPS) KnownAll(e ast.Expr) (bool, bool) {
	if len(ps) == 0 {
		return false, false
	}
	v0, ok := ps[0].Known(e)
	if !ok {
		return false, false
	}
	for _, f := range ps[1:] {
		v, ok := f.Known(e)
		if !ok || v != v0 {
			return false, false
		}
	}
	return v0, true
}

func (g *Graph) factsLattice() Lattice[Facts] {
	info := g.Info
	l := Lattice[Facts]{
		Dead:  func(f Facts) bool { return f.dead },
		Init:  Facts{m: map[string]bool{}, rel: map[string]relAtom{}, info: info, strict: g.inl != nil},
		Join:  func(a, b Facts) Facts { return joinFacts(g, a, b, false) },
		Widen: func(a, b Facts) Facts { return joinFacts(g, a, b, true) },
		Eq: func(a, b Facts) bool {
			if a.dead != b.dead {
				return false
			}
			if len(a.m) != len(b.m) {
				return false
			}
			for k, v := range a.m {
				if bv, ok := b.m[k]; !ok || bv != v {
					return false
				}
			}
			if len(a.pend) != len(b.pend) || len(a.nand) != len(b.nand) || len(a.vals) != len(b.vals) || len(a.stale) != len(b.stale) {
				return false
			}
			for k := range a.stale {
				if !b.stale[k] {
					return false
				}
			}
			for k, av := range a.vals {
				bv, ok := b.vals[k]
				if !ok || len(av) != len(bv) {
					return false
				}
				for i := range av {
					if av[i] != bv[i] {
						return false
					}
				}
			}
			for k := range a.nand {
				if _, ok := b.nand[k]; !ok {
					return false
				}
			}
			for k := range a.pend {
				if _, ok := b.pend[k]; !ok {
					return false
				}
			}
			return true
		},
		Step: func(s Facts, st Step) Facts {
			if s.dead {
				return s
			}
			switch st.Kind {
			case StCond:
				if tv, ok := info.Types[st.Node.(ast.Expr)]; ok && tv.Value != nil && tv.Value.Kind() == constant.Bool {
					if constant.BoolVal(tv.Value) != st.Val {
						n := s.clone()
						n.dead = true
						return n
					}
					return s
				}
				n := s.clone()
				n.assume(st.Node.(ast.Expr), st.Val)
				g.P.applyCondPost(info, &n, st.Node.(ast.Expr), st.Val)
				n.applyPending(st.Node.(ast.Expr), st.Val)
				// boolean locals that name a condition (ok := a && b; if !ok || other {...}): the named conditions are
				// decided too (the condition is assumed once more with such locals replaced by their definitions)
				if g.Fi != nil {
					if ex, changed := expandBoolLocals(g, st.Node.(ast.Expr), 0, s.stale); changed {
						n.assume(ex, st.Val)
					}
				}
				// `_, ok := m[k]` ... `if ok` / `if !ok`: also record the membership atom "m[k]"
				{
					ce, val := ast.Unparen(st.Node.(ast.Expr)), st.Val
					for {
						if u, isU := ce.(*ast.UnaryExpr); isU && u.Op == token.NOT {
							ce, val = ast.Unparen(u.X), !val
							continue
						}
						break
					}
					if id, isId := ce.(*ast.Ident); isId {
						if ix := commaOkSource(g, info, id, st.Node); ix != nil {
							n.m[exprStr(ix)] = val
						}
					}
				}
				if call, trueErr := g.P.errCheckOf(info, st.Node.(ast.Expr)); call != nil && st.Val != trueErr {
					g.P.applyLenPostcond(info, &n, call)
				}
				return n
			case StComm:
				// `case <-ctx.Done():` taken: the context has ended (its Err() is non-nil from here on)
				if cc, ok := st.Clause.(*ast.CommClause); ok && cc.Comm != nil {
					if ch := recvChan(cc.Comm); ch != nil {
						if c, isC := ast.Unparen(ch).(*ast.CallExpr); isC && len(c.Args) == 0 {
							if sel, isSel := ast.Unparen(c.Fun).(*ast.SelectorExpr); isSel && sel.Sel.Name == "Done" {
								n := s.clone()
								n.m["fired:"+exprStr(sel.X)] = true
								return n
							}
						}
					}
				}
				return s
			case StCase:
				n := s.clone()
				be := &ast.BinaryExpr{X: st.Tag, Op: token.EQL, Y: st.Node.(ast.Expr)}
				atom, flip := canonAtom(info, be)
				n.m[atom] = st.Val != flip
				if ra, ok := canonRel(info, be); ok {
					n.rel[atom] = ra
				}
				return n
			case StTypeCase:
				cc := st.Clause.(*ast.CaseClause)
				sw := st.Node.(*ast.TypeSwitchStmt)
				n := s.clone()
				subj := typeSwitchSubject(sw)
				for _, t := range cc.List {
					if len(cc.List) == 1 {
						n.m["type("+subj+") == "+exprStr(t)] = true
					}
				}
				return n
			case StRange:
				rs, ok := st.Node.(*ast.RangeStmt)
				if !ok {
					return s
				}
				n := s.clone()
				for _, l := range []ast.Expr{rs.Key, rs.Value} {
					if id, ok := l.(*ast.Ident); ok && id.Name != "_" {
						n.kill(id.Name)
					}
				}
				if st.Val {
					if id, ok := rs.Key.(*ast.Ident); ok && id.Name != "_" {
						if t := info.TypeOf(rs.X); t != nil {
							switch t.Underlying().(type) {
							case *types.Slice, *types.Array, *types.Basic:
								n.setRel(token.LSS, id, &ast.CallExpr{Fun: ast.NewIdent("len"), Args: []ast.Expr{rs.X}}, true)
								n.setRel(token.LSS, id, &ast.BasicLit{Kind: token.INT, Value: "0"}, false)
							}
						}
					}
				}
				return n
			case StNode:
				if _, isRange := st.Node.(*ast.RangeStmt); isRange {
					return s
				}
				if g.inl != nil && g.inl.bound[st.Node] {
					return s // the values were bound at the returns of the expanded helper
				}
				// calls of functions of the module may assign fields: facts about fields of those names are stale
				if ws := g.P.nodeFieldWrites(info, st.Node); len(ws) > 0 {
					var stale []string
					for k := range s.m {
					nextAtom:
						for _, w := range ws {
							for _, root := range w.roots {
								if !mentions(k, root) {
									continue
								}
								for fld := range w.fields {
									if mentionsField(k, fld) {
										stale = append(stale, k)
										break nextAtom
									}
								}
							}
						}
					}
					if len(stale) > 0 {
						s = s.clone()
						for _, k := range stale {
							delete(s.m, k)
							delete(s.rel, k)
							delete(s.bexp, k)
						}
					}
				}
				if name, marked := g.markNodes[st.Node]; marked {
					s = s.clone()
					s.m["§"+name] = true
				}
				if names, un := g.unmarkNodes[st.Node]; un {
					for _, name := range strings.Split(names, ",") {
						if s.m["§"+name] {
							s = s.clone()
							delete(s.m, "§"+name)
						}
					}
				}
				lhs := assignedLHS(st.Node)
				var unlockRoots []string
				for _, c := range callsIn(st.Node) {
					if kind, ok := isMutexMethod(calleeName(info, c)); ok && (kind == "Unlock" || kind == "RUnlock") {
						if _, isDefer := st.Node.(*ast.DeferStmt); isDefer {
							continue
						}
						if r := recvExpr(c); r != nil {
							// c.mu.Unlock(): facts about c.* become stale
							if sel, ok := ast.Unparen(r).(*ast.SelectorExpr); ok {
								unlockRoots = append(unlockRoots, exprStr(sel.X)+".")
							}
						}
					}
				}
				if len(lhs) == 0 && len(unlockRoots) == 0 {
					// `x, ok := m[k]` etc. handled through lhs; nothing to kill
					if _, isExpr := st.Node.(*ast.ExprStmt); isExpr {
						n := s.clone()
						before := len(n.m)
						g.P.applyCalleePost(info, &n, st.Node)
						if len(n.m) != before {
							return n
						}
					}
					return s
				}
				n := s.clone()
				// x += k: what was known about x relative to other terms holds shifted by k
				type shifted struct {
					u, v ast.Expr
					w    int
				}
				var carry []shifted
				inLoop := func(n ast.Node) bool {
					for cur := g.P.Parent(n); cur != nil; cur = g.P.Parent(cur) {
						switch cur.(type) {
						case *ast.ForStmt, *ast.RangeStmt:
							return true
						case *ast.FuncDecl, *ast.FuncLit:
							return false
						}
					}
					return false
				}
				// (not for loop counters: their bounds come from the loop condition, and shifting them never settles)
				if xid, delta, isDelta := stepDelta(info, st.Node); isDelta && len(s.rel) > 0 && len(s.rel) < 40 && !inLoop(st.Node) {
					if t := info.TypeOf(xid); t != nil {
						if _, _, isInt := intInfo(t); isInt {
							d := newDBM(g, s, nil)
							terms := map[string]ast.Expr{zeroNode: nil}
							for _, ra := range s.rel {
								for _, e := range []ast.Expr{ra.X, ra.Y} {
									if base, _, ok := d.termExpr(e); ok && base != nil {
										if nm := normStr(info, base); !mentions(nm, xid.Name) {
											terms[nm] = base
										}
									}
								}
							}
							if len(terms) <= 10 {
								for nm, te := range terms {
									if w, ok := d.dist(xid.Name, nm); ok && w < 1<<20 && w > -(1<<20) {
										carry = append(carry, shifted{xid, te, w + delta})
									}
									if w, ok := d.dist(nm, xid.Name); ok && w < 1<<20 && w > -(1<<20) {
										carry = append(carry, shifted{te, xid, w - delta})
									}
								}
							}
						}
					}
				}
				// x += y with y not constant (a cursor advancing through a buffer): when y was checked against what
				// is left of a buffer D - len(D[x:]) < y false, or len(D) - x < y false - the cursor stays inside D;
				// a non-negative cursor advanced by a non-negative amount stays non-negative
				if as, isAs := st.Node.(*ast.AssignStmt); isAs && as.Tok == token.ADD_ASSIGN && len(as.Lhs) == 1 && len(as.Rhs) == 1 && len(s.rel) > 0 {
					if xid, isId := ast.Unparen(as.Lhs[0]).(*ast.Ident); isId {
						if _, isK := constInt(info, as.Rhs[0]); !isK {
							if t := info.TypeOf(xid); t != nil {
								if _, _, isInt := intInfo(t); isInt {
									ys := normStr(info, as.Rhs[0])
									var d *dbm
									for atom, ra := range s.rel {
										if v, has := s.m[atom]; !has || v || ra.Op != token.LSS || normStr(info, ra.Y) != ys {
											continue
										}
										// ra.X is what is left of D behind the cursor
										var buf ast.Expr
										switch lx := ast.Unparen(ra.X).(type) {
										case *ast.CallExpr:
											if exprStr(lx.Fun) == "len" && len(lx.Args) == 1 {
												if sl, isSl := ast.Unparen(lx.Args[0]).(*ast.SliceExpr); isSl && sl.High == nil && sl.Low != nil && exprStr(ast.Unparen(sl.Low)) == xid.Name {
													buf = sl.X
												}
											}
										case *ast.BinaryExpr:
											if lx.Op == token.SUB && exprStr(ast.Unparen(lx.Y)) == xid.Name {
												if lc, isC := ast.Unparen(lx.X).(*ast.CallExpr); isC && exprStr(lc.Fun) == "len" && len(lc.Args) == 1 {
													buf = lc.Args[0]
												}
											}
										}
										if buf != nil && !mentions(normStr(info, buf), xid.Name) {
											carry = append(carry, shifted{xid, &ast.CallExpr{Fun: ast.NewIdent("len"), Args: []ast.Expr{buf}}, 0})
										}
									}
									d = newDBM(g, s, nil)
									if d.nonNeg(xid) && d.nonNeg(as.Rhs[0]) {
										carry = append(carry, shifted{nil, xid, 0})
									}
								}
							}
						}
					}
				}
				for _, l := range lhs {
					if id, ok := l.(*ast.Ident); ok && id.Name == "_" {
						continue
					}
					n.kill(exprStr(l))
				}
				for _, c := range carry {
					n.setLE(c.u, c.v, c.w)
				}
				for _, r := range unlockRoots {
					for k := range n.m {
						if strings.Contains(k, r) && !strings.HasPrefix(k, "type(") {
							// only kill facts that mention a field of the unlocked object
							if mentionsFieldOf(k, r) {
								delete(n.m, k)
								delete(n.rel, k)
								delete(n.bexp, k)
							}
						}
					}
					for k := range n.pend {
						if mentionsFieldOf(k, r) {
							delete(n.pend, k)
						}
					}
					for k := range n.nand {
						if mentionsFieldOf(k, r) {
							delete(n.nand, k)
						}
					}
					for _, nm := range g.boolLocalsOver(r) {
						if n.stale == nil {
							n.stale = map[string]bool{}
						}
						n.stale[nm] = true
					}
				}
				g.P.applyCalleePost(info, &n, st.Node)
				g.P.recordPending(info, &n, st.Node)
				if as, ok := st.Node.(*ast.AssignStmt); ok && len(as.Lhs) == len(as.Rhs) {
					for i, l := range as.Lhs {
						lid, isId := l.(*ast.Ident)
						if !isId || lid.Name == "_" {
							continue
						}
						rhs := ast.Unparen(as.Rhs[i])
						switch {
						case isNil(info, rhs):
							n.m[lid.Name+" == nil"] = true
						case g.P.nonNilErrorValue(info, rhs):
							n.m[lid.Name+" == nil"] = false
						default:
							// X.Err() of a context whose Done channel fired on this path
							if c, isC := rhs.(*ast.CallExpr); isC && len(c.Args) == 0 {
								if sel, isSel := ast.Unparen(c.Fun).(*ast.SelectorExpr); isSel && sel.Sel.Name == "Err" {
									if v, known := n.m["fired:"+exprStr(sel.X)]; known && v {
										n.m[lid.Name+" == nil"] = false
									}
								}
							}
						}
					}
				}
				// x := y / x = y with y a variable or field path of a nil-able type: remember that x is a copy of y
				// ("x ≡ y"), so that a later nil test of x also decides y (killed when either is assigned)
				if as, ok := st.Node.(*ast.AssignStmt); ok && len(as.Lhs) == len(as.Rhs) && (as.Tok == token.ASSIGN || as.Tok == token.DEFINE) {
					for i, rhs := range as.Rhs {
						lid, isId := as.Lhs[i].(*ast.Ident)
						if !isId || lid.Name == "_" {
							continue
						}
						rhs = ast.Unparen(rhs)
						switch rhs.(type) {
						case *ast.Ident, *ast.SelectorExpr:
						default:
							continue
						}
						if isNil(info, rhs) {
							continue
						}
						if t := info.TypeOf(rhs); t != nil {
							switch t.Underlying().(type) {
							case *types.Pointer, *types.Interface, *types.Slice, *types.Map, *types.Chan, *types.Signature:
								if rs := exprStr(rhs); !mentions(rs, lid.Name) {
									n.m[lid.Name+" ≡ "+rs] = true
								}
							}
						}
					}
				}
				// flag = true / flag = false / var flag bool: the flag's value is known
				if as, ok := st.Node.(*ast.AssignStmt); ok && len(as.Lhs) == len(as.Rhs) && (as.Tok == token.ASSIGN || as.Tok == token.DEFINE) {
					for i, rhs := range as.Rhs {
						lid, isId := as.Lhs[i].(*ast.Ident)
						if !isId || lid.Name == "_" {
							continue
						}
						if tv, has := info.Types[rhs]; has && tv.Value != nil && tv.Value.Kind() == constant.Bool {
							if obj := info.ObjectOf(lid); obj != nil && obj.Parent() != nil && obj.Parent() != obj.Pkg().Scope() {
								n.m[lid.Name] = constant.BoolVal(tv.Value)
							}
						}
					}
				}
				if vs, isVS := st.Node.(*ast.ValueSpec); isVS && len(vs.Values) == 0 {
					for _, nm := range vs.Names {
						if obj := info.Defs[nm]; obj != nil && nm.Name != "_" {
							if b, isB := obj.Type().Underlying().(*types.Basic); isB && b.Kind() == types.Bool {
								n.m[nm.Name] = false
							}
						}
					}
				}
				// X = make([]T, n)  =>  len(X) == n ; X = T{F: make([]E, n)} => len(X.F) == n ;
				// x = <const | len(Y) | ident>  =>  x == rhs (scalar copies used by later bounds reasoning)
				if as, ok := st.Node.(*ast.AssignStmt); ok && len(as.Lhs) == len(as.Rhs) && (as.Tok == token.ASSIGN || as.Tok == token.DEFINE) {
					for i, rhs := range as.Rhs {
						lhs := as.Lhs[i]
						if id, isId := lhs.(*ast.Ident); isId && id.Name == "_" {
							continue
						}
						lhsStr := exprStr(lhs)
						rhs = ast.Unparen(rhs)
						addMake := func(target ast.Expr, c *ast.CallExpr) {
							if calleeName(info, c) == "builtin.make" && len(c.Args) >= 2 && !mentions(normStr(info, c.Args[1]), lhsStr) {
								if _, isSl := info.TypeOf(c).Underlying().(*types.Slice); isSl {
									n.setRel(token.EQL, &ast.CallExpr{Fun: ast.NewIdent("len"), Args: []ast.Expr{target}}, c.Args[1], true)
									// and cap(X) >= n (with an explicit capacity argument: cap(X) >= len)
									n.setRel(token.LSS, &ast.CallExpr{Fun: ast.NewIdent("cap"), Args: []ast.Expr{target}}, c.Args[1], false)
								}
							}
						}
						switch x := rhs.(type) {
						case *ast.CallExpr:
							addMake(lhs, x)
							if fn := calleeOf(info, x); fn != nil {
								if callee := g.P.FuncOf(fn); callee != nil && callee.Pkg == g.P.Root {
									if rr := g.P.resultRange(callee); rr != nil && rr.paramIdx < len(x.Args) && !mentions(normStr(info, x.Args[rr.paramIdx]), lhsStr) {
										// minConst <= result < len(arg)
										n.setRel(token.LSS, lhs, &ast.UnaryExpr{Op: token.SUB, X: &ast.BasicLit{Kind: token.INT, Value: fmtInt(int(-rr.lo))}}, false)
										n.setRel(token.LSS, lhs, &ast.CallExpr{Fun: ast.NewIdent("len"), Args: []ast.Expr{x.Args[rr.paramIdx]}}, true)
									}
								}
							}
							if fn := calleeOf(info, x); fn != nil {
								if callee := g.P.FuncOf(fn); callee != nil && callee.Pkg == g.P.Root {
									if _, isId := lhs.(*ast.Ident); isId {
										if set := g.P.resultConsts(callee); set != nil {
											if n.vals == nil {
												n.vals = map[string][]int64{}
											}
											n.vals[lhsStr] = set
											n.setRel(token.LSS, lhs, &ast.BasicLit{Kind: token.INT, Value: fmtInt(int(set[0]))}, false)
											n.setRel(token.LSS, &ast.BasicLit{Kind: token.INT, Value: fmtInt(int(set[len(set)-1]))}, lhs, false)
										}
									}
								}
							}
							if hi, lo, ok := g.P.resultLenOf(info, x, 0); ok && !mentions(normStr(info, hi), lhsStr) {
								if lo == 0 {
									n.setRel(token.EQL, &ast.CallExpr{Fun: ast.NewIdent("len"), Args: []ast.Expr{lhs}}, hi, true)
								} else {
									n.setRel(token.EQL, &ast.CallExpr{Fun: ast.NewIdent("len"), Args: []ast.Expr{lhs}}, &ast.BinaryExpr{X: hi, Op: token.SUB, Y: &ast.BasicLit{Kind: token.INT, Value: fmtInt(lo)}}, true)
								}
							}
							if calleeName(info, x) == "sort.Search" && len(x.Args) == 2 {
								// 0 <= result <= n
								n.setRel(token.LSS, lhs, &ast.BasicLit{Kind: token.INT, Value: "0"}, false)
								if !mentions(normStr(info, x.Args[0]), lhsStr) {
									n.setRel(token.LSS, x.Args[0], lhs, false)
								}
							}
							if exprStr(x.Fun) == "len" && len(x.Args) == 1 && !mentions(normStr(info, x), lhsStr) {
								n.setRel(token.EQL, lhs, x, true)
							}
						case *ast.UnaryExpr, *ast.CompositeLit:
							var cl *ast.CompositeLit
							if u, ok := x.(*ast.UnaryExpr); ok && u.Op == token.AND {
								cl, _ = ast.Unparen(u.X).(*ast.CompositeLit)
							} else if c, ok := x.(*ast.CompositeLit); ok {
								cl = c
							}
							if cl != nil {
								for _, el := range cl.Elts {
									kv, ok := el.(*ast.KeyValueExpr)
									if !ok {
										continue
									}
									key, ok := kv.Key.(*ast.Ident)
									if !ok {
										continue
									}
									target := &ast.SelectorExpr{X: lhs, Sel: ast.NewIdent(key.Name)}
									switch v := ast.Unparen(kv.Value).(type) {
									case *ast.CallExpr:
										addMake(target, v)
									case *ast.Ident, *ast.SelectorExpr:
										// X.F = Y  => len(X.F) == len(Y) for slices
										if t := info.TypeOf(v); t != nil {
											if _, isSl := t.Underlying().(*types.Slice); isSl && !mentions(normStr(info, v), lhsStr) {
												n.setRel(token.EQL, &ast.CallExpr{Fun: ast.NewIdent("len"), Args: []ast.Expr{target}}, &ast.CallExpr{Fun: ast.NewIdent("len"), Args: []ast.Expr{v}}, true)
											}
										}
									}
								}
							}
						default:
							if t := info.TypeOf(lhs); t != nil {
								if _, _, isInt := intInfo(t); isInt {
									if _, isC := constInt(info, rhs); isC {
										n.setRel(token.EQL, lhs, rhs, true)
									} else if rid, ok := rhs.(*ast.Ident); ok && rid.Name != lhsStr {
										n.setRel(token.EQL, lhs, rhs, true)
										// the copy keeps what is known about the sign of the original (the original's
										// name may be shadowed and its facts killed later)
										mentioned := false
										for k := range n.rel {
											if mentions(k, rid.Name) && k != lhsStr+" == "+rid.Name {
												mentioned = true
												break
											}
										}
										if mentioned && len(n.rel) > 1 && len(n.rel) < 40 {
											if d := newDBM(g, n, nil); d.nonNeg(rhs) {
												n.setRel(token.LSS, lhs, &ast.BasicLit{Kind: token.INT, Value: "0"}, false)
											}
										}
									} else if _, ok := rhs.(*ast.SelectorExpr); ok && isFieldPath(rhs) && !mentions(exprStr(rhs), lhsStr) {
										// a local copy of a field
										n.setRel(token.EQL, lhs, rhs, true)
									} else if b, ok := rhs.(*ast.BinaryExpr); ok && (b.Op == token.ADD || b.Op == token.SUB) && !mentions(exprStr(rhs), lhsStr) && g.Fi != nil {
										// x := a + k  => x == a + k ;  x := a + b + k with b >= 0 known  => x >= a + k
										n.sumFacts(g, lhs, rhs)
									}
								}
							}
						}
					}
				}
				return n
			}
			return s
		},
	}
	return l
}

func mentionsFieldOf(atom, rootDot string) bool {
	idx := 0
	for {
		i := strings.Index(atom[idx:], rootDot)
		if i < 0 {
			return false
		}
		i += idx
		if i == 0 || !isIdentChar(atom[i-1]) && atom[i-1] != '.' {
			return true
		}
		idx = i + 1
	}
}

func typeSwitchSubject(sw *ast.TypeSwitchStmt) string {
	var x ast.Expr
	switch a := sw.Assign.(type) {
	case *ast.AssignStmt:
		if len(a.Rhs) == 1 {
			x = a.Rhs[0]
		}
	case *ast.ExprStmt:
		x = a.X
	}
	if ta, ok := ast.Unparen(x).(*ast.TypeAssertExpr); ok {
		return exprStr(ta.X)
	}
	return exprStr(x)
}

// ---------------------------------------------------------------------------
// Lockset: which mutex expressions are held (must) at each point.
// Elements: "c.mu" (write/exclusive) or "R:pool.mu" (read lock).

func (g *Graph) Lockset() *Solution[strset] {
	info := g.Info
	l := Lattice[strset]{
		Init: strset{},
		Join: func(a, b strset) strset { return a.intersect(b) },
		Eq:   func(a, b strset) bool { return a.eq(b) },
		Step: func(s strset, st Step) strset {
			if st.Kind != StNode {
				return s
			}
			if _, isDefer := st.Node.(*ast.DeferStmt); isDefer {
				return s // deferred unlock: held until exit
			}
			if _, isGo := st.Node.(*ast.GoStmt); isGo {
				return s
			}
			for _, c := range callsIn(st.Node) {
				kind, ok := isMutexMethod(calleeName(info, c))
				if !ok {
					continue
				}
				r := recvExpr(c)
				if r == nil {
					continue
				}
				name := exprStr(r)
				switch kind {
				case "Lock":
					s = s.with(name)
				case "Unlock":
					s = s.without(name)
				case "RLock":
					s = s.with("R:" + name)
				case "RUnlock":
					s = s.without("R:" + name)
				}
			}
			return s
		},
	}
	return Solve(g, l)
}

// heldAny reports whether mutex expression mu is held in either mode.
func heldAny(s strset, mu string) bool { return s[mu] || s["R:"+mu] }

// joinFacts: atom intersection plus the relational (difference-bound) join: a bound u <= v + w that holds on
// both sides (with possibly different w) survives with the weaker w. With widen=true only bounds that are
// equal on both sides survive, which guarantees termination on loops.
func joinFacts(g *Graph, a, b Facts, widen bool) Facts {
	if a.dead {
		return b
	}
	if b.dead {
		return a
	}
	n := Facts{m: map[string]bool{}, rel: map[string]relAtom{}, info: a.info, strict: a.strict}
	for k, v := range a.pend {
		if bv, ok := b.pend[k]; ok && bv.val == v.val {
			if n.pend == nil {
				n.pend = map[string]pendAtom{}
			}
			n.pend[k] = v
		}
	}
	for _, m := range []map[string]bool{a.stale, b.stale} {
		for k := range m {
			if n.stale == nil {
				n.stale = map[string]bool{}
			}
			n.stale[k] = true
		}
	}
	for k, av := range a.vals {
		if bv, ok := b.vals[k]; ok {
			set := map[int64]bool{}
			for _, v := range av {
				set[v] = true
			}
			for _, v := range bv {
				set[v] = true
			}
			if len(set) <= 8 {
				var u []int64
				for v := range set {
					u = append(u, v)
				}
				sort.Slice(u, func(i, j int) bool { return u[i] < u[j] })
				if n.vals == nil {
					n.vals = map[string][]int64{}
				}
				n.vals[k] = u
			}
		}
	}
	for k, v := range a.nand {
		if _, ok := b.nand[k]; ok {
			if n.nand == nil {
				n.nand = map[string][2]ast.Expr{}
			}
			n.nand[k] = v
		}
	}
	same := len(a.m) == len(b.m)
	for k, v := range a.m {
		if bv, ok := b.m[k]; ok && bv == v {
			n.m[k] = v
			if ra, ok := a.rel[k]; ok {
				n.rel[k] = ra
			}
			if be, ok := a.bexp[k]; ok {
				if n.bexp == nil {
					n.bexp = map[string]ast.Expr{}
				}
				n.bexp[k] = be
			}
		} else {
			same = false
		}
	}
	if same || len(a.rel) == 0 || len(b.rel) == 0 {
		return n
	}
	da, db := newDBM(g, a, nil), newDBM(g, b, nil)
	// candidate terms: those known to both sides
	terms := map[string]ast.Expr{}
	collect := func(f Facts, d *dbm, into map[string]ast.Expr) {
		for _, ra := range f.rel {
			for _, e := range []ast.Expr{ra.X, ra.Y} {
				if base, _, ok := d.termExpr(e); ok && base != nil {
					into[normStr(f.info, base)] = base
				}
			}
		}
	}
	ta, tb := map[string]ast.Expr{}, map[string]ast.Expr{}
	collect(a, da, ta)
	collect(b, db, tb)
	for k, e := range ta {
		if _, ok := tb[k]; ok {
			terms[k] = e
		}
	}
	if len(terms) == 0 || len(terms) > 10 {
		return n
	}
	dn := newDBM(g, n, nil)
	names := make([]string, 0, len(terms)+1)
	for k := range terms {
		names = append(names, k)
	}
	sort.Strings(names)
	names = append(names, zeroNode)
	exprOf := func(name string) ast.Expr {
		if name == zeroNode {
			return nil
		}
		return terms[name]
	}
	for _, u := range names {
		for _, v := range names {
			if u == v {
				continue
			}
			wa, oka := da.dist(u, v)
			wb, okb := db.dist(u, v)
			if !oka || !okb {
				continue
			}
			w := wa
			if wb > w {
				w = wb
			}
			if widen && wa != wb {
				continue
			}
			if w > 1<<40 || w < -(1<<40) {
				continue
			}
			if wn, ok := dn.dist(u, v); ok && wn <= w {
				continue // already implied
			}
			n.setLE(exprOf(u), exprOf(v), w)
		}
	}
	return n
}

// setLE records u <= v + w (nil stands for the constant 0), encoded as !(v + w < u).
func (n *Facts) setLE(ue, ve ast.Expr, w int) {
	lit := func(k int) ast.Expr {
		if k < 0 {
			return &ast.UnaryExpr{Op: token.SUB, X: &ast.BasicLit{Kind: token.INT, Value: fmtInt(-k)}}
		}
		return &ast.BasicLit{Kind: token.INT, Value: fmtInt(k)}
	}
	switch {
	case ue == nil && ve == nil:
	case ue == nil: // 0 <= v + w  ->  !(v < -w)
		n.setRel(token.LSS, ve, lit(-w), false)
	case ve == nil: // u <= w  -> !(w < u)
		n.setRel(token.LSS, lit(w), ue, false)
	default:
		if w == 0 {
			n.setRel(token.LSS, ve, ue, false)
		} else if w > 0 {
			n.setRel(token.LSS, &ast.BinaryExpr{X: ve, Op: token.ADD, Y: lit(w)}, ue, false)
		} else {
			n.setRel(token.LSS, &ast.BinaryExpr{X: ve, Op: token.SUB, Y: lit(-w)}, ue, false)
		}
	}
}

// stepDelta: the statement adds a constant to an integer local (x++, x--, x += c, x -= c): the local and the amount.
func stepDelta(info *types.Info, n ast.Node) (*ast.Ident, int, bool) {
	switch x := n.(type) {
	case *ast.IncDecStmt:
		if id, ok := ast.Unparen(x.X).(*ast.Ident); ok {
			if _, isVar := info.Uses[id].(*types.Var); isVar {
				if x.Tok == token.INC {
					return id, 1, true
				}
				return id, -1, true
			}
		}
	case *ast.AssignStmt:
		if len(x.Lhs) == 1 && len(x.Rhs) == 1 && (x.Tok == token.ADD_ASSIGN || x.Tok == token.SUB_ASSIGN) {
			if id, ok := ast.Unparen(x.Lhs[0]).(*ast.Ident); ok {
				if k, isK := constInt(info, x.Rhs[0]); isK && k > -(1<<20) && k < 1<<20 {
					if _, isVar := info.Uses[id].(*types.Var); isVar {
						if x.Tok == token.SUB_ASSIGN {
							k = -k
						}
						return id, int(k), true
					}
				}
			}
		}
	}
	return nil, 0, false
}

// commaOkSource: id is the `ok` of `v, ok := m[k]` in the init of the if statement whose condition is cond
// (or in the statement right before it): returns the index expression m[k].
func commaOkSource(g *Graph, info *types.Info, id *ast.Ident, cond ast.Node) *ast.IndexExpr {
	obj := info.Uses[id]
	// climb to the enclosing if statement
	var ifs *ast.IfStmt
	for cur := cond; cur != nil; cur = g.P.Parent(cur) {
		if s, ok := cur.(*ast.IfStmt); ok {
			ifs = s
			break
		}
		if _, ok := cur.(ast.Stmt); ok {
			break
		}
	}
	if ifs == nil {
		return nil
	}
	from := func(s ast.Stmt) *ast.IndexExpr {
		as, ok := s.(*ast.AssignStmt)
		if !ok || len(as.Lhs) != 2 || len(as.Rhs) != 1 {
			return nil
		}
		lid, ok := as.Lhs[1].(*ast.Ident)
		if !ok || (info.Defs[lid] != obj && info.Uses[lid] != obj) {
			return nil
		}
		ix, ok := ast.Unparen(as.Rhs[0]).(*ast.IndexExpr)
		if !ok {
			return nil
		}
		if _, isMap := info.TypeOf(ix.X).Underlying().(*types.Map); !isMap {
			return nil
		}
		return ix
	}
	if ifs.Init != nil {
		if ix := from(ifs.Init); ix != nil {
			return ix
		}
	}
	if i, list := g.P.stmtIndex(ifs); i > 0 {
		return from(list[i-1])
	}
	return nil
}

// applyPending: the boolean variable tested by cond came out val: the facts recorded for that outcome hold.
func (f *Facts) applyPending(cond ast.Expr, val bool) {
	if len(f.pend) == 0 {
		return
	}
	e := ast.Unparen(cond)
	for {
		if u, ok := e.(*ast.UnaryExpr); ok && u.Op == token.NOT {
			e, val = ast.Unparen(u.X), !val
			continue
		}
		break
	}
	id, ok := e.(*ast.Ident)
	if !ok {
		return
	}
	for _, pa := range f.pend {
		if pa.v == id.Name && pa.when == val {
			if pa.ra.Op == token.ILLEGAL {
				f.assume(pa.ra.X, pa.val)
			} else {
				f.setRel(pa.ra.Op, pa.ra.X, pa.ra.Y, pa.val)
			}
		}
	}
}

// expandBoolLocals replaces, inside a condition, every boolean local that is assigned exactly once from an
// expression that is not a plain call by that expression (recursively, three levels).
func expandBoolLocals(g *Graph, e ast.Expr, depth int, stale map[string]bool) (ast.Expr, bool) {
	info := g.Info
	switch x := e.(type) {
	case *ast.ParenExpr:
		in, ch := expandBoolLocals(g, x.X, depth, stale)
		if ch {
			return &ast.ParenExpr{X: in}, true
		}
		return e, false
	case *ast.UnaryExpr:
		if x.Op == token.NOT {
			in, ch := expandBoolLocals(g, x.X, depth, stale)
			if ch {
				return &ast.UnaryExpr{Op: token.NOT, X: in}, true
			}
		}
		return e, false
	case *ast.BinaryExpr:
		if x.Op == token.LAND || x.Op == token.LOR {
			l, c1 := expandBoolLocals(g, x.X, depth, stale)
			r, c2 := expandBoolLocals(g, x.Y, depth, stale)
			if c1 || c2 {
				return &ast.BinaryExpr{X: l, Op: x.Op, Y: r}, true
			}
		}
		return e, false
	case *ast.Ident:
		if depth > 3 {
			return e, false
		}
		obj, isVar := info.Uses[x].(*types.Var)
		if !isVar || obj.IsField() || obj.Parent() == nil || obj.Parent() == g.Fi.Pkg.Types.Scope() {
			return e, false
		}
		if stale[x.Name] {
			return e, false // it names a condition over fields whose lock was released since
		}
		if b, isB := obj.Type().Underlying().(*types.Basic); !isB || b.Kind() != types.Bool {
			return e, false
		}
		// the defining function may be a helper expanded into this graph
		owner := g.Fi
		if g.inl != nil {
			owner = g.unitOf(x)
		}
		if !singleAssigned(info, owner.Decl.Body, obj) {
			return e, false
		}
		// `var flag bool` that is set later has two values (false until then): it does not name its one assignment
		zeroDeclared := false
		ast.Inspect(owner.Decl.Body, func(y ast.Node) bool {
			if vs, isVS := y.(*ast.ValueSpec); isVS && len(vs.Values) == 0 {
				for _, nm := range vs.Names {
					if info.Defs[nm] == types.Object(obj) {
						zeroDeclared = true
					}
				}
			}
			return !zeroDeclared
		})
		if zeroDeclared {
			return e, false
		}
		d := localDef(info, owner, x)
		if d == nil {
			return e, false
		}
		if c, isCall := ast.Unparen(d).(*ast.CallExpr); isCall {
			// an argument-less observer on a variable / field path (q.IsIdempotent()) names a stable predicate
			sel, isSel := ast.Unparen(c.Fun).(*ast.SelectorExpr)
			if pureCompare[calleeName(info, c)] {
				// a library comparison of values that are not re-bound in the function
				for _, a := range c.Args {
					root := ast.Unparen(a)
					for {
						if s2, is := root.(*ast.SelectorExpr); is {
							root = ast.Unparen(s2.X)
							continue
						}
						break
					}
					rid, isId := root.(*ast.Ident)
					if !isId || !isFieldPath(ast.Unparen(a)) {
						return e, false
					}
					if ro := info.Uses[rid]; ro == nil || !singleAssigned(info, owner.Decl.Body, ro) && !neverAssigned(info, owner.Decl.Body, ro) {
						return e, false
					}
				}
			} else if !isSel || len(c.Args) != 0 || !isFieldPath(sel.X) {
				return e, false
			}
		}
		in, _ := expandBoolLocals(g, d, depth+1, stale)
		return &ast.ParenExpr{X: in}, true
	}
	return e, false
}

// nonNilErrorValue: e is a package-level variable that is declared with a freshly constructed error
// (errors.New / fmt.Errorf / a composite literal) and is never assigned afterwards in the analysed packages.
func (p *Program) nonNilErrorValue(info *types.Info, e ast.Expr) bool {
	var id *ast.Ident
	switch x := ast.Unparen(e).(type) {
	case *ast.Ident:
		id = x
	case *ast.SelectorExpr:
		id = x.Sel
	default:
		return false
	}
	v, ok := info.Uses[id].(*types.Var)
	if !ok || v.Pkg() == nil || v.Parent() != v.Pkg().Scope() {
		return false
	}
	if p.nonNilVars == nil {
		p.nonNilVars = map[*types.Var]bool{}
		assigned := map[types.Object]bool{}
		for _, pkg := range p.Pkgs {
			for _, f := range pkg.Syntax {
				ast.Inspect(f, func(n ast.Node) bool {
					switch s := n.(type) {
					case *ast.AssignStmt:
						for _, l := range s.Lhs {
							if lid, isId := ast.Unparen(l).(*ast.Ident); isId {
								if o := pkg.TypesInfo.Uses[lid]; o != nil {
									assigned[o] = true
								}
							}
						}
					case *ast.UnaryExpr:
						if s.Op == token.AND {
							if lid, isId := ast.Unparen(s.X).(*ast.Ident); isId {
								if o := pkg.TypesInfo.Uses[lid]; o != nil {
									assigned[o] = true
								}
							}
						}
					}
					return true
				})
			}
		}
		for _, pkg := range p.Pkgs {
			for _, f := range pkg.Syntax {
				for _, d := range f.Decls {
					gd, isG := d.(*ast.GenDecl)
					if !isG || gd.Tok != token.VAR {
						continue
					}
					for _, sp := range gd.Specs {
						vs := sp.(*ast.ValueSpec)
						for i, nm := range vs.Names {
							if i >= len(vs.Values) {
								continue
							}
							obj, _ := pkg.TypesInfo.Defs[nm].(*types.Var)
							if obj == nil || assigned[obj] {
								continue
							}
							fresh := false
							switch val := ast.Unparen(vs.Values[i]).(type) {
							case *ast.CallExpr:
								switch calleeName(pkg.TypesInfo, val) {
								case "errors.New", "fmt.Errorf":
									fresh = true
								}
							case *ast.UnaryExpr:
								_, fresh = ast.Unparen(val.X).(*ast.CompositeLit)
							case *ast.CompositeLit:
								fresh = true
							}
							if fresh {
								p.nonNilVars[obj] = true
							}
						}
					}
				}
			}
		}
	}
	return p.nonNilVars[v]
}

// pureCompare: library predicates whose result depends only on their arguments' values.
var pureCompare = map[string]bool{"bytes.Equal": true, "strings.EqualFold": true, "strings.HasPrefix": true, "strings.HasSuffix": true, "strings.Contains": true, "reflect.DeepEqual": true}

// isSimpleCond: a condition without && / || and without calls (a field, a variable, a comparison of such).
func isSimpleCond(e ast.Expr) bool {
	ok := true
	ast.Inspect(e, func(n ast.Node) bool {
		switch x := n.(type) {
		case *ast.CallExpr:
			if id, isId := x.Fun.(*ast.Ident); !isId || id.Name != "len" {
				ok = false
			}
		case *ast.BinaryExpr:
			if x.Op == token.LAND || x.Op == token.LOR {
				ok = false
			}
		case *ast.FuncLit:
			ok = false
		}
		return ok
	})
	return ok
}

// sumFacts records what an assignment lhs = <sum> tells about lhs: equality when the sum has one variable operand,
// a lower bound when it has two and one of them is known non-negative here.
func (f *Facts) sumFacts(g *Graph, lhs, rhs ast.Expr) {
	var ops []ast.Expr
	k := 0
	okShape := true
	var flat func(e ast.Expr, sign int)
	flat = func(e ast.Expr, sign int) {
		e = ast.Unparen(e)
		if c, isC := constInt(f.info, e); isC {
			if c > 1<<30 || c < -(1<<30) {
				okShape = false
			}
			k += sign * int(c)
			return
		}
		if b, isB := e.(*ast.BinaryExpr); isB && b.Op == token.ADD {
			flat(b.X, sign)
			flat(b.Y, sign)
			return
		}
		if b, isB := e.(*ast.BinaryExpr); isB && b.Op == token.SUB {
			flat(b.X, sign)
			flat(b.Y, -sign)
			return
		}
		if sign < 0 {
			okShape = false
		}
		ops = append(ops, e)
	}
	flat(rhs, 1)
	if !okShape || len(ops) == 0 || len(ops) > 2 {
		return
	}
	for _, o := range ops {
		if t := f.info.TypeOf(o); t == nil {
			return
		} else if _, _, isInt := intInfo(t); !isInt {
			return
		}
		if len(callsIn(o)) > 0 {
			c, isCall := ast.Unparen(o).(*ast.CallExpr)
			if !isCall {
				return
			}
			if exprStr(c.Fun) != "len" {
				// an argument-less observer on a variable / field path (q.Attempts())
				sel, isSel := ast.Unparen(c.Fun).(*ast.SelectorExpr)
				if !isSel || len(c.Args) != 0 || !isFieldPath(sel.X) || len(callsIn(o)) != 1 {
					return
				}
			}
		}
	}
	lit := func(v int) ast.Expr { return &ast.BasicLit{Kind: token.INT, Value: fmtInt(v)} }
	plus := func(e ast.Expr, v int) ast.Expr {
		switch {
		case v > 0:
			return &ast.BinaryExpr{X: e, Op: token.ADD, Y: lit(v)}
		case v < 0:
			return &ast.BinaryExpr{X: e, Op: token.SUB, Y: lit(-v)}
		}
		return e
	}
	if len(ops) == 1 {
		f.setRel(token.EQL, lhs, plus(ops[0], k), true)
		return
	}
	d := newDBM(g, *f, nil)
	for i := 0; i < 2; i++ {
		if d.nonNeg(ops[1-i]) {
			// lhs >= ops[i] + k
			f.setRel(token.LSS, lhs, plus(ops[i], k), false)
		}
	}
}

// splitCond steps over a branch condition path-sensitively: a conjunction that failed (a disjunction that held) is
// split into the cases the short-circuit evaluation distinguishes, each assumed on its own copy of the state.
func splitCond(g *Graph, base Lattice[Facts], f Facts, st Step, e ast.Expr, val bool, depth int) []Facts {
	x := ast.Unparen(e)
	// a boolean local that names a compound condition is split like the condition itself
	if id, ok := x.(*ast.Ident); ok && g != nil && g.Fi != nil && depth < 6 {
		if ex, changed := expandBoolLocals(g, id, 0, f.stale); changed {
			if inner := ast.Unparen(ex); isShortCircuit(inner) || isNotOfShortCircuit(inner) {
				var out []Facts
				for _, h := range splitCond(g, base, f, st, inner, val, depth+1) {
					// the local itself is decided too
					h2 := h.clone()
					h2.assume(id, val)
					out = append(out, h2)
				}
				return out
			}
		}
	}
	if u, ok := x.(*ast.UnaryExpr); ok && u.Op == token.NOT && depth < 6 {
		if _, isB := ast.Unparen(u.X).(*ast.BinaryExpr); isB {
			return splitCond(g, base, f, st, u.X, !val, depth+1)
		}
		if _, isId := ast.Unparen(u.X).(*ast.Ident); isId {
			return splitCond(g, base, f, st, u.X, !val, depth+1)
		}
	}
	if b, ok := x.(*ast.BinaryExpr); ok && depth < 6 {
		if b.Op == token.LAND && !val || b.Op == token.LOR && val {
			// first operand decides; or it does not and the second decides
			var out []Facts
			out = append(out, splitCond(g, base, f, st, b.X, val, depth+1)...)
			for _, h := range splitCond(g, base, f, st, b.X, !val, depth+1) {
				out = append(out, splitCond(g, base, h, st, b.Y, val, depth+1)...)
			}
			// the whole condition is stepped as well, for what the base analysis derives from it (pending atoms etc.)
			for i := range out {
				out[i] = base.Step(out[i], Step{Kind: StCond, Node: st.Node, Val: st.Val})
			}
			return out
		}
		if b.Op == token.LAND && val || b.Op == token.LOR && !val {
			var out []Facts
			for _, h := range splitCond(g, base, f, st, b.X, val, depth+1) {
				out = append(out, splitCond(g, base, h, st, b.Y, val, depth+1)...)
			}
			return out
		}
	}
	return []Facts{base.Step(f, Step{Kind: StCond, Node: e, Val: val})}
}

// boolLocalsOver: the boolean locals of the graph's function that are assigned exactly once, from an expression that
// reads a field of the object rootDot ("pool.") names.
func (g *Graph) boolLocalsOver(rootDot string) []string {
	if g.Fi == nil {
		return nil
	}
	if g.boolOver == nil {
		g.boolOver = map[string][]string{}
	}
	if v, ok := g.boolOver[rootDot]; ok {
		return v
	}
	info := g.Info
	var out []string
	ast.Inspect(g.Fi.Decl.Body, func(x ast.Node) bool {
		as, ok := x.(*ast.AssignStmt)
		if !ok || len(as.Lhs) != len(as.Rhs) {
			return true
		}
		for i, l := range as.Lhs {
			id, isId := l.(*ast.Ident)
			if !isId || id.Name == "_" {
				continue
			}
			t := info.TypeOf(id)
			if t == nil {
				continue
			}
			if b, isB := t.Underlying().(*types.Basic); !isB || b.Kind() != types.Bool {
				continue
			}
			if mentionsFieldOf(exprStr(as.Rhs[i]), rootDot) {
				out = append(out, id.Name)
			}
		}
		return true
	})
	g.boolOver[rootDot] = out
	return out
}

func isNotOfShortCircuit(e ast.Expr) bool {
	u, ok := ast.Unparen(e).(*ast.UnaryExpr)
	return ok && u.Op == token.NOT && (isShortCircuit(u.X) || isNotOfShortCircuit(u.X))
}
