package main

import (
	"go/ast"
	"go/token"
	"go/types"
	"strings"
)

// Guard facts: a forward must-analysis of boolean atoms known true/false at a
// program point. Atoms are canonicalised expression strings:
//   a != b  -> !(a == b);  a > b -> b < a;  a >= b -> !(a < b);  a <= b -> !(b < a)
// Facts are killed when an lvalue they mention is assigned, and facts about
// fields reached through X are killed when X.<mutex>.Unlock()/RUnlock() is called.

type Facts struct {
	m map[string]bool // atom -> truth
}

func (f Facts) clone() Facts {
	n := Facts{m: make(map[string]bool, len(f.m)+2)}
	for k, v := range f.m {
		n.m[k] = v
	}
	return n
}

// canonAtom returns the canonical atom for comparison e and whether truth must be flipped.
func canonAtom(e ast.Expr) (atom string, flip bool) {
	e = ast.Unparen(e)
	if b, ok := e.(*ast.BinaryExpr); ok {
		x, y := exprStr(b.X), exprStr(b.Y)
		switch b.Op {
		case token.EQL:
			if y < x && y != "nil" || x == "nil" {
				x, y = y, x
			}
			return x + " == " + y, false
		case token.NEQ:
			if y < x && y != "nil" || x == "nil" {
				x, y = y, x
			}
			return x + " == " + y, true
		case token.LSS:
			return x + " < " + y, false
		case token.GEQ:
			return x + " < " + y, true
		case token.GTR:
			return y + " < " + x, false
		case token.LEQ:
			return y + " < " + x, true
		}
	}
	return exprStr(e), false
}

// assume adds the knowledge "e evaluates to val".
func (f *Facts) assume(e ast.Expr, val bool) {
	e = ast.Unparen(e)
	switch x := e.(type) {
	case *ast.UnaryExpr:
		if x.Op == token.NOT {
			f.assume(x.X, !val)
			return
		}
	case *ast.BinaryExpr:
		switch x.Op {
		case token.LAND:
			if val {
				f.assume(x.X, true)
				f.assume(x.Y, true)
			}
			return
		case token.LOR:
			if !val {
				f.assume(x.X, false)
				f.assume(x.Y, false)
			}
			return
		}
	}
	atom, flip := canonAtom(e)
	f.m[atom] = val != flip
}

// Known reports the truth of expression string (Go syntax, e.g. "c.closed", "n < 0") if known.
func (f Facts) Known(e ast.Expr) (bool, bool) {
	e = ast.Unparen(e)
	if u, ok := e.(*ast.UnaryExpr); ok && u.Op == token.NOT {
		v, ok := f.Known(u.X)
		return !v, ok
	}
	if b, ok := e.(*ast.BinaryExpr); ok {
		switch b.Op {
		case token.LAND:
			l, lok := f.Known(b.X)
			r, rok := f.Known(b.Y)
			if lok && rok {
				return l && r, true
			}
			if lok && !l || rok && !r {
				return false, true
			}
			return false, false
		case token.LOR:
			l, lok := f.Known(b.X)
			r, rok := f.Known(b.Y)
			if lok && rok {
				return l || r, true
			}
			if lok && l || rok && r {
				return true, true
			}
			return false, false
		}
	}
	atom, flip := canonAtom(e)
	v, ok := f.m[atom]
	return v != flip, ok
}

// KnownStr is Known for an atom given as canonical source text, e.g. "c.closed" or "x == nil".
func (f Facts) KnownStr(atom string) (bool, bool) {
	v, ok := f.m[atom]
	return v, ok
}

func mentions(atom, lv string) bool {
	// token-wise containment of lv (as identifier/selector chain) in atom
	idx := 0
	for {
		i := strings.Index(atom[idx:], lv)
		if i < 0 {
			return false
		}
		i += idx
		before := i == 0 || !isIdentChar(atom[i-1]) && atom[i-1] != '.'
		j := i + len(lv)
		after := j == len(atom) || !isIdentChar(atom[j])
		if before && after {
			return true
		}
		idx = i + 1
	}
}

func isIdentChar(c byte) bool {
	return c == '_' || c >= '0' && c <= '9' || c >= 'a' && c <= 'z' || c >= 'A' && c <= 'Z'
}

func (f *Facts) kill(lv string) {
	for k := range f.m {
		if mentions(k, lv) {
			delete(f.m, k)
		}
	}
}

func (f *Facts) killPrefix(prefix string) {
	for k := range f.m {
		if mentions(k, prefix) {
			delete(f.m, k)
		}
	}
}

func isMutexMethod(name string) (lockKind string, ok bool) {
	switch name {
	case "sync.(*Mutex).Lock", "sync.(*RWMutex).Lock":
		return "Lock", true
	case "sync.(*Mutex).Unlock", "sync.(*RWMutex).Unlock":
		return "Unlock", true
	case "sync.(*RWMutex).RLock":
		return "RLock", true
	case "sync.(*RWMutex).RUnlock":
		return "RUnlock", true
	}
	return "", false
}

// GuardFacts solves the guard-fact analysis for g.
func (g *Graph) GuardFacts() *Solution[Facts] {
	info := g.Info
	l := Lattice[Facts]{
		Init: Facts{m: map[string]bool{}},
		Join: func(a, b Facts) Facts {
			n := Facts{m: map[string]bool{}}
			for k, v := range a.m {
				if bv, ok := b.m[k]; ok && bv == v {
					n.m[k] = v
				}
			}
			return n
		},
		Eq: func(a, b Facts) bool {
			if len(a.m) != len(b.m) {
				return false
			}
			for k, v := range a.m {
				if bv, ok := b.m[k]; !ok || bv != v {
					return false
				}
			}
			return true
		},
		Step: func(s Facts, st Step) Facts {
			switch st.Kind {
			case StCond:
				n := s.clone()
				n.assume(st.Node.(ast.Expr), st.Val)
				return n
			case StCase:
				n := s.clone()
				atom, flip := canonAtom(&ast.BinaryExpr{X: st.Tag, Op: token.EQL, Y: st.Node.(ast.Expr)})
				n.m[atom] = st.Val != flip
				return n
			case StTypeCase:
				cc := st.Clause.(*ast.CaseClause)
				sw := st.Node.(*ast.TypeSwitchStmt)
				n := s.clone()
				subj := typeSwitchSubject(sw)
				for _, t := range cc.List {
					if len(cc.List) == 1 {
						n.m["type("+subj+") == "+exprStr(t)] = true
					}
				}
				return n
			case StNode:
				lhs := assignedLHS(st.Node)
				var unlockRoots []string
				for _, c := range callsIn(st.Node) {
					if kind, ok := isMutexMethod(calleeName(info, c)); ok && (kind == "Unlock" || kind == "RUnlock") {
						if _, isDefer := st.Node.(*ast.DeferStmt); isDefer {
							continue
						}
						if r := recvExpr(c); r != nil {
							// c.mu.Unlock(): facts about c.* become stale
							if sel, ok := ast.Unparen(r).(*ast.SelectorExpr); ok {
								unlockRoots = append(unlockRoots, exprStr(sel.X)+".")
							}
						}
					}
				}
				if len(lhs) == 0 && len(unlockRoots) == 0 {
					// `x, ok := m[k]` etc. handled through lhs; nothing to kill
					return s
				}
				n := s.clone()
				for _, l := range lhs {
					if id, ok := l.(*ast.Ident); ok && id.Name == "_" {
						continue
					}
					n.kill(exprStr(l))
				}
				for _, r := range unlockRoots {
					for k := range n.m {
						if strings.Contains(k, r) && !strings.HasPrefix(k, "type(") {
							// only kill facts that mention a field of the unlocked object
							if mentionsFieldOf(k, r) {
								delete(n.m, k)
							}
						}
					}
				}
				// definitions like `v := expr` that make v an alias: record nothing
				_ = types.Typ
				return n
			}
			return s
		},
	}
	return Solve(g, l)
}

func mentionsFieldOf(atom, rootDot string) bool {
	idx := 0
	for {
		i := strings.Index(atom[idx:], rootDot)
		if i < 0 {
			return false
		}
		i += idx
		if i == 0 || !isIdentChar(atom[i-1]) && atom[i-1] != '.' {
			return true
		}
		idx = i + 1
	}
}

func typeSwitchSubject(sw *ast.TypeSwitchStmt) string {
	var x ast.Expr
	switch a := sw.Assign.(type) {
	case *ast.AssignStmt:
		if len(a.Rhs) == 1 {
			x = a.Rhs[0]
		}
	case *ast.ExprStmt:
		x = a.X
	}
	if ta, ok := ast.Unparen(x).(*ast.TypeAssertExpr); ok {
		return exprStr(ta.X)
	}
	return exprStr(x)
}

// ---------------------------------------------------------------------------
// Lockset: which mutex expressions are held (must) at each point.
// Elements: "c.mu" (write/exclusive) or "R:pool.mu" (read lock).

func (g *Graph) Lockset() *Solution[strset] {
	info := g.Info
	l := Lattice[strset]{
		Init: strset{},
		Join: func(a, b strset) strset { return a.intersect(b) },
		Eq:   func(a, b strset) bool { return a.eq(b) },
		Step: func(s strset, st Step) strset {
			if st.Kind != StNode {
				return s
			}
			if _, isDefer := st.Node.(*ast.DeferStmt); isDefer {
				return s // deferred unlock: held until exit
			}
			if _, isGo := st.Node.(*ast.GoStmt); isGo {
				return s
			}
			for _, c := range callsIn(st.Node) {
				kind, ok := isMutexMethod(calleeName(info, c))
				if !ok {
					continue
				}
				r := recvExpr(c)
				if r == nil {
					continue
				}
				name := exprStr(r)
				switch kind {
				case "Lock":
					s = s.with(name)
				case "Unlock":
					s = s.without(name)
				case "RLock":
					s = s.with("R:" + name)
				case "RUnlock":
					s = s.without("R:" + name)
				}
			}
			return s
		},
	}
	return Solve(g, l)
}

// heldAny reports whether mutex expression mu is held in either mode.
func heldAny(s strset, mu string) bool { return s[mu] || s["R:"+mu] }
