package main

import (
	"fmt"
	"go/ast"
	"go/token"
	"go/types"
	"strings"
)

// Ownership rules for slices.
//
// (a) Published snapshots are read-only. The token-aware policy's metadata (hostTokens.hosts, tokenRing.tokens,
// tokenRing.hosts) and the copy-on-write host lists (cowHostList.get()) are shared by every query and replaced,
// never edited. A function that receives such a slice may not write into its backing array: element stores,
// re-slicing to a shorter length followed by append (the in-place filter idiom), sort, shuffle, copy-into.
//
// (b) A slice handed to a goroutine or stored into a per-response object must not keep sharing its backing array
// with storage that the handing side goes on writing.

// sliceAliases returns the identifiers of fn's body that (may) share the backing array of the slice variable
// root: root itself and variables defined as re-slices of an alias.
func sliceAliases(info *types.Info, body ast.Node, root types.Object) map[types.Object]bool {
	al := map[types.Object]bool{root: true}
	for changed := true; changed; {
		changed = false
		ast.Inspect(body, func(x ast.Node) bool {
			as, ok := x.(*ast.AssignStmt)
			if !ok || len(as.Lhs) != len(as.Rhs) {
				return true
			}
			for i, l := range as.Lhs {
				id, ok := l.(*ast.Ident)
				if !ok {
					continue
				}
				obj := info.Defs[id]
				if obj == nil {
					obj = info.Uses[id]
				}
				if obj == nil || al[obj] {
					continue
				}
				rhs := ast.Unparen(as.Rhs[i])
				if sl, ok := rhs.(*ast.SliceExpr); ok {
					rhs = ast.Unparen(sl.X)
				}
				if rid, ok := rhs.(*ast.Ident); ok && al[info.Uses[rid]] {
					al[obj] = true
					changed = true
				}
			}
			return true
		})
	}
	return al
}

// shortened: variables of the alias set that were defined as a re-slice with an explicit upper bound (x[:0],
// x[:k]): appending to them overwrites elements of the shared array.
func shortenedAliases(info *types.Info, body ast.Node, al map[types.Object]bool) map[types.Object]bool {
	out := map[types.Object]bool{}
	ast.Inspect(body, func(x ast.Node) bool {
		as, ok := x.(*ast.AssignStmt)
		if !ok || len(as.Lhs) != len(as.Rhs) {
			return true
		}
		for i, l := range as.Lhs {
			id, ok := l.(*ast.Ident)
			if !ok {
				continue
			}
			obj := info.Defs[id]
			if obj == nil {
				obj = info.Uses[id]
			}
			if sl, ok := ast.Unparen(as.Rhs[i]).(*ast.SliceExpr); ok && sl.High != nil {
				if rid, ok := ast.Unparen(sl.X).(*ast.Ident); ok && al[info.Uses[rid]] && obj != nil {
					out[obj] = true
				}
			}
		}
		return true
	})
	return out
}

// writesInto lists the constructs in body that write into the backing array of an alias of root.
func (p *Program) writesInto(fi *FuncInfo, body ast.Node, root types.Object, depth int) []string {
	info := fi.Pkg.TypesInfo
	al := sliceAliases(info, body, root)
	short := shortenedAliases(info, body, al)
	isAlias := func(e ast.Expr) bool {
		id, ok := ast.Unparen(e).(*ast.Ident)
		return ok && al[info.Uses[id]]
	}
	var out []string
	add := func(n ast.Node, what string) { out = append(out, p.Pos(n)+": "+what) }
	ast.Inspect(body, func(x ast.Node) bool {
		switch s := x.(type) {
		case *ast.AssignStmt:
			for _, l := range s.Lhs {
				if ix, ok := ast.Unparen(l).(*ast.IndexExpr); ok && isAlias(ix.X) {
					add(s, "element store "+exprStr(l))
				}
			}
		case *ast.CallExpr:
			name := calleeName(info, s)
			switch {
			case exprStr(s.Fun) == "append" && len(s.Args) >= 1:
				a0 := ast.Unparen(s.Args[0])
				if sl, ok := a0.(*ast.SliceExpr); ok && sl.High != nil && isAlias(sl.X) {
					add(s, "append onto the re-sliced shared array "+exprStr(a0))
				}
				if id, ok := a0.(*ast.Ident); ok && short[info.Uses[id]] {
					add(s, "append onto "+id.Name+", a shortened re-slice of the shared array")
				}
			case exprStr(s.Fun) == "copy" && len(s.Args) == 2:
				d := ast.Unparen(s.Args[0])
				if sl, ok := d.(*ast.SliceExpr); ok {
					d = sl.X
				}
				if isAlias(d) {
					add(s, "copy into "+exprStr(s.Args[0]))
				}
			case strings.HasPrefix(name, "sort.") && len(s.Args) >= 1 && isAlias(s.Args[0]):
				add(s, name+" sorts in place")
			case depth < 2:
				if fn := calleeOf(info, s); fn != nil {
					if callee := p.FuncOf(fn); callee != nil && callee.Decl.Body != nil {
						k := 0
						for _, pf := range callee.Decl.Type.Params.List {
							for _, pn := range pf.Names {
								if k < len(s.Args) && isAlias(s.Args[k]) {
									if pobj := callee.Pkg.TypesInfo.Defs[pn]; pobj != nil {
										if w := p.writesInto(callee, callee.Decl.Body, pobj, depth+1); len(w) > 0 {
											add(s, fmt.Sprintf("%s writes into its parameter %s (%s)", callee.Name, pn.Name, w[0]))
										}
									}
								}
								k++
							}
						}
					}
				}
			}
		}
		return true
	})
	return out
}

// sharedSource: e evaluates to a published read-only slice.
func (p *Program) sharedSource(info *types.Info, e ast.Expr) string {
	e = ast.Unparen(e)
	switch x := e.(type) {
	case *ast.SelectorExpr:
		for _, tf := range [][2]string{{"hostTokens", "hosts"}, {"tokenRing", "tokens"}, {"tokenRing", "hosts"}} {
			if p.isField(info, x, tf[0], tf[1]) {
				return tf[0] + "." + tf[1]
			}
		}
	case *ast.CallExpr:
		if calleeName(info, x) == "(*cowHostList).get" {
			return "cowHostList.get()"
		}
	case *ast.IndexExpr:
		return p.sharedSource(info, x.X)
	}
	return ""
}

// ruleSharedSlices: no function of the root package writes into a slice it obtained from a published snapshot.
func ruleSharedSlices(p *Program, r *Report) {
	n := 0
	p.forEachFunc(false, func(fi *FuncInfo) {
		if fi.Pkg != p.Root || fi.Decl.Body == nil {
			return
		}
		// the owners of the snapshots build new ones; they never hand the old array to writers either, but they
		// are allowed to write the fresh copies they make (checked through the freshness test below)
		info := fi.Pkg.TypesInfo
		seq := map[string]int{}
		ast.Inspect(fi.Decl.Body, func(x ast.Node) bool {
			as, ok := x.(*ast.AssignStmt)
			if !ok || len(as.Lhs) != len(as.Rhs) {
				return true
			}
			for i, l := range as.Lhs {
				id, ok := l.(*ast.Ident)
				if !ok {
					continue
				}
				src := p.sharedSource(info, as.Rhs[i])
				if src == "" {
					continue
				}
				obj := info.Defs[id]
				if obj == nil {
					obj = info.Uses[id]
				}
				if obj == nil {
					continue
				}
				if _, isSlice := obj.Type().Underlying().(*types.Slice); !isSlice {
					continue
				}
				n++
				key := fmt.Sprintf("%s: %s taken from %s stays read-only", fi.Name, id.Name, src)
				seq[key]++
				construct := key
				if seq[key] > 1 {
					construct = fmt.Sprintf("%s #%d", key, seq[key])
				}
				w := p.writesInto(fi, fi.Decl.Body, obj, 0)
				r.Check(len(w) == 0, as, construct, "no write into its backing array (element store, shortened append, copy-into, sort; helpers followed)",
					fmt.Sprintf("%s is the published, shared %s and its backing array is written (%s): every other query that holds the same snapshot sees hosts duplicated, dropped or reordered", id.Name, src, strings.Join(w, "; ")))
			}
			return true
		})
		// direct use without a local: f(shared) where f writes its parameter
		for _, c := range callsIn(fi.Decl.Body) {
			fn := calleeOf(info, c)
			if fn == nil {
				continue
			}
			callee := p.FuncOf(fn)
			if callee == nil || callee.Decl.Body == nil {
				continue
			}
			k := 0
			for _, pf := range callee.Decl.Type.Params.List {
				for _, pn := range pf.Names {
					if k < len(c.Args) {
						if src := p.sharedSource(info, c.Args[k]); src != "" {
							if pobj := callee.Pkg.TypesInfo.Defs[pn]; pobj != nil {
								if _, isSlice := pobj.Type().Underlying().(*types.Slice); isSlice {
									n++
									w := p.writesInto(callee, callee.Decl.Body, pobj, 1)
									r.Check(len(w) == 0, c, fmt.Sprintf("%s passes %s to %s, which leaves it unmodified", fi.Name, src, callee.Name), "callee does not write its parameter",
										fmt.Sprintf("the shared %s is passed to %s, which writes into it (%s)", src, callee.Name, strings.Join(w, "; ")))
								}
							}
						}
					}
					k++
				}
			}
		}
	})
	if n == 0 {
		r.Unresolved("no use of a published host/token snapshot found")
	}
}

// ruleGoHandoff: a slice-typed struct field passed to a goroutine (`go f(x.field)`) is given away: the same
// function must replace the field by fresh storage (make / nil / literal) and must not re-slice it, or the
// goroutine and the next writer share one backing array.
func ruleGoHandoff(p *Program, r *Report) {
	n := 0
	p.forEachFunc(false, func(fi *FuncInfo) {
		if fi.Pkg != p.Root || fi.Decl.Body == nil {
			return
		}
		info := fi.Pkg.TypesInfo
		ast.Inspect(fi.Decl.Body, func(x ast.Node) bool {
			gs, ok := x.(*ast.GoStmt)
			if !ok {
				return true
			}
			for _, a := range gs.Call.Args {
				a = ast.Unparen(a)
				// a local that holds the field's slice header (buffered := x.events)
				if id, isId := a.(*ast.Ident); isId {
					if d := localDef(info, fi, id); d != nil {
						a = ast.Unparen(d)
					}
				}
				sel, ok := a.(*ast.SelectorExpr)
				if !ok {
					continue
				}
				t := info.TypeOf(sel)
				if t == nil {
					continue
				}
				if _, isSlice := t.Underlying().(*types.Slice); !isSlice {
					continue
				}
				if fieldOf(info, sel) == nil {
					continue
				}
				n++
				field := exprStr(sel)
				fresh, reused := false, ""
				ast.Inspect(fi.Decl.Body, func(y ast.Node) bool {
					as, ok := y.(*ast.AssignStmt)
					if !ok || as.Pos() < gs.End() {
						return true
					}
					for i, l := range as.Lhs {
						if exprStr(l) != field || i >= len(as.Rhs) {
							continue
						}
						rhs := ast.Unparen(as.Rhs[i])
						switch v := rhs.(type) {
						case *ast.CallExpr:
							if exprStr(v.Fun) == "make" {
								fresh = true
							}
						case *ast.CompositeLit:
							fresh = true
						case *ast.Ident:
							if v.Name == "nil" {
								fresh = true
							}
						case *ast.SliceExpr:
							if exprStr(v.X) == field {
								reused = exprStr(rhs)
							}
						}
					}
					return true
				})
				r.Check(fresh && reused == "", gs, fmt.Sprintf("%s: %s handed to a goroutine is replaced by fresh storage", fi.Name, field), "field re-made after the go statement",
					fmt.Sprintf("%s is passed to a goroutine and then %s: the goroutine reads the batch while later writers append into the same backing array, so events are overwritten or lost before they are handled",
						field, ifs(reused != "", "re-sliced ("+reused+") instead of re-allocated", "not replaced by fresh storage")))
			}
			return true
		})
	})
	if n == 0 {
		r.Unresolved("no goroutine receives a slice-typed field (the event debouncer hand-off is gone)")
	}
	_ = token.NoPos
}
