package main

import (
	"fmt"
	"go/ast"
	"go/token"
	"go/types"
	"os"
	"sort"
	"strings"
)

func init() {
	register(&PropertySpec{
		ID: "C09",
		Explanation: "Structural necessary conditions of 'partition tokens equal the ones Cassandra computes': R1 every tail byte of the key enters the Murmur3 state through block(), which sign-extends via int8, and sign-extended bytes are only ever folded with XOR (never OR); the fifteen-case tail table has the reference byte index, shift and target word; " +
			"R2 the multiplication, rotation, mixing and finalisation constants are those of MurmurHash3 x64-128; R3 the block readers (unsafe and appengine variants) read two little-endian int64 at n*16; R4 the composite routing key is, per component in partition-key order, [2-byte big-endian length][encoding][0x00], the single-column key is the bare encoding, each component is marshalled with its own type and value index, and the returned key is storage allocated by that call; R5 the Murmur3 partitioner hashes with Murmur3H1 and tokens order numerically; the ordered partitioner uses the key bytes.",
		NotDecided: "hash values for all inputs (numerical); MD5/absolute-value handling of the random partitioner beyond its shape; token-string parsing and ordering for all strings.",
		Rules: []*Rule{
			{ID: "C09.R1", Floor: 16, Doc: "for each tail length 0..15 the value computed after the block loop (signed tail bytes XOR-folded, mixed, length folded, fmix) equals the reference term", Run: c09r1},
			{ID: "C09.R2", Floor: 6, Doc: "seed 0, block loop over all 16-byte blocks, per-block transformer of h1/h2 equals MurmurHash3 x64-128 (constants, rotations)", Run: c09r2},
			{ID: "C09.R3", Floor: 2, Doc: "getBlock reads two little-endian int64 at n*16", Run: c09r3},
			{ID: "C09.R4", Floor: 6, Doc: "routing key framing, component pairing and fresh storage", Run: c09r4},
			{ID: "C09.R5", Floor: 14, Doc: "partitioners: Murmur3 -> Murmur3H1, numeric order; ordered -> key bytes", Run: c09r5},
			{ID: "C09.R6", Floor: 4, Doc: "routingKeyInfo pairs index i with the i-th partition-key column and its type", Run: c09r6},
			{ID: "C09.R7", Floor: 1, Doc: "Query.routingKey holds only a key the caller supplied: a key computed from the bound values is never stored there", Run: c09r7},
		},
		Variants:     []Variant{{Name: "appengine", GOARCH: "amd64", Tags: "appengine"}},
		SkipVariants: map[string]string{"linux/386": "the term interpreter compares the hash with reference terms over a 64-bit int; with a 32-bit int every length expression carries a sign extension that the comparison would need interval reasoning to remove (the block arithmetic itself is on 64-bit words on every target)"},
	})
}

func murmurFunc(p *Program, name string) *FuncInfo { return p.Func("murmur." + name) }

// ---- MurmurHash3 x64-128 (Cassandra variant: signed tail bytes), as terms -------------------------------------

const (
	mmC1    = 0x87c37b91114253d5
	mmC2    = 0x4cf5ad432745937f
	mmFmix1 = 0xff51afd7ed558ccd
	mmFmix2 = 0xc4ceb9fe1a85ec53
)

func mmMixK1(k *term) *term {
	return mk("mul", mk("rotl", mk("mul", k, tConst(mmC1)), tConst(31)), tConst(mmC2))
}
func mmMixK2(k *term) *term {
	return mk("mul", mk("rotl", mk("mul", k, tConst(mmC2)), tConst(33)), tConst(mmC1))
}
func mmFmix(n *term) *term {
	n = mk("xor", n, mk("lshr", n, tConst(33)))
	n = mk("mul", n, tConst(mmFmix1))
	n = mk("xor", n, mk("lshr", n, tConst(33)))
	n = mk("mul", n, tConst(mmFmix2))
	n = mk("xor", n, mk("lshr", n, tConst(33)))
	return n
}

// mmTailFinal: the reference value of the hash after the block loop left (h1, h2), for a tail of t bytes at
// offset off of data and total length L. signedBytes selects Cassandra's sign extension of the tail bytes.
func mmTailFinal(h1, h2, off, L *term, t int, signedBytes bool) *term {
	byteAt := func(i int) *term {
		b := tSym("byte:data[" + mk("add", off, tConst(uint64(i))).String() + "]")
		if signedBytes {
			return mkExt("sext", 8, b)
		}
		return b
	}
	if t > 8 {
		k2 := tConst(0)
		for i := t - 1; i >= 8; i-- {
			k2 = mk("xor", k2, mk("shl", byteAt(i), tConst(uint64(8*(i-8)))))
		}
		h2 = mk("xor", h2, mmMixK2(k2))
	}
	if t > 0 {
		k1 := tConst(0)
		n := t
		if n > 8 {
			n = 8
		}
		for i := n - 1; i >= 0; i-- {
			k1 = mk("xor", k1, mk("shl", byteAt(i), tConst(uint64(8*i))))
		}
		h1 = mk("xor", h1, mmMixK1(k1))
	}
	h1 = mk("xor", h1, L)
	h2 = mk("xor", h2, L)
	h1 = mk("add", h1, h2)
	h2 = mk("add", h2, h1)
	h1 = mmFmix(h1)
	h2 = mmFmix(h2)
	return mk("add", h1, h2)
}

// murmurRun interprets Murmur3H1 for inputs of length L with L & 15 == t.
type murmurRun struct {
	se     *symEval
	ret    *term
	loop   *symLoop
	h1, h2 string // names of the two state variables
	ctr    string
	err    string
}

func runMurmur(p *Program, fi *FuncInfo, t int) *murmurRun {
	se := newSymEval(p)
	se.opaque["murmur.getBlock"] = true
	se.attrs["L"] = map[uint64]uint64{15: uint64(t)}
	mr := &murmurRun{se: se}
	if fi.Decl.Type.Params == nil || len(fi.Decl.Type.Params.List) != 1 {
		mr.err = "Murmur3H1 does not take exactly one parameter"
		return mr
	}
	vals, ok := se.evalFunc(fi, []sval{{kind: 's', base: "data", off: tConst(0), slen: tSym("L")}})
	if len(se.unsup) > 0 || !ok {
		mr.err = strings.Join(se.unsup, "; ")
		if mr.err == "" {
			mr.err = "not interpretable"
		}
		return mr
	}
	if len(vals) != 1 || vals[0].kind != 'i' {
		mr.err = "no integer result"
		return mr
	}
	mr.ret = vals[0].t
	if len(se.loops) != 1 {
		mr.err = fmt.Sprintf("%d loops with a symbolic bound (expected the block loop only)", len(se.loops))
		return mr
	}
	mr.loop = se.loops[0]
	// roles: the counter is compared in the condition; a state variable's new value depends on its old one
	for name, post := range mr.loop.post {
		pre := mr.loop.pre[name]
		if pre == nil || !strings.Contains(post.String(), pre.String()) {
			continue
		}
		ps := post.String()
		has0, has1 := strings.Contains(ps, "murmur.getBlock.0("), strings.Contains(ps, "murmur.getBlock.1(")
		switch {
		case !has0 && !has1:
			if strings.Contains(mr.loop.cond, pre.String()) {
				mr.ctr = name
			}
		case has0 && !has1:
			mr.h1 = name
		case has1:
			mr.h2 = name
		}
	}
	if mr.h1 == "" || mr.h2 == "" || mr.ctr == "" {
		mr.err = fmt.Sprintf("block loop: cannot identify the counter and the two state words (counter=%q h1=%q h2=%q)", mr.ctr, mr.h1, mr.h2)
	}
	return mr
}

func shortTerm(t *term) string {
	s := t.String()
	if len(s) > 420 {
		return s[:200] + " … " + s[len(s)-200:]
	}
	return s
}

func c09r1(p *Program, r *Report) {
	fi := murmurFunc(p, "Murmur3H1")
	if fi == nil {
		r.Unresolved("murmur.Murmur3H1 not found")
		return
	}
	L := tSym("L")
	off := mk("mul", &term{op: "sdiv", args: []*term{L, tConst(16)}}, tConst(16))
	for t := 0; t <= 15; t++ {
		mr := runMurmur(p, fi, t)
		if mr.err != "" {
			r.Unresolved("Murmur3H1 (tail of %d bytes): %s", t, mr.err)
			return
		}
		h1, h2 := tSym(fmt.Sprintf("%s@0", mr.h1)), tSym(fmt.Sprintf("%s@0", mr.h2))
		want := mmTailFinal(h1, h2, off, L, t, true)
		got := mr.ret
		why := ""
		if got.String() != want.String() {
			switch {
			case t > 0 && got.String() == mmTailFinal(h1, h2, off, L, t, false).String():
				why = "the tail bytes are folded without sign extension: inputs with a byte >= 0x80 in the last (length mod 16) bytes hash differently from Cassandra, which reads the tail as signed bytes"
			case strings.Contains(got.String(), "or("):
				why = fmt.Sprintf("for inputs whose length is %d mod 16 a tail word is assembled with | from sign-extended bytes: a byte >= 0x80 sets every higher bit of the word, which the reference's XOR folding does not (result `%s`)", t, shortTerm(got))
			default:
				why = fmt.Sprintf("for inputs whose length is %d mod 16 the result is `%s`; MurmurHash3 x64-128 with Cassandra's signed tail bytes gives `%s`", t, shortTerm(got), shortTerm(want))
			}
		}
		r.Check(why == "", fi.Decl, fmt.Sprintf("Murmur3H1 tail of %d bytes and finalisation", t), "term equals the reference (tail bytes sign-extended, XOR-folded at 8*i, mixed, length folded, fmix)", why)
	}
}

func c09r2(p *Program, r *Report) {
	fi := murmurFunc(p, "Murmur3H1")
	if fi == nil {
		r.Unresolved("murmur.Murmur3H1 not found")
		return
	}
	mr := runMurmur(p, fi, 0)
	if mr.err != "" {
		r.Unresolved("Murmur3H1: %s", mr.err)
		return
	}
	lp := mr.loop
	zero := func(name string) bool { return lp.init[name] != nil && lp.init[name].String() == "0x0" }
	ctrPre := lp.pre[mr.ctr].String()
	r.Check(zero(mr.h1) && zero(mr.h2), fi.Decl, "Murmur3H1 starts from seed 0", "h1 = h2 = 0", "the hash state does not start from seed 0 (Cassandra's Murmur3Partitioner uses seed 0)")
	wantCond := ctrPre + " < sdiv(L,0x10)"
	r.Check(zero(mr.ctr) && lp.cond == wantCond && lp.post[mr.ctr].String() == mk("add", lp.pre[mr.ctr], tConst(1)).String(), fi.Decl, "Murmur3H1 block loop visits blocks 0..len/16-1", wantCond,
		fmt.Sprintf("the block loop runs `%s` from %v stepping to `%s`; the reference processes every 16-byte block i = 0 .. len/16-1 once", lp.cond, lp.init[mr.ctr], lp.post[mr.ctr]))
	K1 := tSym("murmur.getBlock.0(data+0x0," + ctrPre + ")")
	K2 := tSym("murmur.getBlock.1(data+0x0," + ctrPre + ")")
	H1, H2 := lp.pre[mr.h1], lp.pre[mr.h2]
	w1 := mk("add", mk("mul", mk("add", mk("rotl", mk("xor", H1, mmMixK1(K1)), tConst(27)), H2), tConst(5)), tConst(0x52dce729))
	w2 := mk("add", mk("mul", mk("add", mk("rotl", mk("xor", H2, mmMixK2(K2)), tConst(31)), w1), tConst(5)), tConst(0x38495ab5))
	r.Check(lp.post[mr.h1].String() == w1.String(), fi.Decl, "Murmur3H1 block step for h1", "h1 = (rotl(h1 ^ mixK1(k1), 27) + h2)*5 + 0x52dce729",
		fmt.Sprintf("one block turns h1 into `%s`; MurmurHash3 x64-128 has `%s`", shortTerm(lp.post[mr.h1]), shortTerm(w1)))
	r.Check(lp.post[mr.h2].String() == w2.String(), fi.Decl, "Murmur3H1 block step for h2", "h2 = (rotl(h2 ^ mixK2(k2), 31) + h1')*5 + 0x38495ab5",
		fmt.Sprintf("one block turns h2 into `%s`; MurmurHash3 x64-128 has `%s`", shortTerm(lp.post[mr.h2]), shortTerm(w2)))
	// the declared constants (documentation of the algorithm's parameters; the terms above already fix their values)
	scope := p.ByPath[murmurPath].Types.Scope()
	for name, want := range map[string]uint64{"c1": mmC1, "c2": mmC2, "fmix1": mmFmix1, "fmix2": mmFmix2} {
		c, ok := scope.Lookup(name).(*types.Const)
		if !ok {
			continue // a refactoring may inline or rename them; the term comparison does not depend on the names
		}
		var got uint64
		if v, ok2 := constValInt(c); ok2 {
			got = uint64(v)
		}
		r.Check(got == want, nil, "murmur constant "+name, fmt.Sprintf("0x%x", want), fmt.Sprintf("murmur.%s = 0x%x, MurmurHash3 x64-128 uses 0x%x", name, got, want))
	}
}

func c09r3(p *Program, r *Report) {
	gb := murmurFunc(p, "getBlock")
	if gb == nil {
		r.Unresolved("murmur.getBlock not found")
		return
	}
	info := gb.Pkg.TypesInfo
	okUnsafe, okSafe := false, 0
	ast.Inspect(gb.Decl.Body, func(x ast.Node) bool {
		switch c := x.(type) {
		case *ast.CallExpr:
			name := calleeName(info, c)
			if name == "binary.(littleEndian).Uint64" && len(c.Args) == 1 {
				a := strings.ReplaceAll(exprStr(c.Args[0]), " ", "")
				if a == "data[n*16:]" || a == "data[(n*16)+8:]" || a == "data[n*16+8:]" {
					okSafe++
				}
			}
			if tv := info.TypeOf(c); tv != nil && tv.String() == "*[2]int64" && len(c.Args) == 1 && strings.Contains(strings.ReplaceAll(exprStr(c.Args[0]), " ", ""), "&data[n*16]") {
				okUnsafe = true
			}
		}
		return true
	})
	// word order: the first result is the lower-addressed word
	orderOK := false
	if rs, ok := gb.Decl.Body.List[len(gb.Decl.Body.List)-1].(*ast.ReturnStmt); ok && len(rs.Results) == 2 {
		var w [2]string
		for i, res := range rs.Results {
			if id, ok := res.(*ast.Ident); ok {
				if d := localDef(info, gb, id); d != nil {
					w[i] = strings.ReplaceAll(exprStr(d), " ", "")
				}
			}
		}
		orderOK = (w[0] == "block[0]" && w[1] == "block[1]") ||
			(strings.Contains(w[0], "data[n*16:]") && strings.Contains(w[1], "+8:]"))
	}
	r.Check(orderOK, gb.Decl, "murmur.getBlock returns (low word, high word)", "k1 from offset 0, k2 from offset 8", "getBlock returns the two 64-bit words of a block in the wrong order")
	r.Check(okUnsafe || okSafe == 2, gb.Decl, "murmur.getBlock reads two int64 at n*16 (little-endian)", ifs(okUnsafe, "native read of [2]int64 at &data[n*16] (little-endian targets)", "two LittleEndian.Uint64 reads at n*16 and n*16+8"),
		"getBlock does not read the 16-byte block at n*16 as two little-endian 64-bit words")
}

func c09r4(p *Program, r *Report) {
	fi := r.NeedFunc("createRoutingKey")
	if fi == nil {
		return
	}
	info := fi.Pkg.TypesInfo
	tr := newReadTracer(p)
	tr.prims = map[string]string{"Marshal": "marshal", "bytes.(*Buffer).Write": "write", "bytes.(*Buffer).WriteByte": "writebyte", "bytes.(*Buffer).WriteString": "writestring",
		"binary.(bigEndian).PutUint16": "put16be", "binary.(littleEndian).PutUint16": "put16le", "binary.(bigEndian).PutUint32": "put32be", "binary.(littleEndian).PutUint32": "put32le",
		"bytes.(*Buffer).Reset": "reset", "sync.(*Pool).Get": "pool", "sync.(*Pool).Put": "pool", "bytes.(*Buffer).Bytes": "bytes", "bytes.(*Buffer).Truncate": "reset"}
	// helpers the function was split into belong to its layout
	var addInline func(f *FuncInfo, depth int)
	addInline = func(f *FuncInfo, depth int) {
		if depth > 3 {
			return
		}
		for _, c := range p.privateCallees(f) {
			if !tr.inline[c.Name] {
				tr.inline[c.Name] = true
				addInline(c, depth+1)
			}
		}
	}
	addInline(fi, 0)
	tr.noAuto = func(string) bool { return true }
	tr.appendWrites = true
	var single, composite []*pathState
	pooled := ""
	ki := "routingKeyInfo"
	if po := paramObj(info, fi.Decl.Type, 0); po != nil {
		ki = po.Name()
	}
	vals := "values"
	if po := paramObj(info, fi.Decl.Type, 1); po != nil {
		vals = po.Name()
	}
	for _, st := range tr.run(fi, 4) {
		for _, it := range flat(st.trace) {
			walk := []TraceItem{it}
			if it.Prim == "loop" {
				walk = it.Body
			}
			for _, w := range walk {
				if w.Prim == "reset" || w.Prim == "pool" {
					pooled = p.Pos(w.Call) + ": " + exprStr(w.Call)
				}
			}
		}
		if st.done != "return" || st.retStmt == nil {
			continue
		}
		results := st.retStmt.Results
		if len(results) == 1 {
			// `return helper(...)`: the results are the helper's
			if c, isCall := ast.Unparen(results[0]).(*ast.CallExpr); isCall && tr.inline[calleeName(info, c)] && len(st.retExprs) == 2 {
				results = st.retExprs
			}
		}
		if len(results) != 2 || !isNil(info, results[1]) || isNil(info, results[0]) {
			continue // error / nil-key paths
		}
		isSingle, known := false, false
		for k, v := range st.assume {
			if strings.HasPrefix(k, "len(") && strings.HasSuffix(k, ".indexes) == 1") {
				isSingle, known = v, true
			}
		}
		if !known {
			continue
		}
		if isSingle {
			single = append(single, st)
		} else {
			composite = append(composite, st)
		}
	}
	if len(tr.unsup) > 0 {
		r.Unresolved("createRoutingKey: %s", strings.Join(tr.unsup, "; "))
		return
	}
	retIs := func(st *pathState, dst string) bool {
		res := ast.Unparen(st.retStmt.Results[0])
		if c, isCall := res.(*ast.CallExpr); isCall && dst != "" && st.retName == dst {
			// `return helper(...)`: the helper returned the variable the encoding was bound to
			if fn := calleeOf(info, c); fn != nil && tr.inline[calleeName(info, c)] {
				return true
			}
		}
		return dst != "" && exprStr(res) == dst
	}
	// single column: the bare encoding of values[indexes[0]] with types[0]
	okSingle := len(single) > 0
	for _, st := range single {
		ft := flat(st.trace)
		if os.Getenv("DBGC09") != "" {
			fmt.Fprintln(os.Stderr, "C09.R4 single:", traceStr(ft), "ret:", exprStr(st.retStmt.Results[0]), "retName:", st.retName)
			for _, it := range ft {
				fmt.Fprintln(os.Stderr, "   ", it.Prim, it.Args, "dst="+it.Dst)
			}
		}
		if len(ft) != 1 || ft[0].Prim != "marshal" || len(ft[0].Args) != 2 || ft[0].Args[0] != ki+".types[0]" || ft[0].Args[1] != vals+"["+ki+".indexes[0]]" || !retIs(st, ft[0].Dst) {
			okSingle = false
		}
	}
	r.Check(okSingle, fi.Decl, "createRoutingKey single-column key is the bare encoding", "returns Marshal(types[0], values[indexes[0]]) directly under len(indexes) == 1", "the single-column routing key is not the unframed encoded value")
	if len(composite) == 0 {
		r.Unresolved("createRoutingKey: no successful composite-key path")
		return
	}
	okOrder, okPair, okFrame, okLen, okFresh := true, true, true, true, true
	gotPair, gotFrame, gotLen := "", "", int64(-1)
	for _, st := range composite {
		ft := flat(st.trace)
		var loop *TraceItem
		var after []TraceItem
		for i := range ft {
			if ft[i].Prim == "loop" && loop == nil {
				loop = &ft[i]
				after = ft[i+1:]
			} else if loop == nil && (strings.HasPrefix(ft[i].Prim, "write") || strings.HasPrefix(ft[i].Prim, "put") || ft[i].Prim == "marshal") {
				okFrame = false // something is written before the components
				gotFrame = traceStr(ft)
			}
		}
		if loop == nil {
			okOrder = false
			continue
		}
		key := ""
		if strings.HasPrefix(loop.Arg, "range "+ki+".indexes key ") {
			key = strings.TrimPrefix(loop.Arg, "range "+ki+".indexes key ")
		}
		if key == "" {
			okOrder = false
		}
		body := loop.Body
		var seq []string
		for _, it := range body {
			seq = append(seq, it.Prim)
		}
		gotFrame = strings.Join(seq, " ")
		if os.Getenv("DBGC09") != "" {
			fmt.Fprintln(os.Stderr, "C09.R4 composite:", traceStr(ft), "loop:", loop.Arg)
			for _, it := range body {
				fmt.Fprintln(os.Stderr, "   ", it.Prim, it.Args, "dst="+it.Dst, "recv="+it.Recv)
			}
		}
		if strings.Join(seq, " ") == "marshal write write writebyte" {
			// the length prefix is written as a literal of shifted bytes
			m, w1, w2, wb := body[0], body[1], body[2], body[3]
			gotPair = strings.Join(m.Args, ", ")
			if len(m.Args) != 2 || m.Args[0] != ki+".types["+key+"]" || m.Args[1] != vals+"["+ki+".indexes["+key+"]]" {
				okPair = false
			}
			winfo := w1.Fn.Pkg.TypesInfo
			enc, isEnc := encodingOf(winfo, nil, w1.Call.Args[0])
			lenOf := ""
			if isEnc {
				lenOf = enc.Value
				if id := identNamed(w1.Fn, enc.Value); id != nil {
					if d := localDef(winfo, w1.Fn, id); d != nil {
						lenOf = stripConv(winfo, d)
					}
				}
			}
			if !isEnc || !enc.BigEndian || lenOf != "len("+m.Dst+")" || w2.Args[0] != m.Dst || !wb.HasVal || wb.Val != 0 || w1.Recv != w2.Recv || w2.Recv != wb.Recv {
				okFrame = false
				gotFrame = fmt.Sprintf("write(%s) write(%s) writebyte(%s)", w1.Args[0], w2.Args[0], wb.Arg)
			}
			if isEnc {
				gotLen = int64(enc.Width)
			}
			if gotLen != 2 {
				okLen = false
			}
			if !c09FreshBuffer(fi, w1.Fn, info, st, w1.Recv, after, retIs) {
				okFresh = false
			}
			continue
		}
		if strings.Join(seq, " ") != "marshal put16be write write writebyte" {
			okFrame = false
			continue
		}
		m, put, w1, w2, wb := body[0], body[1], body[2], body[3], body[4]
		gotPair = strings.Join(m.Args, ", ")
		if len(m.Args) != 2 || m.Args[0] != ki+".types["+key+"]" || m.Args[1] != vals+"["+ki+".indexes["+key+"]]" {
			okPair = false
		}
		lb := strings.TrimSuffix(put.Args[0], "[:]")
		if strings.ReplaceAll(put.Args[1], " ", "") != "uint16(len("+m.Dst+"))" || strings.TrimSuffix(w1.Args[0], "[:]") != lb || w2.Args[0] != m.Dst || !wb.HasVal || wb.Val != 0 || w1.Recv != w2.Recv || w2.Recv != wb.Recv {
			okFrame = false
			gotFrame = fmt.Sprintf("put16be(%s) write(%s) write(%s) writebyte(%s)", strings.Join(put.Args, ","), w1.Args[0], w2.Args[0], wb.Arg)
		}
		gotLen = staticLen(put.Fn.Pkg.TypesInfo, put.Fn, put.Call.Args[0])
		if gotLen != 2 {
			okLen = false
		}
		if !c09FreshBuffer(fi, w1.Fn, info, st, w1.Recv, after, retIs) {
			okFresh = false
		}
	}
	r.Check(okOrder, fi.Decl, "createRoutingKey iterates the components in partition-key order", "range routingKeyInfo.indexes", "the composite key is not built by walking the partition-key index list in order")
	r.Check(okPair, fi.Decl, "createRoutingKey marshals component i with types[i] and values[indexes[i]]", gotPair, "a component is marshalled with a type or value that does not belong to it: "+gotPair)
	r.Check(okFrame, fi.Decl, "createRoutingKey component framing", gotFrame,
		"a component is framed as `"+gotFrame+"`; Cassandra's composite key is [2-byte big-endian length][value][0x00] per component")
	r.Check(okLen, fi.Decl, "createRoutingKey length prefix buffer is exactly 2 bytes", fmt.Sprint(gotLen), fmt.Sprintf("the length prefix written per component is %d bytes long, Cassandra's composite format has a 2-byte length", gotLen))
	r.Check(okFresh && pooled == "", fi.Decl, "createRoutingKey returns storage allocated by this call", "buffer created here, never pooled or reset", "the routing key is returned from a buffer that is pooled, reset or not created by this call"+ifs(pooled != "", " ("+pooled+")", "")+": the next routing key overwrites it while the first is still being hashed")
}

// c09FreshBuffer: the returned bytes are those of the buffer written, which this call created.
func c09FreshBuffer(fi *FuncInfo, wfn *FuncInfo, info *types.Info, st *pathState, bufRecv string, after []TraceItem, retIs func(*pathState, string) bool) bool {
	fresh := false
	// the key is built by appending to a byte slice that starts empty in this call and is returned itself
	if len(after) == 0 && retIs(st, bufRecv) {
		for _, u := range []*FuncInfo{wfn} {
			if u == nil {
				continue
			}
			uinfo := u.Pkg.TypesInfo
			id := identNamed(u, bufRecv)
			if id == nil || !isByteSlice(uinfo.TypeOf(id)) {
				continue
			}
			// one initial definition; every other assignment appends to the slice itself
			obj := uinfo.Uses[id]
			var init ast.Expr
			ninit, okShape, declared := 0, true, false
			ast.Inspect(u.Decl.Body, func(x ast.Node) bool {
				switch y := x.(type) {
				case *ast.ValueSpec:
					for i, n := range y.Names {
						if uinfo.Defs[n] == obj {
							ninit++
							if i < len(y.Values) {
								init = y.Values[i]
							} else {
								declared = true
							}
						}
					}
				case *ast.AssignStmt:
					for i, l := range y.Lhs {
						lid, isId := ast.Unparen(l).(*ast.Ident)
						if !isId || (uinfo.Defs[lid] != obj && uinfo.Uses[lid] != obj) {
							continue
						}
						if len(y.Lhs) != len(y.Rhs) {
							okShape = false
							continue
						}
						if y.Tok == token.DEFINE && uinfo.Defs[lid] == obj {
							ninit++
							init = y.Rhs[i]
							continue
						}
						c, isC := ast.Unparen(y.Rhs[i]).(*ast.CallExpr)
						if !isC || exprStr(c.Fun) != "append" || len(c.Args) < 1 || exprStr(ast.Unparen(c.Args[0])) != lid.Name {
							okShape = false
						}
					}
				case *ast.UnaryExpr:
					if y.Op == token.AND && isIdentOf(uinfo, y.X, obj) {
						okShape = false
					}
				}
				return true
			})
			if ninit != 1 || !okShape {
				return false
			}
			if declared {
				return true
			}
			switch v := ast.Unparen(init).(type) {
			case *ast.CallExpr:
				if calleeName(uinfo, v) == "builtin.make" && len(v.Args) >= 2 {
					if k, isK := constInt(uinfo, v.Args[1]); isK && k == 0 {
						return true
					}
				}
				return false
			case *ast.CompositeLit:
				return len(v.Elts) == 0
			}
			return isNil(uinfo, init)
		}
		return false
	}
	if len(after) == 1 && after[0].Prim == "bytes" && after[0].Recv == bufRecv && (retIs(st, after[0].Dst) || posWithin(st.retStmt, after[0].Pos)) {
		if id := identNamed(fi, bufRecv); id != nil {
			if d := localDef(info, fi, id); d != nil {
				switch v := ast.Unparen(d).(type) {
				case *ast.CallExpr:
					n := calleeName(info, v)
					fresh = n == "bytes.NewBuffer" || n == "builtin.new" || n == "bytes.NewBufferString"
				case *ast.UnaryExpr:
					_, fresh = ast.Unparen(v.X).(*ast.CompositeLit)
				case *ast.CompositeLit:
					fresh = true
				}
			} else if declaredZero(info, fi, id) {
				fresh = true
			}
		}
	}
	return fresh
}

// identNamed finds a use of the local variable called name in fi.
func identNamed(fi *FuncInfo, name string) *ast.Ident {
	var out *ast.Ident
	ast.Inspect(fi.Decl.Body, func(x ast.Node) bool {
		if id, ok := x.(*ast.Ident); ok && id.Name == name && out == nil && fi.Pkg.TypesInfo.Uses[id] != nil {
			out = id
		}
		return true
	})
	return out
}

// declaredZero: id is a local declared with `var x T` (zero value) and never assigned as a whole.
func declaredZero(info *types.Info, fi *FuncInfo, id *ast.Ident) bool {
	obj := info.Uses[id]
	found := false
	ast.Inspect(fi.Decl.Body, func(x ast.Node) bool {
		if vs, ok := x.(*ast.ValueSpec); ok && len(vs.Values) == 0 {
			for _, n := range vs.Names {
				if info.Defs[n] == obj {
					found = true
				}
			}
		}
		return true
	})
	return found && singleAssigned(info, fi.Decl.Body, obj)
}

func c09r5(p *Program, r *Report) {
	if fi := r.NeedFunc("(murmur3Partitioner).Hash"); fi != nil {
		info := fi.Pkg.TypesInfo
		ok := false
		ast.Inspect(fi.Decl.Body, func(x ast.Node) bool {
			if c, isC := x.(*ast.CallExpr); isC && isCallTo(info, c, "murmur.Murmur3H1") && len(c.Args) == 1 && isIdentOf(info, c.Args[0], paramObj(info, fi.Decl.Type, 0)) {
				ok = true
			}
			return true
		})
		r.Check(ok, fi.Decl, "murmur3Partitioner.Hash hashes the whole key with Murmur3H1", "Murmur3H1(partitionKey)", "the Murmur3 partitioner does not hash the partition key with Murmur3H1")
	}
	if fi := r.NeedFunc("(murmur3Token).Less"); fi != nil {
		c09Less(p, r, fi, "murmur3Token orders as signed 64-bit numbers", "int", "Murmur3 tokens are not ordered by a signed numeric comparison")
	}
	if fi := r.NeedFunc("(orderedPartitioner).Hash"); fi != nil {
		s := exprStr(fi.Decl.Body.List[0].(*ast.ReturnStmt).Results[0])
		r.Check(s == "orderedToken(partitionKey)", fi.Decl, "orderedPartitioner uses the key bytes as the token", s, "the order-preserving partitioner does not use the key bytes themselves")
	}
	if fi := r.NeedFunc("(orderedToken).Less"); fi != nil {
		nt := p.NamedType("orderedToken")
		isStr := false
		if nt != nil {
			if b, ok := nt.Underlying().(*types.Basic); ok && b.Kind() == types.String {
				isStr = true
			}
		}
		r.Check(isStr, fi.Decl, "orderedToken is a string type (unsigned byte order)", "string", "orderedToken is not a string: Go would not compare it as unsigned bytes")
		c09Less(p, r, fi, "orderedToken orders by unsigned byte-wise comparison", "string", "ordered tokens are not compared as Go strings / bytes (unsigned, lexicographic)")
	}
	if fi := r.NeedFunc("(randomPartitioner).Hash"); fi != nil {
		info := fi.Pkg.TypesInfo
		tr := newReadTracer(p)
		tr.prims = map[string]string{"md5.Sum": "md5", "big.(*Int).SetBytes": "setbytes", "big.(*Int).Sub": "sub", "big.(*Int).Abs": "abs"}
		for _, o := range []string{"Neg", "Add", "Mod", "And", "Rsh", "Lsh", "Or", "Xor", "Not", "Mul", "SetInt64", "SetUint64", "SetString"} {
			tr.prims["big.(*Int)."+o] = "other:" + o
		}
		tr.noAuto = func(string) bool { return true }
		for _, c := range p.privateCallees(fi) {
			tr.inline[c.Name] = true
		}
		nOK, bad := 0, ""
		for _, st := range tr.run(fi, 4) {
			ft := flat(st.trace)
			var seq []string
			for _, it := range ft {
				seq = append(seq, it.Prim)
			}
			got := strings.Join(seq, " ")
			if len(ft) < 2 || ft[0].Prim != "md5" || ft[1].Prim != "setbytes" || len(ft[0].Args) != 1 || ft[0].Args[0] != "partitionKey" || strings.TrimSuffix(ft[1].Args[0], "[:]") != ft[0].Dst || ft[0].Dst == "" {
				bad = "the token is not built from the 16 bytes of md5(partitionKey) read big-endian (`" + traceStr(ft) + "`)"
				continue
			}
			sum := ft[0].Dst
			val := map[string]bool{ft[1].Dst: true, ft[1].Recv: true}
			// is the sign bit of the digest set on this path?
			neg, known := false, false
			for k, v := range st.assume {
				switch k {
				case "127 < " + sum + "[0]", "bit:" + sum + "[0]:0x80", "int8(" + sum + "[0]) < 0":
					neg, known = v, true
				case sum + "[0] < 128", "0 < int8(" + sum + "[0])":
					neg, known = !v, k == sum+"[0] < 128"
				}
			}
			if !known {
				r.Unresolved("randomPartitioner.Hash: the test of the digest's sign bit was not recognised on path [%s]", assumeStr(st))
				return
			}
			want := "md5 setbytes"
			if neg {
				want = "md5 setbytes sub abs"
			}
			if got != want {
				bad = fmt.Sprintf("with the digest's top bit %s the value is computed by `%s`", ifs(neg, "set", "clear"), got)
				continue
			}
			if neg {
				sub, abs := ft[2], ft[3]
				if !val[sub.Recv] || len(sub.Args) != 2 || !val[sub.Args[0]] || sub.Args[1] != "maxHashInt" || !val[abs.Recv] || len(abs.Args) != 1 || !val[abs.Args[0]] {
					bad = "the negative case is not |val - 2^128|: `" + traceStr(ft) + "`"
					continue
				}
			}
			// the returned token is that value
			if st.retStmt == nil || len(st.retStmt.Results) != 1 {
				bad = "no single-value return"
				continue
			}
			ret := p.canonText(fi, st.retStmt.Results[0])
			okRet := false
			for v := range val {
				if v != "" && mentions(ret, v) {
					okRet = true
				}
			}
			if !okRet && !strings.Contains(ret, "SetBytes(") {
				bad = "the value returned (" + exprStr(st.retStmt.Results[0]) + ") is not the integer built from the digest"
				continue
			}
			nOK++
		}
		if len(tr.unsup) > 0 {
			r.Unresolved("randomPartitioner.Hash: %s", strings.Join(tr.unsup, "; "))
			return
		}
		r.Check(bad == "" && nOK == 2, fi.Decl, "randomPartitioner.Hash = |signed 128-bit MD5|", "digest read big-endian; when its top bit is set: |val - 2^128|",
			"the random partitioner does not compute the absolute value of the MD5 digest read as a signed 128-bit big-endian integer: "+ifs(bad != "", bad, fmt.Sprintf("%d of the 2 sign cases found", nOK)))
		ok := false
		for _, f := range fi.Pkg.Syntax {
			ast.Inspect(f, func(x ast.Node) bool {
				if vs, isV := x.(*ast.ValueSpec); isV && len(vs.Names) > 0 && vs.Names[0].Name == "maxHashInt" && len(vs.Values) == 1 {
					if c, isC := vs.Values[0].(*ast.CallExpr); isC && calleeName(info, c) == "big.(*Int).SetString" {
						v, _ := constString(info, c.Args[0])
						b, _ := constInt(info, c.Args[1])
						ok = v == "340282366920938463463374607431768211456" && b == 10
					}
				}
				return true
			})
		}
		r.Check(ok, fi.Decl, "maxHashInt is 2^128", "340282366920938463463374607431768211456", "maxHashInt is not 2^128")
	}
	if fi := r.NeedFunc("(*randomToken).Less"); fi != nil {
		c09Less(p, r, fi, "randomToken orders numerically", "big", "random tokens are not ordered by big-integer comparison")
	}
	for name, want := range map[string]string{
		"(murmur3Partitioner).ParseString": "strconv.ParseInt(str, 10, 64)",
		"(randomPartitioner).ParseString":  "val.SetString(str, 10)",
	} {
		fi := r.NeedFunc(name)
		if fi == nil {
			continue
		}
		ok := false
		pinfo := fi.Pkg.TypesInfo
		strParam := paramObj(pinfo, fi.Decl.Type, 0)
		for _, c := range callsIn(fi.Decl.Body) {
			switch calleeName(pinfo, c) {
			case "strconv.ParseInt":
				if strings.HasPrefix(want, "strconv.ParseInt") && len(c.Args) == 3 && isIdentOf(pinfo, c.Args[0], strParam) {
					b, _ := constInt(pinfo, c.Args[1])
					w, _ := constInt(pinfo, c.Args[2])
					ok = b == 10 && w == 64
				}
			case "big.(*Int).SetString":
				if strings.Contains(want, "SetString") && len(c.Args) == 2 && isIdentOf(pinfo, c.Args[0], strParam) {
					b, _ := constInt(pinfo, c.Args[1])
					ok = b == 10
				}
			}
		}
		r.Check(ok, fi.Decl, name+" parses a base-10 integer of the token's width", want, name+" does not parse the token string as "+want)
	}
	if fi := r.NeedFunc("newTokenRing"); fi != nil {
		info := fi.Pkg.TypesInfo
		want := map[string]string{"Murmur3Partitioner": "murmur3Partitioner", "OrderedPartitioner": "orderedPartitioner", "RandomPartitioner": "randomPartitioner"}
		tr := newReadTracer(p)
		tr.prims = map[string]string{"sort.Sort": "sort", "sort.Stable": "sort"}
		tr.noAuto = func(string) bool { return true }
		tr.trackField = "partitioner"
		// the choice of the implementation may live in a helper of its own
		for _, h := range p.privateCallees(fi) {
			if h.Decl.Recv == nil {
				tr.inline[h.Name] = true
			}
		}
		got := map[string]map[string]bool{}
		sorted, unsortedPath := true, ""
		rejectsOthers := true
		for _, st := range tr.run(fi, 4) {
			lits := trueLits(st, "strings.HasSuffix")
			okRet := st.retStmt != nil && len(st.retStmt.Results) == 2 && isNil(info, st.retStmt.Results[1])
			if len(lits) == 0 {
				if okRet {
					rejectsOthers = false
				}
				continue
			}
			if len(lits) != 1 {
				continue
			}
			typ, hasSort := "", false
			for _, it := range flat(st.trace) {
				if it.Prim == "field" {
					typ = typeNameOf(info.TypeOf(it.Expr))
					if id, isId := ast.Unparen(it.Expr).(*ast.Ident); isId {
						if t, has := st.valT[id.Name]; has {
							typ = typeNameOf(t)
						}
					}
				}
				if it.Prim == "sort" {
					hasSort = true
				}
			}
			if got[lits[0]] == nil {
				got[lits[0]] = map[string]bool{}
			}
			got[lits[0]][typ] = true
			if okRet && !hasSort {
				sorted, unsortedPath = false, lits[0]
			}
		}
		for suffix, w := range want {
			var ts []string
			for t := range got[suffix] {
				ts = append(ts, t)
			}
			sort.Strings(ts)
			r.Check(len(ts) == 1 && ts[0] == w, fi.Decl, "newTokenRing selects "+w+" for *"+suffix, strings.Join(ts, ","), "cluster partitioner *"+suffix+" selects "+ifs(len(ts) == 0, "nothing", strings.Join(ts, ",")))
		}
		for suffix := range got {
			if want[suffix] == "" {
				r.Bad(fi.Decl, "newTokenRing selects only known partitioners", "a branch for *"+suffix+" exists, which is not one of Cassandra's partitioners handled by this driver")
			}
		}
		r.Check(sorted && rejectsOthers && len(got) >= 3, fi.Decl, "newTokenRing sorts the parsed tokens with the partitioner's order", "sort.Sort(tokenRing) over token.Less",
			"the ring is not sorted by the partitioner's token order"+ifs(unsortedPath != "", " (for *"+unsortedPath+")", "")+", a partitioner branch is missing, or an unknown partitioner is accepted")
	}
	if fi := r.NeedFunc("(*tokenRing).Less"); fi != nil {
		s := exprStr(fi.Decl.Body.List[0].(*ast.ReturnStmt).Results[0])
		r.Check(s == "t.tokens[i].token.Less(t.tokens[j].token)", fi.Decl, "tokenRing sort order is the token order", s, "the ring's sort order is not the partitioner's token order: "+s)
	}
}

// staticLen returns the statically known length of a byte buffer expression:
// an array (or full slice of one), or a local slice defined once by make([]T, n).
func staticLen(info *types.Info, fi *FuncInfo, e ast.Expr) int64 {
	e = ast.Unparen(e)
	if sl, ok := e.(*ast.SliceExpr); ok && sl.Low == nil && sl.High == nil {
		e = ast.Unparen(sl.X)
	}
	if t := info.TypeOf(e); t != nil {
		if a, ok := t.Underlying().(*types.Array); ok {
			return a.Len()
		}
	}
	if id, ok := e.(*ast.Ident); ok {
		if d := localDef(info, fi, id); d != nil {
			if cl, ok := ast.Unparen(d).(*ast.CompositeLit); ok {
				if _, isArr := cl.Type.(*ast.ArrayType); isArr {
					keyed := false
					for _, el := range cl.Elts {
						if _, kv := el.(*ast.KeyValueExpr); kv {
							keyed = true
						}
					}
					if !keyed {
						return int64(len(cl.Elts))
					}
				}
			}
			if c, ok := ast.Unparen(d).(*ast.CallExpr); ok && exprStr(c.Fun) == "make" && len(c.Args) == 2 {
				if n, ok := constInt(info, c.Args[1]); ok {
					return n
				}
			}
		}
	}
	return -1
}

func c09r6(p *Program, r *Report) {
	fi := r.NeedFunc("(*Session).routingKeyInfo")
	if fi == nil {
		return
	}
	if c09r6V4UsesPkey(p, r, fi) {
		return
	}
	if c09r6ByRole(p, r, fi) {
		return
	}
	info := fi.Pkg.TypesInfo
	norm := func(e ast.Expr) string { return strings.ReplaceAll(exprStr(e), " ", "") }
	var pk, md *ast.RangeStmt
	ast.Inspect(fi.Decl.Body, func(x ast.Node) bool {
		if rs, ok := x.(*ast.RangeStmt); ok {
			switch {
			case strings.HasSuffix(norm(rs.X), ".pkeyColumns"):
				pk = rs
			case norm(rs.X) == "partitionKey":
				md = rs
			}
		}
		return true
	})
	if pk == nil || md == nil {
		r.Unresolved("routingKeyInfo: the pkeyColumns / partitionKey loops were not found")
		return
	}
	// protocol v4 path: types[i] = columns[col].TypeInfo for (i, col) in pkeyColumns; indexes is pkeyColumns itself
	okT := false
	for _, st := range pk.Body.List {
		if as, ok := st.(*ast.AssignStmt); ok && len(as.Lhs) == 1 {
			okT = norm(as.Lhs[0]) == "types["+norm(pk.Key)+"]" && norm(as.Rhs[0]) == "info.request.columns["+norm(pk.Value)+"].TypeInfo"
		}
	}
	r.Check(okT, pk, "routingKeyInfo (v4): type i is the type of bound column pkeyColumns[i]", "types[i] = columns[col].TypeInfo", "the i-th routing key type is not taken from the bound column the i-th partition-key index names")
	okI := false
	ast.Inspect(fi.Decl.Body, func(x ast.Node) bool {
		if cl, ok := x.(*ast.CompositeLit); ok && typeNameOf(info.TypeOf(cl)) == "routingKeyInfo" {
			for _, el := range cl.Elts {
				if kv, ok := el.(*ast.KeyValueExpr); ok && norm(kv.Key) == "indexes" && norm(kv.Value) == norm(pk.X) {
					okI = true
				}
			}
		}
		return true
	})
	r.Check(okI, pk, "routingKeyInfo (v4): indexes are the server's pk indexes in order", "indexes: info.request.pkeyColumns", "the routing key indexes are not the prepared metadata's partition-key indexes in their order")
	// metadata path: component k is paired with the FIRST bound column whose name equals partition-key column k;
	// a column without a bound value abandons the routing key. Two spellings are understood: the search loop
	// inline (sentinel -1, break at the first match) and a search helper returning the index or -1.
	ki, kc := norm(md.Key), norm(md.Value)
	cPair := "routingKeyInfo (metadata): component k gets the index and type of the bound column named like partition-key column k"
	cFirst := "routingKeyInfo (metadata): the first bound column of that name is used"
	cMissing := "routingKeyInfo (metadata): a partition-key column without a bound value yields no routing key"
	nameEq := func(c, a, b string) bool { return c == a+".Name=="+b+".Name" || c == b+".Name=="+a+".Name" }
	returnsNilKey := func(ifs *ast.IfStmt) bool {
		if len(ifs.Body.List) == 0 {
			return false
		}
		rs, ok := ifs.Body.List[len(ifs.Body.List)-1].(*ast.ReturnStmt)
		return ok && len(rs.Results) >= 1 && isNil(info, rs.Results[0])
	}
	var inner *ast.RangeStmt
	for _, st := range md.Body.List {
		if rs, ok := st.(*ast.RangeStmt); ok {
			inner = rs
		}
	}
	if inner != nil {
		ai, bc := norm(inner.Key), norm(inner.Value)
		okPair, okFirst := false, false
		for _, st := range inner.Body.List {
			ifs, ok := st.(*ast.IfStmt)
			if !ok || !nameEq(norm(ifs.Cond), kc, bc) {
				continue
			}
			var gotI, gotT bool
			for _, b := range ifs.Body.List {
				switch s := b.(type) {
				case *ast.AssignStmt:
					l, rr := norm(s.Lhs[0]), norm(s.Rhs[0])
					if l == "routingKeyInfo.indexes["+ki+"]" && rr == ai {
						gotI = true
					}
					if l == "routingKeyInfo.types["+ki+"]" && (rr == bc+".TypeInfo" || rr == norm(inner.X)+"["+ai+"].TypeInfo") {
						gotT = true
					}
				case *ast.BranchStmt:
					okFirst = s.Tok == token.BREAK
				}
			}
			okPair = gotI && gotT && norm(inner.X) == "info.request.columns"
		}
		r.Check(okPair, inner, cPair, "indexes[k] = argIndex; types[k] = boundColumn.TypeInfo under name equality", "a partition-key component is paired with the wrong bound column index or type")
		r.Check(okFirst, inner, cFirst, "break", "the search does not stop at the first matching bound column")
		okMissing := false
		for _, st := range md.Body.List {
			if ifs, ok := st.(*ast.IfStmt); ok && norm(ifs.Cond) == "routingKeyInfo.indexes["+ki+"]==-1" && returnsNilKey(ifs) {
				okMissing = true
			}
		}
		r.Check(okMissing, md, cMissing, "return nil, nil", "a partition-key column that is not bound does not abandon routing-key construction (a partial key would hash to a wrong token)")
		return
	}
	// helper form:  idx := search(info.request.columns, keyColumn.Name)
	var idxVar string
	var search *FuncInfo
	var searchCall *ast.CallExpr
	for _, st := range md.Body.List {
		as, ok := st.(*ast.AssignStmt)
		if !ok || len(as.Lhs) != 1 || len(as.Rhs) != 1 {
			continue
		}
		c, ok := ast.Unparen(as.Rhs[0]).(*ast.CallExpr)
		if !ok {
			continue
		}
		if fn := calleeOf(info, c); fn != nil {
			if callee := p.FuncOf(fn); callee != nil && callee.Pkg == p.Root && p.resultRange(callee) != nil {
				idxVar, search, searchCall = norm(as.Lhs[0]), callee, c
			}
		}
	}
	if search == nil {
		r.Unresolved("routingKeyInfo: neither a bound-column search loop nor an index-search helper was found in the partition-key loop")
		return
	}
	// the helper: one loop over its slice parameter, returning the loop index at the first element whose Name equals
	// its name parameter
	rr := p.resultRange(search)
	sinfo := search.Pkg.TypesInfo
	var sl *ast.RangeStmt
	inspectNoLit(search.Decl.Body, func(x ast.Node) bool {
		if l, ok := x.(*ast.RangeStmt); ok && sl == nil {
			sl = l
		}
		return true
	})
	okHelper, okFirst := false, false
	needleIdx := -1
	if sl != nil && len(sl.Body.List) == 1 {
		if ifs, ok := sl.Body.List[0].(*ast.IfStmt); ok && ifs.Else == nil && len(ifs.Body.List) == 1 {
			if rs, ok := ifs.Body.List[0].(*ast.ReturnStmt); ok && len(rs.Results) == 1 && norm(rs.Results[0]) == norm(sl.Key) {
				okFirst = true
				elem := norm(sl.Value)
				if sl.Value == nil || elem == "_" {
					elem = norm(sl.X) + "[" + norm(sl.Key) + "]"
				}
				k := 0
				for _, pf := range search.Decl.Type.Params.List {
					for _, pn := range pf.Names {
						c := norm(ifs.Cond)
						if c == elem+".Name=="+pn.Name || c == pn.Name+"=="+elem+".Name" {
							needleIdx = k
						}
						k++
					}
				}
				okHelper = needleIdx >= 0
			}
		}
	}
	_ = sinfo
	argsOK := okHelper && rr.paramIdx < len(searchCall.Args) && needleIdx < len(searchCall.Args) && norm(searchCall.Args[rr.paramIdx]) == "info.request.columns" && norm(searchCall.Args[needleIdx]) == kc+".Name"
	gotI, gotT, okMissing := false, false, false
	for _, st := range md.Body.List {
		switch s := st.(type) {
		case *ast.AssignStmt:
			if len(s.Lhs) != 1 || len(s.Rhs) != 1 {
				continue
			}
			l, rhs := norm(s.Lhs[0]), norm(s.Rhs[0])
			if l == "routingKeyInfo.indexes["+ki+"]" && rhs == idxVar {
				gotI = true
			}
			if l == "routingKeyInfo.types["+ki+"]" && rhs == "info.request.columns["+idxVar+"].TypeInfo" {
				gotT = true
			}
		case *ast.IfStmt:
			c := norm(s.Cond)
			if (c == idxVar+"==-1" || c == idxVar+"<0" || c == "-1=="+idxVar) && returnsNilKey(s) && rr.lo == -1 {
				okMissing = true
			}
		}
	}
	r.Check(argsOK && gotI && gotT, md, cPair, "idx := "+search.Name+"(columns, keyColumn.Name); indexes[k] = idx; types[k] = columns[idx].TypeInfo", "a partition-key component is paired with the wrong bound column index or type")
	r.Check(okFirst, search.Decl, cFirst, "the helper returns at the first match", "the search does not stop at the first matching bound column")
	r.Check(okMissing, md, cMissing, "return nil, nil", "a partition-key column that is not bound does not abandon routing-key construction (a partial key would hash to a wrong token)")
}

// c09Less decides how a token type's Less orders two tokens. kind: "int" (signed <), "string" (< on strings,
// strings.Compare, bytes.Compare), "big" ((*big.Int).Cmp). A three-way helper (x.cmp(y) < 0) is followed one
// level; an ordering derived from a difference of the two values is a violation (the difference of two int64
// overflows); a shape that is none of these is reported as unresolved, not as a violation.
func c09Less(p *Program, r *Report, fi *FuncInfo, construct, kind, badWhy string) {
	info := fi.Pkg.TypesInfo
	// local definitions followed by one return
	list := fi.Decl.Body.List
	for _, st := range list[:len(list)-1] {
		as, isAs := st.(*ast.AssignStmt)
		if !isAs || as.Tok != token.DEFINE {
			r.Unresolved("%s: body is not a sequence of local definitions and one return", fi.Name)
			return
		}
		for _, rhs := range as.Rhs {
			if !pureExpr(info, rhs) {
				r.Unresolved("%s: local definition %s is not a pure expression", fi.Name, exprStr(rhs))
				return
			}
		}
	}
	rs, ok := list[len(list)-1].(*ast.ReturnStmt)
	if !ok || len(rs.Results) != 1 {
		r.Unresolved("%s: body does not end in a single-value return", fi.Name)
		return
	}
	verdict, why := orderingOf(p, info, fi, rs.Results[0], kind, 0)
	switch verdict {
	case "ok":
		r.OK(fi.Decl, construct, why)
	case "bad":
		r.Bad(fi.Decl, construct, badWhy+": "+why)
	default:
		r.Unresolved("%s: ordering expression %s not understood (%s)", fi.Name, exprStr(rs.Results[0]), why)
	}
}

func orderingOf(p *Program, info *types.Info, fi *FuncInfo, e ast.Expr, kind string, depth int) (string, string) {
	e = ast.Unparen(e)
	be, ok := e.(*ast.BinaryExpr)
	if !ok {
		return "?", "not a comparison"
	}
	isCmpCall := func(x ast.Expr) *ast.CallExpr {
		c, ok := ast.Unparen(x).(*ast.CallExpr)
		if !ok {
			return nil
		}
		return c
	}
	// three-way result compared with a constant: Cmp(a,b) < 0, -1 == Cmp(a,b), Cmp(a,b) == -1
	for _, pr := range [][2]ast.Expr{{be.X, be.Y}, {be.Y, be.X}} {
		c := isCmpCall(pr[0])
		k, isK := constInt(info, pr[1])
		if c == nil || !isK {
			continue
		}
		lessForm := be.Op == token.LSS && pr[0] == be.X && k == 0 || be.Op == token.GTR && pr[0] == be.Y && k == 0 || be.Op == token.EQL && k == -1 || be.Op == token.LEQ && pr[0] == be.X && k == -1
		if !lessForm {
			return "bad", "the three-way result is not tested for 'less' (" + exprStr(e) + ")"
		}
		name := calleeName(info, c)
		switch {
		case name == "big.(*Int).Cmp" && kind == "big", name == "strings.Compare" && kind == "string", name == "bytes.Compare" && kind == "string":
			return "ok", exprStr(e)
		}
		// a helper of the repository: follow it
		if fn := calleeOf(info, c); fn != nil && depth < 2 {
			if callee := p.FuncOf(fn); callee != nil && callee.Decl.Body != nil {
				return threeWayOf(p, callee, kind)
			}
		}
		return "?", "three-way helper " + name + " not understood"
	}
	// direct comparison
	if be.Op == token.LSS || be.Op == token.GTR {
		tx, ty := info.TypeOf(be.X), info.TypeOf(be.Y)
		if tx == nil || ty == nil {
			return "?", "untyped operands"
		}
		// the operands must be the two tokens themselves (possibly through local copies / conversions)
		big := be.Y
		if be.Op == token.GTR {
			big = be.X
		}
		other := ""
		if fi.Decl.Type.Params != nil && len(fi.Decl.Type.Params.List) == 1 && len(fi.Decl.Type.Params.List[0].Names) == 1 {
			other = fi.Decl.Type.Params.List[0].Names[0].Name
		}
		if other != "" && !mentions(p.canonText(fi, big), other) {
			return "?", "the larger side " + exprStr(big) + " is not derived from the other token"
		}
		bx, okx := tx.Underlying().(*types.Basic)
		by, oky := ty.Underlying().(*types.Basic)
		if !okx || !oky {
			return "?", "operands are not basic values"
		}
		// receiver must be on the smaller side
		recv := ""
		if fi.Decl.Recv != nil && len(fi.Decl.Recv.List) == 1 && len(fi.Decl.Recv.List[0].Names) == 1 {
			recv = fi.Decl.Recv.List[0].Names[0].Name
		}
		small := be.X
		if be.Op == token.GTR {
			small = be.Y
		}
		if recv != "" && !mentions(p.canonText(fi, small), recv) {
			return "bad", "Less(a, b) is computed as b < a (" + exprStr(e) + ")"
		}
		switch kind {
		case "int":
			if bx.Info()&types.IsInteger != 0 && bx.Info()&types.IsUnsigned == 0 && by.Info()&types.IsInteger != 0 {
				return "ok", exprStr(e) + " on " + tx.String()
			}
			return "bad", "compared as " + bx.String() + ", not as signed integers"
		case "string":
			if bx.Info()&types.IsString != 0 && by.Info()&types.IsString != 0 {
				return "ok", exprStr(e) + " on strings"
			}
			return "bad", "compared as " + bx.String() + ", not as strings"
		}
	}
	return "?", "shape " + exprStr(e)
}

// threeWayOf: does helper fi compute sign(a - b) by comparisons (ok) or from a difference (bad)?
func threeWayOf(p *Program, fi *FuncInfo, kind string) (string, string) {
	info := fi.Pkg.TypesInfo
	verdict, why := "?", "helper "+fi.Name+" has no recognised comparison"
	sub := false
	ast.Inspect(fi.Decl.Body, func(x ast.Node) bool {
		switch n := x.(type) {
		case *ast.BinaryExpr:
			if n.Op == token.SUB {
				if t := info.TypeOf(n); t != nil {
					if b, ok := t.Underlying().(*types.Basic); ok && b.Info()&types.IsInteger != 0 {
						if _, isConst := constInt(info, n); !isConst {
							sub = true
						}
					}
				}
			}
			if (n.Op == token.LSS || n.Op == token.GTR) && verdict == "?" {
				tx := info.TypeOf(n.X)
				if tx != nil {
					if b, ok := tx.Underlying().(*types.Basic); ok {
						if kind == "int" && b.Info()&types.IsInteger != 0 && b.Info()&types.IsUnsigned == 0 || kind == "string" && b.Info()&types.IsString != 0 {
							verdict, why = "ok", "helper "+fi.Name+" compares with "+n.Op.String()
						}
					}
				}
			}
		case *ast.CallExpr:
			name := calleeName(info, n)
			if name == "big.(*Int).Cmp" && kind == "big" || (name == "strings.Compare" || name == "bytes.Compare") && kind == "string" {
				verdict, why = "ok", "helper "+fi.Name+" delegates to "+name
			}
		}
		return true
	})
	if sub {
		return "bad", "helper " + fi.Name + " derives the order from a difference of the two values, which overflows for tokens more than 2^63 apart"
	}
	return verdict, why
}

// c09r6ByRole recognises the two constructions of routingKeyInfo by the roles of what they touch (the prepared
// metadata's pkeyColumns and columns fields, the indexes / types fields of the routingKeyInfo under construction,
// the table's partition key) instead of by spelling, in whichever function of routingKeyInfo's units they live.
// It reports (and returns true) only when it finds both constructions; otherwise the spelled-out rule takes over.
func c09r6ByRole(p *Program, r *Report, top *FuncInfo) bool {
	pkF := p.Field("preparedMetadata", "pkeyColumns")
	colsF := p.Field("resultMetadata", "columns")
	idxF := p.Field("routingKeyInfo", "indexes")
	typF := p.Field("routingKeyInfo", "types")
	if pkF == nil || colsF == nil || idxF == nil || typF == nil {
		return false
	}
	type verdict struct {
		node                       ast.Node
		okT, okI                   bool
		inner                      ast.Node
		okPair, okFirst, okMissing bool
		haveV4, haveMD             bool
	}
	var v verdict
	for _, u := range p.unitsOf(top) {
		info := u.Pkg.TypesInfo
		alias := func(e ast.Expr, f types.Object) bool {
			e = ast.Unparen(e)
			if fieldOf(info, e) == f {
				return true
			}
			if id, isId := e.(*ast.Ident); isId {
				if obj := info.Uses[id]; obj != nil && singleAssigned(info, u.Decl.Body, obj) {
					if d := localDef(info, u, id); d != nil && fieldOf(info, d) == f {
						return true
					}
				}
			}
			return false
		}
		sameObj := func(a, b ast.Expr) bool {
			ia, okA := ast.Unparen(a).(*ast.Ident)
			ib, okB := ast.Unparen(b).(*ast.Ident)
			if !okA || !okB {
				return false
			}
			oa, ob := info.ObjectOf(ia), info.ObjectOf(ib)
			return oa != nil && oa == ob
		}
		// ---- protocol v4: types[i] = columns[pkeyColumns[i]].TypeInfo, indexes: pkeyColumns
		inspectNoLit(u.Decl.Body, func(x ast.Node) bool {
			as, ok := x.(*ast.AssignStmt)
			if !ok || len(as.Lhs) != 1 || len(as.Rhs) != 1 {
				return true
			}
			lix, isL := ast.Unparen(as.Lhs[0]).(*ast.IndexExpr)
			sel, isS := ast.Unparen(as.Rhs[0]).(*ast.SelectorExpr)
			if !isL || !isS || sel.Sel.Name != "TypeInfo" {
				return true
			}
			cix, isC := ast.Unparen(sel.X).(*ast.IndexExpr)
			tid, isT := ast.Unparen(lix.X).(*ast.Ident)
			if !isC || !isT || !alias(cix.X, colsF) {
				return true
			}
			// the loop that runs i over pkeyColumns
			lp := p.enclosing(as, u.Decl, func(n ast.Node) bool {
				switch n.(type) {
				case *ast.ForStmt, *ast.RangeStmt:
					return true
				}
				return false
			})
			okLoop := false
			switch l := lp.(type) {
			case *ast.RangeStmt:
				if alias(l.X, pkF) && l.Key != nil && sameObj(l.Key, lix.Index) {
					if l.Value != nil && sameObj(l.Value, cix.Index) {
						okLoop = true
					}
					if pix, isP := ast.Unparen(cix.Index).(*ast.IndexExpr); isP && alias(pix.X, pkF) && sameObj(pix.Index, l.Key) {
						okLoop = true
					}
				}
			case *ast.ForStmt:
				if pix, isP := ast.Unparen(cix.Index).(*ast.IndexExpr); isP && alias(pix.X, pkF) && sameObj(pix.Index, lix.Index) {
					// for i := 0; i < len(pk); i++
					if init, isI := l.Init.(*ast.AssignStmt); isI && len(init.Lhs) == 1 && sameObj(init.Lhs[0], lix.Index) {
						if z, isZ := constInt(info, init.Rhs[0]); isZ && z == 0 {
							if cond, isB := l.Cond.(*ast.BinaryExpr); isB && cond.Op == token.LSS && sameObj(cond.X, lix.Index) {
								if lc, isLen := ast.Unparen(cond.Y).(*ast.CallExpr); isLen && calleeName(info, lc) == "builtin.len" && alias(lc.Args[0], pkF) {
									if inc, isInc := l.Post.(*ast.IncDecStmt); isInc && inc.Tok == token.INC && sameObj(inc.X, lix.Index) {
										okLoop = true
									}
								}
							}
						}
					}
				}
			}
			if lp == nil {
				return true
			}
			v.haveV4, v.node = true, lp
			v.okT = okLoop
			// the literal that takes the types and the indexes
			inspectNoLit(u.Decl.Body, func(y ast.Node) bool {
				cl, isCL := y.(*ast.CompositeLit)
				if !isCL || typeNameOf(info.TypeOf(cl)) != "routingKeyInfo" {
					return true
				}
				gotT, gotI := false, false
				for _, el := range cl.Elts {
					kv, isKV := el.(*ast.KeyValueExpr)
					if !isKV {
						continue
					}
					switch exprStr(kv.Key) {
					case "types":
						gotT = sameObj(kv.Value, tid)
					case "indexes":
						gotI = alias(kv.Value, pkF)
					}
				}
				if gotT {
					v.okI = gotI
				}
				return true
			})
			return true
		})
		// ---- table metadata: component k <- first bound column named like partition-key column k
		inspectNoLit(u.Decl.Body, func(x ast.Node) bool {
			outer, ok := x.(*ast.RangeStmt)
			if !ok || outer.Key == nil || outer.Value == nil {
				return true
			}
			if t := info.TypeOf(outer.X); t == nil || !strings.HasSuffix(t.String(), "[]*"+rootPath+".ColumnMetadata") {
				return true
			}
			var inner *ast.RangeStmt
			innerAt := -1
			for i, st := range outer.Body.List {
				if rs, isR := st.(*ast.RangeStmt); isR && alias(rs.X, colsF) && rs.Key != nil {
					inner, innerAt = rs, i
				}
			}
			if inner == nil {
				return true
			}
			v.haveMD, v.inner = true, inner
			if v.node == nil {
				v.node = outer
			}
			g := p.GraphOf(u)
			facts := g.GuardFacts()
			var storeI, storeT *ast.AssignStmt
			var rkExpr ast.Expr
			ast.Inspect(inner.Body, func(y ast.Node) bool {
				as, isA := y.(*ast.AssignStmt)
				if !isA || len(as.Lhs) != 1 || len(as.Rhs) != 1 {
					return true
				}
				lix, isL := ast.Unparen(as.Lhs[0]).(*ast.IndexExpr)
				if !isL || !sameObj(lix.Index, outer.Key) {
					return true
				}
				switch fieldOf(info, lix.X) {
				case idxF:
					if sameObj(as.Rhs[0], inner.Key) {
						storeI = as
						if sel, isSel := ast.Unparen(lix.X).(*ast.SelectorExpr); isSel {
							rkExpr = sel.X
						}
					}
				case typF:
					if sel, isSel := ast.Unparen(as.Rhs[0]).(*ast.SelectorExpr); isSel && sel.Sel.Name == "TypeInfo" {
						if inner.Value != nil && sameObj(sel.X, inner.Value) {
							storeT = as
						}
						if cix, isC := ast.Unparen(sel.X).(*ast.IndexExpr); isC && alias(cix.X, colsF) && sameObj(cix.Index, inner.Key) {
							storeT = as
						}
					}
				}
				return true
			})
			if storeI == nil || storeT == nil {
				return true
			}
			// both under the equality of the two names
			nameEq := func(at ast.Node) bool {
				f, okF := facts.Before(at)
				if !okF {
					return false
				}
				kc := exprStr(outer.Value) + ".Name"
				var bcs []string
				if inner.Value != nil {
					bcs = append(bcs, exprStr(inner.Value)+".Name")
				}
				bcs = append(bcs, strings.ReplaceAll(exprStr(inner.X), " ", "")+"["+exprStr(inner.Key)+"].Name")
				for atom, val := range f.m {
					if !val || !strings.Contains(atom, " == ") || !mentions(atom, kc) {
						continue
					}
					for _, bc := range bcs {
						if strings.Contains(strings.ReplaceAll(atom, " ", ""), strings.ReplaceAll(bc, " ", "")) {
							return true
						}
					}
				}
				return false
			}
			sameBlock := p.Parent(storeI) == p.Parent(storeT)
			v.okPair = nameEq(storeI) && nameEq(storeT) && sameBlock
			// the search stops there: the block of the stores ends by leaving the inner loop
			leavesByContinue := false
			if blk, isBlk := p.Parent(storeI).(*ast.BlockStmt); isBlk && len(blk.List) > 0 {
				if br, isBr := blk.List[len(blk.List)-1].(*ast.BranchStmt); isBr {
					switch {
					case br.Tok == token.BREAK && br.Label == nil:
						v.okFirst = p.enclosing(br, u.Decl, func(n ast.Node) bool {
							switch n.(type) {
							case *ast.ForStmt, *ast.RangeStmt, *ast.SwitchStmt, *ast.SelectStmt, *ast.TypeSwitchStmt:
								return true
							}
							return false
						}) == ast.Node(inner)
					case br.Tok == token.CONTINUE && br.Label != nil:
						if ls, isLS := p.Parent(outer).(*ast.LabeledStmt); isLS && ls.Label.Name == br.Label.Name {
							v.okFirst, leavesByContinue = true, true
						}
					}
				}
			}
			// a partition-key column that no bound column matches: no routing key
			noKey := func(rs *ast.ReturnStmt) bool {
				bad := false
				for _, res := range rs.Results {
					ast.Inspect(res, func(z ast.Node) bool {
						if e, isE := z.(ast.Expr); isE && rkExpr != nil && exprStr(e) == exprStr(rkExpr) {
							bad = true
						}
						return true
					})
				}
				return !bad
			}
			if leavesByContinue {
				// falling out of the inner loop means "not found": the next statement returns without the key
				if innerAt+1 < len(outer.Body.List) {
					if rs, isRet := outer.Body.List[innerAt+1].(*ast.ReturnStmt); isRet && noKey(rs) {
						v.okMissing = true
					}
				}
			} else {
				// the sentinel: indexes[k] = -1 before the search, tested after it
				sentinel := false
				for _, st := range outer.Body.List[:innerAt] {
					if as, isA := st.(*ast.AssignStmt); isA && len(as.Lhs) == 1 && len(as.Rhs) == 1 {
						if lix, isL := ast.Unparen(as.Lhs[0]).(*ast.IndexExpr); isL && fieldOf(info, lix.X) == idxF && sameObj(lix.Index, outer.Key) {
							if k, isK := constInt(info, as.Rhs[0]); isK && k == -1 {
								sentinel = true
							}
						}
					}
				}
				for _, st := range outer.Body.List[innerAt+1:] {
					ifs, isIf := st.(*ast.IfStmt)
					if !isIf || len(ifs.Body.List) == 0 {
						continue
					}
					be, isB := ast.Unparen(ifs.Cond).(*ast.BinaryExpr)
					if !isB || be.Op != token.EQL && be.Op != token.LSS {
						continue
					}
					lix, isL := ast.Unparen(be.X).(*ast.IndexExpr)
					k, isK := constInt(info, be.Y)
					if !isL || !isK || fieldOf(info, lix.X) != idxF || !sameObj(lix.Index, outer.Key) || !(be.Op == token.EQL && k == -1 || be.Op == token.LSS && k == 0) {
						continue
					}
					if rs, isRet := ifs.Body.List[len(ifs.Body.List)-1].(*ast.ReturnStmt); isRet && noKey(rs) && sentinel {
						v.okMissing = true
					}
				}
			}
			return true
		})
	}
	if !v.haveV4 || !v.haveMD {
		return false
	}
	r.Check(v.okT, v.node, "routingKeyInfo (v4): type i is the type of bound column pkeyColumns[i]", "types[i] = columns[pkeyColumns[i]].TypeInfo", "the i-th routing key type is not taken from the bound column the i-th partition-key index names")
	r.Check(v.okI, v.node, "routingKeyInfo (v4): indexes are the server's pk indexes in order", "indexes: info.request.pkeyColumns", "the routing key indexes are not the prepared metadata's partition-key indexes in their order")
	r.Check(v.okPair, v.inner, "routingKeyInfo (metadata): component k gets the index and type of the bound column named like partition-key column k", "indexes[k] = argIndex; types[k] = boundColumn.TypeInfo under name equality", "a partition-key component is paired with the wrong bound column index or type")
	r.Check(v.okFirst, v.inner, "routingKeyInfo (metadata): the first bound column of that name is used", "the search is left at the first match", "the search does not stop at the first matching bound column")
	r.Check(v.okMissing, v.inner, "routingKeyInfo (metadata): a partition-key column without a bound value yields no routing key", "return without a key", "a partition-key column that is not bound does not abandon routing-key construction (a partial key would hash to a wrong token)")
	return true
}

// c09r6V4UsesPkey: the branch taken when the server named the partition-key columns (len(pkeyColumns) > 0) derives
// the key component types through pkeyColumns. A branch that never reads pkeyColumns again (types taken per bound
// column) is reported here, where the shape-specific parts of R6 would only say that they no longer recognise the
// code. Reports true when it reported a violation.
func c09r6V4UsesPkey(p *Program, r *Report, top *FuncInfo) bool {
	pkF := p.Field("preparedMetadata", "pkeyColumns")
	if pkF == nil {
		return false
	}
	reported := false
	for _, u := range p.unitsOf(top) {
		info := u.Pkg.TypesInfo
		mentions := func(n ast.Node) bool {
			hit := false
			ast.Inspect(n, func(x ast.Node) bool {
				if e, ok := x.(ast.Expr); ok && fieldOf(info, e) == pkF {
					hit = true
				}
				return !hit
			})
			return hit
		}
		inspectNoLit(u.Decl.Body, func(x ast.Node) bool {
			ifs, ok := x.(*ast.IfStmt)
			if !ok || !mentions(ifs.Cond) {
				return true
			}
			be, isB := ast.Unparen(ifs.Cond).(*ast.BinaryExpr)
			if !isB || be.Op != token.GTR && be.Op != token.NEQ {
				return true
			}
			// the branch builds the types: the loop around every store of a TypeInfo runs over pkeyColumns
			stores, through := false, true
			ast.Inspect(ifs.Body, func(y ast.Node) bool {
				as, ok := y.(*ast.AssignStmt)
				if !ok || len(as.Rhs) != 1 {
					return true
				}
				if sel, ok := ast.Unparen(as.Rhs[0]).(*ast.SelectorExpr); !ok || sel.Sel.Name != "TypeInfo" {
					return true
				}
				stores = true
				lp := p.enclosing(as, ifs, func(n ast.Node) bool {
					switch n.(type) {
					case *ast.ForStmt, *ast.RangeStmt:
						return true
					}
					return false
				})
				if lp == nil || !mentions(lp) {
					through = false
				}
				return true
			})
			if stores && !through {
				reported = true
				r.Bad(ifs, "(*Session).routingKeyInfo takes the key component types through pkeyColumns", "the branch for a server-supplied partition-key index never reads pkeyColumns: the types (and positions) of the routing-key components are those of unrelated bound columns, so the key is encoded with the wrong types and hashed to a wrong token without an error")
			}
			return true
		})
	}
	return reported
}
