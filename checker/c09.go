package main

import (
	"fmt"
	"go/ast"
	"go/token"
	"go/types"
	"strings"
)

func init() {
	register(&PropertySpec{
		ID: "C09",
		Explanation: "Structural necessary conditions of 'partition tokens equal the ones Cassandra computes': R1 every tail byte of the key enters the Murmur3 state through block(), which sign-extends via int8, and sign-extended bytes are only ever folded with XOR (never OR); the fifteen-case tail table has the reference byte index, shift and target word; " +
			"R2 the multiplication, rotation, mixing and finalisation constants are those of MurmurHash3 x64-128; R3 the block readers (unsafe and appengine variants) read two little-endian int64 at n*16; R4 the composite routing key is, per component in partition-key order, [2-byte big-endian length][encoding][0x00], the single-column key is the bare encoding, each component is marshalled with its own type and value index, and the returned key is storage allocated by that call; R5 the Murmur3 partitioner hashes with Murmur3H1 and tokens order numerically; the ordered partitioner uses the key bytes.",
		NotDecided: "hash values for all inputs (numerical); MD5/absolute-value handling of the random partitioner beyond its shape; token-string parsing and ordering for all strings.",
		Rules: []*Rule{
			{ID: "C09.R1", Floor: 17, Doc: "tail bytes sign-extended through block(); XOR folding; tail table (index, shift, word)", Run: c09r1},
			{ID: "C09.R2", Floor: 12, Doc: "MurmurHash3 x64-128 constants, rotations and finaliser", Run: c09r2},
			{ID: "C09.R3", Floor: 2, Doc: "getBlock reads two little-endian int64 at n*16", Run: c09r3},
			{ID: "C09.R4", Floor: 6, Doc: "routing key framing, component pairing and fresh storage", Run: c09r4},
			{ID: "C09.R5", Floor: 14, Doc: "partitioners: Murmur3 -> Murmur3H1, numeric order; ordered -> key bytes", Run: c09r5},
			{ID: "C09.R6", Floor: 4, Doc: "routingKeyInfo pairs index i with the i-th partition-key column and its type", Run: c09r6},
		},
		Variants: []Variant{{Name: "appengine", GOARCH: "amd64", Tags: "appengine"}},
	})
}

func murmurFunc(p *Program, name string) *FuncInfo { return p.Func("murmur." + name) }

func c09r1(p *Program, r *Report) {
	blk := murmurFunc(p, "block")
	h1 := murmurFunc(p, "Murmur3H1")
	if blk == nil || h1 == nil {
		r.Unresolved("murmur.block / murmur.Murmur3H1 not found")
		return
	}
	binfo := blk.Pkg.TypesInfo
	okBlock := false
	if len(blk.Decl.Body.List) == 1 {
		if rs, ok := blk.Decl.Body.List[0].(*ast.ReturnStmt); ok && len(rs.Results) == 1 {
			// int64(int8(p))
			if c, ok := ast.Unparen(rs.Results[0]).(*ast.CallExpr); ok && len(c.Args) == 1 && exprStr(c.Fun) == "int64" {
				if c2, ok := ast.Unparen(c.Args[0]).(*ast.CallExpr); ok && len(c2.Args) == 1 && exprStr(c2.Fun) == "int8" {
					okBlock = isIdentOf(binfo, c2.Args[0], paramObj(binfo, blk.Decl.Type, 0))
				}
			}
		}
	}
	r.Check(okBlock, blk.Decl, "murmur.block sign-extends the byte", "int64(int8(p))", "block() does not convert the byte through int8 before widening: bytes >= 0x80 hash differently from Cassandra (which uses signed bytes)")
	info := h1.Pkg.TypesInfo
	// every tail[...] load is an argument of block(); sign-extended values never OR-combined
	var tailObj types.Object
	ast.Inspect(h1.Decl.Body, func(x ast.Node) bool {
		if as, ok := x.(*ast.AssignStmt); ok && len(as.Lhs) == 1 && len(as.Rhs) == 1 {
			if sl, ok := ast.Unparen(as.Rhs[0]).(*ast.SliceExpr); ok && sl.High == nil && sl.Low != nil {
				if id, ok := as.Lhs[0].(*ast.Ident); ok && tailObj == nil && strings.Contains(exprStr(sl.Low), "16") {
					tailObj = info.Defs[id]
				}
			}
		}
		return true
	})
	if tailObj == nil {
		r.Unresolved("Murmur3H1: tail slice not found")
		return
	}
	nload := 0
	ast.Inspect(h1.Decl.Body, func(x ast.Node) bool {
		ix, ok := x.(*ast.IndexExpr)
		if !ok || !isIdentOf(info, ix.X, tailObj) {
			return true
		}
		nload++
		c, isCall := p.Parent(ix).(*ast.CallExpr)
		r.Check(isCall && isCallTo(info, c, "murmur.block"), ix, "Murmur3H1 tail byte "+exprStr(ix)+" goes through block()", "sign-extended", "a tail byte reaches the hash state without block()'s sign extension")
		return true
	})
	if nload == 0 {
		r.Unresolved("Murmur3H1 never indexes the tail")
	}
	ast.Inspect(h1.Decl.Body, func(x ast.Node) bool {
		var op token.Token
		var operands []ast.Expr
		switch s := x.(type) {
		case *ast.BinaryExpr:
			op, operands = s.Op, []ast.Expr{s.X, s.Y}
		case *ast.AssignStmt:
			if s.Tok == token.OR_ASSIGN {
				op, operands = token.OR, s.Rhs
			}
		}
		if op != token.OR {
			return true
		}
		for _, o := range operands {
			has := false
			ast.Inspect(o, func(m ast.Node) bool {
				if c, ok := m.(*ast.CallExpr); ok && isCallTo(info, c, "murmur.block") {
					has = true
				}
				return true
			})
			if has {
				r.Bad(x, "Murmur3H1 folds a sign-extended byte with OR", "a value sign-extended by block() is combined with | : for bytes >= 0x80 the sign bits set every higher bit, which XOR folding (the reference algorithm) does not")
			}
		}
		return true
	})
	// the tail table
	var sw *ast.SwitchStmt
	ast.Inspect(h1.Decl.Body, func(x ast.Node) bool {
		if s, ok := x.(*ast.SwitchStmt); ok && s.Tag != nil && strings.Contains(exprStr(s.Tag), "& 15") {
			sw = s
		}
		return true
	})
	if sw == nil {
		r.Unresolved("Murmur3H1: the tail is not a switch on length & 15 (table form): cannot compare it with the reference table")
		return
	}
	for _, cl := range sw.Body.List {
		cc := cl.(*ast.CaseClause)
		if len(cc.List) != 1 {
			continue
		}
		k, ok := constInt(info, cc.List[0])
		if !ok || len(cc.Body) == 0 {
			continue
		}
		as, ok := cc.Body[0].(*ast.AssignStmt)
		wantWord := "k1"
		if k > 8 {
			wantWord = "k2"
		}
		wantShift := int((k - 1) % 8 * 8)
		okRow := false
		got := ""
		if ok && as.Tok == token.XOR_ASSIGN && len(as.Lhs) == 1 {
			got = exprStr(as.Lhs[0]) + " ^= " + exprStr(as.Rhs[0])
			rhs := ast.Unparen(as.Rhs[0])
			shift := 0
			if b, isB := rhs.(*ast.BinaryExpr); isB && b.Op == token.SHL {
				if s, isC := constInt(info, b.Y); isC {
					shift = int(s)
				}
				rhs = ast.Unparen(b.X)
			}
			if c, isCall := rhs.(*ast.CallExpr); isCall && isCallTo(info, c, "murmur.block") && len(c.Args) == 1 {
				if ix, isIx := ast.Unparen(c.Args[0]).(*ast.IndexExpr); isIx {
					if idx, isC := constInt(info, ix.Index); isC && idx == k-1 && shift == wantShift && exprStr(as.Lhs[0]) == wantWord {
						okRow = true
					}
				}
			}
		}
		// falls through to the next lower case (except case 1)
		ft := k == 1
		if k > 1 {
			if br, isBr := cc.Body[len(cc.Body)-1].(*ast.BranchStmt); isBr && br.Tok == token.FALLTHROUGH {
				ft = true
			}
		}
		r.Check(okRow && ft, cc, fmt.Sprintf("Murmur3H1 tail case %d", k), fmt.Sprintf("%s ^= block(tail[%d]) << %d, falls through", wantWord, k-1, wantShift),
			fmt.Sprintf("tail case %d is `%s` (fallthrough=%v); the reference is %s ^= block(tail[%d]) << %d followed by the lower cases", k, got, ft, wantWord, k-1, wantShift))
	}
}

func c09r2(p *Program, r *Report) {
	scope := p.ByPath[murmurPath].Types.Scope()
	for name, want := range map[string]uint64{"c1": 0x87c37b91114253d5, "c2": 0x4cf5ad432745937f, "fmix1": 0xff51afd7ed558ccd, "fmix2": 0xc4ceb9fe1a85ec53} {
		c, ok := scope.Lookup(name).(*types.Const)
		var got uint64
		if ok {
			if v, ok2 := constValInt(c); ok2 {
				got = uint64(v)
			}
		}
		r.Check(ok && got == want, nil, "murmur constant "+name, fmt.Sprintf("0x%x", want), fmt.Sprintf("murmur.%s = 0x%x, MurmurHash3 x64-128 uses 0x%x", name, got, want))
	}
	h1 := murmurFunc(p, "Murmur3H1")
	fm := murmurFunc(p, "fmix")
	if h1 == nil || fm == nil {
		r.Unresolved("Murmur3H1 / fmix not found")
		return
	}
	info := h1.Pkg.TypesInfo
	// sequence of (word, operation) in the block loop
	var loop *ast.ForStmt
	ast.Inspect(h1.Decl.Body, func(x ast.Node) bool {
		if f, ok := x.(*ast.ForStmt); ok && loop == nil {
			loop = f
		}
		return true
	})
	if loop == nil {
		r.Unresolved("Murmur3H1: block loop not found")
		return
	}
	var seq []string
	for _, st := range loop.Body.List {
		as, ok := st.(*ast.AssignStmt)
		if !ok || len(as.Lhs) != 1 {
			continue
		}
		l := exprStr(as.Lhs[0])
		rhs := ast.Unparen(as.Rhs[0])
		switch as.Tok {
		case token.MUL_ASSIGN, token.XOR_ASSIGN, token.ADD_ASSIGN:
			seq = append(seq, l+as.Tok.String()+exprStr(rhs))
		case token.ASSIGN:
			if c, ok := rhs.(*ast.CallExpr); ok && isCallTo(info, c, "murmur.rotl") && len(c.Args) == 2 {
				k, _ := constInt(info, c.Args[1])
				seq = append(seq, fmt.Sprintf("%s=rotl(%s,%d)", l, exprStr(c.Args[0]), k))
			} else if b, ok := rhs.(*ast.BinaryExpr); ok && b.Op == token.ADD {
				k, _ := constUint(info, b.Y)
				seq = append(seq, fmt.Sprintf("%s=%s+0x%x", l, exprStr(b.X), k))
			}
		}
	}
	want := []string{"k1*=c1", "k1=rotl(k1,31)", "k1*=c2", "h1^=k1", "h1=rotl(h1,27)", "h1+=h2", "h1=h1 * 5+0x52dce729",
		"k2*=c2", "k2=rotl(k2,33)", "k2*=c1", "h2^=k2", "h2=rotl(h2,31)", "h2+=h1", "h2=h2 * 5+0x38495ab5"}
	for i, w := range want {
		got := ""
		if i < len(seq) {
			got = seq[i]
		}
		r.Check(got == w, loop, fmt.Sprintf("Murmur3H1 block step %d: %s", i+1, w), got, fmt.Sprintf("block mixing step %d is `%s`, MurmurHash3 x64-128 has `%s`", i+1, got, w))
	}
	// fmix: three xor-shifts by 33 with two multiplications
	finfo := fm.Pkg.TypesInfo
	var fseq []string
	for _, st := range fm.Decl.Body.List {
		as, ok := st.(*ast.AssignStmt)
		if !ok {
			continue
		}
		switch as.Tok {
		case token.XOR_ASSIGN:
			sh := int64(-1)
			ast.Inspect(as.Rhs[0], func(m ast.Node) bool {
				if b, ok := m.(*ast.BinaryExpr); ok && b.Op == token.SHR {
					sh, _ = constInt(finfo, b.Y)
					// logical shift: operand converted to uint64
					if !strings.HasPrefix(exprStr(b.X), "uint64(") {
						sh = -2
					}
				}
				return true
			})
			fseq = append(fseq, fmt.Sprintf("^=>>%d", sh))
		case token.MUL_ASSIGN:
			fseq = append(fseq, "*="+exprStr(as.Rhs[0]))
		}
	}
	wantF := "^=>>33 *=fmix1 ^=>>33 *=fmix2 ^=>>33"
	r.Check(strings.Join(fseq, " ") == wantF, fm.Decl, "murmur.fmix finaliser", wantF, "fmix is `"+strings.Join(fseq, " ")+"`, the reference finaliser is `"+wantF+"` with logical (unsigned) shifts")
	// rotl uses a logical right shift
	if rt := murmurFunc(p, "rotl"); rt != nil {
		s := exprStr(rt.Decl.Body.List[len(rt.Decl.Body.List)-1].(*ast.ReturnStmt).Results[0])
		r.Check(strings.Contains(s, "x << r") && strings.Contains(s, "uint64(x) >> (64 - r)"), rt.Decl, "murmur.rotl is a 64-bit rotate with a logical right shift", s, "rotl is not (x<<r) | (uint64(x)>>(64-r)): "+s)
	}
}

func c09r3(p *Program, r *Report) {
	gb := murmurFunc(p, "getBlock")
	if gb == nil {
		r.Unresolved("murmur.getBlock not found")
		return
	}
	info := gb.Pkg.TypesInfo
	okUnsafe, okSafe := false, 0
	ast.Inspect(gb.Decl.Body, func(x ast.Node) bool {
		switch c := x.(type) {
		case *ast.CallExpr:
			name := calleeName(info, c)
			if name == "binary.(littleEndian).Uint64" && len(c.Args) == 1 {
				a := strings.ReplaceAll(exprStr(c.Args[0]), " ", "")
				if a == "data[n*16:]" || a == "data[(n*16)+8:]" || a == "data[n*16+8:]" {
					okSafe++
				}
			}
			if tv := info.TypeOf(c); tv != nil && tv.String() == "*[2]int64" && len(c.Args) == 1 && strings.Contains(strings.ReplaceAll(exprStr(c.Args[0]), " ", ""), "&data[n*16]") {
				okUnsafe = true
			}
		}
		return true
	})
	// word order: the first result is the lower-addressed word
	orderOK := false
	if rs, ok := gb.Decl.Body.List[len(gb.Decl.Body.List)-1].(*ast.ReturnStmt); ok && len(rs.Results) == 2 {
		var w [2]string
		for i, res := range rs.Results {
			if id, ok := res.(*ast.Ident); ok {
				if d := localDef(info, gb, id); d != nil {
					w[i] = strings.ReplaceAll(exprStr(d), " ", "")
				}
			}
		}
		orderOK = (w[0] == "block[0]" && w[1] == "block[1]") ||
			(strings.Contains(w[0], "data[n*16:]") && strings.Contains(w[1], "+8:]"))
	}
	r.Check(orderOK, gb.Decl, "murmur.getBlock returns (low word, high word)", "k1 from offset 0, k2 from offset 8", "getBlock returns the two 64-bit words of a block in the wrong order")
	r.Check(okUnsafe || okSafe == 2, gb.Decl, "murmur.getBlock reads two int64 at n*16 (little-endian)", ifs(okUnsafe, "native read of [2]int64 at &data[n*16] (little-endian targets)", "two LittleEndian.Uint64 reads at n*16 and n*16+8"),
		"getBlock does not read the 16-byte block at n*16 as two little-endian 64-bit words")
}

func c09r4(p *Program, r *Report) {
	fi := r.NeedFunc("createRoutingKey")
	if fi == nil {
		return
	}
	info := fi.Pkg.TypesInfo
	// single column: bare encoding under len(indexes) == 1
	okSingle := false
	ast.Inspect(fi.Decl.Body, func(x ast.Node) bool {
		ifs, ok := x.(*ast.IfStmt)
		if !ok {
			return true
		}
		b, ok := ast.Unparen(ifs.Cond).(*ast.BinaryExpr)
		if !ok || b.Op != token.EQL || !strings.HasSuffix(exprStr(b.X), ".indexes)") || !strings.HasPrefix(exprStr(b.X), "len(") {
			return true
		}
		if k, isC := constInt(info, b.Y); !isC || k != 1 {
			return true
		}
		var marshalled types.Object
		for _, st := range ifs.Body.List {
			switch s := st.(type) {
			case *ast.AssignStmt:
				if len(s.Rhs) == 1 && len(s.Lhs) == 2 {
					if c, ok := ast.Unparen(s.Rhs[0]).(*ast.CallExpr); ok && isCallTo(info, c, "Marshal") && len(c.Args) == 2 &&
						exprStr(c.Args[0]) == "routingKeyInfo.types[0]" && exprStr(c.Args[1]) == "values[routingKeyInfo.indexes[0]]" {
						marshalled = objOf(info, s.Lhs[0])
					}
				}
			case *ast.ReturnStmt:
				if len(s.Results) == 2 && isNil(info, s.Results[1]) && marshalled != nil && isIdentOf(info, s.Results[0], marshalled) {
					okSingle = true
				}
			}
		}
		return true
	})
	r.Check(okSingle, fi.Decl, "createRoutingKey single-column key is the bare encoding", "returns Marshal(...) directly under len(indexes) == 1", "the single-column routing key is not the unframed encoded value")
	// composite: per-iteration sequence
	var loop *ast.RangeStmt
	ast.Inspect(fi.Decl.Body, func(x ast.Node) bool {
		if rs, ok := x.(*ast.RangeStmt); ok && loop == nil {
			loop = rs
		}
		return true
	})
	if loop == nil {
		r.Unresolved("createRoutingKey: no component loop")
		return
	}
	r.Check(strings.HasSuffix(exprStr(loop.X), ".indexes"), loop, "createRoutingKey iterates the components in partition-key order", "range routingKeyInfo.indexes", "the composite key is not built by walking the partition-key index list in order")
	var seq []string
	var bufName, encName string
	lenBufLen := int64(-1)
	for _, st := range loop.Body.List {
		switch s := st.(type) {
		case *ast.AssignStmt:
			if len(s.Rhs) == 1 {
				if c, ok := ast.Unparen(s.Rhs[0]).(*ast.CallExpr); ok && isCallTo(info, c, "Marshal") && len(c.Args) == 2 {
					encName = exprStr(s.Lhs[0])
					key := exprStr(loop.Key)
					tOK := exprStr(c.Args[0]) == "routingKeyInfo.types["+key+"]"
					vOK := exprStr(c.Args[1]) == "values[routingKeyInfo.indexes["+key+"]]"
					r.Check(tOK && vOK, c, "createRoutingKey marshals component i with types[i] and values[indexes[i]]", exprStr(c.Args[0])+", "+exprStr(c.Args[1]), "a component is marshalled with a type or value that does not belong to it: "+exprStr(c.Args[0])+", "+exprStr(c.Args[1]))
				}
			}
		case *ast.ExprStmt:
			c, ok := s.X.(*ast.CallExpr)
			if !ok {
				continue
			}
			name := calleeName(info, c)
			switch name {
			case "binary.(bigEndian).PutUint16":
				seq = append(seq, "len16be("+exprStr(c.Args[1])+")->"+strings.TrimSuffix(exprStr(c.Args[0]), "[:]"))
				lenBufLen = staticLen(info, fi, c.Args[0])
			case "bytes.(*Buffer).Write":
				bufName = exprStr(recvExpr(c))
				seq = append(seq, "write("+strings.TrimSuffix(exprStr(c.Args[0]), "[:]")+")")
			case "bytes.(*Buffer).WriteByte":
				v, _ := constInt(info, c.Args[0])
				seq = append(seq, fmt.Sprintf("writebyte(%d)", v))
			}
		}
	}
	want := []string{"len16be(uint16(len(" + encName + ")))->lenBuf", "write(lenBuf)", "write(" + encName + ")", "writebyte(0)"}
	r.Check(strings.Join(seq, " ") == strings.Join(want, " "), loop, "createRoutingKey component framing", strings.Join(seq, " "),
		"a component is framed as `"+strings.Join(seq, " ")+"`; Cassandra's composite key is [2-byte big-endian length][value][0x00] per component: `"+strings.Join(want, " ")+"`")
	r.Check(lenBufLen == 2, loop, "createRoutingKey length prefix buffer is exactly 2 bytes", fmt.Sprint(lenBufLen), fmt.Sprintf("the length prefix written per component is %d bytes long, Cassandra's composite format has a 2-byte length", lenBufLen))
	// fresh storage
	okFresh := false
	noPut := true
	ast.Inspect(fi.Decl.Body, func(x ast.Node) bool {
		switch s := x.(type) {
		case *ast.AssignStmt:
			if len(s.Lhs) == 1 && exprStr(s.Lhs[0]) == bufName && len(s.Rhs) == 1 {
				if c, ok := ast.Unparen(s.Rhs[0]).(*ast.CallExpr); ok && (calleeName(info, c) == "bytes.NewBuffer" || calleeName(info, c) == "builtin.new") {
					okFresh = true
				}
				if _, ok := ast.Unparen(s.Rhs[0]).(*ast.UnaryExpr); ok {
					okFresh = true
				}
			}
		case *ast.CallExpr:
			n := calleeName(info, s)
			if strings.HasPrefix(n, "sync.(*Pool).") {
				noPut = false
			}
			if n == "bytes.(*Buffer).Reset" {
				noPut = false
			}
		}
		return true
	})
	r.Check(okFresh && noPut, fi.Decl, "createRoutingKey returns storage allocated by this call", "buffer created here, never pooled or reset", "the routing key is returned from a buffer that is pooled, reset or not created by this call: the next routing key overwrites it while the first is still being hashed")
}

func c09r5(p *Program, r *Report) {
	if fi := r.NeedFunc("(murmur3Partitioner).Hash"); fi != nil {
		info := fi.Pkg.TypesInfo
		ok := false
		ast.Inspect(fi.Decl.Body, func(x ast.Node) bool {
			if c, isC := x.(*ast.CallExpr); isC && isCallTo(info, c, "murmur.Murmur3H1") && len(c.Args) == 1 && isIdentOf(info, c.Args[0], paramObj(info, fi.Decl.Type, 0)) {
				ok = true
			}
			return true
		})
		r.Check(ok, fi.Decl, "murmur3Partitioner.Hash hashes the whole key with Murmur3H1", "Murmur3H1(partitionKey)", "the Murmur3 partitioner does not hash the partition key with Murmur3H1")
	}
	if fi := r.NeedFunc("(murmur3Token).Less"); fi != nil {
		c09Less(p, r, fi, "murmur3Token orders as signed 64-bit numbers", "int", "Murmur3 tokens are not ordered by a signed numeric comparison")
	}
	if fi := r.NeedFunc("(orderedPartitioner).Hash"); fi != nil {
		s := exprStr(fi.Decl.Body.List[0].(*ast.ReturnStmt).Results[0])
		r.Check(s == "orderedToken(partitionKey)", fi.Decl, "orderedPartitioner uses the key bytes as the token", s, "the order-preserving partitioner does not use the key bytes themselves")
	}
	if fi := r.NeedFunc("(orderedToken).Less"); fi != nil {
		nt := p.NamedType("orderedToken")
		isStr := false
		if nt != nil {
			if b, ok := nt.Underlying().(*types.Basic); ok && b.Kind() == types.String {
				isStr = true
			}
		}
		r.Check(isStr, fi.Decl, "orderedToken is a string type (unsigned byte order)", "string", "orderedToken is not a string: Go would not compare it as unsigned bytes")
		c09Less(p, r, fi, "orderedToken orders by unsigned byte-wise comparison", "string", "ordered tokens are not compared as Go strings / bytes (unsigned, lexicographic)")
	}
	if fi := r.NeedFunc("(randomPartitioner).Hash"); fi != nil {
		info := fi.Pkg.TypesInfo
		var steps []string
		var guard string
		ast.Inspect(fi.Decl.Body, func(x ast.Node) bool {
			switch n := x.(type) {
			case *ast.IfStmt:
				guard = exprStr(n.Cond)
			case *ast.CallExpr:
				switch calleeName(info, n) {
				case "md5.Sum":
					steps = append(steps, "md5("+exprStr(n.Args[0])+")")
				case "big.(*Int).SetBytes":
					steps = append(steps, "setbytes("+exprStr(n.Args[0])+")")
				case "big.(*Int).Sub":
					steps = append(steps, "sub("+exprStr(n.Args[0])+","+exprStr(n.Args[1])+")")
				case "big.(*Int).Abs":
					steps = append(steps, "abs("+exprStr(n.Args[0])+")")
				case "big.(*Int).Neg", "big.(*Int).Add", "big.(*Int).Mod", "big.(*Int).And", "big.(*Int).Rsh", "big.(*Int).Lsh":
					steps = append(steps, "other:"+calleeName(info, n))
				}
			}
			return true
		})
		got := strings.Join(steps, " ") + " if " + guard
		want := "md5(partitionKey) setbytes(sum[:]) sub(val,maxHashInt) abs(val) if sum[0] > 127"
		r.Check(got == want, fi.Decl, "randomPartitioner.Hash = |signed 128-bit MD5|", got, "the random partitioner computes `"+got+"`; Cassandra uses the absolute value of the MD5 digest read as a signed 128-bit big-endian integer: `"+want+"`")
		ok := false
		for _, f := range fi.Pkg.Syntax {
			ast.Inspect(f, func(x ast.Node) bool {
				if vs, isV := x.(*ast.ValueSpec); isV && len(vs.Names) > 0 && vs.Names[0].Name == "maxHashInt" && len(vs.Values) == 1 {
					if c, isC := vs.Values[0].(*ast.CallExpr); isC && calleeName(info, c) == "big.(*Int).SetString" {
						v, _ := constString(info, c.Args[0])
						b, _ := constInt(info, c.Args[1])
						ok = v == "340282366920938463463374607431768211456" && b == 10
					}
				}
				return true
			})
		}
		r.Check(ok, fi.Decl, "maxHashInt is 2^128", "340282366920938463463374607431768211456", "maxHashInt is not 2^128")
	}
	if fi := r.NeedFunc("(*randomToken).Less"); fi != nil {
		c09Less(p, r, fi, "randomToken orders numerically", "big", "random tokens are not ordered by big-integer comparison")
	}
	for name, want := range map[string]string{
		"(murmur3Partitioner).ParseString": "strconv.ParseInt(str, 10, 64)",
		"(randomPartitioner).ParseString":  "val.SetString(str, 10)",
	} {
		fi := r.NeedFunc(name)
		if fi == nil {
			continue
		}
		ok := false
		for _, c := range callsIn(fi.Decl.Body) {
			if exprStr(c) == want {
				ok = true
			}
		}
		r.Check(ok, fi.Decl, name+" parses a base-10 integer of the token's width", want, name+" does not parse the token string as "+want)
	}
	if fi := r.NeedFunc("newTokenRing"); fi != nil {
		info := fi.Pkg.TypesInfo
		want := map[string]string{"Murmur3Partitioner": "murmur3Partitioner", "OrderedPartitioner": "orderedPartitioner", "RandomPartitioner": "randomPartitioner"}
		seen := 0
		ast.Inspect(fi.Decl.Body, func(x ast.Node) bool {
			ifs, ok := x.(*ast.IfStmt)
			if !ok {
				return true
			}
			c, ok := ifs.Cond.(*ast.CallExpr)
			if !ok || calleeName(info, c) != "strings.HasSuffix" {
				return true
			}
			suffix, _ := constString(info, c.Args[1])
			got := ""
			for _, st := range ifs.Body.List {
				if as, ok := st.(*ast.AssignStmt); ok && len(as.Rhs) == 1 && strings.HasSuffix(exprStr(as.Lhs[0]), ".partitioner") {
					got = typeNameOf(info.TypeOf(as.Rhs[0]))
				}
			}
			seen++
			r.Check(want[suffix] != "" && got == want[suffix], ifs, "newTokenRing selects "+want[suffix]+" for *"+suffix, got, "cluster partitioner *"+suffix+" selects "+got)
			return true
		})
		ok := false
		for _, c := range callsIn(fi.Decl.Body) {
			if calleeName(info, c) == "sort.Sort" {
				ok = true
			}
		}
		r.Check(ok && seen == 3, fi.Decl, "newTokenRing sorts the parsed tokens with the partitioner's order", "sort.Sort(tokenRing) over token.Less", "the ring is not sorted by the partitioner's token order, or a partitioner branch is missing")
	}
	if fi := r.NeedFunc("(*tokenRing).Less"); fi != nil {
		s := exprStr(fi.Decl.Body.List[0].(*ast.ReturnStmt).Results[0])
		r.Check(s == "t.tokens[i].token.Less(t.tokens[j].token)", fi.Decl, "tokenRing sort order is the token order", s, "the ring's sort order is not the partitioner's token order: "+s)
	}
}

// staticLen returns the statically known length of a byte buffer expression:
// an array (or full slice of one), or a local slice defined once by make([]T, n).
func staticLen(info *types.Info, fi *FuncInfo, e ast.Expr) int64 {
	e = ast.Unparen(e)
	if sl, ok := e.(*ast.SliceExpr); ok && sl.Low == nil && sl.High == nil {
		e = ast.Unparen(sl.X)
	}
	if t := info.TypeOf(e); t != nil {
		if a, ok := t.Underlying().(*types.Array); ok {
			return a.Len()
		}
	}
	if id, ok := e.(*ast.Ident); ok {
		if d := localDef(info, fi, id); d != nil {
			if cl, ok := ast.Unparen(d).(*ast.CompositeLit); ok {
				if _, isArr := cl.Type.(*ast.ArrayType); isArr {
					keyed := false
					for _, el := range cl.Elts {
						if _, kv := el.(*ast.KeyValueExpr); kv {
							keyed = true
						}
					}
					if !keyed {
						return int64(len(cl.Elts))
					}
				}
			}
			if c, ok := ast.Unparen(d).(*ast.CallExpr); ok && exprStr(c.Fun) == "make" && len(c.Args) == 2 {
				if n, ok := constInt(info, c.Args[1]); ok {
					return n
				}
			}
		}
	}
	return -1
}

func c09r6(p *Program, r *Report) {
	fi := r.NeedFunc("(*Session).routingKeyInfo")
	if fi == nil {
		return
	}
	info := fi.Pkg.TypesInfo
	norm := func(e ast.Expr) string { return strings.ReplaceAll(exprStr(e), " ", "") }
	var pk, md *ast.RangeStmt
	ast.Inspect(fi.Decl.Body, func(x ast.Node) bool {
		if rs, ok := x.(*ast.RangeStmt); ok {
			switch {
			case strings.HasSuffix(norm(rs.X), ".pkeyColumns"):
				pk = rs
			case norm(rs.X) == "partitionKey":
				md = rs
			}
		}
		return true
	})
	if pk == nil || md == nil {
		r.Unresolved("routingKeyInfo: the pkeyColumns / partitionKey loops were not found")
		return
	}
	// protocol v4 path: types[i] = columns[col].TypeInfo for (i, col) in pkeyColumns; indexes is pkeyColumns itself
	okT := false
	for _, st := range pk.Body.List {
		if as, ok := st.(*ast.AssignStmt); ok && len(as.Lhs) == 1 {
			okT = norm(as.Lhs[0]) == "types["+norm(pk.Key)+"]" && norm(as.Rhs[0]) == "info.request.columns["+norm(pk.Value)+"].TypeInfo"
		}
	}
	r.Check(okT, pk, "routingKeyInfo (v4): type i is the type of bound column pkeyColumns[i]", "types[i] = columns[col].TypeInfo", "the i-th routing key type is not taken from the bound column the i-th partition-key index names")
	okI := false
	ast.Inspect(fi.Decl.Body, func(x ast.Node) bool {
		if cl, ok := x.(*ast.CompositeLit); ok && typeNameOf(info.TypeOf(cl)) == "routingKeyInfo" {
			for _, el := range cl.Elts {
				if kv, ok := el.(*ast.KeyValueExpr); ok && norm(kv.Key) == "indexes" && norm(kv.Value) == norm(pk.X) {
					okI = true
				}
			}
		}
		return true
	})
	r.Check(okI, pk, "routingKeyInfo (v4): indexes are the server's pk indexes in order", "indexes: info.request.pkeyColumns", "the routing key indexes are not the prepared metadata's partition-key indexes in their order")
	// metadata path
	var inner *ast.RangeStmt
	for _, st := range md.Body.List {
		if rs, ok := st.(*ast.RangeStmt); ok {
			inner = rs
		}
	}
	if inner == nil {
		r.Unresolved("routingKeyInfo: bound-column search loop not found")
		return
	}
	ki, kc := norm(md.Key), norm(md.Value)
	ai, bc := norm(inner.Key), norm(inner.Value)
	okPair, okFirst := false, false
	for _, st := range inner.Body.List {
		ifs, ok := st.(*ast.IfStmt)
		if !ok {
			continue
		}
		c := norm(ifs.Cond)
		if c != kc+".Name=="+bc+".Name" && c != bc+".Name=="+kc+".Name" {
			continue
		}
		var gotI, gotT bool
		for _, b := range ifs.Body.List {
			switch s := b.(type) {
			case *ast.AssignStmt:
				l, rr := norm(s.Lhs[0]), norm(s.Rhs[0])
				if l == "routingKeyInfo.indexes["+ki+"]" && rr == ai {
					gotI = true
				}
				if l == "routingKeyInfo.types["+ki+"]" && rr == bc+".TypeInfo" {
					gotT = true
				}
			case *ast.BranchStmt:
				okFirst = s.Tok == token.BREAK
			}
		}
		okPair = gotI && gotT
	}
	r.Check(okPair, inner, "routingKeyInfo (metadata): component k gets the index and type of the bound column named like partition-key column k", "indexes[k] = argIndex; types[k] = boundColumn.TypeInfo under name equality", "a partition-key component is paired with the wrong bound column index or type")
	r.Check(okFirst, inner, "routingKeyInfo (metadata): the first bound column of that name is used", "break", "the search does not stop at the first matching bound column")
	// missing mapping -> no routing key
	okMissing := false
	for _, st := range md.Body.List {
		if ifs, ok := st.(*ast.IfStmt); ok && norm(ifs.Cond) == "routingKeyInfo.indexes["+ki+"]==-1" {
			if rs, ok := ifs.Body.List[len(ifs.Body.List)-1].(*ast.ReturnStmt); ok && isNil(info, rs.Results[0]) {
				okMissing = true
			}
		}
	}
	r.Check(okMissing, md, "routingKeyInfo (metadata): a partition-key column without a bound value yields no routing key", "return nil, nil", "a partition-key column that is not bound does not abandon routing-key construction (a partial key would hash to a wrong token)")
}

// c09Less decides how a token type's Less orders two tokens. kind: "int" (signed <), "string" (< on strings,
// strings.Compare, bytes.Compare), "big" ((*big.Int).Cmp). A three-way helper (x.cmp(y) < 0) is followed one
// level; an ordering derived from a difference of the two values is a violation (the difference of two int64
// overflows); a shape that is none of these is reported as unresolved, not as a violation.
func c09Less(p *Program, r *Report, fi *FuncInfo, construct, kind, badWhy string) {
	info := fi.Pkg.TypesInfo
	if len(fi.Decl.Body.List) != 1 {
		r.Unresolved("%s: body is not a single return", fi.Name)
		return
	}
	rs, ok := fi.Decl.Body.List[0].(*ast.ReturnStmt)
	if !ok || len(rs.Results) != 1 {
		r.Unresolved("%s: body is not a single return", fi.Name)
		return
	}
	verdict, why := orderingOf(p, info, fi, rs.Results[0], kind, 0)
	switch verdict {
	case "ok":
		r.OK(fi.Decl, construct, why)
	case "bad":
		r.Bad(fi.Decl, construct, badWhy+": "+why)
	default:
		r.Unresolved("%s: ordering expression %s not understood (%s)", fi.Name, exprStr(rs.Results[0]), why)
	}
}

func orderingOf(p *Program, info *types.Info, fi *FuncInfo, e ast.Expr, kind string, depth int) (string, string) {
	e = ast.Unparen(e)
	be, ok := e.(*ast.BinaryExpr)
	if !ok {
		return "?", "not a comparison"
	}
	isCmpCall := func(x ast.Expr) *ast.CallExpr {
		c, ok := ast.Unparen(x).(*ast.CallExpr)
		if !ok {
			return nil
		}
		return c
	}
	// three-way result compared with a constant: Cmp(a,b) < 0, -1 == Cmp(a,b), Cmp(a,b) == -1
	for _, pr := range [][2]ast.Expr{{be.X, be.Y}, {be.Y, be.X}} {
		c := isCmpCall(pr[0])
		k, isK := constInt(info, pr[1])
		if c == nil || !isK {
			continue
		}
		lessForm := be.Op == token.LSS && pr[0] == be.X && k == 0 || be.Op == token.GTR && pr[0] == be.Y && k == 0 || be.Op == token.EQL && k == -1 || be.Op == token.LEQ && pr[0] == be.X && k == -1
		if !lessForm {
			return "bad", "the three-way result is not tested for 'less' (" + exprStr(e) + ")"
		}
		name := calleeName(info, c)
		switch {
		case name == "big.(*Int).Cmp" && kind == "big", name == "strings.Compare" && kind == "string", name == "bytes.Compare" && kind == "string":
			return "ok", exprStr(e)
		}
		// a helper of the repository: follow it
		if fn := calleeOf(info, c); fn != nil && depth < 2 {
			if callee := p.FuncOf(fn); callee != nil && callee.Decl.Body != nil {
				return threeWayOf(p, callee, kind)
			}
		}
		return "?", "three-way helper " + name + " not understood"
	}
	// direct comparison
	if be.Op == token.LSS || be.Op == token.GTR {
		tx, ty := info.TypeOf(be.X), info.TypeOf(be.Y)
		if tx == nil || ty == nil {
			return "?", "untyped operands"
		}
		bx, okx := tx.Underlying().(*types.Basic)
		by, oky := ty.Underlying().(*types.Basic)
		if !okx || !oky {
			return "?", "operands are not basic values"
		}
		// receiver must be on the smaller side
		recv := ""
		if fi.Decl.Recv != nil && len(fi.Decl.Recv.List) == 1 && len(fi.Decl.Recv.List[0].Names) == 1 {
			recv = fi.Decl.Recv.List[0].Names[0].Name
		}
		small := be.X
		if be.Op == token.GTR {
			small = be.Y
		}
		if recv != "" && !strings.Contains(exprStr(small), recv) {
			return "bad", "Less(a, b) is computed as b < a (" + exprStr(e) + ")"
		}
		switch kind {
		case "int":
			if bx.Info()&types.IsInteger != 0 && bx.Info()&types.IsUnsigned == 0 && by.Info()&types.IsInteger != 0 {
				return "ok", exprStr(e) + " on " + tx.String()
			}
			return "bad", "compared as " + bx.String() + ", not as signed integers"
		case "string":
			if bx.Info()&types.IsString != 0 && by.Info()&types.IsString != 0 {
				return "ok", exprStr(e) + " on strings"
			}
			return "bad", "compared as " + bx.String() + ", not as strings"
		}
	}
	return "?", "shape " + exprStr(e)
}

// threeWayOf: does helper fi compute sign(a - b) by comparisons (ok) or from a difference (bad)?
func threeWayOf(p *Program, fi *FuncInfo, kind string) (string, string) {
	info := fi.Pkg.TypesInfo
	verdict, why := "?", "helper "+fi.Name+" has no recognised comparison"
	sub := false
	ast.Inspect(fi.Decl.Body, func(x ast.Node) bool {
		switch n := x.(type) {
		case *ast.BinaryExpr:
			if n.Op == token.SUB {
				if t := info.TypeOf(n); t != nil {
					if b, ok := t.Underlying().(*types.Basic); ok && b.Info()&types.IsInteger != 0 {
						if _, isConst := constInt(info, n); !isConst {
							sub = true
						}
					}
				}
			}
			if (n.Op == token.LSS || n.Op == token.GTR) && verdict == "?" {
				tx := info.TypeOf(n.X)
				if tx != nil {
					if b, ok := tx.Underlying().(*types.Basic); ok {
						if kind == "int" && b.Info()&types.IsInteger != 0 && b.Info()&types.IsUnsigned == 0 || kind == "string" && b.Info()&types.IsString != 0 {
							verdict, why = "ok", "helper "+fi.Name+" compares with "+n.Op.String()
						}
					}
				}
			}
		case *ast.CallExpr:
			name := calleeName(info, n)
			if name == "big.(*Int).Cmp" && kind == "big" || (name == "strings.Compare" || name == "bytes.Compare") && kind == "string" {
				verdict, why = "ok", "helper "+fi.Name+" delegates to "+name
			}
		}
		return true
	})
	if sub {
		return "bad", "helper " + fi.Name + " derives the order from a difference of the two values, which overflows for tokens more than 2^63 apart"
	}
	return verdict, why
}
