package main

import (
	"go/ast"
	"go/token"
	"go/types"
)

// Length postconditions: a function  f(..., data []byte, ...) (..., read int, err error)
// satisfies  err == nil  =>  read <= len(data)  when, at every success return, the prover
// shows it from the function's own guards. Such a summary is re-derived from the current
// source on every run (never frozen) and used at call sites after the error check.

type lenPostcond struct {
	paramIdx  int // []byte parameter
	resultIdx int // int result bounded by len(param)
	resultMin int // constant lower bound of the result on success (>= 0)
}

func (p *Program) lenPostconds() map[*types.Func][]lenPostcond {
	if p.postconds != nil {
		return p.postconds
	}
	p.postconds = map[*types.Func][]lenPostcond{}
	p.postcondBusy = true
	defer func() { p.postcondBusy = false }()
	for _, fi := range p.SortedFuncs() {
		if fi.Decl.Body == nil {
			continue
		}
		sig := fi.Obj.Type().(*types.Signature)
		res := sig.Results()
		if res.Len() < 2 || !isErrorType(res.At(res.Len()-1).Type()) {
			continue
		}
		var bytesParams, intResults []int
		for i := 0; i < sig.Params().Len(); i++ {
			if sl, ok := sig.Params().At(i).Type().Underlying().(*types.Slice); ok && isByteType(sl.Elem()) {
				bytesParams = append(bytesParams, i)
			}
		}
		for i := 0; i < res.Len()-1; i++ {
			if b, ok := res.At(i).Type().Underlying().(*types.Basic); ok && b.Kind() == types.Int {
				intResults = append(intResults, i)
			}
		}
		if len(bytesParams) == 0 || len(intResults) == 0 {
			continue
		}
		g := p.GraphOf(fi)
		facts := g.GuardFacts()
		info := g.Info
		for _, pi := range bytesParams {
			pobj := paramObj(info, fi.Decl.Type, pi)
			if pobj == nil || !singleAssigned(info, fi.Decl.Body, pobj) {
				continue
			}
			pid := ast.NewIdent(pobj.Name())
			for _, ri := range intResults {
				ok := true
				nsucc := 0
				resMin := 1 << 30
				for _, e := range g.Exits() {
					if e.Kind != ExitReturn {
						continue
					}
					rs := e.Node.(*ast.ReturnStmt)
					var rexpr ast.Expr
					if len(rs.Results) == res.Len() {
						if !isNil(info, rs.Results[res.Len()-1]) {
							continue // error return
						}
						rexpr = rs.Results[ri]
					} else if len(rs.Results) == 0 && res.At(ri).Name() != "" {
						rexpr = ast.NewIdent(res.At(ri).Name())
					} else {
						ok = false
						break
					}
					nsucc++
					f, reach := facts.Before(rs)
					if !reach {
						continue
					}
					d := newDBM(g, f, nil)
					d.noteLen(pid)
					lt, lk, ok1 := d.term(lenCall(pid))
					rt, rk, ok2 := d.term(rexpr)
					if !ok1 || !ok2 {
						ok = false
						break
					}
					if !(d.le(rt, rk, lt, lk) && d.le(zeroNode, 0, rt, rk)) {
						ok = false
						break
					}
					// best constant lower bound of the result at this return
					lo := 0
					for _, c := range []int{1, 2, 4, 8} {
						if d.le(zeroNode, c, rt, rk) {
							lo = c
						}
					}
					if lo < resMin {
						resMin = lo
					}
				}
				if ok && nsucc > 0 {
					p.postconds[fi.Obj] = append(p.postconds[fi.Obj], lenPostcond{pi, ri, resMin})
				}
			}
		}
	}
	return p.postconds
}

func isErrorType(t types.Type) bool {
	return types.Identical(t, types.Universe.Lookup("error").Type())
}

// applyLenPostcond adds  0 <= res <= len(arg)  for a successful call of a function with a length postcondition.
func (p *Program) applyLenPostcond(info *types.Info, f *Facts, call *ast.CallExpr) {
	if p.postcondBusy {
		return
	}
	fn := calleeOf(info, call)
	if fn == nil {
		return
	}
	pcs := p.lenPostconds()[fn]
	if len(pcs) == 0 {
		return
	}
	as, ok := p.Parent(call).(*ast.AssignStmt)
	if !ok || len(as.Rhs) != 1 {
		return
	}
	for _, pc := range pcs {
		if pc.resultIdx >= len(as.Lhs) || pc.paramIdx >= len(call.Args) {
			continue
		}
		lhs := as.Lhs[pc.resultIdx]
		if id, ok := lhs.(*ast.Ident); ok && id.Name == "_" {
			continue
		}
		arg := call.Args[pc.paramIdx]
		f.setRel(token.LSS, lenCall(arg), lhs, false) // !(len(arg) < res)
		f.setRel(token.LSS, lhs, &ast.BasicLit{Kind: token.INT, Value: fmtInt(pc.resultMin)}, false)
	}
}
